#!/bin/bash
# Build the Coq development (full .vo build) and the extracted model driver.
# usage: build.sh [make targets...]   (default: all)
set -e
cd /verif/coq
export LC_ALL=C
if [ ! -f Makefile ] || [ _CoqProject -nt Makefile ]; then
  coq_makefile -f _CoqProject -o Makefile >/dev/null 2>&1
fi
timeout 1500 make -j16 "$@" 2>&1 | grep -v '^WARNING' || true
if [ "${PIPESTATUS[0]}" != "0" ]; then exit 1; fi
# driver
if [ -f mdmodel_core.ml ]; then
  mkdir -p /verif/bin/build
  if [ ! -f /verif/bin/mdmodel ] || [ mdmodel_core.ml -nt /verif/bin/mdmodel ] || [ Extract/driver.ml -nt /verif/bin/mdmodel ]; then
    cp mdmodel_core.ml mdmodel_core.mli Extract/driver.ml /verif/bin/build/
    (cd /verif/bin/build && ocamlfind ocamlopt -O3 -w -a -package str mdmodel_core.mli mdmodel_core.ml driver.ml -o ../mdmodel 2>&1 | grep -v '^WARNING\|options are only' || true)
    test -x /verif/bin/mdmodel
  fi
fi
