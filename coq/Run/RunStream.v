(* Wire format for tokens and the stream-level functions (renderer, core rules,
   Token dict round trip, syntax tree). *)
From MD Require Import Base.Py Base.Str Base.Sx Base.Opt Base.Regex
     Model.Token Model.Utils Model.Render Model.Core Model.Tree Model.Url.

Definition dec_aval (s : sx) : aval :=
  if un_int (sx_nth s 0%nat) =? 0 then AStr (un_str (sx_nth s 1%nat)) else AInt (un_int (sx_nth s 1%nat)).
Definition enc_aval (a : aval) : sx :=
  match a with AStr v => SL [SI 0; sx_str v] | AInt z => SL [SI 1; SI z] end.

Fixpoint dec_token (fuel : nat) (s : sx) : token :=
  let a := sx_nth s in
  Tok (un_str (a 0%nat)) (un_str (a 1%nat)) (un_int (a 2%nat))
      (map (fun kv => (un_str (sx_nth kv 0%nat), dec_aval (sx_nth kv 1%nat))) (un_list (a 3%nat)))
      (match un_list (a 4%nat) with [x; y] => Some (un_int x, un_int y) | _ => None end)
      (un_int (a 5%nat))
      (match fuel with
       | O => None
       | S f => match un_list (a 6%nat) with
                | [l] => Some (map (dec_token f) (un_list l))
                | _ => None end
       end)
      (un_str (a 7%nat)) (un_str (a 8%nat)) (un_str (a 9%nat))
      (map (fun kv => (un_str (sx_nth kv 0%nat), un_str (sx_nth kv 1%nat))) (un_list (a 10%nat)))
      (un_bool (a 11%nat)) (un_bool (a 12%nat)).

Fixpoint enc_token (t : token) : sx :=
  SL [sx_str (ttype t); sx_str (ttag t); SI (tnesting t);
      sx_list (fun kv => SL [sx_str (fst kv); enc_aval (snd kv)]) (tattrs t);
      match tmap t with Some (a, b) => SL [SI a; SI b] | None => SL [] end;
      SI (tlevel t);
      match tchildren t with
      | Some l => SL [SL ((fix go (l : list token) : list sx := match l with [] => [] | x :: l' => enc_token x :: go l' end) l)]
      | None => SL []
      end;
      sx_str (tcontent t); sx_str (tmarkup t); sx_str (tinfo t);
      sx_list (fun kv => SL [sx_str (fst kv); sx_str (snd kv)]) (tmeta t);
      sx_bool (tblock t); sx_bool (thidden t)].

Definition dec_tokens (s : sx) : list token := map (dec_token 12) (un_list s).
Definition enc_tokens (l : list token) : sx := sx_list enc_token l.

(* highlight callbacks are identified by a code: 0 none, 1 returns "" (falls back to
   escaping), 2 wraps in <span>, 3 returns a <pre...> block *)
Definition hl_of_code (c : Z) : option (str -> str -> str -> str) :=
  match c with
  | 1 => Some (fun _ _ _ => [])
  | 2 => Some (fun s lang attrs => [60; 105; 62] ++ lang ++ [124] ++ attrs ++ [124] ++ escape_html s ++ [60; 47; 105; 62])
  | 3 => Some (fun s lang _ => [60; 112; 114; 101; 32; 120; 62] ++ escape_html s ++ [60; 47; 112; 114; 101; 62])
  | _ => None
  end.

Definition dec_ropts (s : sx) : ropts :=
  mkROpts (un_bool (sx_nth s 0%nat)) (un_bool (sx_nth s 1%nat)) (un_str (sx_nth s 2%nat))
          (hl_of_code (un_int (sx_nth s 3%nat))).

(* 20: render (opts tokens) -> res (html tokens') *)
Definition run_render (s : sx) : sx :=
  sx_res (fun p => SL [sx_str (fst p); enc_tokens (snd p)])
         (render (dec_ropts (sx_nth s 0%nat)) (dec_tokens (sx_nth s 1%nat))).

Fixpoint enc_dval (fuel : nat) (d : dval) : sx :=
  match fuel with
  | O => SL []
  | S f =>
      match d with
      | DNone => SL [SI 0]
      | DBool b => SL [SI 1; sx_bool b]
      | DInt z => SL [SI 2; SI z]
      | DStr v => SL [SI 3; sx_str v]
      | DList l => SL [SI 4; sx_list (enc_dval f) l]
      | DDict l => SL [SI 5; sx_list (fun kv => SL [sx_str (fst kv); enc_dval f (snd kv)]) l]
      | DToken t => SL [SI 6; enc_token t]
      end
  end.

(* 21: dict round trip (children upstream tokens) -> per token: 1 if from_dict (as_dict t) = t *)
Definition run_dict (s : sx) : sx :=
  let ch := un_bool (sx_nth s 0%nat) in
  let up := un_bool (sx_nth s 1%nat) in
  sx_list (fun t => match from_dict (depth t) (as_dict ch up t) with
                    | Some t' => SL [SI (if token_eqb t t' then 1 else 0); enc_dval 40 (DDict (as_dict ch up t))]
                    | None => SL [SI (-1); enc_dval 40 (DDict (as_dict ch up t))]
                    end) (dec_tokens (sx_nth s 2%nat)).

Fixpoint enc_node (fuel : nat) (n : node) : sx :=
  match fuel with
  | O => SL []
  | S f =>
      match n with
      | NRoot ch => SL [SI 0; sx_list (enc_node f) ch]
      | NLeaf t ch => SL [SI 1; sx_str (ttype t); sx_list (enc_node f) ch]
      | NNest op cl ch => SL [SI 2; sx_str (ttype op); sx_str (ttype cl); sx_list (enc_node f) ch]
      end
  end.

(* 22: tree (tokens) -> res (shape, to_tokens, walk types) *)
Definition run_tree (s : sx) : sx :=
  let ts := dec_tokens s in
  sx_res (fun n => SL [enc_node 40 n; enc_tokens (to_tokens n); sx_list (fun t => sx_str (ttype t)) (walk_tokens n)])
         (build ts).

(* 23: normalize (s) -> (direct, via regexes) *)
Definition run_normalize (s : sx) : sx :=
  let x := un_str s in SL [sx_str (normalize x); sx_str (normalize_re x)].

(* 24: text_join ; 25: replacements ; 26: smartquotes (quotes tokens) *)
Definition run_text_join (s : sx) : sx := enc_tokens (text_join (dec_tokens s)).
Definition run_replacements (s : sx) : sx := enc_tokens (replacements true (dec_tokens s)).
Definition run_smartquotes (s : sx) : sx :=
  enc_tokens (smartquotes true (un_strs (sx_nth s 0%nat)) (dec_tokens (sx_nth s 1%nat))).

(* 27: string helpers (which s) *)
Definition run_strfn (s : sx) : sx :=
  let x := un_str (sx_nth s 1%nat) in
  match un_int (sx_nth s 0%nat) with
  | 0 => sx_str (escape_html x)
  | 1 => sx_str (escape_html_passes x)
  | 2 => sx_str (unescape_all x)
  | 3 => sx_str (py_strip x)
  | 4 => sx_str (collapse_ws (py_strip x))
  | 5 => sx_list (fun c => SL [sx_bool (is_white_space c); sx_bool (is_punct_char c); sx_bool (is_md_ascii_punct c);
                               sx_bool (is_valid_entity_code c); sx_bool (is_py_space c)]) x
  | 6 => sx_str (encode x)
  | 7 => SL [sx_bool (validate_link x); sx_bool (validate_link_re x)]
  | _ => SL []
  end.
