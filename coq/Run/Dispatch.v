(* Single entry point of the executable model: [dispatch (SL [SI code; payload])]. *)
From MD Require Import Base.Py Base.Sx Run.RunRuler Run.RunInstance Run.RunWorld Run.RunStream Run.RunBlock Run.RunPipe.

Definition dispatch (s : sx) : sx :=
  let payload := sx_nth s 1%nat in
  match un_int (sx_nth s 0%nat) with
  | 11 => run_ruler_case payload
  | 1011 => run_ruler_legacy_case payload
  | 12 => run_inst_case payload
  | 13 => run_world_case payload
  | 15 => run_conc_case payload
  | 20 => run_render payload
  | 21 => run_dict payload
  | 22 => run_tree payload
  | 23 => run_normalize payload
  | 24 => run_text_join payload
  | 25 => run_replacements payload
  | 26 => run_smartquotes payload
  | 27 => run_strfn payload
  | 30 => run_block payload
  | 31 => run_tables payload
  | 40 => run_pipe payload
  | 41 => run_guards payload
  | _ => SL [SI (-1)]
  end.
