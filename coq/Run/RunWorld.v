(* Wire format for multi-instance histories (C12) and schedules (C13). *)
From MD Require Import Base.Py Base.Sx Base.Opt Model.Ruler Model.Instance Model.World Model.Conc
     Run.RunRuler Run.RunInstance.

Definition dec_wop (s : sx) : wop :=
  let a := sx_nth s in
  match un_int (a 0%nat) with
  | 0 => WNew (un_opt dec_preset (a 1%nat)) (dec_opts (a 2%nat))
  | 1 => WMgmt (Z.to_nat (un_int (a 1%nat))) (dec_mop 8 (a 2%nat))
  | _ => WParse (Z.to_nat (un_int (a 1%nat))) (un_strs (a 2%nat))
  end.

Fixpoint run_world_trace (probes : list str) (ops : list wop) (w : list inst) : list sx :=
  match ops with
  | [] => []
  | o :: ops' =>
      let '(w', x) := wstep fresh_inst w o in
      SL [sx_res enc_mout x; sx_list (observe probes) w'] :: run_world_trace probes ops' w'
  end.

(* payload: (probes ops) *)
Definition run_world_case (s : sx) : sx :=
  let probes := un_strs (sx_nth s 0%nat) in
  SL (run_world_trace probes (map dec_wop (un_list (sx_nth s 1%nat))) []).

(* ---- schedules -------------------------------------------------------- *)

Definition dec_rule (s : sx) : rule Z :=
  mkRule (un_str (sx_nth s 0%nat)) (un_bool (sx_nth s 1%nat)) (un_int (sx_nth s 2%nat)) (un_strs (sx_nth s 3%nat)).

(* payload: (legacy rules programs schedule) ; result: per thread (state-code, results) *)
Definition run_conc_case (s : sx) : sx :=
  let legacy := un_bool (sx_nth s 0%nat) in
  let rs := map dec_rule (un_list (sx_nth s 1%nat)) in
  let programs := map un_strs (un_list (sx_nth s 2%nat)) in
  let schedule := map (fun x => Z.to_nat (un_int x)) (un_list (sx_nth s 3%nat)) in
  let w := crun rs legacy schedule (start None programs) in
  sx_list (fun t : thread =>
             SL [SI (match ts t with TIdle => 0 | TRead _ => 1 | TCompiled _ _ => 2 | TFill _ _ => 3
                                | TAssert _ => 4 | TLookup _ => 5 | TFail => 6 end);
                 sx_list (fun cl => SL [sx_str (fst cl); sx_list SI (snd cl)]) (results t)])
          (threads w).
