(* Wire format for the block parser (ParserBlock.parse on a normalised source). *)
From MD Require Import Base.Py Base.Str Base.Sx Base.Opt Model.Token Model.Utils Model.StateBlock Model.Block
     Run.RunStream.

Definition dec_table (s : sx) : str -> str :=
  let tbl := map (fun kv => (un_str (sx_nth kv 0%nat), un_str (sx_nth kv 1%nat))) (un_list s) in
  fun x => match alookup x tbl with Some v => v | None => [63; 63; 109; 105; 115; 115; 63; 63] end.

(* cfg: (rules chains code maxNesting html inline_defs) *)
Definition dec_bcfg (s : sx) : bcfg :=
  let chains := map (fun kv => (un_str (sx_nth kv 0%nat), un_strs (sx_nth kv 1%nat))) (un_list (sx_nth s 1%nat)) in
  mkBCfg (un_strs (sx_nth s 0%nat))
         (fun c => match alookup c chains with Some l => l | None => [] end)
         (un_bool (sx_nth s 2%nat)) (un_int (sx_nth s 3%nat)) (un_bool (sx_nth s 4%nat)) (un_bool (sx_nth s 5%nat)).

Definition dec_ref (s : sx) : str * refrec :=
  (un_str (sx_nth s 0%nat),
   mkRef (un_str (sx_nth s 1%nat)) (un_str (sx_nth s 2%nat)) (un_int (sx_nth s 3%nat), un_int (sx_nth s 4%nat))).
Definition enc_ref (r : str * refrec) : sx :=
  SL [sx_str (fst r); sx_str (r_title (snd r)); sx_str (r_href (snd r)); SI (fst (r_map (snd r))); SI (snd (r_map (snd r)))].

Definition dec_env (s : sx) : envt :=
  mkEnv (un_opt (fun x => map dec_ref (un_list x)) (sx_nth s 0%nat))
        (un_opt (fun x => map dec_ref (un_list x)) (sx_nth s 1%nat)).
Definition enc_env (e : envt) : sx :=
  SL [sx_opt (sx_list enc_ref) (e_refs e); sx_opt (sx_list enc_ref) (e_dups e)].

(* 30: (cfg src env reformat-table casefold-table) -> res (tokens env) *)
Definition run_block (s : sx) : sx :=
  let cfg := dec_bcfg (sx_nth s 0%nat) in
  let src := un_str (sx_nth s 1%nat) in
  let env := dec_env (sx_nth s 2%nat) in
  sx_res (fun st => SL [enc_tokens (b_tokens st); enc_env (b_env st)])
         (block_parse cfg (dec_table (sx_nth s 3%nat)) (dec_table (sx_nth s 4%nat)) src env []).

(* 31: line tables of StateBlock.__init__ (src) *)
Definition run_tables (s : sx) : sx :=
  let st := state_init (un_str s) env0 [] in
  SL [sx_list SI (b_bMarks st); sx_list SI (b_eMarks st); sx_list SI (b_tShift st); sx_list SI (b_sCount st);
      sx_list SI (b_bsCount st); SI (b_lineMax st)].
