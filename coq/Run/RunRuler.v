(* Decoding of Ruler histories from the wire format and encoding of traces. *)
From MD Require Import Base.Py Base.Sx Model.Ruler.

Definition dec_op (s : sx) : op Z :=
  let a := sx_nth s in
  match un_int (a 0%nat) with
  | 0 => OpAt (un_str (a 1%nat)) (un_int (a 2%nat)) (un_strs (a 3%nat))
  | 1 => OpBefore (un_str (a 1%nat)) (un_str (a 2%nat)) (un_int (a 3%nat)) (un_strs (a 4%nat))
  | 2 => OpAfter (un_str (a 1%nat)) (un_str (a 2%nat)) (un_int (a 3%nat)) (un_strs (a 4%nat))
  | 3 => OpPush (un_str (a 1%nat)) (un_int (a 2%nat)) (un_strs (a 3%nat))
  | 4 => OpEnable (un_strs (a 1%nat)) (un_bool (a 2%nat))
  | 5 => OpEnableOnly (un_strs (a 1%nat)) (un_bool (a 2%nat))
  | 6 => OpDisable (un_strs (a 1%nat)) (un_bool (a 2%nat))
  | 7 => OpGetRules (un_str (a 1%nat))
  | 8 => OpAll
  | _ => OpActive
  end.

Definition enc_out (o : out Z) : sx :=
  match o with
  | ONone => SL [SI 0]
  | ONames l => SL [SI 1; sx_list sx_str l]
  | OFns l => SL [SI 2; sx_list SI l]
  end.

Definition run_ruler_case (s : sx) : sx :=
  sx_list (sx_res enc_out) (run_trace (map dec_op (un_list s)) ruler_init).

Definition run_ruler_legacy_case (s : sx) : sx :=
  let fix go (ops : list (op Z)) (r : ruler Z) : list (res (out Z)) :=
    match ops with
    | [] => []
    | o :: ops' => let '(r', x) := step_legacy r o in x :: go ops' r'
    end in
  sx_list (sx_res enc_out) (go (map dec_op (un_list s)) ruler_init).
