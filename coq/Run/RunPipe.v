(* Wire format for the whole pipeline: parse / render / parseInline / renderInline. *)
From MD Require Import Base.Py Base.Str Base.Sx Base.Opt Model.Token Model.Utils Model.StateBlock Model.Block
     Model.Inline Model.Render Model.Pipeline Run.RunStream Run.RunBlock.

(* icfg: (rules rules2 maxNesting html linkify store_labels) *)
Definition dec_icfg (s : sx) : icfg :=
  mkICfg (un_strs (sx_nth s 0%nat)) (un_strs (sx_nth s 1%nat)) (un_int (sx_nth s 2%nat))
         (un_bool (sx_nth s 3%nat)) (un_bool (sx_nth s 4%nat)) (un_bool (sx_nth s 5%nat)).

(* pcfg: (core bcfg icfg typographer quotes linkify ropts) *)
Definition dec_pcfg (s : sx) : pcfg :=
  mkPCfg (un_strs (sx_nth s 0%nat)) (dec_bcfg (sx_nth s 1%nat)) (dec_icfg (sx_nth s 2%nat))
         (un_bool (sx_nth s 3%nat)) (un_strs (sx_nth s 4%nat)) (un_bool (sx_nth s 5%nat)) (dec_ropts (sx_nth s 6%nat)).

(* 40: (api cfg src env reformat casefold linktext) *)
Definition run_pipe (s : sx) : sx :=
  let api := un_int (sx_nth s 0%nat) in
  let cfg := dec_pcfg (sx_nth s 1%nat) in
  let src := un_str (sx_nth s 2%nat) in
  let env := dec_env (sx_nth s 3%nat) in
  let rf := dec_table (sx_nth s 4%nat) in
  let cf := dec_table (sx_nth s 5%nat) in
  let lt := dec_table (sx_nth s 6%nat) in
  match api with
  | 0 => sx_res (fun p => SL [enc_tokens (fst p); enc_env (snd p)]) (parse cfg rf cf lt src env)
  | 1 => sx_res (fun p => SL [sx_str (fst p); enc_env (snd p)]) (render_md cfg rf cf lt src env)
  | 2 => sx_res (fun p => SL [enc_tokens (fst p); enc_env (snd p)]) (parse_inline cfg rf cf lt src env)
  | _ => sx_res (fun p => SL [sx_str (fst p); enc_env (snd p)]) (render_inline_md cfg rf cf lt src env)
  end.

(* 41: (icfg src env reformat casefold linktext) -> the guard state after ParserInline.tokenize on a fresh
   StateInline: the skipToken memo table, the backtick closer cache, its scanned flag, the final position *)
Definition enc_zpairs (l : list (Z * Z)) : sx := sx_list (sx_pair SI SI) l.
Definition run_guards (s : sx) : sx :=
  let cfg := dec_icfg (sx_nth s 0%nat) in
  let src := un_str (sx_nth s 1%nat) in
  let env := dec_env (sx_nth s 2%nat) in
  let rf := dec_table (sx_nth s 3%nat) in
  let cf := dec_table (sx_nth s 4%nat) in
  let lt := dec_table (sx_nth s 5%nat) in
  sx_res (fun st => SL [enc_zpairs (i_cache st); enc_zpairs (i_backticks st); sx_bool (i_backticksScanned st); SI (i_pos st);
                        SI (len (i_tokens st))])
         (inline_tokenize cfg rf cf lt (ifs cfg rf cf lt (inline_depth cfg)) (istate_init src env [])).
