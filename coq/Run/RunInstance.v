(* Wire format for facade histories (C11 facade part, C12, C14). *)
From MD Require Import Base.Py Base.Sx Base.Opt Model.Ruler Model.Instance Run.RunRuler.
From MD Require Import Gen.Rules.

Definition dec_optval (s : sx) : optval :=
  let a := sx_nth s in
  match un_int (a 0%nat) with
  | 0 => OVNone
  | 1 => OVBool (un_bool (a 1%nat))
  | 2 => OVInt (un_int (a 1%nat))
  | 3 => OVStr (un_str (a 1%nat))
  | 4 => OVStrs (un_strs (a 1%nat))
  | _ => OVFun (un_int (a 1%nat))
  end.

Definition enc_optval (v : optval) : sx :=
  match v with
  | OVNone => SL [SI 0]
  | OVBool b => SL [SI 1; sx_bool b]
  | OVInt z => SL [SI 2; SI z]
  | OVStr s => SL [SI 3; sx_str s]
  | OVStrs l => SL [SI 4; sx_list sx_str l]
  | OVFun z => SL [SI 5; SI z]
  end.

Definition dec_opts (s : sx) : list (str * optval) :=
  map (fun kv => (un_str (sx_nth kv 0%nat), dec_optval (sx_nth kv 1%nat))) (un_list s).

Definition enc_opts (o : list (str * optval)) : sx :=
  sx_list (fun kv => SL [sx_str (fst kv); enc_optval (snd kv)]) o.

Definition dec_preset (s : sx) : preset :=
  {| p_options := dec_opts (sx_nth s 0%nat);
     p_components :=
       map (fun c => (un_str (sx_nth c 0%nat),
                      (un_opt un_strs (sx_nth c 1%nat), un_opt un_strs (sx_nth c 2%nat))))
           (un_list (sx_nth s 1%nat)) |}.

Fixpoint dec_mop (fuel : nat) (s : sx) : mop :=
  let a := sx_nth s in
  match fuel with
  | O => MActive
  | S fuel' =>
  match un_int (a 0%nat) with
  | 0 => MEnable (un_strs (a 1%nat)) (un_bool (a 2%nat))
  | 1 => MDisable (un_strs (a 1%nat)) (un_bool (a 2%nat))
  | 2 => MRuler (un_int (a 1%nat)) (dec_op (a 2%nat))
  | 3 => MConfigure (un_opt dec_preset (a 1%nat)) (dec_opts (a 2%nat))
  | 4 => MSetItem (un_str (a 1%nat)) (dec_optval (a 2%nat))
  | 5 => MSetOptions (dec_opts (a 1%nat))
  | 6 => MAddRenderRule (un_str (a 1%nat)) (un_int (a 2%nat)) (un_bool (a 3%nat))
  | 7 => MActive
  | 8 => MAll
  | 9 => MOptions
  | _ => MReset (map (dec_mop fuel') (un_list (a 1%nat))) (un_opt un_int (a 2%nat))
  end
  end.

Definition enc_mout (o : mout) : sx :=
  match o with
  | MONone => SL [SI 0]
  | MONames4 a b c d => SL [SI 1; sx_list sx_str a; sx_list sx_str b; sx_list sx_str c; sx_list sx_str d]
  | MOOpts o => SL [SI 2; enc_opts o]
  end.

Definition fresh_inst : inst := bare_inst core_registry block_registry inline_registry inline2_registry.

(* full observable configuration of an instance, for comparison after each step:
   options, per chain (all names, active names, applied fns for "" and every alt
   chain named in the probe list), render rules *)
Definition observe (probes : list str) (i : inst) : sx :=
  let ch (r : ruler Z) :=
    SL [sx_list sx_str (all_names r); sx_list sx_str (active_names r);
        sx_list (fun c => sx_list SI (snd (get_rules r c))) probes] in
  SL [enc_opts (i_opts i); ch (i_core i); ch (i_block i); ch (i_inline i); ch (i_inline2 i);
      sx_list (fun kv => SL [sx_str (fst kv); SI (snd kv)]) (i_render i)].

(* payload: (finally probes ops) ; result: per op (res, observation after it).
   Observation does not compile caches in the threaded state: getRules in the
   implementation run is likewise done on every step, so the model threads it. *)
Fixpoint observe_compile (probes : list str) (i : inst) : inst :=
  match probes with
  | [] => i
  | c :: ps =>
      let i0 := set_chain i 0 (fst (get_rules (i_core i) c)) in
      let i1 := set_chain i0 1 (fst (get_rules (i_block i0) c)) in
      let i2 := set_chain i1 2 (fst (get_rules (i_inline i1) c)) in
      let i3 := set_chain i2 3 (fst (get_rules (i_inline2 i2) c)) in
      observe_compile ps i3
  end.

Fixpoint run_inst_trace (fin : bool) (probes : list str) (ops : list mop) (i : inst) : list sx :=
  match ops with
  | [] => []
  | o :: ops' =>
      let '(i', x) := mstep fin i o in
      SL [sx_res enc_mout x; observe probes i'] :: run_inst_trace fin probes ops' (observe_compile probes i')
  end.

Definition run_inst_case (s : sx) : sx :=
  let fin := un_bool (sx_nth s 0%nat) in
  let probes := un_strs (sx_nth s 1%nat) in
  let ops := map (dec_mop 8) (un_list (sx_nth s 2%nat)) in
  SL (run_inst_trace fin probes ops fresh_inst).
