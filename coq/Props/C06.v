(* C06 -- container laws: quoting a document nests its blocks.  Proved so far (row level): for a
   tab-free quoted line  '>' ' ' blank^k rest  the row that the block quote rule writes into the
   line tables (bMarks, tShift, sCount, bsCount) is the row the line scanner computes for the
   un-prefixed line  blank^k rest , moved two characters to the right; so the nested block loop
   sees, line by line, the tables of the un-quoted document.  The document-level law (the nested
   loop then produces the same tokens) is decided on the implementation and through the
   correspondence.  Only statements and [exact]. *)
From MD Require Import Base.Py Base.Str Base.Opt Model.Token Model.Utils Model.StateBlock Model.Block
     Lemmas.BlockLemmas Lemmas.QuoteLemmas.

(* the row written by the quote rule for  '>' ' ' blank^k (non-blank | end of line) *)
Theorem C06_quote_prefix_row :
  forall src pos0 maximum sc bs k,
    0 <= pos0 -> nth_error src (Z.to_nat (pos0 + 1)) = Some 32 ->
    spaces_at src (pos0 + 2) k -> stop_at src (pos0 + 2 + Z.of_nat k) maximum ->
    pos0 + 2 + Z.of_nat k <= maximum -> maximum <= len src ->
    bq_strip src pos0 maximum sc bs =
      Ok (mkBq (pos0 + 2) (Z.of_nat k) (Z.of_nat k) (bs + sc + 2) (maximum <=? pos0 + 2 + Z.of_nat k)).
Proof. exact bq_strip_prefix. Qed.
Print Assumptions C06_quote_prefix_row.

(* the row the scanner computes for the un-prefixed text line  blank^k c body LF  *)
Theorem C06_scanned_text_row :
  forall k c body n bM eM tS sC start pos,
    is_space c = false -> c <> 10 -> (forall x, In x body -> x <> 10) ->
    pos + Z.of_nat k + 1 + len body <= n - 1 ->
    scan_loop n (mkScan bM eM tS sC false start 0 0) pos (repeat_z 32 k ++ c :: body ++ [10])
    = mkScan (start :: bM) (pos + Z.of_nat k + 1 + len body :: eM) (Z.of_nat k :: tS) (Z.of_nat k :: sC)
             false (pos + Z.of_nat k + 1 + len body + 1) 0 0.
Proof. exact scan_text_line. Qed.
Print Assumptions C06_scanned_text_row.

(* ... and for the blank line  blank^k LF  (a quoted blank line '> ' has k = 0: empty) *)
Theorem C06_scanned_blank_row :
  forall k n bM eM tS sC start pos,
    scan_loop n (mkScan bM eM tS sC false start 0 0) pos (repeat_z 32 k ++ [10])
    = mkScan (start :: bM) (pos + Z.of_nat k :: eM) (Z.of_nat k :: tS) (Z.of_nat k :: sC) false (pos + Z.of_nat k + 1) 0 0.
Proof. exact scan_blank_line. Qed.
Print Assumptions C06_scanned_blank_row.
