(* C06 -- container laws: quoting a document nests its blocks.  Proved so far (row level): for a
   tab-free quoted line  '>' ' ' blank^k rest  the row that the block quote rule writes into the
   line tables (bMarks, tShift, sCount, bsCount) is the row the line scanner computes for the
   un-prefixed line  blank^k rest , moved two characters to the right; so the nested block loop
   sees, line by line, the tables of the un-quoted document.  The document-level law (the nested
   loop then produces the same tokens) is decided on the implementation and through the
   correspondence.  Only statements and [exact]. *)
From MD Require Import Base.Py Base.Str Base.Opt Model.Token Model.Utils Model.StateBlock Model.Block
     Lemmas.BlockLemmas Lemmas.QuoteLemmas.

(* the row written by the quote rule for  '>' ' ' blank^k (non-blank | end of line) *)
Theorem C06_quote_prefix_row :
  forall src pos0 maximum sc bs k,
    0 <= pos0 -> nth_error src (Z.to_nat (pos0 + 1)) = Some 32 ->
    spaces_at src (pos0 + 2) k -> stop_at src (pos0 + 2 + Z.of_nat k) maximum ->
    pos0 + 2 + Z.of_nat k <= maximum -> maximum <= len src ->
    bq_strip src pos0 maximum sc bs =
      Ok (mkBq (pos0 + 2) (Z.of_nat k) (Z.of_nat k) (bs + sc + 2) (maximum <=? pos0 + 2 + Z.of_nat k)).
Proof. exact bq_strip_prefix. Qed.
Print Assumptions C06_quote_prefix_row.

(* the row the scanner computes for the un-prefixed text line  blank^k c body LF  *)
Theorem C06_scanned_text_row :
  forall k c body n bM eM tS sC start pos,
    is_space c = false -> c <> 10 -> (forall x, In x body -> x <> 10) ->
    pos + Z.of_nat k + 1 + len body <= n - 1 ->
    scan_loop n (mkScan bM eM tS sC false start 0 0) pos (repeat_z 32 k ++ c :: body ++ [10])
    = mkScan (start :: bM) (pos + Z.of_nat k + 1 + len body :: eM) (Z.of_nat k :: tS) (Z.of_nat k :: sC)
             false (pos + Z.of_nat k + 1 + len body + 1) 0 0.
Proof. exact scan_text_line. Qed.
Print Assumptions C06_scanned_text_row.

(* ... and for the blank line  blank^k LF  (a quoted blank line '> ' has k = 0: empty) *)
Theorem C06_scanned_blank_row :
  forall k n bM eM tS sC start pos,
    scan_loop n (mkScan bM eM tS sC false start 0 0) pos (repeat_z 32 k ++ [10])
    = mkScan (start :: bM) (pos + Z.of_nat k :: eM) (Z.of_nat k :: tS) (Z.of_nat k :: sC) false (pos + Z.of_nat k + 1) 0 0.
Proof. exact scan_blank_line. Qed.
Print Assumptions C06_scanned_blank_row.

(* ---- the quote law itself, on one-line paragraph documents ----
   For EVERY line s that starts with a letter, has no line end inside and no blank at its end, every
   configuration whose block chain reaches the block quote rule through table / code / fence only and has
   the paragraph rule, any inline configuration and any env: parse("> " s LF) is exactly one block quote
   whose contents are the tokens of parse(s LF) one level deeper - same maps, same inline content, same
   children (the same inline_parse call) - between blockquote_open (map [0,1], markup ">") and
   blockquote_close.  The block quote rule is run symbolically: marker scan, table rewrite, nested block loop
   on the rewritten tables (every rule of the chain on the line at its offset), map patch, table restore. *)
From MD Require Import Model.Render Model.Core Model.Inline Model.Pipeline Lemmas.ParaLine Lemmas.QuoteLine.

Theorem C06_quote_nests_paragraph :
  forall cfg rf cf lt s, line_ok s -> mem_z 13 s = false -> mem_z 0 s = false ->
  forall rpre rpost, c_rules (p_block cfg) = rpre ++ nm_paragraph :: rpost ->
    Forall (fun n => str_eqb n nm_paragraph = false) rpre ->
  forall bpre bpost, c_rules (p_block cfg) = bpre ++ nm_blockquote :: bpost ->
    Forall (fun n => n = nm_table \/ n = nm_code \/ n = nm_fence) bpre ->
    1 < c_maxNesting (p_block cfg) ->
    p_core cfg = [n_normalize; n_block; n_inline; n_text_join] ->
  forall env,
    parse cfg rf cf lt (s ++ [10]) env
    = (do toks <- inline_parse (p_inline cfg) rf cf lt s env [];
       Ok ([p_open; set_children (p_inl s) (Some (join_children toks)); p_close], env))
    /\ parse cfg rf cf lt ([62; 32] ++ s ++ [10]) env
    = (do toks <- inline_parse (p_inline cfg) rf cf lt s env [];
       Ok (bq_open_tok :: map deeper [p_open; set_children (p_inl s) (Some (join_children toks)); p_close] ++ [bq_close_tok], env)).
Proof. exact quote_nests_paragraph. Qed.
Print Assumptions C06_quote_nests_paragraph.

(* the nested block loop on a line that begins at an offset inside the source - what it sees once containers have
   moved bMarks past pre1 (block quote markers) and masked pre2 through tShift / sCount / blkIndent (a list marker
   and its blanks, tab-free): one paragraph with the characters from the offset on, at the container's level *)
Theorem C06_nested_loop_on_shifted_line :
  forall cfg rf cf pre1 pre2 s bs li lv, line_ok s -> (forall x, In x pre2 -> x <> 9) ->
  forall rpre rpost, c_rules cfg = rpre ++ nm_paragraph :: rpost ->
    Forall (fun n => str_eqb n nm_paragraph = false) rpre -> lv < c_maxNesting cfg ->
  forall d st, off_line st pre1 pre2 s bs li lv -> b_line st = 0 ->
  exists st', tokenize cfg rf cf (S d) st 0 1 = Ok st'
    /\ off_line st' pre1 pre2 s bs li lv /\ b_tokens st' = b_tokens st ++ para_tokens s lv /\ b_env st' = b_env st /\ b_line st' = 1
    /\ b_tight st' = true.
Proof. exact tokenize_off_line. Qed.
Print Assumptions C06_nested_loop_on_shifted_line.

(* ---- the list item law, on one-line paragraph documents ----
   Same class of lines; every configuration whose block chain reaches the list rule through table / code / fence /
   blockquote / hr only and has the paragraph rule: parse("- " s LF) is a one-item tight bullet list whose item contains
   the tokens of parse(s LF) two levels deeper - same maps, same inline content, same children - with the paragraph
   tokens hidden (the property's "modulo the tight-list hidden flag").  The list rule is run symbolically: marker scans,
   item loop, tShift / sCount / blkIndent rewrite, nested block loop, restores, map patches, markTightParagraphs. *)
Theorem C06_item_nests_paragraph :
  forall cfg rf cf lt s, line_ok s -> mem_z 13 s = false -> mem_z 0 s = false ->
  forall rpre rpost, c_rules (p_block cfg) = rpre ++ nm_paragraph :: rpost ->
    Forall (fun n => str_eqb n nm_paragraph = false) rpre ->
  forall bpre bpost, c_rules (p_block cfg) = bpre ++ nm_list :: bpost ->
    Forall (fun n => n = nm_table \/ n = nm_code \/ n = nm_fence \/ n = nm_blockquote \/ n = nm_hr) bpre ->
    2 < c_maxNesting (p_block cfg) ->
    p_core cfg = [n_normalize; n_block; n_inline; n_text_join] ->
  forall env,
    parse cfg rf cf lt (s ++ [10]) env
    = (do toks <- inline_parse (p_inline cfg) rf cf lt s env [];
       Ok ([p_open; set_children (p_inl s) (Some (join_children toks)); p_close], env))
    /\ parse cfg rf cf lt ([45; 32] ++ s ++ [10]) env
    = (do toks <- inline_parse (p_inline cfg) rf cf lt s env [];
       Ok (ul_open_tok :: li_open_tok
           :: hide_para (map deeper2 [p_open; set_children (p_inl s) (Some (join_children toks)); p_close])
           ++ [li_close_tok; ul_close_tok], env)).
Proof. exact item_nests_paragraph. Qed.
Print Assumptions C06_item_nests_paragraph.

Example C06_quote_hypotheses_met :
  line_ok [102; 111; 111; 32; 42; 98; 42]
  /\ [nm_table; nm_code; nm_fence; nm_blockquote; nm_hr; nm_list; nm_reference; nm_html_block; nm_heading; nm_lheading; nm_paragraph]
     = [nm_table; nm_code; nm_fence] ++ nm_blockquote :: [nm_hr; nm_list; nm_reference; nm_html_block; nm_heading; nm_lheading; nm_paragraph].
Proof. exact quote_line_example. Qed.

(* ---- containers within containers, any depth ----
   For EVERY list cs of containers - block quote markers "> ", bullet markers ('-', '*' or '+' followed by one to four
   spaces) and ordered markers (one to nine digits, '.' or ')', one to four spaces): okc - in any order, whose weight
   (1 per quote, 2 per item) stays below maxNesting, every line s of the class above, every configuration whose block
   chain is  table/code/fence*  blockquote  table/code/fence/hr*  list  (rules other than paragraph)*  paragraph ...,
   any inline configuration and any env:  parse(prefix(cs) s LF)  is the paragraph of s wrapped in exactly those
   containers, level by level (wrapc: quote = +1, item = +2; every map [0,1]; the paragraph tokens hidden exactly when
   the paragraph sits directly in an item), and the inline token carries the children of the same inline_parse call as
   parse(s LF).  Induction on cs; each container rule is run on a line that begins anywhere inside the source
   (off_line) and hands the rest of the line to the nested block loop (Lemmas/NestLine.v). *)
From MD Require Import Lemmas.NestLine.

Theorem C06_containers_within_containers :
  forall cfg rf cf lt s, line_ok s -> mem_z 13 s = false -> mem_z 0 s = false ->
  forall RA RB RC RD, c_rules (p_block cfg) = RA ++ nm_blockquote :: RB ++ nm_list :: RC ++ nm_paragraph :: RD ->
    Forall (fun n => n = nm_table \/ n = nm_code \/ n = nm_fence) RA ->
    Forall (fun n => n = nm_table \/ n = nm_code \/ n = nm_fence \/ n = nm_hr) RB ->
    Forall (fun n => str_eqb n nm_paragraph = false) RC ->
    p_core cfg = [n_normalize; n_block; n_inline; n_text_join] ->
  forall cs, Forall okc cs -> weight cs < c_maxNesting (p_block cfg) ->
  forall env,
    parse cfg rf cf lt (prefix cs ++ s ++ [10]) env
    = (do toks <- inline_parse (p_inline cfg) rf cf lt s env [];
       Ok (wrapc s cs 0 false (join_children toks), env)).
Proof. exact parse_nested. Qed.
Print Assumptions C06_containers_within_containers.

(* what wrapc says, for reading the theorem: one more container = the same tokens one (quote) or two (item) levels deeper *)
Definition C06_wrapc_means :
  forall s cs m k lv hid ch,
    wrapc s (CQ :: cs) lv hid ch = bq_open_at lv :: wrapc s cs (lv + 1) false ch ++ [bq_close_at lv]
    /\ wrapc s (CI m k :: cs) lv hid ch
       = ul_open_at m lv :: li_open_at m (lv + 1) :: wrapc s cs (lv + 2) true ch ++ [li_close_at m (lv + 1); ul_close_at m lv]
    /\ wrapc s [] lv false ch = para_ch s lv ch /\ wrapc s [] lv true ch = hide_para (para_ch s lv ch)
    /\ prefix (CQ :: cs) = [62; 32] ++ prefix cs /\ prefix (CI m k :: cs) = (m :: repeat 32 k) ++ prefix cs
    /\ (okc (CI m k) <-> (m = 42 \/ m = 45 \/ m = 43) /\ (1 <= k <= 4)%nat)
  := fun s cs m k lv hid ch => conj eq_refl (conj eq_refl (conj eq_refl (conj eq_refl (conj eq_refl (conj eq_refl (conj (fun x => x) (fun x => x))))))).

(* ... and an ordered marker: the list records the number written as its start attribute (unless it is 1), the item records
   the digits written as its info, both record the delimiter as markup *)
Definition C06_wrapc_ordered_means :
  forall s cs d0 ds dl k lv hid ch,
    wrapc s (CO d0 ds dl k :: cs) lv hid ch
    = ol_open_at dl (int_of_digits (d0 :: ds)) lv :: li_open_g true (d0 :: ds) dl (lv + 1) :: wrapc s cs (lv + 2) true ch
      ++ [li_close_at dl (lv + 1); ol_close_at dl lv]
    /\ prefix (CO d0 ds dl k :: cs) = ((d0 :: ds) ++ dl :: repeat 32 k) ++ prefix cs
    /\ tinfo (li_open_g true (d0 :: ds) dl (lv + 1)) = d0 :: ds /\ tmarkup (li_open_g true (d0 :: ds) dl (lv + 1)) = [dl]
    /\ tmarkup (ol_open_at dl (int_of_digits (d0 :: ds)) lv) = [dl]
    /\ (int_of_digits (d0 :: ds) <> 1 -> tattrs (ol_open_at dl (int_of_digits (d0 :: ds)) lv) = [(s_start, AInt (int_of_digits (d0 :: ds)))])
    /\ (okc (CO d0 ds dl k) <-> is_digit d0 = true /\ Forall (fun d => is_digit d = true) ds /\ len ds <= 8 /\ (dl = 46 \/ dl = 41) /\ (1 <= k <= 4)%nat).
Proof.
  intros s cs d0 ds dl k lv hid ch. split; [reflexivity|]. split; [reflexivity|]. split; [reflexivity|]. split; [reflexivity|].
  split; [unfold ol_open_at; destruct (negb (int_of_digits (d0 :: ds) =? 1)); reflexivity|].
  split; [|split; exact (fun x => x)].
  intros H. unfold ol_open_at. destruct (int_of_digits (d0 :: ds) =? 1) eqn:E; [apply Z.eqb_eq in E; contradiction | reflexivity].
Qed.

(* the nested block loop, for any containers in front of the rest of the line, from any well-placed state *)
Theorem C06_nested_loop_any_containers :
  forall cfg rf cf s, line_ok s ->
  forall RA RB RC RD, c_rules cfg = RA ++ nm_blockquote :: RB ++ nm_list :: RC ++ nm_paragraph :: RD ->
    Forall (fun n => n = nm_table \/ n = nm_code \/ n = nm_fence) RA ->
    Forall (fun n => n = nm_table \/ n = nm_code \/ n = nm_fence \/ n = nm_hr) RB ->
    Forall (fun n => str_eqb n nm_paragraph = false) RC ->
  forall cs, Forall okc cs -> forall pre1 pre2 bs li lv d,
    (forall x, In x pre2 -> x <> 9) -> lv + weight cs < c_maxNesting cfg -> (length cs <= d)%nat ->
    rec_adds (tokenize cfg rf cf (S d)) pre1 pre2 (prefix cs ++ s) bs li lv (wrap s cs lv false).
Proof. exact nest. Qed.
Print Assumptions C06_nested_loop_any_containers.

Example C06_nested_hypotheses_met :
  [nm_table; nm_code; nm_fence; nm_blockquote; nm_hr; nm_list; nm_reference; nm_html_block; nm_heading; nm_lheading; nm_paragraph]
  = [nm_table; nm_code; nm_fence] ++ nm_blockquote :: [nm_hr] ++ nm_list :: [nm_reference; nm_html_block; nm_heading; nm_lheading] ++ nm_paragraph :: []
  /\ prefix [CQ; CI 45 1; CO 49 [50] 46 2; CQ] ++ [102; 111; 111] ++ [10] = [62; 32; 45; 32; 49; 50; 46; 32; 32; 62; 32; 102; 111; 111; 10]
  /\ weight [CQ; CI 45 1; CO 49 [50] 46 2; CQ] = 6 /\ Forall okc [CQ; CI 45 1; CO 49 [50] 46 2; CQ].
Proof. exact nested_example. Qed.
