(* C05 -- emitted link and image URLs are normalised and never carry a dangerous scheme.
   END TO END ON THE MODEL (C05_parse_urls_validated): for EVERY source, every configuration and
   every env whose recorded destinations are themselves validated, each href / src attribute on
   each token parse() returns and on each child of an inline token is empty or equal to
   normalizeLink(x) for some x with validateLink accepting it -- whichever producer made it
   (inline destination, image, autolink, reference taken from env, definition recorded by the
   block parser) -- and the env returned is again of that form; such a URL consists of URL-safe
   ASCII only (C05_good_url_chars).  URL layer: statements for ALL strings; mdurl.parse / format /
   punycode are an arbitrary function [reformat].  Only statements and [exact]. *)
From MD Require Import Base.Py Base.Str Base.Opt Model.Token Model.Utils Model.Url Model.StateBlock Model.Block Model.Inline Model.Pipeline
     Lemmas.UrlLemmas Lemmas.BlockLemmas Lemmas.BlockKinds Lemmas.EnvLemmas Lemmas.InlineUrls Lemmas.PipelineUrls.

(* every character mdurl.encode emits is a letter, a digit, one of ;/?:@&=+$,-_.!~*'()# or %;
   in particular no blank, control, quote, angle bracket, backslash, backtick, non-ASCII *)
Theorem C05_encode_alphabet : forall s, Forall code_point s -> forallb url_char (encode s) = true.
Proof. exact encode_alphabet. Qed.
Print Assumptions C05_encode_alphabet.

Theorem C05_url_chars_are_inert :
  forall c, url_char c = true ->
    33 <= c < 127 /\ c <> 34 /\ c <> 60 /\ c <> 62 /\ c <> 96 /\ c <> 92 /\ is_py_space c = false.
Proof. exact url_char_facts. Qed.
Print Assumptions C05_url_chars_are_inert.

(* a validated encoded URL, read case-insensitively, never starts with vbscript: javascript:
   file:, and data: only as data:image/gif|png|jpeg|webp; *)
Theorem C05_validated_scheme :
  forall h, forallb url_char h = true -> validate_link h = true ->
  starts_with p_vbscript (lower h) = false /\ starts_with p_javascript (lower h) = false
  /\ starts_with p_file (lower h) = false
  /\ (starts_with p_data (lower h) = true -> good_data (lower h) = true).
Proof. exact validate_scheme. Qed.
Print Assumptions C05_validated_scheme.

(* for every producer that emits normalizeLink(x) only when validateLink accepts it -- and
   whatever the URL re-formatting dependency does *)
Theorem C05_emitted_url_safe :
  forall (reformat : str -> str) url, Forall code_point (reformat url) ->
    let h := normalize_link reformat url in
    validate_link h = true ->
    forallb url_char h = true
    /\ starts_with p_vbscript (lower h) = false /\ starts_with p_javascript (lower h) = false
    /\ starts_with p_file (lower h) = false
    /\ (starts_with p_data (lower h) = true -> good_data (lower h) = true).
Proof. exact emitted_url_safe. Qed.
Print Assumptions C05_emitted_url_safe.

Example C05_nonvacuous :
  encode [106; 97; 118; 97; 32; 233; 37; 52; 49; 34] = [106; 97; 118; 97; 37; 50; 48; 37; 67; 51; 37; 65; 57; 37; 52; 49; 37; 50; 50]
  /\ validate_link [32; 74; 97; 118; 97; 83; 99; 114; 105; 112; 116; 58; 120] = false
  /\ validate_link [100; 97; 116; 97; 58; 105; 109; 97; 103; 101; 47; 112; 110; 103; 59; 120] = true.
Proof. vm_compute. repeat split; reflexivity. Qed.

(* every producer, end to end *)
Theorem C05_parse_urls_validated :
  forall cfg reformat casefold linktext, chains_sub (p_block cfg) ->
  forall src env ts env',
    env_good reformat env ->
    parse cfg reformat casefold linktext src env = Ok (ts, env') ->
    Forall (url_inv reformat) ts /\ env_good reformat env'.
Proof. exact parse_urls_good. Qed.
Print Assumptions C05_parse_urls_validated.

Theorem C05_parse_inline_urls_validated :
  forall cfg reformat casefold linktext, chains_sub (p_block cfg) ->
  forall src env ts env',
    env_good reformat env ->
    parse_inline cfg reformat casefold linktext src env = Ok (ts, env') ->
    Forall (url_inv reformat) ts /\ env_good reformat env'.
Proof. exact parse_inline_urls_good. Qed.
Print Assumptions C05_parse_inline_urls_validated.

(* a good URL is empty or validated, and consists of URL-safe ASCII only *)
Theorem C05_good_url_chars :
  forall reformat, (forall s, Forall code_point (reformat s)) ->
  forall v, gurl reformat v -> forallb url_char v = true.
Proof. exact good_url_chars. Qed.
Print Assumptions C05_good_url_chars.

(* ---- the validator the rules call is the direct definition ---------------------------------------------------
   validateLink is written with two regular expressions (regenerated from /repo on every run and executed by the
   backtracking matcher of Base/Regex.v).  On EVERY string they compute the prefix tests the scheme theorems above speak
   about - so C05_validated_scheme / C05_emitted_url_safe apply to what the rule models actually call. *)
From MD Require Import Base.Regex Gen.Regexes Lemmas.RegexLit.
Theorem C05_bad_proto_regex_is_prefix_test : forall u, test re_normalize_url_BAD_PROTO_RE u = bad_proto u.
Proof. exact bad_proto_re. Qed.
Print Assumptions C05_bad_proto_regex_is_prefix_test.

Theorem C05_good_data_regex_is_prefix_test : forall u, test re_normalize_url_GOOD_DATA_RE u = good_data u.
Proof. exact good_data_re. Qed.
Print Assumptions C05_good_data_regex_is_prefix_test.

Theorem C05_validator_regex_is_direct : forall url, validate_link_re url = validate_link url.
Proof. exact validate_link_re_eq. Qed.
Print Assumptions C05_validator_regex_is_direct.
