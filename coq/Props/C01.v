(* C01 -- parsing and rendering are total.  Component theorems proved so far; the
   whole-pipeline statement [pipeline_total] is written out and is NOT yet a theorem: per-rule
   safety is carried by the model-vs-implementation comparison of exception classes (the model
   raises exactly where an unguarded read of the Python would).  Only statements and [exact]. *)
From MD Require Import Base.Py Base.Str Base.Opt Model.Token Model.Utils Model.Render Model.StateBlock
     Model.Block Model.Inline Model.Pipeline Lemmas.RenderLemmas Lemmas.TotalLemmas Lemmas.InlineLemmas Lemmas.ScanLemmas.

(* the statement of the property on the model (full strength; proved only in parts below) *)
Definition pipeline_total_statement : Prop :=
  forall cfg rf cf lt src env,
    In nm_paragraph (c_rules (p_block cfg)) -> In n_text (ic_rules (p_inline cfg)) ->
    1 <= c_maxNesting (p_block cfg) <= 100 -> 1 <= ic_maxNesting (p_inline cfg) <= 100 ->
    p_linkify cfg = false ->
    (exists r, parse cfg rf cf lt src env = Ok r) /\ (exists r, parse_inline cfg rf cf lt src env = Ok r).

(* chr() cannot raise: a code point the entity rule accepts is a Unicode scalar value *)
Theorem C01_entity_chr_safe :
  forall c, 0 <= c -> is_valid_entity_code c = true -> c <= 1114111 /\ ~ (55296 <= c <= 57343).
Proof. exact entity_chr_safe. Qed.
Print Assumptions C01_entity_chr_safe.

Theorem C01_entity_codes_nonneg : forall s, 0 <= int_of_hex s.
Proof. exact int_of_hex_nonneg. Qed.
Print Assumptions C01_entity_codes_nonneg.

(* the renderer returns normally on every stream in which no fence carries a non-string class
   attribute (the parser never sets one): its only raising site is attrJoin *)
Theorem C01_render_total :
  forall o l p, Forall class_ok_top l -> exists r, render_list o p l = Ok r.
Proof. exact render_total. Qed.
Print Assumptions C01_render_total.

(* nesting beyond maxNesting is cut off rather than recursed into: the inline skipper jumps to
   the end of the paragraph *)
Theorem C01_skip_token_cap :
  forall cfg rf cf lt F st,
    zlookup (i_pos st) (i_cache st) = None -> ic_maxNesting cfg <= i_level st ->
    exists st', skip_token cfg rf cf lt F st = Ok st' /\ i_pos st' = i_posMax st + 1.
Proof. exact skip_token_cap. Qed.
Print Assumptions C01_skip_token_cap.

(* table reads inside the table never raise *)
Theorem C01_table_read_in_range : forall l i, 0 <= i < len l -> exists v, tb l i = Ok v.
Proof. exact tb_in_range. Qed.
Print Assumptions C01_table_read_in_range.

(* a fresh StateBlock: every read of the five line tables at a line in [0, lineMax] succeeds,
   for every source *)
Theorem C01_fresh_tables_readable :
  forall src env toks line,
    let s := state_init src env toks in
    0 <= line <= b_lineMax s ->
    exists b e t c bs, tb (b_bMarks s) line = Ok b /\ tb (b_eMarks s) line = Ok e /\ tb (b_tShift s) line = Ok t
                       /\ tb (b_sCount s) line = Ok c /\ tb (b_bsCount s) line = Ok bs.
Proof. exact state_init_reads_ok. Qed.
Print Assumptions C01_fresh_tables_readable.

(* ---- the block line loop makes progress ------------------------------------------------- *)
From MD Require Import Lemmas.MapWhole.

(* One pass over the rule chain at line sl (the body of ParserBlock.tokenize's while loop), in any
   state whose tables satisfy the invariant, for any chain that contains the paragraph rule:
   some rule succeeds and the cursor ends strictly after sl and inside the line table - the
   loop cannot spin, and "none of the block rules matched" cannot happen.  (What is excluded by
   hypothesis is an exception or fuel exhaustion INSIDE a rule: try_rules = Ok.) *)
Theorem C01_block_loop_progress :
  forall cfg rf cf rec, rec_c rec -> silent_terms cfg ->
  forall names st sl el st',
    try_rules cfg rf cf rec names st sl el = Ok st' -> pre st sl el -> mem_str nm_paragraph names = true ->
    step_ok st sl st'.
Proof. exact try_rules_m. Qed.
Print Assumptions C01_block_loop_progress.

(* the nested tokenize (block quote / list item bodies) makes progress as well whenever its first
   line is blank or indented at least to the block indent: containers never produce an empty map
   and never loop *)
Theorem C01_nested_tokenize_progress :
  forall cfg rf cf, silent_terms cfg -> mem_str nm_paragraph (c_rules cfg) = true ->
  forall d st a b st',
    tokenize cfg rf cf d st a b = Ok st' -> 0 <= a -> a < b -> b <= b_lineMax st -> TI st ->
    a <= b_line st' <= b_lineMax st /\ (first_ok st a -> a < b_line st').
Proof.
  intros cfg rf cf ST PA d st a b st' H A0 AB BL HT.
  exact (let '(conj _ (conj C2 (conj _ (conj _ (conj _ (conj _ C7)))))) := tokenize_rec_c cfg rf cf ST PA d st a b st' H A0 AB BL HT in conj C2 C7).
Qed.
Print Assumptions C01_nested_tokenize_progress.

(* ---- the block parser never raises ---------------------------------------------------------- *)
From MD Require Import Model.Ruler Lemmas.NoRaise Lemmas.NoFuel Gen.Rules Lemmas.PipelineSafe.

(* For EVERY source, env and token list, and every configuration (options.html on or off, any
   maxNesting, any enabled subset) that has the paragraph rule and whose named terminator chains hold only silent-capable rules other than
   `reference` (true of every Ruler-compiled configuration of the generated rule table):
   ParserBlock.parse does not raise - no IndexError from a line-table read, none from an
   unguarded src[...] read, no exception of any other kind the model can produce.  (It may still
   be cut short by the model's fuel in inner scans - never by the line loop, see C20 - which is not
   an exception.)  The proof carries a table invariant through all 11 rules: table lengths, marks
   inside the source, a line feed at every end mark but the last line's, a non-blank at the logical
   start of a non-empty line; block quote and list rewrites keep it and their restores give back
   the ORIGINAL tables literally.  A second invariant (CI) bounds every sCount entry by the columns
   getLines itself counts over the line's leading blanks (gcols), through block quote and list
   rewrites; it is what makes html_block's getLines(..., blkIndent, True) safe on a blank last line
   inside containers. *)
Theorem C01_block_parse_never_raises :
  forall cfg rf cf src env toks,
    term_names_ok cfg -> mem_str nm_paragraph (c_rules cfg) = true ->
    forall e, block_parse cfg rf cf src env toks <> Raise e.
Proof. exact block_parse_no_raise. Qed.
Print Assumptions C01_block_parse_never_raises.

(* ---- the block parser is total ---------------------------------------------------------------- *)
(* The block model can answer OutOfFuel in six places: the paragraph-like continuation scan, the
   block quote line loop, the list item loop, the table body loop, the line loop of tokenize (fuel
   computed from the line range) and the container depth of tokenize (fuel maxNesting + 2).  None
   of them is ever reached: every loop consumes a line per iteration, and a nested tokenize is only
   entered below the maxNesting cut-off with the level strictly larger than its caller's. *)
Theorem C01_block_parse_fuel_suffices :
  forall cfg rf cf src env toks,
    term_names_ok cfg -> mem_str nm_paragraph (c_rules cfg) = true ->
    block_parse cfg rf cf src env toks <> OutOfFuel.
Proof. exact block_parse_fuel. Qed.
Print Assumptions C01_block_parse_fuel_suffices.

(* hence: for EVERY source, env, token list and configuration, ParserBlock.parse returns a state *)
Theorem C01_block_parse_total :
  forall cfg rf cf src env toks,
    term_names_ok cfg -> mem_str nm_paragraph (c_rules cfg) = true ->
    exists st, block_parse cfg rf cf src env toks = Ok st.
Proof. exact block_parse_total. Qed.
Print Assumptions C01_block_parse_total.


(* ---- the inner scans: no answer depends on a fuel constant ------------------------------------- *)
From MD Require Import Model.Helpers Lemmas.FuelAdequate.
(* The inner scans of the block model answer with an ordinary value when their loop-local fuel is
   used up.  Above a bound computed from the arguments (the distance the scan can still travel)
   the answer is the same for every fuel; the fuel passed at each call site (S (length src) for a
   scan over the source with 0 <= pos and maximum <= len src, S (endLine - startLine) for a scan
   over lines, 8 for the heading level, 12 for the ordered-list digits) lies above it. *)
Theorem C01_skip_empty_lines_fuel : forall f1 f2 st from, (Z.to_nat (b_lineMax st - from) < f1)%nat -> (Z.to_nat (b_lineMax st - from) < f2)%nat -> skip_empty_lines f1 st from = skip_empty_lines f2 st from.
Proof. exact skip_empty_lines_fuel. Qed.
Print Assumptions C01_skip_empty_lines_fuel.
Theorem C01_skip_while_fuel : forall p, forall f1 f2 src pos, (Z.to_nat (len src - pos) < f1)%nat -> (Z.to_nat (len src - pos) < f2)%nat -> skip_while f1 p src pos = skip_while f2 p src pos.
Proof. exact skip_while_fuel. Qed.
Print Assumptions C01_skip_while_fuel.
Theorem C01_skip_back_fuel : forall p, forall f1 f2 src pos mn, (Z.to_nat (pos - mn) < f1)%nat -> (Z.to_nat (pos - mn) < f2)%nat -> skip_back f1 p src pos mn = skip_back f2 p src pos mn.
Proof. exact skip_back_fuel. Qed.
Print Assumptions C01_skip_back_fuel.
Theorem C01_gl_scan_fuel : forall f1 f2 src first last ls li ind ts bs, (Z.to_nat (last - first) < f1)%nat -> (Z.to_nat (last - first) < f2)%nat -> gl_scan f1 src first last ls li ind ts bs = gl_scan f2 src first last ls li ind ts bs.
Proof. exact gl_scan_fuel. Qed.
Print Assumptions C01_gl_scan_fuel.
Theorem C01_get_lines_loop_fuel : forall f1 f2 st line endl indent keep, (Z.to_nat (endl - line) < f1)%nat -> (Z.to_nat (endl - line) < f2)%nat -> get_lines_loop f1 st line endl indent keep = get_lines_loop f2 st line endl indent keep.
Proof. exact get_lines_loop_fuel. Qed.
Print Assumptions C01_get_lines_loop_fuel.
Theorem C01_code_scan_fuel : forall cfg, forall f1 f2 st nl el last, (Z.to_nat (el - nl) < f1)%nat -> (Z.to_nat (el - nl) < f2)%nat -> code_scan cfg f1 st nl el last = code_scan cfg f2 st nl el last.
Proof. exact code_scan_fuel. Qed.
Print Assumptions C01_code_scan_fuel.
Theorem C01_fence_scan_fuel : forall cfg, forall f1 f2 st nl el mk ln, (Z.to_nat (el - nl) < f1)%nat -> (Z.to_nat (el - nl) < f2)%nat -> fence_scan cfg f1 st nl el mk ln = fence_scan cfg f2 st nl el mk ln.
Proof. exact fence_scan_fuel. Qed.
Print Assumptions C01_fence_scan_fuel.
Theorem C01_hr_scan_fuel : forall f1 f2 src pos mx mk cnt, (Z.to_nat (mx - pos) < f1)%nat -> (Z.to_nat (mx - pos) < f2)%nat -> hr_scan f1 src pos mx mk cnt = hr_scan f2 src pos mx mk cnt.
Proof. exact hr_scan_fuel. Qed.
Print Assumptions C01_hr_scan_fuel.
Theorem C01_heading_level_fuel : forall f1 f2 src pos mx level, (Z.to_nat (7 - level) < f1)%nat -> (Z.to_nat (7 - level) < f2)%nat -> heading_level f1 src pos mx level = heading_level f2 src pos mx level.
Proof. exact heading_level_fuel. Qed.
Print Assumptions C01_heading_level_fuel.
Theorem C01_html_scan_fuel : forall f1 f2 st closer nl el, (Z.to_nat (el - nl) < f1)%nat -> (Z.to_nat (el - nl) < f2)%nat -> html_scan f1 st closer nl el = html_scan f2 st closer nl el.
Proof. exact html_scan_fuel. Qed.
Print Assumptions C01_html_scan_fuel.
Theorem C01_ref_prescan_fuel : forall f1 f2 src pos mx, (Z.to_nat (mx - pos) < f1)%nat -> (Z.to_nat (mx - pos) < f2)%nat -> ref_prescan f1 src pos mx = ref_prescan f2 src pos mx.
Proof. exact ref_prescan_fuel. Qed.
Print Assumptions C01_ref_prescan_fuel.
Theorem C01_ref_label_fuel : forall f1 f2 s pos mx lines, (Z.to_nat (mx - pos) < f1)%nat -> (Z.to_nat (mx - pos) < f2)%nat -> ref_label f1 s pos mx lines = ref_label f2 s pos mx lines.
Proof. exact ref_label_fuel. Qed.
Print Assumptions C01_ref_label_fuel.
Theorem C01_skip_ws_nl_fuel : forall f1 f2 s pos mx lines, (Z.to_nat (mx - pos) < f1)%nat -> (Z.to_nat (mx - pos) < f2)%nat -> skip_ws_nl f1 s pos mx lines = skip_ws_nl f2 s pos mx lines.
Proof. exact skip_ws_nl_fuel. Qed.
Print Assumptions C01_skip_ws_nl_fuel.
Theorem C01_skip_sp_fuel : forall f1 f2 s pos mx, (Z.to_nat (mx - pos) < f1)%nat -> (Z.to_nat (mx - pos) < f2)%nat -> skip_sp f1 s pos mx = skip_sp f2 s pos mx.
Proof. exact skip_sp_fuel. Qed.
Print Assumptions C01_skip_sp_fuel.
Theorem C01_bq_blanks_fuel : forall f1 f2 src pos mx off bs adj, (Z.to_nat (mx - pos) < f1)%nat -> (Z.to_nat (mx - pos) < f2)%nat -> bq_blanks f1 src pos mx off bs adj = bq_blanks f2 src pos mx off bs adj.
Proof. exact bq_blanks_fuel. Qed.
Print Assumptions C01_bq_blanks_fuel.
Theorem C01_ordered_digits_fuel : forall f1 f2 src start pos mx, (Z.to_nat (start + 10 - pos) < f1)%nat -> (Z.to_nat (start + 10 - pos) < f2)%nat -> ordered_digits f1 src start pos mx = ordered_digits f2 src start pos mx.
Proof. exact ordered_digits_fuel. Qed.
Print Assumptions C01_ordered_digits_fuel.
Theorem C01_mark_tight_fuel : forall f1 f2 tokens i length level, (Z.to_nat (length - i) < f1)%nat -> (Z.to_nat (length - i) < f2)%nat -> mark_tight f1 tokens i length level = mark_tight f2 tokens i length level.
Proof. exact mark_tight_fuel. Qed.
Print Assumptions C01_mark_tight_fuel.
Theorem C01_list_blanks_fuel : forall f1 f2 src pos mx off bs, (Z.to_nat (mx - pos) < f1)%nat -> (Z.to_nat (mx - pos) < f2)%nat -> list_blanks f1 src pos mx off bs = list_blanks f2 src pos mx off bs.
Proof. exact list_blanks_fuel. Qed.
Print Assumptions C01_list_blanks_fuel.
Theorem C01_esc_split_fuel : forall f1 f2 s pos mx lastPos esc cur acc, (Z.to_nat (mx - pos) < f1)%nat -> (Z.to_nat (mx - pos) < f2)%nat -> esc_split f1 s pos mx lastPos esc cur acc = esc_split f2 s pos mx lastPos esc cur acc.
Proof. exact esc_split_fuel. Qed.
Print Assumptions C01_esc_split_fuel.
Theorem C01_delim_chars_fuel : forall f1 f2 src pos mx, (Z.to_nat (mx - pos) < f1)%nat -> (Z.to_nat (mx - pos) < f2)%nat -> delim_chars f1 src pos mx = delim_chars f2 src pos mx.
Proof. exact delim_chars_fuel. Qed.
Print Assumptions C01_delim_chars_fuel.
Theorem C01_dest_angle_fuel : forall f1 f2 s start pos mx, (Z.to_nat (mx - pos) < f1)%nat -> (Z.to_nat (mx - pos) < f2)%nat -> dest_angle f1 s start pos mx = dest_angle f2 s start pos mx.
Proof. exact dest_angle_fuel. Qed.
Print Assumptions C01_dest_angle_fuel.
Theorem C01_dest_bare_fuel : forall f1 f2 s pos mx level, (Z.to_nat (mx - pos) < f1)%nat -> (Z.to_nat (mx - pos) < f2)%nat -> dest_bare f1 s pos mx level = dest_bare f2 s pos mx level.
Proof. exact dest_bare_fuel. Qed.
Print Assumptions C01_dest_bare_fuel.
Theorem C01_title_loop_fuel : forall f1 f2 s start pos mx marker lines, (Z.to_nat (mx - pos) < f1)%nat -> (Z.to_nat (mx - pos) < f2)%nat -> title_loop f1 s start pos mx marker lines = title_loop f2 s start pos mx marker lines.
Proof. exact title_loop_fuel. Qed.
Print Assumptions C01_title_loop_fuel.
Theorem C01_src_fuel_above_bound : forall (src : str) pos mx, 0 <= pos -> mx <= len src -> (Z.to_nat (mx - pos) < S (length src))%nat.
Proof. exact src_fuel_above_bound. Qed.
Print Assumptions C01_src_fuel_above_bound.
Theorem C01_line_fuel_above_bound : forall sl el, (Z.to_nat (el - (sl + 1)) < S (Z.to_nat (el - sl)))%nat.
Proof. exact line_fuel_above_bound. Qed.
Print Assumptions C01_line_fuel_above_bound.

(* every rule, the nested tokenize at any depth and the rule loop return with the five line tables,
   the source and lineMax exactly as they were *)
Theorem C01_nested_tokenize_restores_tables :
  forall cfg rf cf N, term_names_ok cfg -> mem_str nm_paragraph (c_rules cfg) = true ->
  forall d, rec_n N (tokenize cfg rf cf d).
Proof. exact tokenize_rec_n. Qed.
Print Assumptions C01_nested_tokenize_restores_tables.

Theorem C01_fresh_tables_invariant :
  forall src env toks, RI (b_lineMax (state_init src env toks)) (state_init src env toks).
Proof. exact state_init_RI. Qed.
Print Assumptions C01_fresh_tables_invariant.

Theorem C01_fresh_tables_columns :
  forall src env toks, CI (state_init src env toks).
Proof. exact state_init_CI. Qed.
Print Assumptions C01_fresh_tables_columns.

Theorem C01_ruler_cfg_term_names_ok :
  forall (rs : list (@rule str)) code mn html defs,
    alts_ok2 rs = true -> term_names_ok (mkBCfg (compile_chain rs []) (compile_chain rs) code mn html defs).
Proof. exact ruler_cfg_term_names_ok. Qed.
Print Assumptions C01_ruler_cfg_term_names_ok.

(* the hypotheses hold for the generated rule table *)
Example C01_registry_alts_ok2 :
  alts_ok2 (map (fun na => mkRule (fst na) true (fst na) (snd na)) block_registry) = true.
Proof. vm_compute. reflexivity. Qed.

(* ---- the inline parser and the whole pipeline never raise ------------------------------------- *)
From MD Require Import Base.Regex Model.Inline Model.Pipeline Lemmas.InlineSafe Lemmas.ParseSafe.

(* For EVERY source, env and token list and every configuration with the (absent) linkifier off
   whose post-processing chain is in registration order (nothing that reads delimiters runs
   after fragments_join): ParserInline.parse never raises.  No IndexError from an unguarded
   src[pos] read in any of the 12 inline rules, in skipToken or in the tokenizer loop; none from
   push() popping the delimiter stack on a closing token; none from delimiters / jumps / tokens
   index reads in balance_pairs and in the strikethrough and emphasis post-processing; through
   the nested tokenize of link text and the nested parse of image descriptions at any depth.
   Invariants: 0 <= pos, posMax <= len src; every delimiter points at an existing token; the
   skipToken memo holds positions; the regex engine only moves forward; the jump table of
   balance_pairs has 0 <= jumps[i] <= i; matched delimiters point at valid partners. *)
Theorem C01_inline_parse_never_raises :
  forall cfg rf cf lt, ic_linkify cfg = false -> order_ok (ic_rules2 cfg) = true ->
  forall src env tokens e, inline_parse cfg rf cf lt src env tokens <> Raise e.
Proof. exact inline_parse_no_raise. Qed.
Print Assumptions C01_inline_parse_never_raises.

(* the order hypothesis holds for every chain a Ruler compiles from a rule list in that order,
   whatever is enabled; and the generated rule table is in that order *)
Theorem C01_ruler_chain_order_ok :
  forall rs : list (@rule str), order_ok (map rfn rs) = true -> order_ok (compile_chain rs []) = true.
Proof. exact ruler_chain_order_ok. Qed.
Print Assumptions C01_ruler_chain_order_ok.
Example C01_registry_order_ok : order_ok (map fst inline2_registry) = true.
Proof. vm_compute. reflexivity. Qed.

(* balance_pairs alone: for any delimiter list whose entries point into N tokens, processDelimiters
   does not raise, keeps the length, and leaves every end index -1 or inside the list *)
Theorem C01_process_delimiters_safe :
  forall N ds, Forall (DQ N (len ds)) ds ->
  safe (process_delimiters ds) (fun ds' => len ds' = len ds /\ Forall (DQ N (len ds)) ds').
Proof. exact process_delimiters_safe. Qed.
Print Assumptions C01_process_delimiters_safe.

(* the regular-expression engine only moves forward *)
Theorem C01_regex_match_moves_forward : forall r st e, match_at r st = Some e -> m_pos st <= m_pos e.
Proof. exact match_at_ge. Qed.
Print Assumptions C01_regex_match_moves_forward.

(* MarkdownIt.parse / parseInline: block parser, inline parser and the core chain composed *)
Theorem C01_parse_never_raises :
  forall cfg rf cf lt,
    term_names_ok (p_block cfg) -> mem_str nm_paragraph (c_rules (p_block cfg)) = true ->
    ic_linkify (p_inline cfg) = false -> p_linkify cfg = false -> order_ok (ic_rules2 (p_inline cfg)) = true ->
  forall src env e, parse cfg rf cf lt src env <> Raise e.
Proof. exact parse_no_raise. Qed.
Print Assumptions C01_parse_never_raises.

Theorem C01_parse_inline_never_raises :
  forall cfg rf cf lt,
    term_names_ok (p_block cfg) -> mem_str nm_paragraph (c_rules (p_block cfg)) = true ->
    ic_linkify (p_inline cfg) = false -> p_linkify cfg = false -> order_ok (ic_rules2 (p_inline cfg)) = true ->
  forall src env e, parse_inline cfg rf cf lt src env <> Raise e.
Proof. exact parse_inline_no_raise. Qed.
Print Assumptions C01_parse_inline_never_raises.

(* ---- the inline tokenizer makes progress ------------------------------------------------------ *)
From MD Require Import Lemmas.InlineProgress.

(* a rule that succeeds moves the position forward, one that fails leaves it where it was - for
   every rule list, at every recursion depth (so the tokenizer loop cannot spin) *)
Theorem C01_inline_rule_progress :
  forall cfg rf cf lt, ic_linkify cfg = false -> order_ok (ic_rules2 cfg) = true ->
  forall d names st silent bump ok st', PI st -> i_pos st < i_posMax st ->
  first_rule cfg rf cf lt (ifs cfg rf cf lt d) names st silent bump = Ok (ok, st') ->
  if ok then i_pos st < i_pos st' else i_pos st' = i_pos st.
Proof. exact first_rule_progress. Qed.
Print Assumptions C01_inline_rule_progress.

(* the tokenizer loop and the link-label loop: above posMax - pos the answer does not depend on the
   fuel; the fuel they are called with (len src + 2) lies above that *)
Theorem C01_tokenizer_loop_fuel_independent :
  forall cfg rf cf lt, ic_linkify cfg = false -> order_ok (ic_rules2 cfg) = true ->
  forall d f1 f2 st, PI st ->
  (Z.to_nat (i_posMax st - i_pos st) < f1)%nat -> (Z.to_nat (i_posMax st - i_pos st) < f2)%nat ->
  tok_while cfg rf cf lt f1 (ifs cfg rf cf lt d) st (i_posMax st) false = tok_while cfg rf cf lt f2 (ifs cfg rf cf lt d) st (i_posMax st) false.
Proof. exact tok_while_fuel_any_depth. Qed.
Print Assumptions C01_tokenizer_loop_fuel_independent.

Theorem C01_label_loop_fuel_independent :
  forall cfg rf cf lt, ic_linkify cfg = false -> order_ok (ic_rules2 cfg) = true ->
  forall d f1 f2 st level dn oldPos, PI st ->
  (Z.to_nat (i_posMax st - i_pos st) < f1)%nat -> (Z.to_nat (i_posMax st - i_pos st) < f2)%nat ->
  label_loop (ifs cfg rf cf lt d) f1 st level dn oldPos = label_loop (ifs cfg rf cf lt d) f2 st level dn oldPos.
Proof. exact label_loop_fuel_any_depth. Qed.
Print Assumptions C01_label_loop_fuel_independent.

Theorem C01_tokenize_fuel_above_bound :
  forall st, PI st -> (Z.to_nat (i_posMax st - i_pos st) < S (S (length (i_src st))))%nat.
Proof. exact tokenize_fuel_above. Qed.
Print Assumptions C01_tokenize_fuel_above_bound.

(* a regular expression that cannot match the empty string (a conservative syntactic test) moves the
   cursor; the three expressions the inline rules advance by pass the test *)
Theorem C01_regex_nonempty_moves :
  forall r st e, nonempty r = true -> match_at r st = Some e -> m_pos st < m_pos e.
Proof. exact match_at_gt. Qed.
Print Assumptions C01_regex_nonempty_moves.

(* ---- render and renderInline never raise ------------------------------------------------------ *)
From MD Require Import Lemmas.BlockKinds Lemmas.RenderSafe.

(* what parse returns meets the renderer's precondition: no token carries an integer "class"
   attribute (the vocabulary of every block rule says so) and no child of an inline token is a fence *)
Theorem C01_parse_output_renderable :
  forall cfg rf cf lt, chains_sub (p_block cfg) ->
  forall src env ts env', parse cfg rf cf lt src env = Ok (ts, env') -> Forall fence_ok_top ts.
Proof. exact parse_renderable. Qed.
Print Assumptions C01_parse_output_renderable.

(* the renderer returns on every such stream (its only raising site is attrJoin on a fence) *)
Theorem C01_render_total_on_parser_output :
  forall o l p, Forall fence_ok_top l -> exists r, render_list o p l = Ok r.
Proof. exact render_total'. Qed.
Print Assumptions C01_render_total_on_parser_output.

(* hence MarkdownIt.render / renderInline never raise: for every source and env, and every
   configuration with the paragraph rule, Ruler-shaped chains, the absent linkifier off and the
   post-processing chain in registration order - whatever the html / typographer / renderer options *)
Theorem C01_render_never_raises :
  forall cfg rf cf lt, chains_sub (p_block cfg) ->
    term_names_ok (p_block cfg) -> mem_str nm_paragraph (c_rules (p_block cfg)) = true ->
    ic_linkify (p_inline cfg) = false -> p_linkify cfg = false -> order_ok (ic_rules2 (p_inline cfg)) = true ->
  forall src env e, render_md cfg rf cf lt src env <> Raise e.
Proof. exact render_md_no_raise. Qed.
Print Assumptions C01_render_never_raises.

Theorem C01_render_inline_never_raises :
  forall cfg rf cf lt, chains_sub (p_block cfg) ->
    term_names_ok (p_block cfg) -> mem_str nm_paragraph (c_rules (p_block cfg)) = true ->
    ic_linkify (p_inline cfg) = false -> p_linkify cfg = false -> order_ok (ic_rules2 (p_inline cfg)) = true ->
  forall src env e, render_inline_md cfg rf cf lt src env <> Raise e.
Proof. exact render_inline_md_no_raise. Qed.
Print Assumptions C01_render_inline_never_raises.

(* ---- the inner scans of the inline model: no answer depends on a fuel constant ------------------ *)
From MD Require Import Lemmas.InlineFuel.
(* companion of the block-model theorems above; the opener search of balance_pairs needs the jump
   table invariant (0 <= jumps[i] <= i) that C01_process_delimiters_safe maintains *)
Theorem C01_inline_run_len_fuel : forall f1 f2 src pos mx m, (Z.to_nat (mx - pos) < f1)%nat -> (Z.to_nat (mx - pos) < f2)%nat -> run_len f1 src pos mx m = run_len f2 src pos mx m.
Proof. exact run_len_fuel. Qed.
Print Assumptions C01_inline_run_len_fuel.
Theorem C01_inline_skip_sp_fwd_fuel : forall f1 f2 src pos mx, (Z.to_nat (mx - pos) < f1)%nat -> (Z.to_nat (mx - pos) < f2)%nat -> skip_sp_fwd f1 src pos mx = skip_sp_fwd f2 src pos mx.
Proof. exact skip_sp_fwd_fuel. Qed.
Print Assumptions C01_inline_skip_sp_fwd_fuel.
Theorem C01_inline_ws_tail_fuel : forall f1 f2 pending ws, (Z.to_nat ws < f1)%nat -> (Z.to_nat ws < f2)%nat -> ws_tail f1 pending ws = ws_tail f2 pending ws.
Proof. exact ws_tail_fuel. Qed.
Print Assumptions C01_inline_ws_tail_fuel.
Theorem C01_inline_skip_ws_nl_i_fuel : forall f1 f2 src pos mx, (Z.to_nat (mx - pos) < f1)%nat -> (Z.to_nat (mx - pos) < f2)%nat -> skip_ws_nl_i f1 src pos mx = skip_ws_nl_i f2 src pos mx.
Proof. exact skip_ws_nl_i_fuel. Qed.
Print Assumptions C01_inline_skip_ws_nl_i_fuel.
Theorem C01_inline_autolink_end_fuel : forall f1 f2 src pos mx, (Z.to_nat (mx - pos) < f1)%nat -> (Z.to_nat (mx - pos) < f2)%nat -> autolink_end f1 src pos mx = autolink_end f2 src pos mx.
Proof. exact autolink_end_fuel. Qed.
Print Assumptions C01_inline_autolink_end_fuel.
Theorem C01_inline_count_s_close_fuel : forall f1 f2 tokens j, (Z.to_nat (len tokens - j) < f1)%nat -> (Z.to_nat (len tokens - j) < f2)%nat -> count_s_close f1 tokens j = count_s_close f2 tokens j.
Proof. exact count_s_close_fuel. Qed.
Print Assumptions C01_inline_count_s_close_fuel.
Theorem C01_inline_st_pass1_fuel : forall f1 f2 ds tokens i lone, (Z.to_nat (len ds - i) < f1)%nat -> (Z.to_nat (len ds - i) < f2)%nat -> st_pass1 f1 ds tokens i lone = st_pass1 f2 ds tokens i lone.
Proof. exact st_pass1_fuel. Qed.
Print Assumptions C01_inline_st_pass1_fuel.
Theorem C01_inline_em_pass_fuel : forall f1 f2 ds tokens i, (Z.to_nat (i + 1) < f1)%nat -> (Z.to_nat (i + 1) < f2)%nat -> em_pass f1 ds tokens i = em_pass f2 ds tokens i.
Proof. exact em_pass_fuel. Qed.
Print Assumptions C01_inline_em_pass_fuel.
Theorem C01_inline_find_opener_d_fuel : forall ds jumps closer c, JI jumps c -> c <= len ds -> forall f1 f2 o mn, o < c -> -1 <= mn -> (Z.to_nat (o - mn) < f1)%nat -> (Z.to_nat (o - mn) < f2)%nat -> find_opener_d f1 ds jumps closer o mn = find_opener_d f2 ds jumps closer o mn.
Proof. exact find_opener_d_fuel. Qed.
Print Assumptions C01_inline_find_opener_d_fuel.
Theorem C01_inline_pd_loop_fuel : forall f1 f2 ds jumps ob c h lt, (Z.to_nat (len ds - c) < f1)%nat -> (Z.to_nat (len ds - c) < f2)%nat -> pd_loop f1 ds jumps ob c h lt = pd_loop f2 ds jumps ob c h lt.
Proof. exact pd_loop_fuel. Qed.
Print Assumptions C01_inline_pd_loop_fuel.
