(* C19 -- typographic replacements are local to text and never touch structure or
   literals.  Statements for ALL token lists.  Only statements and [exact]. *)
From MD Require Import Base.Py Base.Str Base.Opt Base.Regex Model.Token Model.Render Model.Core Lemmas.CoreLemmas.

(* replacements: every inline token keeps all its children; only the content of children of
   type text may differ *)
Theorem C19_replacements_shape :
  forall b ts, map erase_inline (replacements b ts) = map erase_inline ts.
Proof. exact replacements_shape. Qed.
Print Assumptions C19_replacements_shape.

(* smartquotes, for every quotes option (any four strings of any length) *)
Theorem C19_smartquotes_shape :
  forall b quotes ts, map erase_inline (smartquotes b quotes ts) = map erase_inline ts.
Proof. exact smartquotes_shape. Qed.
Print Assumptions C19_smartquotes_shape.

Theorem C19_process_inlines_shape :
  forall quotes tokens, map erase_text (process_inlines quotes tokens) = map erase_text tokens.
Proof. exact process_inlines_shape. Qed.
Print Assumptions C19_process_inlines_shape.

(* escapes / entities (text_special), code spans, raw HTML, link tokens with their
   destinations and titles: every token that is not of type text is byte-identical *)
Theorem C19_non_text_untouched :
  forall quotes ch t i,
    nth_error ch i = Some t -> str_eqb (ttype t) s_text = false ->
    nth_error (process_inlines quotes (replace_walk (fun _ => true) replace_scoped_text ch 0)) i = Some t.
Proof. exact typographer_keeps_non_text. Qed.
Print Assumptions C19_non_text_untouched.

(* text_join, which runs after the typographic rules, merges by type only: streams of the
   same shape join to streams of the same shape -- so the final stream has the same shape
   with the typographer on or off *)
Theorem C19_text_join_shape :
  forall lx ly, map erase_text lx = map erase_text ly ->
    map erase_text (join_children lx) = map erase_text (join_children ly).
Proof. exact join_children_shape. Qed.
Print Assumptions C19_text_join_shape.

Theorem C19_typographer_shape :
  forall quotes ch,
    map erase_text (join_children (process_inlines quotes
        (replace_walk (test Gen.Regexes.re_replacements_RARE_RE) replace_rare_text
           (replace_walk (fun _ => true) replace_scoped_text ch 0) 0)))
    = map erase_text (join_children ch).
Proof.
  intros quotes ch. apply join_children_shape.
  rewrite process_inlines_shape, !replace_walk_shape. reflexivity.
Qed.
Print Assumptions C19_typographer_shape.

(* ---- smartquotes only substitutes straight quote characters, in place -------------------------- *)
From MD Require Import Lemmas.QuoteSubst.

(* [qs quotes a b]: b is a with straight quote characters replaced one at a time: each step
   replaces ONE character that is a straight single or double quote at that moment by the
   apostrophe or by an entry of the quotes option.  [QS quotes ch ch']: position by position, the
   content of ch' is related to the content of ch in this way.  For every quotes option (any
   strings, any length, the empty string included) and every token list: whatever smartquotes
   changes in the children of an inline token is such a substitution - all other text stays. *)
Theorem C19_smartquotes_only_substitutes_quotes :
  forall b quotes ts,
  Forall2 (fun t t' => match tchildren t, tchildren t' with
                       | Some ch, Some ch' => QS quotes ch ch' | None, None => True | _, _ => False end)
          ts (smartquotes b quotes ts).
Proof. exact smartquotes_qs. Qed.
Print Assumptions C19_smartquotes_only_substitutes_quotes.

Theorem C19_process_inlines_only_substitutes_quotes :
  forall quotes tokens, QS quotes tokens (process_inlines quotes tokens).
Proof. exact process_inlines_qs. Qed.
Print Assumptions C19_process_inlines_only_substitutes_quotes.

(* a replacement leaves every position to its left alone - why the positions remembered on the
   stack of unmatched openers stay valid when replacement strings have other lengths than one *)
Theorem C19_replace_at_left_untouched :
  forall (s : str) q x p, 0 <= p -> p < q -> q < len s -> char_at (replace_at s q x) p = char_at s p.
Proof. exact replace_at_before. Qed.
Print Assumptions C19_replace_at_left_untouched.

(* ---- the text of autolinks is left alone -------------------------------------------------------------------
   For every quotes option and every children list: process_inlines returns the content of token j unchanged whenever an
   autolink is open at j - the count of  link_open(info = auto)  minus  link_close(info = auto)  over tokens 0..j, computed as
   the loop computes it, is not zero - and whenever token j is not a text token.  (It rewrites only the token it scans and
   tokens whose quotes are on its stack of openers, and it scans text tokens outside autolinks only.) *)
From MD Require Import Lemmas.QuoteAuto.
Theorem C19_autolink_text_untouched :
  forall quotes tokens j,
    depth_after (firstn (S j) tokens) 0 <> 0 -> content_at (process_inlines quotes tokens) j = content_at tokens j.
Proof. exact process_inlines_skips_autolinks. Qed.
Print Assumptions C19_autolink_text_untouched.

Theorem C19_non_text_content_untouched :
  forall quotes tokens j t,
    nth_error tokens j = Some t -> ttype t <> s_text -> content_at (process_inlines quotes tokens) j = content_at tokens j.
Proof. exact process_inlines_skips_non_text. Qed.
Print Assumptions C19_non_text_content_untouched.

(* the shape  link_open(auto), text, link_close(auto)  of  <http://a.b/"c">  meets the hypothesis at the text token *)
Example C19_autolink_shape :
  forall lo u lc, auto_open lo = true -> auto_close lo = false -> auto_open u = false -> auto_close u = false ->
  depth_after (firstn 2 [lo; u; lc]) 0 <> 0.
Proof. exact autolink_depth. Qed.
