(* C15 -- tokens survive serialisation and tree conversion; rendering is repeatable.
   All statements quantify over ALL tokens / token lists (a superset of what the parser
   can produce).  Only statements and [exact]. *)
From MD Require Import Base.Py Base.Str Base.Opt Model.Token Model.Render Model.Tree
     Lemmas.TokenLemmas Lemmas.TreeLemmas Lemmas.RenderLemmas.

(* Token.from_dict(t.as_dict(children=c, as_upstream=u)) == t for every flag combination,
   for every token whose attrs dict has unique keys (true of every Python dict), at any depth *)
Theorem C15_dict_roundtrip :
  forall t, attrs_okb t = true ->
  forall children upstream, from_dict (depth t) (as_dict children upstream t) = Some t.
Proof. exact dict_roundtrip_all. Qed.
Print Assumptions C15_dict_roundtrip.

(* hence the round-tripped stream renders to the same HTML (it is the same stream) *)
Theorem C15_dict_roundtrip_render :
  forall o ts c u, Forall (fun t => attrs_okb t = true) ts ->
    forall ts', map (fun t => from_dict (depth t) (as_dict c u t)) ts = map Some ts' -> render o ts' = render o ts.
Proof.
  intros o ts c u H ts' E. f_equal.
  revert ts' E. induction H as [|t l Ht Hl IH]; intros [|t' l'] E; cbn in E; try discriminate; [reflexivity|].
  injection E as E1 E2. rewrite (dict_roundtrip_all t Ht c u) in E1. injection E1 as ->. f_equal. apply IH, E2.
Qed.
Print Assumptions C15_dict_roundtrip_render.

(* SyntaxTreeNode(tokens).to_tokens() is the identical token sequence *)
Theorem C15_tree_roundtrip : forall ts n, build ts = Ok n -> to_tokens n = ts.
Proof. exact tree_roundtrip. Qed.
Print Assumptions C15_tree_roundtrip.

(* SyntaxTreeNode(tokens).walk() follows stream order: it yields the tokens in the order of the stream - closing tokens, which
   get no node of their own, left out; the children of an inline / image token directly after it, recursively - for every stream
   whose tokens have nesting -1 / 0 / +1 and carry children only when unnested *)
From MD Require Import Model.StateBlock Model.Block Lemmas.BlockKinds Lemmas.TreeWalk.
Theorem C15_walk_follows_stream_order :
  forall ts n, Forall wfw ts -> build ts = Ok n -> walk_tokens n = stream_walk_list ts.
Proof. exact tree_walk_stream_order. Qed.
Print Assumptions C15_walk_follows_stream_order.

(* what [wfw] says, one level unfolded *)
Theorem C15_wfw_means :
  forall t, wfw t <-> (tnesting t = -1 \/ tnesting t = 0 \/ tnesting t = 1)
                  /\ (tnesting t <> 0 -> tchildren t = None \/ tchildren t = Some [])
                  /\ match tchildren t with Some l => Forall wfw l | None => True end.
Proof. exact wfw_unfold. Qed.
Print Assumptions C15_wfw_means.

(* every stream the block parser returns, under every configuration with chains inside the registered rule set, builds into a
   tree whose walk is the stream without its closing tokens, in order *)
Theorem C15_block_parse_walk :
  forall cfg rf cf, chains_sub cfg -> forall src env st,
  block_parse cfg rf cf src env [] = Ok st ->
  exists n, build (b_tokens st) = Ok n /\ walk_tokens n = filter (fun t => negb (tnesting t =? -1)) (b_tokens st).
Proof. exact block_parse_tree_walk. Qed.
Print Assumptions C15_block_parse_walk.

(* rendering twice: same output, and the tokens left by the first render are a fixed point
   (the only write-back, the image alt attribute, is idempotent) *)
Theorem C15_render_repeatable :
  forall o ts h ts', render o ts = Ok (h, ts') -> render o ts' = Ok (h, ts').
Proof. exact render_repeatable. Qed.
Print Assumptions C15_render_repeatable.

(* and the first render changes nothing but attrs: type, tag, nesting, hidden of every token stay *)
Theorem C15_render_keeps_structure :
  forall o l p cs l', render_list o p l = Ok (cs, l') -> map core l' = map core l.
Proof. intros o l p cs l' H. exact (proj1 (render_list_repeat o l p p cs l' eq_refl H)). Qed.
Print Assumptions C15_render_keeps_structure.

(* non-vacuity: an image with a nested description and an ordered-list start attribute *)
Example C15_nonvacuous :
  let img := Tok [105;109;97;103;101] [105;109;103] 0 [([115;114;99], AStr [120]); ([97;108;116], AStr [])] None 1
                 (Some [Tok [116;101;120;116] [] 0 [] None 0 None [97] [] [] [] false false]) [97] [] [] [] false false in
  let ol := Tok [111;114;100;101;114;101;100;95;108;105;115;116;95;111;112;101;110] [111;108] 1
                [([115;116;97;114;116], AInt 7)] (Some (0, 2)) 0 None [] [46] [] [] true false in
  attrs_okb img = true /\ from_dict (depth img) (as_dict true true img) = Some img
  /\ from_dict (depth ol) (as_dict false false ol) = Some ol.
Proof. vm_compute. repeat split; reflexivity. Qed.
