(* C20 -- work grows at most linearly on adversarial inputs: the guards.  Proved: skipToken is
   memoised (a hit runs no rule; after a miss the position is cached, so its body runs at most
   once per position) and beyond maxNesting the tail is skipped, not recursed into.
   Family-level growth is measured, not proved (see DESIGN.md).  Only statements and [exact]. *)
From RecordUpdate Require Import RecordUpdate.
From MD Require Import Base.Py Base.Str Base.Opt Model.Token Model.Utils Model.Inline Lemmas.InlineLemmas.

Theorem C20_skip_token_hit :
  forall cfg rf cf lt F st p,
    zlookup (i_pos st) (i_cache st) = Some p -> skip_token cfg rf cf lt F st = Ok (st <| i_pos := p |>).
Proof. exact skip_token_hit. Qed.
Print Assumptions C20_skip_token_hit.

Theorem C20_skip_token_memo :
  forall cfg rf cf lt F st st',
    zlookup (i_pos st) (i_cache st) = None ->
    skip_token cfg rf cf lt F st = Ok st' -> zlookup (i_pos st) (i_cache st') = Some (i_pos st').
Proof. exact skip_token_memo. Qed.
Print Assumptions C20_skip_token_memo.

Theorem C20_nesting_cap :
  forall cfg rf cf lt F st,
    zlookup (i_pos st) (i_cache st) = None -> ic_maxNesting cfg <= i_level st ->
    exists st', skip_token cfg rf cf lt F st = Ok st' /\ i_pos st' = i_posMax st + 1.
Proof. exact skip_token_cap. Qed.
Print Assumptions C20_nesting_cap.
