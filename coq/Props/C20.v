(* C20 -- work grows at most linearly on adversarial inputs: the guards.  Proved: skipToken is
   memoised (a hit runs no rule; after a miss the position is cached, so its body runs at most
   once per position) and beyond maxNesting the tail is skipped, not recursed into.
   Family-level growth is measured, not proved (see DESIGN.md).  Only statements and [exact]. *)
From RecordUpdate Require Import RecordUpdate.
From MD Require Import Base.Py Base.Str Base.Opt Model.Token Model.Utils Model.Inline Lemmas.InlineLemmas.

Theorem C20_skip_token_hit :
  forall cfg rf cf lt F st p,
    zlookup (i_pos st) (i_cache st) = Some p -> skip_token cfg rf cf lt F st = Ok (st <| i_pos := p |>).
Proof. exact skip_token_hit. Qed.
Print Assumptions C20_skip_token_hit.

Theorem C20_skip_token_memo :
  forall cfg rf cf lt F st st',
    zlookup (i_pos st) (i_cache st) = None ->
    skip_token cfg rf cf lt F st = Ok st' -> zlookup (i_pos st) (i_cache st') = Some (i_pos st').
Proof. exact skip_token_memo. Qed.
Print Assumptions C20_skip_token_memo.

Theorem C20_nesting_cap :
  forall cfg rf cf lt F st,
    zlookup (i_pos st) (i_cache st) = None -> ic_maxNesting cfg <= i_level st ->
    exists st', skip_token cfg rf cf lt F st = Ok st' /\ i_pos st' = i_posMax st + 1.
Proof. exact skip_token_cap. Qed.
Print Assumptions C20_nesting_cap.

(* ---- the block line loop runs at most once per line ------------------------------------- *)
From MD Require Import Model.StateBlock Model.Block Lemmas.MapWhole.

(* ParserBlock.tokenize's while loop, modelled on explicit fuel: whenever it returns a state at all,
   it returns the same state for EVERY fuel above the number of lines left (el - line) - because
   every pass over the rule chain moves the cursor forward by at least one line.  The loop body
   therefore runs at most el - line + 1 times, for every source and configuration with the
   paragraph rule: the number of rule-chain passes is linear in the number of lines (what is
   NOT covered: the cost of one pass, e.g. the terminator scans of the known findings). *)
Theorem C20_block_loop_once_per_line :
  forall cfg rf cf rec, rec_c rec -> silent_terms cfg -> mem_str nm_paragraph (c_rules cfg) = true ->
  forall f1 f2 st line el hel st',
    tok_loop cfg rf cf f1 rec st line el hel = Ok st' ->
    0 <= line -> line <= b_lineMax st -> el <= b_lineMax st -> TI st ->
    (Z.to_nat (el - line) < f2)%nat ->
    tok_loop cfg rf cf f2 rec st line el hel = Ok st'.
Proof. exact tok_loop_fuel. Qed.
Print Assumptions C20_block_loop_once_per_line.

(* ---- skipToken always advances ------------------------------------------------------------------ *)
From MD Require Import Lemmas.InlineSafe Lemmas.InlineProgress.
(* at every recursion depth and for every rule list: a skipToken call that returns has moved the
   position forward (memo hit, successful rule, or the one-character fallback) - with the memo table
   (C20_skip_token_memo) each position of a paragraph is scanned forward at most once per level *)
Theorem C20_skip_token_advances :
  forall cfg rf cf lt, ic_linkify cfg = false -> order_ok (ic_rules2 cfg) = true ->
  forall d st st', PI st -> i_pos st < i_posMax st ->
  skip_token cfg rf cf lt (ifs cfg rf cf lt d) st = Ok st' -> i_pos st < i_pos st'.
Proof. exact skip_token_advances. Qed.
Print Assumptions C20_skip_token_advances.
