(* C09 -- backslash-escaping makes any text literal.  END TO END ON THE MODEL
   (C09_render_inline_escaped): for EVERY text t made of runs of characters the text rule does not
   stop at and of ASCII punctuation characters, renderInline of the source in which each
   punctuation character is preceded by a backslash is exactly escapeHtml(t) -- for every
   configuration in which the escape rule is reached through text / newline / linkify(off) only,
   whatever inline rules follow it and whatever post-processing rules are enabled.  Inline level
   (C09_inline_escaped_text): the inline parser yields only text / text_special tokens whose
   concatenated content is t.  And: the escape rule turns a
   backslash followed by ANY ASCII punctuation character into a text_special token holding
   exactly that character (every such character is in the escapable table regenerated from
   /repo); text_join then folds it into text (C02_text_join_no_special).  The context statements
   are decided on the implementation each run.  Only statements and [exact]. *)
From MD Require Import Base.Py Base.Str Base.Opt Model.Token Model.Utils Model.StateBlock Model.Core Model.Inline Model.Pipeline
     Model.Block Lemmas.InlineLemmas Lemmas.InlineEsc Lemmas.ParaLine.
From MD Require Import Gen.Tables.

Theorem C09_every_punct_escapable : forallb (fun c => mem_z c escaped_table) md_ascii_punct = true.
Proof. exact punct_escapable. Qed.
Print Assumptions C09_every_punct_escapable.

(* the character classes the wording of the property relies on - "without leading/trailing whitespace", "each ASCII punctuation
   character" - as the code has them now: the two tables are regenerated from /repo on every run, so a change to MD_WHITESPACE or
   MD_ASCII_PUNCT stops these statements from checking (a regenerated table follows the code: no comparison of model and
   implementation can notice) *)
From MD Require Import Lemmas.TablePins.
Theorem C09_markdown_whitespace_is :
  forall c, is_white_space c = true <->
  (9 <= c <= 13 \/ c = 32 \/ c = 160 \/ c = 5760 \/ 8192 <= c <= 8202 \/ c = 8239 \/ c = 8287 \/ c = 12288).
Proof. exact is_white_space_spec. Qed.
Print Assumptions C09_markdown_whitespace_is.

Theorem C09_ascii_punctuation_is :
  md_ascii_punct = [33; 34; 35; 36; 37; 38; 39; 40; 41; 42; 43; 44; 45; 46; 47; 58; 59; 60; 61; 62; 63; 64; 91; 92; 93; 94; 95; 96; 123; 124; 125; 126].
Proof. exact md_ascii_punct_pin. Qed.
Print Assumptions C09_ascii_punctuation_is.

Theorem C09_escape_rule :
  forall st c,
    py_idx (i_src st) (i_pos st) = Ok 92 -> i_pos st + 1 < i_posMax st ->
    py_idx (i_src st) (i_pos st + 1) = Ok c -> is_md_ascii_punct c = true -> i_pending st = [] ->
    exists st', r_escape st false = Ok (true, st') /\ i_pos st' = i_pos st + 2
      /\ exists t, i_tokens st' = i_tokens st ++ [t] /\ ttype t = s_text_special_ /\ tcontent t = [c]
                   /\ tmarkup t = [92; c] /\ tnesting t = 0.
Proof. exact escape_punct. Qed.
Print Assumptions C09_escape_rule.

(* the inline parser on an escaped text: text-like tokens whose contents concatenate to the text *)
Theorem C09_inline_escaped_text :
  forall cfg reformat casefold linktext F pre post,
    ic_rules cfg = pre ++ n_escape :: post ->
    Forall (fun n => n = n_text \/ n = n_linkify \/ n = n_newline) pre -> In n_text pre ->
    ic_linkify cfg = false -> 0 < ic_maxNesting cfg ->
    forall segs env, wf segs ->
    exists toks, inline_parse_with cfg reformat casefold linktext F (src_of segs) env [] = Ok toks
                 /\ contents toks = text_of segs /\ Forall textlike toks.
Proof. exact inline_parse_esc_with. Qed.
Print Assumptions C09_inline_escaped_text.

(* renderInline(esc(t)) = escapeHtml(t) *)
Theorem C09_render_inline_escaped :
  forall cfg reformat casefold linktext pre post,
    ic_rules (p_inline cfg) = pre ++ n_escape :: post ->
    Forall (fun n => n = n_text \/ n = n_linkify \/ n = n_newline) pre -> In n_text pre ->
    ic_linkify (p_inline cfg) = false -> 0 < ic_maxNesting (p_inline cfg) ->
    p_core cfg = [n_normalize; n_block; n_inline; n_text_join] ->
    forall segs env,
      wf segs -> mem_z 13 (src_of segs) = false -> mem_z 0 (src_of segs) = false ->
      render_inline_md cfg reformat casefold linktext (src_of segs) env = Ok (escape_html (text_of segs), env).
Proof. exact render_inline_esc. Qed.
Print Assumptions C09_render_inline_escaped.

(* the paragraph context: render(esc(t) LF) = <p> escapeHtml(t) </p> LF *)
Theorem C09_render_paragraph_escaped :
  forall cfg reformat casefold linktext segs, wf segs -> line_ok (src_of segs) ->
    mem_z 13 (src_of segs) = false -> mem_z 0 (src_of segs) = false ->
  forall bpre bpost, c_rules (p_block cfg) = bpre ++ nm_paragraph :: bpost ->
    Forall (fun n => str_eqb n nm_paragraph = false) bpre -> 0 < c_maxNesting (p_block cfg) ->
    p_core cfg = [n_normalize; n_block; n_inline; n_text_join] ->
  forall ipre ipost, ic_rules (p_inline cfg) = ipre ++ n_escape :: ipost ->
    Forall (fun n => n = n_text \/ n = n_linkify \/ n = n_newline) ipre -> In n_text ipre ->
    ic_linkify (p_inline cfg) = false -> 0 < ic_maxNesting (p_inline cfg) ->
  forall env,
    render_md cfg reformat casefold linktext (src_of segs ++ [10]) env
    = Ok ([60; 112; 62] ++ escape_html (text_of segs) ++ [60; 47; 112; 62; 10], env).
Proof. exact render_para_esc. Qed.
Print Assumptions C09_render_paragraph_escaped.

(* the heading context: render("# " esc(t) LF) = <h1> escapeHtml(t) </h1> LF, for every text whose
   escaped form starts with a letter, has no blank at either end and does not end in '#' *)
From MD Require Import Lemmas.HeadLine.
Theorem C09_render_heading_escaped :
  forall cfg reformat casefold linktext segs, wf segs -> head_ok (src_of segs) ->
    mem_z 13 (src_of segs) = false -> mem_z 0 (src_of segs) = false ->
  forall bpre bpost, c_rules (p_block cfg) = bpre ++ nm_heading :: bpost ->
    Forall (fun n => str_eqb n nm_heading = false /\ str_eqb n nm_paragraph = false /\ str_eqb n nm_lheading = false) bpre ->
    0 < c_maxNesting (p_block cfg) -> p_core cfg = [n_normalize; n_block; n_inline; n_text_join] ->
  forall ipre ipost, ic_rules (p_inline cfg) = ipre ++ n_escape :: ipost ->
    Forall (fun n => n = n_text \/ n = n_linkify \/ n = n_newline) ipre -> In n_text ipre ->
    ic_linkify (p_inline cfg) = false -> 0 < ic_maxNesting (p_inline cfg) ->
  forall env,
    render_md cfg reformat casefold linktext ((35 :: 32 :: src_of segs) ++ [10]) env
    = Ok ([60; 104; 49; 62] ++ escape_html (text_of segs) ++ [60; 47; 104; 49; 62; 10], env).
Proof. exact render_heading_esc. Qed.
Print Assumptions C09_render_heading_escaped.

(* every nesting of block quotes and list items (bullets - * + with 1-4 blanks, any depth below maxNesting):
   parse(prefix(cs) esc(t) LF) is the paragraph wrapped in those containers, and the children of its inline token
   are ONE text token whose content is exactly t - the escaped text is literal in every such context *)
From MD Require Import Model.Block Model.Render Lemmas.ParaLine Lemmas.NestLine.
Theorem C09_nested_containers_escaped :
  forall cfg rf cf lt (segs : list seg), wf segs -> line_ok (src_of segs) ->
    mem_z 13 (src_of segs) = false -> mem_z 0 (src_of segs) = false ->
  forall RA RB RC RD, c_rules (p_block cfg) = RA ++ nm_blockquote :: RB ++ nm_list :: RC ++ nm_paragraph :: RD ->
    Forall (fun n => n = nm_table \/ n = nm_code \/ n = nm_fence) RA ->
    Forall (fun n => n = nm_table \/ n = nm_code \/ n = nm_fence \/ n = nm_hr) RB ->
    Forall (fun n => str_eqb n nm_paragraph = false) RC ->
    p_core cfg = [n_normalize; n_block; n_inline; n_text_join] ->
  forall ipre ipost, ic_rules (p_inline cfg) = ipre ++ n_escape :: ipost ->
    Forall (fun n => n = n_text \/ n = n_linkify \/ n = n_newline) ipre -> In n_text ipre ->
    ic_linkify (p_inline cfg) = false -> 0 < ic_maxNesting (p_inline cfg) ->
  forall cs, Forall okc cs -> weight cs < c_maxNesting (p_block cfg) ->
  forall env, exists p,
    parse cfg rf cf lt (prefix cs ++ src_of segs ++ [10]) env = Ok (wrapc (src_of segs) cs 0 false [p], env)
    /\ ttype p = s_text /\ tcontent p = text_of segs.
Proof. exact parse_nested_escaped. Qed.
Print Assumptions C09_nested_containers_escaped.

(* ... and at the HTML level: render(prefix(cs) esc(t) LF) is escapeHtml(t) between the tags of exactly those containers
   (nest_html: <blockquote> per quote, <ul><li> per item, <p> only when the paragraph is not directly in a tight item) *)
From MD Require Import Lemmas.NestRender.
Theorem C09_render_nested_containers_escaped :
  forall cfg rf cf lt (segs : list seg), wf segs -> line_ok (src_of segs) ->
    mem_z 13 (src_of segs) = false -> mem_z 0 (src_of segs) = false ->
  forall RA RB RC RD, c_rules (p_block cfg) = RA ++ nm_blockquote :: RB ++ nm_list :: RC ++ nm_paragraph :: RD ->
    Forall (fun n => n = nm_table \/ n = nm_code \/ n = nm_fence) RA ->
    Forall (fun n => n = nm_table \/ n = nm_code \/ n = nm_fence \/ n = nm_hr) RB ->
    Forall (fun n => str_eqb n nm_paragraph = false) RC ->
    p_core cfg = [n_normalize; n_block; n_inline; n_text_join] ->
  forall ipre ipost, ic_rules (p_inline cfg) = ipre ++ n_escape :: ipost ->
    Forall (fun n => n = n_text \/ n = n_linkify \/ n = n_newline) ipre -> In n_text ipre ->
    ic_linkify (p_inline cfg) = false -> 0 < ic_maxNesting (p_inline cfg) ->
  forall cs, Forall okc cs -> weight cs < c_maxNesting (p_block cfg) ->
  forall env,
    render_md cfg rf cf lt (prefix cs ++ src_of segs ++ [10]) env
    = Ok (nest_html cs false (escape_html (text_of segs)), env).
Proof. exact render_nested_escaped. Qed.
Print Assumptions C09_render_nested_containers_escaped.

Example C09_nest_html_reads :
  nest_html [CQ; CI 45 1] false [120] = [60; 98; 108; 111; 99; 107; 113; 117; 111; 116; 101; 62; 10; 60; 117; 108; 62; 10; 60; 108; 105; 62; 120; 60; 47; 108; 105; 62; 10; 60; 47; 117; 108; 62; 10; 60; 47; 98; 108; 111; 99; 107; 113; 117; 111; 116; 101; 62; 10]
  /\ nest_html [CI 42 2; CQ] false [120] = [60; 117; 108; 62; 10; 60; 108; 105; 62; 10; 60; 98; 108; 111; 99; 107; 113; 117; 111; 116; 101; 62; 10; 60; 112; 62; 120; 60; 47; 112; 62; 10; 60; 47; 98; 108; 111; 99; 107; 113; 117; 111; 116; 101; 62; 10; 60; 47; 108; 105; 62; 10; 60; 47; 117; 108; 62; 10].
Proof. exact nest_html_examples. Qed.
