(* C09 -- backslash-escaping makes any text literal.  Proved so far: the escape rule turns a
   backslash followed by ANY ASCII punctuation character into a text_special token holding
   exactly that character (every such character is in the escapable table regenerated from
   /repo); text_join then folds it into text (C02_text_join_no_special).  The context statements
   are decided on the implementation each run.  Only statements and [exact]. *)
From MD Require Import Base.Py Base.Str Base.Opt Model.Token Model.Utils Model.Inline Lemmas.InlineLemmas.
From MD Require Import Gen.Tables.

Theorem C09_every_punct_escapable : forallb (fun c => mem_z c escaped_table) md_ascii_punct = true.
Proof. exact punct_escapable. Qed.
Print Assumptions C09_every_punct_escapable.

Theorem C09_escape_rule :
  forall st c,
    py_idx (i_src st) (i_pos st) = Ok 92 -> i_pos st + 1 < i_posMax st ->
    py_idx (i_src st) (i_pos st + 1) = Ok c -> is_md_ascii_punct c = true -> i_pending st = [] ->
    exists st', r_escape st false = Ok (true, st') /\ i_pos st' = i_pos st + 2
      /\ exists t, i_tokens st' = i_tokens st ++ [t] /\ ttype t = s_text_special_ /\ tcontent t = [c]
                   /\ tmarkup t = [92; c] /\ tnesting t = 0.
Proof. exact escape_punct. Qed.
Print Assumptions C09_escape_rule.
