(* C16 -- reference definitions act through env.  Proved for a WHOLE parse, every source, env,
   configuration and core chain (C16_parse_env_extends, C16_block_parse_env_extends): the
   definitions already in env stay exactly where they are (a prefix of the new list: the first
   definition of a label wins, across parses too), every new entry is appended under a label that
   was absent, later definitions of a present label are appended to duplicate_refs, nothing is
   removed, and every recorded destination is a validated normalizeLink result.  And: what the reference rule does to env on
   EVERY invocation -- failure and silent mode leave it unchanged; a successful call records
   exactly one definition with the map of its own lines, as a new entry iff the label is absent,
   else as a duplicate; nothing is ever overwritten or removed (first definition wins).
   Only statements and [exact]. *)
From MD Require Import Base.Py Base.Str Base.Opt Model.Token Model.Utils Model.Url Model.StateBlock Model.Block Model.Inline Model.Pipeline
     Lemmas.BlockLemmas Lemmas.EnvLemmas Lemmas.PipelineUrls Lemmas.CollapseWs.

Theorem C16_reference_env :
  forall cfg rf cf tm st startLine endLine silent b st',
    term_keeps_env tm ->
    r_reference cfg rf cf tm st startLine endLine silent = Ok (b, st') ->
    (b = false \/ silent = true -> b_env st' = b_env st)
    /\ (b = true -> silent = false ->
        exists label rec,
          r_map rec = (startLine, b_line st') /\
          ((alookup label (env_refs (b_env st)) = None
            /\ e_refs (b_env st') = Some (env_refs (b_env st) ++ [(label, rec)])
            /\ e_dups (b_env st') = e_dups (b_env st))
           \/ (alookup label (env_refs (b_env st)) <> None
               /\ e_refs (b_env st') = Some (env_refs (b_env st))
               /\ e_dups (b_env st') = Some (env_dups (b_env st) ++ [(label, rec)])))).
Proof. exact reference_env. Qed.
Print Assumptions C16_reference_env.

(* what env_ext says (for reading the theorems below) *)
Definition C16_env_ext_means :
  forall rf e e', env_ext rf e e' <->
    exists added dups,
      env_refs e' = env_refs e ++ added /\ env_dups e' = env_dups e ++ dups
      /\ Forall (good_ref rf) added /\ Forall (good_ref rf) dups
      /\ Forall (fun lr => alookup (fst lr) (env_refs e) = None) added
  := fun rf e e' => conj (fun H => H) (fun H => H).

(* the block parser, any nesting, any rule subset *)
Theorem C16_block_parse_env_extends :
  forall cfg reformat casefold src env toks st,
    block_parse cfg reformat casefold src env toks = Ok st -> env_ext reformat env (b_env st).
Proof. exact block_parse_env. Qed.
Print Assumptions C16_block_parse_env_extends.

(* MarkdownIt.parse with any core chain *)
Theorem C16_parse_env_extends :
  forall cfg reformat casefold linktext src env ts env',
    parse cfg reformat casefold linktext src env = Ok (ts, env') -> env_ext reformat env env'.
Proof. exact parse_env_extends. Qed.
Print Assumptions C16_parse_env_extends.

(* ---- labels match with internal white space collapsed ----
   normalizeReference is  casefold(re.sub(r"\s+", " ", label.strip())).  The regular expression,
   executed by the model's backtracking matcher on EVERY string, computes the direct function
   [collapse]: each maximal run of white space becomes one space, everything else is copied. *)
Theorem C16_collapse_is_runs_to_one_space : forall s, collapse_ws s = collapse s.
Proof. exact collapse_ws_is_collapse. Qed.
Print Assumptions C16_collapse_is_runs_to_one_space.

(* so two spellings of a label that differ only in how one internal run of white space is
   written (any non-empty runs, of any characters of \s, any length) have the same key ... *)
Theorem C16_label_internal_whitespace :
  forall casefold c a w1 w2 b d,
    is_py_space c = false -> is_py_space d = false ->
    w1 <> [] -> w2 <> [] -> forallb wsb w1 = true -> forallb wsb w2 = true ->
    normalize_reference casefold (c :: a ++ w1 ++ b ++ [d]) = normalize_reference casefold (c :: a ++ w2 ++ b ++ [d]).
Proof. exact normalize_reference_respelling. Qed.
Print Assumptions C16_label_internal_whitespace.

(* ... and white space around the label does not matter at all *)
Theorem C16_label_outer_whitespace :
  forall casefold l s r,
    forallb is_py_space l = true -> forallb is_py_space r = true ->
    (match s with [] => true | c :: _ => negb (is_py_space c) end) = true ->
    (match rev s with [] => true | c :: _ => negb (is_py_space c) end) = true ->
    normalize_reference casefold (l ++ s ++ r) = normalize_reference casefold s.
Proof. exact normalize_reference_outer. Qed.
Print Assumptions C16_label_outer_whitespace.

Example C16_label_whitespace_example :
  collapse_ws [102; 111; 111; 32; 9; 10; 98; 97; 114] = [102; 111; 111; 32; 98; 97; 114]
  /\ forallb wsb [32; 9; 10] = true /\ is_py_space 102 = false.
Proof. vm_compute. repeat split. Qed.
