(* C16 -- reference definitions act through env.  Proved: what the reference rule does to env on
   EVERY invocation -- failure and silent mode leave it unchanged; a successful call records
   exactly one definition with the map of its own lines, as a new entry iff the label is absent,
   else as a duplicate; nothing is ever overwritten or removed (first definition wins).
   Only statements and [exact]. *)
From MD Require Import Base.Py Base.Str Base.Opt Model.Token Model.Utils Model.StateBlock Model.Block Lemmas.BlockLemmas.

Theorem C16_reference_env :
  forall cfg rf cf tm st startLine endLine silent b st',
    term_keeps_env tm ->
    r_reference cfg rf cf tm st startLine endLine silent = Ok (b, st') ->
    (b = false \/ silent = true -> b_env st' = b_env st)
    /\ (b = true -> silent = false ->
        exists label rec,
          r_map rec = (startLine, b_line st') /\
          ((alookup label (env_refs (b_env st)) = None
            /\ e_refs (b_env st') = Some (env_refs (b_env st) ++ [(label, rec)])
            /\ e_dups (b_env st') = e_dups (b_env st))
           \/ (alookup label (env_refs (b_env st)) <> None
               /\ e_refs (b_env st') = Some (env_refs (b_env st))
               /\ e_dups (b_env st') = Some (env_dups (b_env st) ++ [(label, rec)])))).
Proof. exact reference_env. Qed.
Print Assumptions C16_reference_env.
