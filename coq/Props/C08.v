(* C08 -- verbatim content and recorded markup come from the source, unaltered.
   Proved so far: the thematic-break markup has exactly as many marker characters as its line
   (the defect found at design time, repaired in /repo).  Only statements and [exact]. *)
From MD Require Import Base.Py Base.Str Base.Opt Model.Token Model.Utils Model.StateBlock Model.Block Lemmas.BlockLemmas.

Theorem C08_hr_markup :
  forall cfg st startLine endLine st',
    r_hr cfg st startLine endLine false = Ok (true, st') ->
    exists t pos maximum marker,
      b_tokens st' = b_tokens st ++ [t]
      /\ line_start st startLine = Ok pos /\ tb (b_eMarks st) startLine = Ok maximum
      /\ char_at (b_src st) pos = Some marker
      /\ (0 <= pos -> 0 <= maximum <= len (b_src st) ->
          tmarkup t = rep marker (1 + count_marker (slice (b_src st) (pos + 1) maximum) marker)).
Proof.
  intros cfg st s e st' H. destruct (r_hr_spec cfg st s e st' H) as [_ [t [pos [mx [mk [A [_ [B [C [D E]]]]]]]]]].
  exists t, pos, mx, mk. repeat split; assumption.
Qed.
Print Assumptions C08_hr_markup.

(* hr_scan counts exactly the marker characters of the scanned range *)
Theorem C08_hr_count :
  forall fuel src pos maximum marker cnt r,
    hr_scan fuel src pos maximum marker cnt = Ok (Some r) ->
    0 <= pos -> 0 <= maximum -> (Z.to_nat (maximum - pos) < fuel)%nat -> maximum <= len src ->
    r = cnt + count_marker (slice src pos maximum) marker.
Proof. exact hr_scan_count. Qed.
Print Assumptions C08_hr_count.
