(* C08 -- verbatim content and recorded markup come from the source, unaltered.
   Proved so far: the thematic-break markup has exactly as many marker characters as its line
   (the defect found at design time, repaired in /repo).  Only statements and [exact]. *)
From MD Require Import Base.Py Base.Str Base.Opt Model.Token Model.Utils Model.StateBlock Model.Block Lemmas.BlockLemmas.

Theorem C08_hr_markup :
  forall cfg st startLine endLine st',
    r_hr cfg st startLine endLine false = Ok (true, st') ->
    exists t pos maximum marker,
      b_tokens st' = b_tokens st ++ [t]
      /\ line_start st startLine = Ok pos /\ tb (b_eMarks st) startLine = Ok maximum
      /\ char_at (b_src st) pos = Some marker
      /\ (0 <= pos -> 0 <= maximum <= len (b_src st) ->
          tmarkup t = rep marker (1 + count_marker (slice (b_src st) (pos + 1) maximum) marker)).
Proof.
  intros cfg st s e st' H. destruct (r_hr_spec cfg st s e st' H) as [_ [t [pos [mx [mk [A [_ [B [C [D E]]]]]]]]]].
  exists t, pos, mx, mk. repeat split; assumption.
Qed.
Print Assumptions C08_hr_markup.

(* hr_scan counts exactly the marker characters of the scanned range *)
Theorem C08_hr_count :
  forall fuel src pos maximum marker cnt r,
    hr_scan fuel src pos maximum marker cnt = Ok (Some r) ->
    0 <= pos -> 0 <= maximum -> (Z.to_nat (maximum - pos) < fuel)%nat -> maximum <= len src ->
    r = cnt + count_marker (slice src pos maximum) marker.
Proof. exact hr_scan_count. Qed.
Print Assumptions C08_hr_count.

(* ---- getLines: line for line a suffix of the source line -------------------------------- *)
From MD Require Import Model.Render Model.Inline Lemmas.Verbatim.

(* For EVERY state (any nesting, any table contents), line range and indent >= 0: the result is
   the concatenation, over the lines of the range, of  k spaces ++ src[first : end-of-line]  where
   first >= the line's logical start, every dropped position holds a blank or lies in the
   container prefix (offset < tShift), k <= 3, and k > 0 only directly after a dropped tab. *)
Theorem C08_get_lines_verbatim :
  forall st a b indent keep content,
    get_lines st a b indent keep = Ok content -> 0 <= indent -> pieces st b keep a content.
Proof. exact get_lines_verbatim. Qed.
Print Assumptions C08_get_lines_verbatim.

(* the three verbatim rules hand exactly the lines of their map to getLines *)
Theorem C08_code_block_content :
  forall cfg st sl el st',
    r_code cfg st sl el false = Ok (true, st') ->
    exists t content, last_tok st st' t /\ tmap t = Some (sl, b_line st')
      /\ tcontent t = content ++ [10]
      /\ get_lines st sl (b_line st') (4 + b_blkIndent st) false = Ok content.
Proof. exact r_code_content. Qed.
Print Assumptions C08_code_block_content.

Theorem C08_fence_content_markup_info :
  forall cfg st sl el st',
    r_fence cfg st sl el false = Ok (true, st') ->
    exists t nl ind pos e marker, last_tok st st' t /\ tmap t = Some (sl, b_line st')
      /\ (b_line st' = nl \/ b_line st' = nl + 1)
      /\ tb (b_sCount st) sl = Ok ind
      /\ get_lines st (sl + 1) nl ind true = Ok (tcontent t)
      /\ line_start st sl = Ok pos /\ tb (b_eMarks st) sl = Ok e
      /\ (marker = 126 \/ marker = 96)
      /\ let p2 := skip_chars (b_src st) pos marker in
         pos + 3 <= p2 /\ tmarkup t = slice (b_src st) pos p2 /\ tinfo t = slice (b_src st) p2 e.
Proof. exact r_fence_content. Qed.
Print Assumptions C08_fence_content_markup_info.

Theorem C08_fence_markup_is_marker_run :
  forall src pos m, 0 <= pos -> Forall (fun c => c = m) (slice src pos (skip_chars src pos m)).
Proof. exact skip_chars_run. Qed.
Print Assumptions C08_fence_markup_is_marker_run.

Theorem C08_html_block_content :
  forall cfg st sl el st',
    r_html_block cfg st sl el false = Ok (true, st') ->
    exists t, last_tok st st' t /\ tmap t = Some (sl, b_line st')
      /\ get_lines st sl (b_line st') (b_blkIndent st) true = Ok (tcontent t).
Proof. exact r_html_block_content. Qed.
Print Assumptions C08_html_block_content.

Theorem C08_heading_markup :
  forall cfg st sl el st' pos,
    r_heading cfg st sl el false = Ok (true, st') -> line_start st sl = Ok pos -> 0 <= pos ->
    exists o i c e level m2,
      b_tokens st' = b_tokens st ++ [o; i; c]
      /\ tb (b_eMarks st) sl = Ok e
      /\ 1 <= level <= 6 /\ tmarkup o = rep 35 level /\ tmarkup c = rep 35 level
      /\ (forall q, pos <= q < pos + level -> char_at (b_src st) q = Some 35)
      /\ (pos + level < e -> is_space_at (b_src st) (pos + level) = true)
      /\ tmap o = Some (sl, sl + 1) /\ tmap i = Some (sl, sl + 1)
      /\ tcontent i = strip_by is_space (slice (b_src st) (pos + level) m2).
Proof. exact r_heading_markup. Qed.
Print Assumptions C08_heading_markup.

(* a code span: opening and closing backtick strings of equal length, the text between them with
   line feeds as spaces and one padding space stripped from each side under the CommonMark rule *)
Theorem C08_code_span_content :
  forall st st',
    r_backticks st false = Ok (true, st') -> 0 <= i_pos st -> i_pos st < len (i_src st) ->
    (i_tokens st' = i_tokens st)
    \/ exists pre t pos ms me,
         i_tokens st' = pre ++ [t] /\ ttype t = s_code_inline
         /\ i_pos st < pos /\ pos <= ms /\ ms < me /\ i_pos st' = me
         /\ me - ms = pos - i_pos st
         /\ (forall q, i_pos st <= q < pos -> py_idx (i_src st) q = Ok 96)
         /\ (forall q, ms <= q < me -> py_idx (i_src st) q = Ok 96)
         /\ tmarkup t = slice (i_src st) (i_pos st) pos
         /\ tcontent t = code_span_text (slice (i_src st) pos ms).
Proof. exact r_backticks_content. Qed.
Print Assumptions C08_code_span_content.

(* the hypotheses are met: a tab-indented code line under indent 2 keeps two spaces of the first
   tab, and the rules succeed on concrete documents *)
Example C08_get_lines_applies :
  get_lines (state_init [9; 9; 102; 10; 32; 32; 32; 103; 10] env0 []) 0 2 2 false
  = Ok [32; 32; 9; 102; 10; 32; 103].
Proof. vm_compute. reflexivity. Qed.

(* ---- ordered-list start / info / markup equal what was written -------------------------------------------------
   For every ordered marker  digits delimiter blanks  (1-9 digits, '.' or ')', 1-4 spaces) in front of a line s, nested in
   any list cs of containers: parse(prefix(cs ++ [marker]) s LF) carries, at the place of that list, ordered_list_open with
   markup = the delimiter written and start = the number written (no start attribute when it is 1), and list_item_open
   with info = the digits written, character for character (leading zeros kept), and markup = the delimiter. *)
From MD Require Import Model.Pipeline Model.Inline Model.Core Lemmas.ParaLine Lemmas.NestLine.
Theorem C08_ordered_marker_recorded :
  forall cfg rf cf lt s, line_ok s -> mem_z 13 s = false -> mem_z 0 s = false ->
  forall RA RB RC RD, c_rules (p_block cfg) = RA ++ nm_blockquote :: RB ++ nm_list :: RC ++ nm_paragraph :: RD ->
    Forall (fun n => n = nm_table \/ n = nm_code \/ n = nm_fence) RA ->
    Forall (fun n => n = nm_table \/ n = nm_code \/ n = nm_fence \/ n = nm_hr) RB ->
    Forall (fun n => str_eqb n nm_paragraph = false) RC ->
    p_core cfg = [n_normalize; n_block; n_inline; n_text_join] ->
  forall d0 ds dl k, okc (CO d0 ds dl k) -> 2 < c_maxNesting (p_block cfg) ->
  forall env,
    parse cfg rf cf lt (((d0 :: ds) ++ dl :: repeat 32 k) ++ s ++ [10]) env
    = (do toks <- inline_parse (p_inline cfg) rf cf lt s env [];
       Ok (ol_open_at dl (int_of_digits (d0 :: ds)) 0 :: li_open_g true (d0 :: ds) dl 1 :: wrapc s [] 2 true (join_children toks)
           ++ [li_close_at dl 1; ol_close_at dl 0], env))
    /\ tinfo (li_open_g true (d0 :: ds) dl 1) = d0 :: ds /\ tmarkup (li_open_g true (d0 :: ds) dl 1) = [dl]
    /\ tmarkup (ol_open_at dl (int_of_digits (d0 :: ds)) 0) = [dl]
    /\ (int_of_digits (d0 :: ds) <> 1 -> tattrs (ol_open_at dl (int_of_digits (d0 :: ds)) 0) = [(s_start, AInt (int_of_digits (d0 :: ds)))])
    /\ (int_of_digits (d0 :: ds) = 1 -> tattrs (ol_open_at dl (int_of_digits (d0 :: ds)) 0) = []).
Proof. exact ordered_marker_recorded. Qed.
Print Assumptions C08_ordered_marker_recorded.
