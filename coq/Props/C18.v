(* C18 -- render options are inert outside their documented place (renderer half).
   Statements for ALL token lists.  Only statements and [exact]. *)
From MD Require Import Base.Py Base.Str Base.Opt Model.Token Model.Utils Model.Render Lemmas.RenderLemmas.

(* xhtmlOut: the tokens left behind are the same, and the outputs coincide once the two
   void-tag spellings (" /" and <br /> vs <br>) are erased *)
Theorem C18_xhtmlOut_local :
  forall o l p c1 l1 c2 l2,
    render_list (with_xhtml o true) p l = Ok (c1, l1) ->
    render_list (with_xhtml o false) p l = Ok (c2, l2) ->
    l1 = l2 /\ flat_map erase_void c1 = flat_map erase_void c2.
Proof. exact render_list_xhtml. Qed.
Print Assumptions C18_xhtmlOut_local.

(* breaks: on any token it selects the hard-break spelling for softbreak tokens, nothing else *)
Theorem C18_breaks_local :
  forall o p t n,
    render_one (with_breaks o true) p t n =
    if str_eqb (ttype t) s_softbreak && negb (str_eqb (ttype t) s_code_inline || str_eqb (ttype t) s_code_block
         || str_eqb (ttype t) s_fence || str_eqb (ttype t) s_image || str_eqb (ttype t) s_hardbreak)
    then Ok ([CLit (br o)], t)
    else render_one (with_breaks o false) p t n.
Proof. exact render_one_breaks. Qed.
Print Assumptions C18_breaks_local.

(* breaks, langPrefix, highlight are read for softbreak / fence tokens only *)
Theorem C18_option_frame :
  forall o o' p t n, o_xhtml o = o_xhtml o' ->
    str_eqb (ttype t) s_softbreak = false -> str_eqb (ttype t) s_fence = false ->
    render_one o p t n = render_one o' p t n.
Proof. exact render_one_option_frame. Qed.
Print Assumptions C18_option_frame.

(* langPrefix: within a fence, only escaped data (the class value) may differ *)
Theorem C18_langPrefix_local :
  forall lp1 lp2 t info hl c1 c2,
    render_fence_core lp1 t info hl = Ok c1 -> render_fence_core lp2 t info hl = Ok c2 ->
    Forall2 same_but_data c1 c2.
Proof. exact render_fence_langPrefix. Qed.
Print Assumptions C18_langPrefix_local.
