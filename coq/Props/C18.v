(* C18 -- inline text means the same in every block context; render options are inert outside
   their documented place.  Context half, proved for the paragraph context: for EVERY line s that
   starts with a letter, ends in a non-blank and has no line-end character, and every
   configuration whose block chain contains the paragraph rule, parse(s LF) is paragraph_open,
   inline, paragraph_close where the inline token has content s and children
   join(inline_parse s) -- literally the children parseInline(s) gives its single inline token
   (C18_paragraph_is_parse_inline: two equations with the same right-hand sub-term).  Renderer
   half: statements for ALL token lists.  Only statements and [exact]. *)
From MD Require Import Base.Py Base.Str Base.Opt Model.Token Model.Utils Model.Render Model.Core Model.StateBlock Model.Block Model.Inline Model.Pipeline
     Lemmas.RenderLemmas Lemmas.NormalizeLemmas Lemmas.ParaLine.

(* xhtmlOut: the tokens left behind are the same, and the outputs coincide once the two
   void-tag spellings (" /" and <br /> vs <br>) are erased *)
Theorem C18_xhtmlOut_local :
  forall o l p c1 l1 c2 l2,
    render_list (with_xhtml o true) p l = Ok (c1, l1) ->
    render_list (with_xhtml o false) p l = Ok (c2, l2) ->
    l1 = l2 /\ flat_map erase_void c1 = flat_map erase_void c2.
Proof. exact render_list_xhtml. Qed.
Print Assumptions C18_xhtmlOut_local.

(* breaks: on any token it selects the hard-break spelling for softbreak tokens, nothing else *)
Theorem C18_breaks_local :
  forall o p t n,
    render_one (with_breaks o true) p t n =
    if str_eqb (ttype t) s_softbreak && negb (str_eqb (ttype t) s_code_inline || str_eqb (ttype t) s_code_block
         || str_eqb (ttype t) s_fence || str_eqb (ttype t) s_image || str_eqb (ttype t) s_hardbreak)
    then Ok ([CLit (br o)], t)
    else render_one (with_breaks o false) p t n.
Proof. exact render_one_breaks. Qed.
Print Assumptions C18_breaks_local.

(* breaks, langPrefix, highlight are read for softbreak / fence tokens only *)
Theorem C18_option_frame :
  forall o o' p t n, o_xhtml o = o_xhtml o' ->
    str_eqb (ttype t) s_softbreak = false -> str_eqb (ttype t) s_fence = false ->
    render_one o p t n = render_one o' p t n.
Proof. exact render_one_option_frame. Qed.
Print Assumptions C18_option_frame.

(* langPrefix: within a fence, only escaped data (the class value) may differ *)
Theorem C18_langPrefix_local :
  forall lp1 lp2 t info hl c1 c2,
    render_fence_core lp1 t info hl = Ok c1 -> render_fence_core lp2 t info hl = Ok c2 ->
    Forall2 same_but_data c1 c2.
Proof. exact render_fence_langPrefix. Qed.
Print Assumptions C18_langPrefix_local.

(* the paragraph context hands the inline parser the same string as inline mode, and keeps its result *)
Theorem C18_paragraph_is_parse_inline :
  forall cfg reformat casefold linktext s, line_ok s -> mem_z 13 s = false -> mem_z 0 s = false ->
  forall pre post, c_rules (p_block cfg) = pre ++ nm_paragraph :: post ->
    Forall (fun n => str_eqb n nm_paragraph = false) pre -> 0 < c_maxNesting (p_block cfg) ->
    p_core cfg = [n_normalize; n_block; n_inline; n_text_join] ->
  forall env,
    parse cfg reformat casefold linktext (s ++ [10]) env
    = (do toks <- inline_parse (p_inline cfg) reformat casefold linktext s env [];
       Ok ([p_open; set_children (p_inl s) (Some (join_children toks)); p_close], env))
    /\ parse_inline cfg reformat casefold linktext s env
       = (do toks <- inline_parse (p_inline cfg) reformat casefold linktext s env [];
          Ok ([set_children (i_inl s) (Some (join_children toks))], env)).
Proof. exact paragraph_is_parse_inline. Qed.
Print Assumptions C18_paragraph_is_parse_inline.

(* ---- the heading context -------------------------------------------------------------------------- *)
From MD Require Import Lemmas.HeadLine.

(* For EVERY text t that starts with a letter, has no line end inside, no blank at either end and
   does not end in '#' (the property's guard for ATX), every configuration whose block chain reaches
   the heading rule before lheading / paragraph, every env: parse("# " t LF) is heading_open, inline,
   heading_close, the inline token holds t and its children are exactly the children that
   parseInline(t) gives its inline token - the block parser hands the inline parser the same string
   in a heading as in inline mode (and as in a paragraph: C18_paragraph_is_parse_inline). *)
Theorem C18_heading_is_parse_inline :
  forall cfg rf cf lt t, head_ok t -> mem_z 13 t = false -> mem_z 0 t = false ->
  forall pre post, c_rules (p_block cfg) = pre ++ nm_heading :: post ->
    Forall (fun n => str_eqb n nm_heading = false /\ str_eqb n nm_paragraph = false /\ str_eqb n nm_lheading = false) pre ->
    0 < c_maxNesting (p_block cfg) -> p_core cfg = [n_normalize; n_block; n_inline; n_text_join] ->
  forall env,
    parse cfg rf cf lt ((35 :: 32 :: t) ++ [10]) env
    = (do toks <- inline_parse (p_inline cfg) rf cf lt t env [];
       Ok ([h_open; set_children (h_inl t) (Some (join_children toks)); h_close], env))
    /\ parse_inline cfg rf cf lt t env
       = (do toks <- inline_parse (p_inline cfg) rf cf lt t env [];
          Ok ([set_children (i_inl t) (Some (join_children toks))], env)).
Proof. exact heading_is_parse_inline. Qed.
Print Assumptions C18_heading_is_parse_inline.

Example C18_heading_guard_satisfiable : head_ok [72; 105; 32; 42; 121; 111; 117; 42].
Proof. exact head_ok_example. Qed.

From MD Require Import Lemmas.QuoteLine.
(* the block quote context: the inline token inside  "> " s  has content s and exactly the children of
   parseInline(s) (the same inline_parse call as in C18_paragraph_is_parse_inline) *)
Theorem C18_quote_is_parse_inline :
  forall cfg rf cf lt s, line_ok s -> mem_z 13 s = false -> mem_z 0 s = false ->
  forall rpre rpost, c_rules (p_block cfg) = rpre ++ nm_paragraph :: rpost ->
    Forall (fun n => str_eqb n nm_paragraph = false) rpre ->
  forall bpre bpost, c_rules (p_block cfg) = bpre ++ nm_blockquote :: bpost ->
    Forall (fun n => n = nm_table \/ n = nm_code \/ n = nm_fence) bpre ->
    1 < c_maxNesting (p_block cfg) ->
    p_core cfg = [n_normalize; n_block; n_inline; n_text_join] ->
  forall env,
    parse cfg rf cf lt ([62; 32] ++ s ++ [10]) env
    = (do toks <- inline_parse (p_inline cfg) rf cf lt s env [];
       Ok (bq_open_tok :: map deeper [p_open; set_children (p_inl s) (Some (join_children toks)); p_close] ++ [bq_close_tok], env))
    /\ parse_inline cfg rf cf lt s env
       = (do toks <- inline_parse (p_inline cfg) rf cf lt s env [];
          Ok ([set_children (i_inl s) (Some (join_children toks))], env)).
Proof.
  exact (fun cfg rf cf lt s Hs H13 H0 rpre rpost HR Hpre bpre bpost HB Hbpre Hn Hc env =>
    conj (proj2 (quote_nests_paragraph cfg rf cf lt s Hs H13 H0 rpre rpost HR Hpre bpre bpost HB Hbpre Hn Hc env))
         (parse_inline_one_line cfg rf cf lt s H13 H0 Hc env)).
Qed.
Print Assumptions C18_quote_is_parse_inline.

(* the list item context: the inline token inside  "- " s  has content s and exactly the children of parseInline(s) *)
Theorem C18_item_is_parse_inline :
  forall cfg rf cf lt s, line_ok s -> mem_z 13 s = false -> mem_z 0 s = false ->
  forall rpre rpost, c_rules (p_block cfg) = rpre ++ nm_paragraph :: rpost ->
    Forall (fun n => str_eqb n nm_paragraph = false) rpre ->
  forall bpre bpost, c_rules (p_block cfg) = bpre ++ nm_list :: bpost ->
    Forall (fun n => n = nm_table \/ n = nm_code \/ n = nm_fence \/ n = nm_blockquote \/ n = nm_hr) bpre ->
    2 < c_maxNesting (p_block cfg) ->
    p_core cfg = [n_normalize; n_block; n_inline; n_text_join] ->
  forall env,
    parse cfg rf cf lt ([45; 32] ++ s ++ [10]) env
    = (do toks <- inline_parse (p_inline cfg) rf cf lt s env [];
       Ok (ul_open_tok :: li_open_tok
           :: hide_para (map deeper2 [p_open; set_children (p_inl s) (Some (join_children toks)); p_close])
           ++ [li_close_tok; ul_close_tok], env))
    /\ parse_inline cfg rf cf lt s env
       = (do toks <- inline_parse (p_inline cfg) rf cf lt s env [];
          Ok ([set_children (i_inl s) (Some (join_children toks))], env)).
Proof.
  exact (fun cfg rf cf lt s Hs H13 H0 rpre rpost HR Hpre bpre bpost HB Hbpre Hn Hc env =>
    conj (proj2 (item_nests_paragraph cfg rf cf lt s Hs H13 H0 rpre rpost HR Hpre bpre bpost HB Hbpre Hn Hc env))
         (parse_inline_one_line cfg rf cf lt s H13 H0 Hc env)).
Qed.
Print Assumptions C18_item_is_parse_inline.

From MD Require Import Lemmas.NestLine.
(* every nesting of block quotes and list items: the inline token has content s and the children of parseInline(s) *)
Theorem C18_any_containers_is_parse_inline :
  forall cfg rf cf lt s, line_ok s -> mem_z 13 s = false -> mem_z 0 s = false ->
  forall RA RB RC RD, c_rules (p_block cfg) = RA ++ nm_blockquote :: RB ++ nm_list :: RC ++ nm_paragraph :: RD ->
    Forall (fun n => n = nm_table \/ n = nm_code \/ n = nm_fence) RA ->
    Forall (fun n => n = nm_table \/ n = nm_code \/ n = nm_fence \/ n = nm_hr) RB ->
    Forall (fun n => str_eqb n nm_paragraph = false) RC ->
    p_core cfg = [n_normalize; n_block; n_inline; n_text_join] ->
  forall cs, Forall okc cs -> weight cs < c_maxNesting (p_block cfg) ->
  forall env,
    parse cfg rf cf lt (prefix cs ++ s ++ [10]) env
    = (do toks <- inline_parse (p_inline cfg) rf cf lt s env [];
       Ok (wrapc s cs 0 false (join_children toks), env))
    /\ parse_inline cfg rf cf lt s env
       = (do toks <- inline_parse (p_inline cfg) rf cf lt s env [];
          Ok ([set_children (i_inl s) (Some (join_children toks))], env)).
Proof.
  exact (fun cfg rf cf lt s Hs H13 H0 RA RB RC RD HC HA HB HCn Hc cs FO Hw env =>
    conj (parse_nested cfg rf cf lt s Hs H13 H0 RA RB RC RD HC HA HB HCn Hc cs FO Hw env)
         (parse_inline_one_line cfg rf cf lt s H13 H0 Hc env)).
Qed.
Print Assumptions C18_any_containers_is_parse_inline.

(* the renderer on those token lists: the HTML is the rendering of the inline children between the tags of the containers -
   the same children rendered once, whatever the nesting *)
From MD Require Import Lemmas.NestRender.
Theorem C18_render_any_containers :
  forall o s cs ch cch ch',
    render_inline_list o None ch = Ok (cch, ch') ->
    render o (wrapc s cs 0 false ch) = Ok (nest_html cs false (html_of cch), wrapc s cs 0 false ch').
Proof. exact render_nested. Qed.
Print Assumptions C18_render_any_containers.
