(* C13 -- concurrent or nested parses on a shared instance do not interfere.
   Only statements and [exact]. *)
From MD Require Import Base.Py Base.Opt Model.Ruler Model.Conc Lemmas.RulerCoherent Lemmas.ConcLemmas.
From MD Require Import Gen.RulerShape.

(* any number of threads, any request programs, any schedule (nested calls are the
   schedules in which the inner thread runs to completion between two steps of the
   outer one), from a fresh or an already compiled instance: no thread fails and
   every getRules returns the complete chain a solo call returns *)
Theorem C13_getRules_linearizable :
  forall (F : Type) (rs : list (rule F)) c programs schedule,
    CacheOK rs c ->
    let w := crun rs false schedule (start c programs) in
    forall t, In t (threads w) ->
      ts t <> TFail /\ forall ch l, In (ch, l) (results t) -> l = compile_chain rs ch.
Proof. exact @getRules_linearizable. Qed.
Print Assumptions C13_getRules_linearizable.

(* the invariant behind it: the shared cache is only ever None or the complete dict *)
Theorem C13_cache_never_partial :
  forall (F : Type) (rs : list (rule F)) schedule w, Inv rs w -> Inv rs (crun rs false schedule w).
Proof. exact @crun_inv. Qed.
Print Assumptions C13_cache_never_partial.

(* no waiting: each own step of a thread brings it closer to completion *)
Theorem C13_wait_free :
  forall (F : Type) (rs : list (rule F)) c t,
    CacheOK rs c -> ThreadOK rs c t -> (0 < steps_left t)%nat ->
    (steps_left (snd (tstep rs false c t)) < steps_left t)%nat.
Proof. exact @tstep_progress. Qed.
Print Assumptions C13_wait_free.

(* publish-then-fill (the code before the repair) is refuted by a 2-thread schedule *)
Theorem C13_legacy_refuted :
  let w := crun race_rules true race_schedule (start None [[[]]; [[]]]) in
  exists t, nth_error (threads w) 1 = Some t /\ results t = [([], [])]
            /\ compile_chain race_rules [] = [1].
Proof. exact race_refuted. Qed.
Print Assumptions C13_legacy_refuted.

(* the atomic actions of the model are those of the code: the accesses to the shared
   cache attribute in the bytecode of Ruler.getRules / Ruler.__compile__ (regenerated
   from /repo on every run) are the ones the step function implements *)
Theorem C13_model_shape_is_code_shape :
  getRules_shape = expected_getRules_shape /\ compile_shape = expected_compile_shape.
Proof. split; reflexivity. Qed.
Print Assumptions C13_model_shape_is_code_shape.

Example C13_nonvacuous :
  let w := crun race_rules false [0; 0; 1; 1; 1; 1; 1; 0; 0; 0]%nat (start None [[[]]; [[]]]) in
  map results (threads w) = [[([], [1])]; [([], [1])]].
Proof. exact race_schedule_fixed. Qed.
