(* C07 -- top-level blocks are parsed independently.  Proved so far: the per-line offset tables
   carry nothing across a line end - the line scanner is a left fold that splits at any point,
   and after a line feed it is back in its initial mode (indentation counters zero, next line
   starting right after the LF).  That no rule leaks container context, tight flags or parentType
   into the next top-level block is decided on the implementation (concatenation law) and
   through the correspondence.  Only statements and [exact]. *)
From MD Require Import Base.Py Base.Str Base.Opt Model.Token Model.Utils Model.StateBlock Model.Block
     Lemmas.BlockLemmas.

Theorem C07_line_scan_splits :
  forall n a s pos b, scan_loop n s pos (a ++ b) = scan_loop n (scan_loop n s pos a) (pos + len a) b.
Proof. exact scan_loop_app. Qed.
Print Assumptions C07_line_scan_splits.

Theorem C07_scanner_forgets_at_lf :
  forall n s pos,
    let s' := scan_step n s pos 10 in
    sc_found s' = false /\ sc_indent s' = 0 /\ sc_offset s' = 0 /\ sc_start s' = pos + 1
    /\ sc_bM s' = sc_start s :: sc_bM s /\ sc_eM s' = pos :: sc_eM s
    /\ sc_tS s' = sc_indent s :: sc_tS s /\ sc_sC s' = sc_offset s :: sc_sC s.
Proof. exact scan_step_lf. Qed.
Print Assumptions C07_scanner_forgets_at_lf.
