(* C07 -- top-level blocks are parsed independently.  Proved so far: the per-line offset tables
   carry nothing across a line end - the line scanner is a left fold that splits at any point,
   after a line feed it is back in its initial mode (indentation counters zero, next line
   starting right after the LF), and for EVERY A (newline-terminated) and B the tables of
   A + blank line + B are the tables of A followed by the tables of B moved by len A + 1
   (C07_tables_concat): the block loop starts B on exactly the rows it would see alone.  No rule call leaks container context:
   blkIndent, listIndent and the level come back from every rule call whatever its outcome
   (C07_rule_restores_context, C07_rule_restores_level), and the line tables, rewritten in place by
   the container rules, are back as they were after every block-loop call and at the end of the parse
   (C07_tokenize_restores_tables, C07_block_parse_restores_tables).  That the full
   concatenation law follows is decided on the implementation and through the correspondence.  Only statements and [exact]. *)
From MD Require Import Base.Py Base.Str Base.Opt Model.Token Model.Utils Model.StateBlock Model.Block
     Lemmas.BlockLemmas Lemmas.MapWhole Lemmas.NoRaise Lemmas.TablesRestore Lemmas.ScanLemmas.

Theorem C07_line_scan_splits :
  forall n a s pos b, scan_loop n s pos (a ++ b) = scan_loop n (scan_loop n s pos a) (pos + len a) b.
Proof. exact scan_loop_app. Qed.
Print Assumptions C07_line_scan_splits.

Theorem C07_scanner_forgets_at_lf :
  forall n s pos,
    let s' := scan_step n s pos 10 in
    sc_found s' = false /\ sc_indent s' = 0 /\ sc_offset s' = 0 /\ sc_start s' = pos + 1
    /\ sc_bM s' = sc_start s :: sc_bM s /\ sc_eM s' = pos :: sc_eM s
    /\ sc_tS s' = sc_indent s :: sc_tS s /\ sc_sC s' = sc_offset s :: sc_sC s.
Proof. exact scan_step_lf. Qed.
Print Assumptions C07_scanner_forgets_at_lf.

(* the line tables of  A LF B  (A = a LF newline-terminated; the extra LF is the blank line):
   those of A, then those of B with offsets moved by  len A + 1 ; the sentinel row of A doubles
   as the row of the blank line; lineMax adds up.  No side condition on a or b. *)
Theorem C07_tables_concat :
  forall a b env toks env1 toks1 env2 toks2,
    let A := a ++ [10] in
    let d := len A + 1 in
    let s := state_init (A ++ [10] ++ b) env toks in
    let sa := state_init A env1 toks1 in
    let sb := state_init b env2 toks2 in
    b_bMarks s = b_bMarks sa ++ map (Z.add d) (b_bMarks sb)
    /\ b_eMarks s = b_eMarks sa ++ map (Z.add d) (b_eMarks sb)
    /\ b_tShift s = b_tShift sa ++ b_tShift sb
    /\ b_sCount s = b_sCount sa ++ b_sCount sb
    /\ b_bsCount s = b_bsCount sa ++ b_bsCount sb
    /\ b_lineMax s = b_lineMax sa + 1 + b_lineMax sb.
Proof. exact tables_concat. Qed.
Print Assumptions C07_tables_concat.

(* ---- no container context leaks from one block into the next ------------------------------------ *)
From MD Require Import Model.Block Lemmas.MapWhole Lemmas.BlockWF Lemmas.CtxRestore.

(* One rule call from the line loop - any rule name, successful or not, silent or not, with the
   nested tokenize at any depth as its callback: blkIndent and listIndent come back exactly as they
   were.  (The five line tables, lineMax and src come back too: C01_nested_tokenize_restores_tables;
   the nesting level: C02_block_stream_balanced.)  What a block leaves behind is tokens, the
   cursor, env, the tight flag - recomputed in every iteration - and parentType. *)
Theorem C07_rule_restores_context :
  forall cfg rf cf, silent_terms cfg ->
  forall d n st sl el silent b st',
  apply_rule cfg rf cf (tokenize cfg rf cf d) (terminated cfg rf cf) n st sl el silent = Ok (b, st') ->
  b_blkIndent st' = b_blkIndent st /\ b_listIndent st' = b_listIndent st.
Proof. exact rule_restores_context. Qed.
Print Assumptions C07_rule_restores_context.

(* the block loop itself, at any depth (so also: the whole document ends with the context it began with) *)
Theorem C07_tokenize_restores_context :
  forall cfg rf cf, silent_terms cfg -> forall d s a b s',
  tokenize cfg rf cf d s a b = Ok s' -> b_blkIndent s' = b_blkIndent s /\ b_listIndent s' = b_listIndent s.
Proof. exact tokenize_x. Qed.
Print Assumptions C07_tokenize_restores_context.

(* ... and the nesting level *)
Theorem C07_rule_restores_level :
  forall cfg rf cf d n st sl el silent b st',
  apply_rule cfg rf cf (tokenize cfg rf cf d) (terminated cfg rf cf) n st sl el silent = Ok (b, st') ->
  b_level st' = b_level st.
Proof.
  intros cfg rf cf d n st sl el silent b st' H.
  exact (proj1 (apply_rule_ext cfg rf cf _ _ (tokenize_ok cfg rf cf d) (terminated_ok cfg rf cf) _ _ _ _ _ _ _ H)).
Qed.
Print Assumptions C07_rule_restores_level.

(* ---- the indentation bookkeeping does not leak either ----
   Block quotes and list items rewrite bMarks / tShift / sCount / bsCount in place for the lines
   they contain.  Every call of the block loop, at any depth, on any state whose tables are well
   formed (RI: rows inside the source; TI / CI: the table invariants that fresh tables satisfy and
   every rule keeps), returns with source, lineMax and all five tables exactly as it found them. *)
Theorem C07_tokenize_restores_tables :
  forall cfg rf cf N d st a b st',
    term_names_ok cfg -> mem_str nm_paragraph (c_rules cfg) = true ->
    RI N st -> TI st -> CI st -> 0 <= a -> a < b -> b <= b_lineMax st ->
    tokenize cfg rf cf d st a b = Ok st' ->
    (b_src st' = b_src st /\ b_bMarks st' = b_bMarks st /\ b_eMarks st' = b_eMarks st /\ b_tShift st' = b_tShift st
     /\ b_sCount st' = b_sCount st /\ b_bsCount st' = b_bsCount st /\ b_lineMax st' = b_lineMax st)
    /\ a <= b_line st' <= b_lineMax st.
Proof. exact tokenize_tables. Qed.
Print Assumptions C07_tokenize_restores_tables.

(* the whole block parser: what it leaves in the tables is what the line scanner put there *)
Theorem C07_block_parse_restores_tables :
  forall cfg rf cf src env toks st,
    term_names_ok cfg -> mem_str nm_paragraph (c_rules cfg) = true ->
    block_parse cfg rf cf src env toks = Ok st ->
    let s0 := state_init src env toks in
    b_src st = b_src s0 /\ b_bMarks st = b_bMarks s0 /\ b_eMarks st = b_eMarks s0 /\ b_tShift st = b_tShift s0
    /\ b_sCount st = b_sCount s0 /\ b_bsCount st = b_bsCount s0 /\ b_lineMax st = b_lineMax s0.
Proof. exact block_parse_tables. Qed.
Print Assumptions C07_block_parse_restores_tables.

(* the hypotheses are met by the tables of every source *)
Theorem C07_fresh_tables_well_formed :
  forall src env toks, let s0 := state_init src env toks in RI (b_lineMax s0) s0 /\ TI s0 /\ CI s0.
Proof. exact (fun src env toks => conj (state_init_RI src env toks) (conj (state_init_TI src env toks) (state_init_CI src env toks))). Qed.
Print Assumptions C07_fresh_tables_well_formed.
