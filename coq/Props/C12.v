(* C12 -- a parse depends only on configuration, source and env: no hidden shared
   state.  Model: a world of live MarkdownIt instances; the only instance state a
   parse/render touches is the lazily compiled chain cache (frame condition
   checked against the source on every run, Gen/SharedWrites.v), and a parse
   consults an instance only through getRules + options + render rules, i.e.
   through [strip] (the configuration proper).  Only statements and [exact]. *)
From MD Require Import Base.Py Base.Opt Model.Ruler Model.Instance Model.World
     Lemmas.RulerCoherent Lemmas.InstanceLemmas Lemmas.WorldLemmas.

(* Whatever was compiled or not before (i.e. whichever parses ran before), a
   management call does the same thing and reports the same thing: behaviour is a
   function of the configuration proper. *)
Theorem C12_behaviour_depends_on_configuration_only :
  forall fin (o : mop) (a b : inst), Sim a b -> RSim (mstep fin a o) (mstep fin b o).
Proof. exact mstep_sim. Qed.
Print Assumptions C12_behaviour_depends_on_configuration_only.

(* getRules -- the parser's only access path to the rules -- likewise *)
Theorem C12_applied_rules_depend_on_configuration_only :
  forall (F : Type) (r1 r2 : ruler F) (o : op F),
    Coherent r1 -> Coherent r2 -> drop_cache r1 = drop_cache r2 ->
    drop_cache (fst (step r1 o)) = drop_cache (fst (step r2 o)) /\ snd (step r1 o) = snd (step r2 o).
Proof. exact @step_sim. Qed.
Print Assumptions C12_applied_rules_depend_on_configuration_only.

(* a parse leaves the configuration proper of every instance unchanged *)
Theorem C12_parse_inert :
  forall bare w j chains, WCoh w -> WSim (fst (wstep bare w (WParse j chains))) w.
Proof. exact parse_inert. Qed.
Print Assumptions C12_parse_inert.

(* any history equals the same history with every parse deleted: same final
   configurations, same results of all management calls -- so a probe after an
   arbitrary history sees what it sees on an instance that never parsed anything *)
Theorem C12_parses_can_be_deleted :
  forall bare, ICoherent bare -> forall ops w1 w2, WSim w1 w2 ->
    WSim (wrun bare ops w1) (wrun bare (filter not_parse ops) w2)
    /\ mgmt_trace bare ops w1 = wtrace bare (filter not_parse ops) w2.
Proof. exact parses_do_not_matter. Qed.
Print Assumptions C12_parses_can_be_deleted.

(* operations on one instance never change another *)
Theorem C12_isolation :
  forall bare w o j, concerns j o = false ->
    nth_error (fst (wstep bare w o)) j = nth_error w j /\ length (fst (wstep bare w o)) = length w.
Proof. exact isolation. Qed.
Print Assumptions C12_isolation.

(* instance j after any multi-instance history is exactly instance j after the
   sub-history of its own construction and its own calls (fresh-instance replay),
   and its own calls returned the same results *)
Theorem C12_equals_fresh_replay :
  forall bare j ops w1 w2, Agree j w1 w2 ->
    Agree j (wrun bare ops w1) (wrun bare (filter (concerns j) ops) w2)
    /\ own_trace bare j ops w1 = wtrace bare (filter (concerns j) ops) w2.
Proof. exact others_do_not_matter. Qed.
Print Assumptions C12_equals_fresh_replay.

(* non-vacuity: two instances, parses and a management call interleaved *)
Example C12_nonvacuous :
  let bare := bare_inst [([110], [])] [([112], []); ([116], [[112]])] [([116; 120], [])] [] in
  let p := Some {| p_options := [([104], OVBool true)]; p_components := [] |} in
  let ops := [WNew p []; WNew p [([104], OVBool false)]; WParse 0 [[]; [112]];
              WMgmt 1 (MDisable [[116]] false); WParse 1 [[]]; WMgmt 0 MActive] in
  map strip (wrun bare ops []) = map strip (wrun bare (filter not_parse ops) [])
  /\ map i_opts (wrun bare ops []) = [[([104], OVBool true)]; [([104], OVBool false)]].
Proof. vm_compute. split; reflexivity. Qed.
