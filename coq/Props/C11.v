(* C11 — rule management is coherent over any history, including failed calls.
   Only statements and [exact]; proofs live in Lemmas/. *)
From MD Require Import Base.Py Model.Ruler Lemmas.RulerCoherent Lemmas.RulerSets Lemmas.RulerOrder.

(* After any finite sequence of Ruler operations (valid or unknown names,
   succeeding or raising), what getRules hands to the parser for ANY chain is
   the list of functions of the rules reported active, in registration order,
   filtered by chain membership. *)
Theorem C11_applied_eq_reported :
  forall (F : Type) (ops : list (op F)) (chain : str),
    let r := run ops ruler_init in
    snd (get_rules r chain) = map rfn (filter (in_chain chain) (active r))
    /\ active_names r = map rname (active r).
Proof. exact @applied_eq_reported. Qed.
Print Assumptions C11_applied_eq_reported.

Theorem C11_history_coherent :
  forall (F : Type) (ops : list (op F)) (r : ruler F), Coherent r -> Coherent (run ops r).
Proof. exact @history_coherent. Qed.
Print Assumptions C11_history_coherent.

Theorem C11_get_rules_stable :
  forall (F : Type) (r : ruler F) (c1 c2 : str), Coherent r ->
    snd (get_rules (fst (get_rules r c1)) c2) = snd (get_rules r c2).
Proof. exact @get_rules_stable. Qed.
Print Assumptions C11_get_rules_stable.

(* set semantics of the reported set (rule names unique, call does not raise) *)
Theorem C11_enable_set :
  forall (F : Type) names ign (r : ruler F) n,
    NoDup (all_names r) -> raises ign (all_names r) names = false ->
    let r' := fst (step r (OpEnable names ign)) in
    (In n (active_names r') <-> In n (active_names r) \/ (In n names /\ In n (all_names r))).
Proof. exact @enable_set. Qed.
Print Assumptions C11_enable_set.

Theorem C11_disable_set :
  forall (F : Type) names ign (r : ruler F) n,
    NoDup (all_names r) -> raises ign (all_names r) names = false ->
    let r' := fst (step r (OpDisable names ign)) in
    (In n (active_names r') <-> In n (active_names r) /\ ~ In n names).
Proof. exact @disable_set. Qed.
Print Assumptions C11_disable_set.

Theorem C11_enableOnly_set :
  forall (F : Type) names ign (r : ruler F) n,
    NoDup (all_names r) -> raises ign (all_names r) names = false ->
    let r' := fst (step r (OpEnableOnly names ign)) in
    (In n (active_names r') <-> In n names /\ In n (all_names r)).
Proof. exact @enableOnly_set. Qed.
Print Assumptions C11_enableOnly_set.

(* exact post-state of enable/disable, raising or not: the names processed
   before the first unknown one are flipped, the cache is dropped *)
Theorem C11_toggle_exact :
  forall (F : Type) v names ign (r : ruler F),
    NoDup (all_names r) ->
    toggle v names ign r =
    (mkRuler (map (mark v (processed ign (all_names r) names)) (rules r)) None,
     if raises ign (all_names r) names then Raise KeyError
     else Ok (ONames (processed ign (all_names r) names))).
Proof. exact @toggle_sets. Qed.
Print Assumptions C11_toggle_exact.

Theorem C11_toggle_frame :
  forall (F : Type) (r : ruler F) (o : op F),
    match o with OpEnable _ _ | OpEnableOnly _ _ | OpDisable _ _ => True | _ => False end ->
    let r' := fst (step r o) in
    map rname (rules r') = map rname (rules r) /\
    map rfn (rules r') = map rfn (rules r) /\
    map ralt (rules r') = map ralt (rules r).
Proof. exact @toggle_frame. Qed.
Print Assumptions C11_toggle_frame.

Theorem C11_unknown_ref_noop :
  forall (F : Type) (r : ruler F) (o : op F),
    match o with
    | OpAt n _ _ | OpBefore n _ _ _ | OpAfter n _ _ _ => known (all_names r) n = false
    | _ => False
    end -> step r o = (r, Raise KeyError).
Proof. exact @unknown_ref_noop. Qed.
Print Assumptions C11_unknown_ref_noop.

(* registration order: where before / after / at / push put a rule.  The
   reference is resolved to the FIRST rule of that name (names may repeat);
   every existing rule keeps its place, flag, function and chains. *)
Theorem C11_before_order :
  forall (F : Type) (r : ruler F) ref name fn alt i,
    find (rules r) ref = Some i ->
    exists a x b,
      rules r = a ++ x :: b /\ rname x = ref /\ (forall y, In y a -> rname y <> ref) /\
      step r (OpBefore ref name fn alt) =
        (mkRuler (a ++ mkRule name true fn alt :: x :: b) None, Ok ONone).
Proof. exact @before_order. Qed.
Print Assumptions C11_before_order.

Theorem C11_after_order :
  forall (F : Type) (r : ruler F) ref name fn alt i,
    find (rules r) ref = Some i ->
    exists a x b,
      rules r = a ++ x :: b /\ rname x = ref /\ (forall y, In y a -> rname y <> ref) /\
      step r (OpAfter ref name fn alt) =
        (mkRuler (a ++ x :: mkRule name true fn alt :: b) None, Ok ONone).
Proof. exact @after_order. Qed.
Print Assumptions C11_after_order.

Theorem C11_at_order :
  forall (F : Type) (r : ruler F) name fn alt i,
    find (rules r) name = Some i ->
    exists a x b,
      rules r = a ++ x :: b /\ rname x = name /\ (forall y, In y a -> rname y <> name) /\
      step r (OpAt name fn alt) =
        (mkRuler (a ++ mkRule name (renabled x) fn alt :: b) None, Ok ONone).
Proof. exact @at_order. Qed.
Print Assumptions C11_at_order.

Theorem C11_push_order :
  forall (F : Type) (r : ruler F) name fn alt,
    step r (OpPush name fn alt) =
      (mkRuler (rules r ++ [mkRule name true fn alt]) None, Ok ONone).
Proof. exact @push_order. Qed.
Print Assumptions C11_push_order.

(* ... and what the parser then applies for any chain: the old chain with the
   new function spliced in at the corresponding place *)
Theorem C11_before_applied :
  forall (F : Type) (r : ruler F) ref name fn alt i c,
    find (rules r) ref = Some i ->
    exists a b,
      rules r = a ++ b /\
      compile_chain (rules (fst (step r (OpBefore ref name fn alt)))) c =
        compile_chain a c ++ (if in_chain c (mkRule name true fn alt) then [fn] else [])
                          ++ compile_chain b c.
Proof. exact @before_applied. Qed.
Print Assumptions C11_before_applied.

Theorem C11_after_applied :
  forall (F : Type) (r : ruler F) ref name fn alt i c,
    find (rules r) ref = Some i ->
    exists a x b,
      rules r = a ++ x :: b /\ rname x = ref /\
      compile_chain (rules (fst (step r (OpAfter ref name fn alt)))) c =
        compile_chain (a ++ [x]) c ++ (if in_chain c (mkRule name true fn alt) then [fn] else [])
                                   ++ compile_chain b c.
Proof. exact @after_applied. Qed.
Print Assumptions C11_after_applied.

Theorem C11_push_applied :
  forall (F : Type) (r : ruler F) name fn alt c,
    compile_chain (rules (fst (step r (OpPush name fn alt)))) c =
      compile_chain (rules r) c ++ (if in_chain c (mkRule name true fn alt) then [fn] else []).
Proof. exact @push_applied. Qed.
Print Assumptions C11_push_applied.

(* at(): the other rules' contributions stay; the replaced rule contributes the
   new function iff it is enabled and its NEW chains include c *)
Theorem C11_at_applied :
  forall (F : Type) (r : ruler F) name fn alt i c,
    find (rules r) name = Some i ->
    exists a x b,
      rules r = a ++ x :: b /\ rname x = name /\
      compile_chain (rules (fst (step r (OpAt name fn alt)))) c =
        compile_chain a c
        ++ (if renabled x && in_chain c (mkRule name (renabled x) fn alt) then [fn] else [])
        ++ compile_chain b c.
Proof. exact @at_applied. Qed.
Print Assumptions C11_at_applied.

(* a rule registered by before / after / push is reported by get_all_rules and
   get_active_rules straight away; a registration that raises changes nothing *)
Theorem C11_registered_is_reported :
  forall (F : Type) (r : ruler F) (o : op F) name,
    match o with
    | OpBefore _ n _ _ | OpAfter _ n _ _ | OpPush n _ _ => n = name
    | _ => False
    end ->
    let '(r', out) := step r o in
    match out with
    | Ok _ => In name (all_names r') /\ In name (active_names r')
    | _ => r' = r
    end.
Proof. exact @registered_is_reported. Qed.
Print Assumptions C11_registered_is_reported.

(* a named chain that no ACTIVE rule belongs to is empty after any history: the
   chains of disabled rules vanish from what the parser applies *)
Theorem C11_unlisted_chain_empty :
  forall (F : Type) (ops : list (op F)) (chain : str),
    let r := run ops ruler_init in
    chain <> [] ->
    (forall x, In x (active r) -> mem_str chain (ralt x) = false) ->
    snd (get_rules r chain) = [].
Proof. exact @unlisted_chain_empty. Qed.
Print Assumptions C11_unlisted_chain_empty.

(* enable / disable twice = once: same rules, same (dropped) cache, same value
   returned or exception raised (rule names unique) *)
Theorem C11_toggle_idempotent :
  forall (F : Type) v names ign (r : ruler F),
    NoDup (all_names r) ->
    toggle v names ign (fst (toggle v names ign r)) = toggle v names ign r.
Proof. exact @toggle_idempotent. Qed.
Print Assumptions C11_toggle_idempotent.

(* the last call wins: disable after enable of the same names (or the reverse)
   is the later call alone *)
Theorem C11_toggle_last_wins :
  forall (F : Type) v1 v2 names ign (r : ruler F),
    NoDup (all_names r) ->
    toggle v2 names ign (fst (toggle v1 names ign r)) = toggle v2 names ign r.
Proof. exact @toggle_last_wins. Qed.
Print Assumptions C11_toggle_last_wins.

(* the code before the repair (cache invalidated only on success) is refuted *)
Theorem C11_legacy_refuted :
  let r := legacy_run stale_history in
  snd (get_rules r []) <> map rfn (filter (in_chain []) (active r)).
Proof. exact (proj2 (proj2 stale_cache_refuted)). Qed.
Print Assumptions C11_legacy_refuted.

(* non-vacuity: a concrete history with a raising call in the middle *)
Example C11_nonvacuous :
  let ops := [OpPush [97] 1 [[120]]; OpPush [98] 2 []; OpGetRules [];
              OpEnableOnly [[98]; [110]] false; OpGetRules [120]] in
  let r := run ops ruler_init in
  snd (get_rules r []) = [2] /\ active_names r = [[98]] /\ snd (get_rules r [120]) = [].
Proof. vm_compute. auto. Qed.

(* non-vacuity of the placement theorems with a duplicate name: push d; push d;
   after(d, b) puts b after the FIRST d *)
Example C11_order_nonvacuous :
  let ops := [OpPush [100] 1 []; OpPush [100] 2 [[121]]; OpAfter [100] [98] 9 [[121]]] in
  let r := run ops ruler_init in
  all_names r = [[100]; [98]; [100]] /\ snd (get_rules r [121]) = [9; 2] /\
  find (rules r) [100] = Some 0%nat.
Proof. vm_compute. auto. Qed.
