(* C03 -- source maps.  Proved for EVERY state (any line tables): each leaf rule (code, fence, hr,
   heading, html_block, paragraph, lheading), when it succeeds, moves the line cursor strictly
   past its start line and not beyond the end line it was given (the paragraph: not beyond
   lineMax), and every token it appends carries a map [b, e) with startLine <= b < e <= new line
   (C03_*_maps).  Containers, tables and definitions, and the
   statement over the block loop is carried by the pipeline correspondence (maps are part of the
   compared token dicts) and the map checker on the implementation.  Only statements and [exact]. *)
From MD Require Import Base.Py Base.Str Base.Opt Model.Token Model.Utils Model.StateBlock Model.Block Lemmas.BlockLemmas Lemmas.ScanLemmas Lemmas.MapLemmas.

Theorem C03_hr_map :
  forall cfg st startLine endLine st',
    r_hr cfg st startLine endLine false = Ok (true, st') ->
    b_line st' = startLine + 1 /\
    exists t pos maximum marker,
      b_tokens st' = b_tokens st ++ [t] /\ tmap t = Some (startLine, startLine + 1)
      /\ line_start st startLine = Ok pos /\ tb (b_eMarks st) startLine = Ok maximum
      /\ char_at (b_src st) pos = Some marker
      /\ (0 <= pos -> 0 <= maximum <= len (b_src st) ->
          tmarkup t = rep marker (1 + count_marker (slice (b_src st) (pos + 1) maximum) marker)).
Proof. exact r_hr_spec. Qed.
Print Assumptions C03_hr_map.

(* the line scan of StateBlock.__init__ is a left fold over the characters *)
Theorem C03_line_scan_splits :
  forall n a s pos b, scan_loop n s pos (a ++ b) = scan_loop n (scan_loop n s pos a) (pos + len a) b.
Proof. exact scan_loop_app. Qed.
Print Assumptions C03_line_scan_splits.

(* the line tables of a fresh StateBlock, for every source: five lists of length lineMax + 1, and
   every row satisfies  0 <= bMarks <= bMarks + tShift <= eMarks <= len src , 0 <= sCount  -- the
   ranges from which every map and every content slice is computed *)
Theorem C03_line_tables_well_formed :
  forall src env toks,
    let s := state_init src env toks in
    len (b_bMarks s) = b_lineMax s + 1 /\ len (b_eMarks s) = b_lineMax s + 1 /\ len (b_tShift s) = b_lineMax s + 1
    /\ len (b_sCount s) = b_lineMax s + 1 /\ len (b_bsCount s) = b_lineMax s + 1 /\ 0 <= b_lineMax s
    /\ rows_ok (len src) (rev (b_bMarks s)) (rev (b_eMarks s)) (rev (b_tShift s)) (rev (b_sCount s)).
Proof. exact state_init_tables. Qed.
Print Assumptions C03_line_tables_well_formed.

(* leaf rules: progress, bound, maps inside [startLine, new line] *)
Theorem C03_code_maps : forall cfg st sl el st',
  r_code cfg st sl el false = Ok (true, st') -> sl < el -> leaf_maps st sl st' /\ b_line st' <= el.
Proof. exact r_code_maps. Qed.
Print Assumptions C03_code_maps.
Theorem C03_fence_maps : forall cfg st sl el st',
  r_fence cfg st sl el false = Ok (true, st') -> sl < el -> leaf_maps st sl st' /\ b_line st' <= el.
Proof. exact r_fence_maps. Qed.
Print Assumptions C03_fence_maps.
Theorem C03_hr_maps : forall cfg st sl el st',
  r_hr cfg st sl el false = Ok (true, st') -> sl < el -> leaf_maps st sl st' /\ b_line st' <= el.
Proof. exact r_hr_maps. Qed.
Print Assumptions C03_hr_maps.
Theorem C03_heading_maps : forall cfg st sl el st',
  r_heading cfg st sl el false = Ok (true, st') -> sl < el -> leaf_maps st sl st' /\ b_line st' <= el.
Proof. exact r_heading_maps. Qed.
Print Assumptions C03_heading_maps.
Theorem C03_html_block_maps : forall cfg st sl el st',
  r_html_block cfg st sl el false = Ok (true, st') -> sl < el -> leaf_maps st sl st' /\ b_line st' <= el.
Proof. exact r_html_block_maps. Qed.
Print Assumptions C03_html_block_maps.
(* the two rules that consult terminator chains: for any callback that leaves the token list alone *)
Theorem C03_paragraph_maps : forall term, term_same term -> forall st sl el st',
  r_paragraph term st sl el false = Ok (true, st') -> sl < b_lineMax st -> leaf_maps st sl st' /\ b_line st' <= b_lineMax st.
Proof. exact r_paragraph_maps. Qed.
Print Assumptions C03_paragraph_maps.
Theorem C03_lheading_maps : forall cfg term, term_same term -> forall st sl el st',
  r_lheading cfg term st sl el false = Ok (true, st') -> sl < el -> leaf_maps st sl st' /\ b_line st' <= el.
Proof. exact r_lheading_maps. Qed.
Print Assumptions C03_lheading_maps.
