(* C03 -- source maps.  Proved for EVERY state (any line tables): each leaf rule (code, fence, hr,
   heading, html_block, paragraph, lheading), when it succeeds, moves the line cursor strictly
   past its start line and not beyond the end line it was given (the paragraph: not beyond
   lineMax), and every token it appends carries a map [b, e) with startLine <= b < e <= new line
   (C03_*_maps).  Containers, tables and definitions, and the
   statement over the block loop is carried by the pipeline correspondence (maps are part of the
   compared token dicts) and the map checker on the implementation.  Only statements and [exact]. *)
From MD Require Import Base.Py Base.Str Base.Opt Model.Token Model.Utils Model.StateBlock Model.Block Lemmas.BlockLemmas Lemmas.ScanLemmas Lemmas.MapLemmas.

Theorem C03_hr_map :
  forall cfg st startLine endLine st',
    r_hr cfg st startLine endLine false = Ok (true, st') ->
    b_line st' = startLine + 1 /\
    exists t pos maximum marker,
      b_tokens st' = b_tokens st ++ [t] /\ tmap t = Some (startLine, startLine + 1)
      /\ line_start st startLine = Ok pos /\ tb (b_eMarks st) startLine = Ok maximum
      /\ char_at (b_src st) pos = Some marker
      /\ (0 <= pos -> 0 <= maximum <= len (b_src st) ->
          tmarkup t = rep marker (1 + count_marker (slice (b_src st) (pos + 1) maximum) marker)).
Proof. exact r_hr_spec. Qed.
Print Assumptions C03_hr_map.

(* the line scan of StateBlock.__init__ is a left fold over the characters *)
Theorem C03_line_scan_splits :
  forall n a s pos b, scan_loop n s pos (a ++ b) = scan_loop n (scan_loop n s pos a) (pos + len a) b.
Proof. exact scan_loop_app. Qed.
Print Assumptions C03_line_scan_splits.

(* the line tables of a fresh StateBlock, for every source: five lists of length lineMax + 1, and
   every row satisfies  0 <= bMarks <= bMarks + tShift <= eMarks <= len src , 0 <= sCount  -- the
   ranges from which every map and every content slice is computed *)
Theorem C03_line_tables_well_formed :
  forall src env toks,
    let s := state_init src env toks in
    len (b_bMarks s) = b_lineMax s + 1 /\ len (b_eMarks s) = b_lineMax s + 1 /\ len (b_tShift s) = b_lineMax s + 1
    /\ len (b_sCount s) = b_lineMax s + 1 /\ len (b_bsCount s) = b_lineMax s + 1 /\ 0 <= b_lineMax s
    /\ rows_ok (len src) (rev (b_bMarks s)) (rev (b_eMarks s)) (rev (b_tShift s)) (rev (b_sCount s)).
Proof. exact state_init_tables. Qed.
Print Assumptions C03_line_tables_well_formed.

(* leaf rules: progress, bound, maps inside [startLine, new line] *)
Theorem C03_code_maps : forall cfg st sl el st',
  r_code cfg st sl el false = Ok (true, st') -> sl < el -> leaf_maps st sl st' /\ b_line st' <= el.
Proof. exact r_code_maps. Qed.
Print Assumptions C03_code_maps.
Theorem C03_fence_maps : forall cfg st sl el st',
  r_fence cfg st sl el false = Ok (true, st') -> sl < el -> leaf_maps st sl st' /\ b_line st' <= el.
Proof. exact r_fence_maps. Qed.
Print Assumptions C03_fence_maps.
Theorem C03_hr_maps : forall cfg st sl el st',
  r_hr cfg st sl el false = Ok (true, st') -> sl < el -> leaf_maps st sl st' /\ b_line st' <= el.
Proof. exact r_hr_maps. Qed.
Print Assumptions C03_hr_maps.
Theorem C03_heading_maps : forall cfg st sl el st',
  r_heading cfg st sl el false = Ok (true, st') -> sl < el -> leaf_maps st sl st' /\ b_line st' <= el.
Proof. exact r_heading_maps. Qed.
Print Assumptions C03_heading_maps.
Theorem C03_html_block_maps : forall cfg st sl el st',
  r_html_block cfg st sl el false = Ok (true, st') -> sl < el -> leaf_maps st sl st' /\ b_line st' <= el.
Proof. exact r_html_block_maps. Qed.
Print Assumptions C03_html_block_maps.
(* the two rules that consult terminator chains: for any callback that leaves the token list alone *)
Theorem C03_paragraph_maps : forall term, term_same term -> forall st sl el st',
  r_paragraph term st sl el false = Ok (true, st') -> sl < b_lineMax st -> leaf_maps st sl st' /\ b_line st' <= b_lineMax st.
Proof. exact r_paragraph_maps. Qed.
Print Assumptions C03_paragraph_maps.
Theorem C03_lheading_maps : forall cfg term, term_same term -> forall st sl el st',
  r_lheading cfg term st sl el false = Ok (true, st') -> sl < el -> leaf_maps st sl st' /\ b_line st' <= el.
Proof. exact r_lheading_maps. Qed.
Print Assumptions C03_lheading_maps.

(* ---- the whole block parser ------------------------------------------------------------- *)
From MD Require Import Model.Ruler Lemmas.MapWhole Lemmas.PipelineSafe.

(* Every token ParserBlock.parse appends carries a map [b, e) with 0 <= b < e <= lineMax (or none),
   the cursor ends inside the line table - for EVERY source, env and every configuration that
   has the paragraph rule and whose named terminator chains hold only rules with a silent mode.
   The proof carries, through every rule, container, terminator chain and table rewrite: each
   successful rule advances the cursor; nested tokenize makes progress, so container maps are
   non-empty; the reference rule's line counter never exceeds the line feeds of the lines it
   read (no line feed lies between a start mark and its end mark, for fresh tables and for
   the rewritten / restored tables of block quotes and list items alike). *)
Theorem C03_block_parse_maps :
  forall cfg rf cf, silent_terms cfg -> mem_str nm_paragraph (c_rules cfg) = true ->
  forall src env toks st',
    block_parse cfg rf cf src env toks = Ok st' ->
    let n := b_lineMax (state_init src env toks) in
    b_lineMax st' = n /\ 0 <= b_line st' <= n
    /\ exists seg, b_tokens st' = toks ++ seg /\ Forall (map_in 0 n) seg.
Proof. exact block_parse_maps. Qed.
Print Assumptions C03_block_parse_maps.

(* one rule call, any rule of the chain: on success the cursor moves strictly forward, stays in the
   table, the appended maps lie in [startLine, new line], the table invariant is kept; on failure
   or in silent mode the state comes back unchanged (parentType apart) *)
Theorem C03_rule_contract :
  forall cfg rf cf rec term, rec_c rec -> term_fr term ->
  forall n st sl el silent b st',
    apply_rule cfg rf cf rec term n st sl el silent = Ok (b, st') ->
    (silent = true -> silent_capable n) ->
    rule_c st sl el silent b st' /\ (str_eqb n nm_paragraph = true -> silent = false -> b = true).
Proof. exact apply_rule_c. Qed.
Print Assumptions C03_rule_contract.

(* the nested tokenize at any depth *)
Theorem C03_tokenize_contract :
  forall cfg rf cf, silent_terms cfg -> mem_str nm_paragraph (c_rules cfg) = true ->
  forall d, rec_c (tokenize cfg rf cf d).
Proof. exact tokenize_rec_c. Qed.
Print Assumptions C03_tokenize_contract.

Theorem C03_fresh_tables_invariant : forall src env toks, TI (state_init src env toks).
Proof. exact state_init_TI. Qed.
Print Assumptions C03_fresh_tables_invariant.

(* every Ruler-compiled configuration of a rule table in which code, lheading and paragraph have
   no alt chains (as in the generated table) satisfies the terminator hypothesis *)
Theorem C03_ruler_cfg_silent_terms :
  forall (rs : list (@rule str)) code mn html defs,
    alts_ok rs = true -> silent_terms (mkBCfg (compile_chain rs []) (compile_chain rs) code mn html defs).
Proof. exact ruler_cfg_silent_terms. Qed.
Print Assumptions C03_ruler_cfg_silent_terms.

(* the hypotheses are met by the generated rule table and by a concrete document with a heading,
   a block quote holding a list, a definition and a paragraph *)
From MD Require Import Gen.Rules.
Example C03_registry_alts_ok :
  alts_ok (map (fun na => mkRule (fst na) true (fst na) (snd na)) block_registry) = true.
Proof. vm_compute. reflexivity. Qed.

Example C03_maps_theorem_applies :
  let cfg := mkBCfg (compile_chain (map (fun na => mkRule (fst na) true (fst na) (snd na)) block_registry) [])
                    (compile_chain (map (fun na => mkRule (fst na) true (fst na) (snd na)) block_registry)) true 20 false false in
  mem_str nm_paragraph (c_rules cfg) = true
  /\ exists st', block_parse cfg (fun s => s) (fun s => s) ex_src env0 [] = Ok st' /\ 5 < len (b_tokens st').
Proof. cbv zeta. split; [vm_compute; reflexivity|]. eexists. split; vm_compute; reflexivity. Qed.

(* ---- sibling order ----------------------------------------------------------------------------- *)
From MD Require Import Lemmas.MapOrder.

(* [oseg lo hi tokens]: the tokens split into segments with line ranges [a, b), lo <= a < b, each
   range starting at or after the end of the one before it, every map of a segment inside its range,
   the last range ending at or before hi.  One segment is what one successful rule call appended:
   a block together with everything nested in it. *)

(* the whole document: no top-level block starts before the end of the block before it *)
Theorem C03_block_parse_ordered :
  forall cfg rf cf, silent_terms cfg -> mem_str nm_paragraph (c_rules cfg) = true ->
  forall src env toks st', block_parse cfg rf cf src env toks = Ok st' ->
  exists seg, b_tokens st' = toks ++ seg /\ oseg 0 (b_line st') seg.
Proof. exact block_parse_ordered. Qed.
Print Assumptions C03_block_parse_ordered.

(* the same inside every block quote and list item: what the nested block loop appends, at any
   depth and from any state satisfying the table invariant, is ordered *)
Theorem C03_nested_tokenize_ordered :
  forall cfg rf cf, silent_terms cfg -> mem_str nm_paragraph (c_rules cfg) = true ->
  forall d st a b st', tokenize cfg rf cf d st a b = Ok st' -> 0 <= a -> a < b -> b <= b_lineMax st -> TI st ->
  exists seg, b_tokens st' = b_tokens st ++ seg /\ oseg a (b_line st') seg.
Proof. exact tokenize_ordered. Qed.
Print Assumptions C03_nested_tokenize_ordered.

(* ordered segments are in range as a whole (so this refines C03_block_parse_maps) *)
Theorem C03_ordered_in_range : forall lo hi s, oseg lo hi s -> Forall (map_in lo hi) s.
Proof. exact oseg_in. Qed.
Print Assumptions C03_ordered_in_range.

(* ---- the map of an inline container spans the lines its content was taken from ------------------ *)
From MD Require Import Lemmas.Verbatim Lemmas.InlineContent.

(* the paragraph rule, from any state and with any terminator callback that only answers: the three
   tokens it appends carry the map [sl, nl) (the inline token too), nl is where the cursor ends, and
   the inline content is strip(getLines(sl, nl, blkIndent)) - which is, line by line, one piece per
   source line sl + i ([pieces]: a suffix of that line after at most 3 spaces from a split tab, only
   blanks and container-prefix characters dropped; C08_get_lines_verbatim) *)
Theorem C03_paragraph_content_lines :
  forall term, term_fr term -> forall st sl el st',
  r_paragraph term st sl el false = Ok (true, st') ->
  exists nl raw op inl cl,
    b_tokens st' = b_tokens st ++ [op; inl; cl]
    /\ tmap op = Some (sl, nl) /\ tmap inl = Some (sl, nl) /\ b_line st' = nl
    /\ get_lines st sl nl (b_blkIndent st) false = Ok raw
    /\ tcontent inl = strip_by is_space raw
    /\ (0 <= b_blkIndent st -> pieces st nl false sl raw).
Proof. exact paragraph_inline_lines. Qed.
Print Assumptions C03_paragraph_content_lines.

(* ---- no non-blank line is skipped: the line loop covers the input --------------------------------------- *)
From MD Require Import Lemmas.NoRaise Lemmas.MapOrder Lemmas.Cover.

(* For EVERY source, env and configuration with the paragraph rule (terminator chains as the Ruler compiles them,
   0 < maxNesting): what ParserBlock.parse appends is a sequence of segments, one per successful rule call, over line
   ranges [a, b) that increase and do not overlap, START ON A NON-BLANK LINE and contain every map of their tokens
   (cseg implies oseg), and every line BEFORE the first range, BETWEEN two ranges and AFTER the last one up to lineMax is blank for the line tables
   of the source ([blank]: StateBlock.isEmpty does not answer False).  The segment of a reference definition is
   empty: its lines are covered by the range of the call that recorded it in env. *)
Theorem C03_block_parse_covers :
  forall cfg rf cf src env toks st,
    term_names_ok cfg -> mem_str nm_paragraph (c_rules cfg) = true -> 0 < c_maxNesting cfg ->
    block_parse cfg rf cf src env toks = Ok st ->
    let s0 := state_init src env toks in
    exists seg, b_tokens st = toks ++ seg /\ cseg (blank s0) 0 (b_lineMax s0) seg.
Proof. exact block_parse_cover. Qed.
Print Assumptions C03_block_parse_covers.

(* what cseg gives, line by line: blank, or inside the line range of a rule call *)
Theorem C03_covered_line_by_line :
  forall (B : Z -> Prop) lo hi seg, cseg B lo hi seg ->
    forall l, lo <= l < hi -> B l \/ exists a b, a <= l < b /\ lo <= a /\ b <= hi.
Proof. exact cseg_covers. Qed.
Print Assumptions C03_covered_line_by_line.

(* ... and the ranges are ordered with all maps inside (the statement of C03_block_parse_ordered) *)
Theorem C03_covered_is_ordered : forall (B : Z -> Prop) lo hi seg, cseg B lo hi seg -> oseg lo hi seg.
Proof. exact cseg_oseg. Qed.
Print Assumptions C03_covered_is_ordered.

(* the definition, for reading: blank = isEmpty(line) is not False; cseg = nil | range then rest *)
Definition C03_cover_means :
  (forall st l, blank st l <-> is_empty st l <> Ok false)
  /\ (forall (B : Z -> Prop) lo hi, lo <= hi -> (forall l, lo <= l < hi -> B l) -> cseg B lo hi [])
  /\ (forall (B : Z -> Prop) lo hi a b seg rest, lo <= a -> a < b -> (forall l, lo <= l < a -> B l) -> ~ B a -> Forall (map_in a b) seg ->
        cseg B b hi rest -> cseg B lo hi (seg ++ rest))
  := conj (fun st l => conj (fun x => x) (fun x => x)) (conj cseg_nil cseg_cons).

(* ---- leaf blocks end on a non-blank line ------------------------------------------------------------------- *)
From MD Require Import Lemmas.LeafEnds.

(* the paragraph rule, from any state, with any terminator callback that only answers, called on a non-blank line (which the
   line loop guarantees: every rule-call range starts on a non-blank line, C03_block_parse_covers): its three tokens carry
   the map [sl, nl) and EVERY line of that range is non-blank - in particular the last one *)
Theorem C03_paragraph_ends_nonblank :
  forall term, term_fr term -> forall st sl el st',
  r_paragraph term st sl el false = Ok (true, st') -> is_empty st sl = Ok false ->
  exists nl op inl cl,
    b_tokens st' = b_tokens st ++ [op; inl; cl] /\ tmap op = Some (sl, nl) /\ tmap inl = Some (sl, nl) /\ b_line st' = nl
    /\ sl < nl /\ (forall l, sl <= l < nl -> is_empty st l = Ok false).
Proof. exact paragraph_ends_nonblank. Qed.
Print Assumptions C03_paragraph_ends_nonblank.

(* the indented-code rule: the map [sl, last) of its token ends on the last code line, which is non-blank (trailing blank
   lines are not part of the block) *)
Theorem C03_code_block_ends_nonblank :
  forall cfg st sl el silent st',
  r_code cfg st sl el silent = Ok (true, st') -> is_empty st sl = Ok false ->
  exists last t, b_tokens st' = b_tokens st ++ [t] /\ tmap t = Some (sl, last) /\ b_line st' = last
                 /\ sl < last /\ is_empty st (last - 1) = Ok false.
Proof. exact code_block_ends_nonblank. Qed.
Print Assumptions C03_code_block_ends_nonblank.

(* the setext heading rule: its opening token carries the map [sl, nl + 1) where nl is the underline - EVERY line of that range
   is non-blank, in particular the last one (the underline); the inline token's map [sl, nl) stops before the underline *)
From MD Require Import Lemmas.TableRows.
Theorem C03_setext_heading_ends_nonblank :
  forall cfg term, term_fr term -> forall st sl el st',
  r_lheading cfg term st sl el false = Ok (true, st') -> is_empty st sl = Ok false ->
  exists nl op inl cl,
    b_tokens st' = b_tokens st ++ [op; inl; cl] /\ tmap op = Some (sl, nl + 1) /\ tmap inl = Some (sl, nl) /\ b_line st' = nl + 1
    /\ sl < nl /\ nl < el /\ (forall l, sl <= l < nl + 1 -> is_empty st l = Ok false).
Proof. exact setext_heading_ends_nonblank. Qed.
Print Assumptions C03_setext_heading_ends_nonblank.

(* table body rows: every tr_open token the table rule's row loop pushes carries a one-line map [l, l + 1) on a non-blank line l
   (the loop stops at the first line that is empty once trimmed); from any state whose line tables are well formed (TI: what
   StateBlock builds and every rule keeps) and any terminator callback that only answers *)
Theorem C03_table_rows_end_nonblank :
  forall cfg term, term_fr term -> forall fuel st aligns sl el r tb' st',
  TI st -> 0 <= sl ->
  table_rows cfg fuel term st aligns sl (sl + 2) el None = Ok (r, tb', st') ->
  exists seg, b_tokens st' = b_tokens st ++ seg
    /\ Forall (fun t => ttype t = s_tr_open -> exists l, tmap t = Some (l, l + 1) /\ is_empty st l = Ok false) seg.
Proof. exact table_body_rows_nonblank. Qed.
Print Assumptions C03_table_rows_end_nonblank.

(* ---- containment in the enclosing container's own map ------------------------------------------------------ *)
(* the block quote rule, with any nested block loop that meets the loop's contract (rec_c: proved for ParserBlock.tokenize
   at every depth, C03_nested_tokenize_maps) and any terminator callback that only answers: the blockquote_open token carries
   exactly the line range the rule consumed as its map, and every token between it and blockquote_close has its map inside
   that range *)
Theorem C03_quote_contains :
  forall cfg rec term, rec_c rec -> term_fr term -> forall st sl el st',
  r_blockquote cfg rec term st sl el false = Ok (true, st') -> pre st sl el ->
  exists op seg cl, b_tokens st' = b_tokens st ++ op :: seg ++ [cl]
    /\ tmap op = Some (sl, b_line st') /\ ttype op = [98; 108; 111; 99; 107; 113; 117; 111; 116; 101; 95; 111; 112; 101; 110]
    /\ Forall (map_in sl (b_line st')) seg /\ tmap cl = None.
Proof. exact r_blockquote_contains. Qed.
Print Assumptions C03_quote_contains.

(* the list rule: the list token carries the line range of the whole list; between it and the closing token the maps are those
   of a sequence of items (mseq), each  list_item_open [a, b)  followed by tokens with maps inside [a, b) and a closing token,
   item after item, the last one ending where the list ends - also after markTightParagraphs *)
Theorem C03_list_contains :
  forall cfg rec term, rec_c rec -> term_fr term -> forall st sl el st',
  r_list cfg rec term st sl el false = Ok (true, st') -> pre st sl el ->
  exists lo its lc, b_tokens st' = b_tokens st ++ lo :: its ++ [lc]
    /\ tmap lo = Some (sl, b_line st') /\ tmap lc = None /\ mseq sl (b_line st') (map tmap its).
Proof. exact r_list_contains. Qed.
Print Assumptions C03_list_contains.

Definition C03_mseq_means :
  (forall a b ms, Forall (mp_in a b) ms -> mseq a b (Some (a, b) :: ms ++ [None]))
  /\ (forall a b c ms rest, Forall (mp_in a b) ms -> mseq b c rest -> mseq a c ((Some (a, b) :: ms ++ [None]) ++ rest))
  /\ (forall a b x y, mp_in a b (Some (x, y)) <-> a <= x /\ x < y /\ y <= b)
  := conj mseq_one (conj mseq_more (fun a b x y => conj (fun h => h) (fun h => h))).
