(* C02 -- token streams are well nested, correctly levelled and tree-constructible.
   Block half, PROVED for every source, env, configuration and every value of the opaque
   dependencies: what ParserBlock.parse appends to the token list is a balanced segment at depth 0
   (C02_block_stream_balanced): openers and closers pair up in nested fashion, every level is the
   running depth, nesting sums to zero, the state's level is back at 0.  The proof goes rule by
   rule (all 11 block rules incl. the recursive containers, the table body, the updates of maps
   and hidden flags after the fact), through terminator chains, the line loop and the recursion
   on container depth.  Inline half: fragments_join / text_join theorems below; that each inline
   rule pushes balanced segments is carried by the pipeline correspondence and the
   well-formedness predicate on the implementation.  Only statements and [exact]. *)
From MD Require Import Base.Py Base.Str Base.Opt Model.Token Model.Utils Model.Render Model.Core Model.StateBlock
     Model.Block Model.Inline Model.Tree Lemmas.StreamWF Lemmas.BlockLemmas Lemmas.TreeLemmas Lemmas.BlockWF.

(* after fragments_join (the last inline post-processing rule) every token's level equals its
   depth at that point and no two text tokens are adjacent *)
Theorem C02_fragments_join_wf :
  forall ts, text_flat ts -> levels_ok (fj ts 0 None) 0 /\ no_adjacent_text (fj ts 0 None).
Proof. exact fragments_join_wf. Qed.
Print Assumptions C02_fragments_join_wf.

(* text_join leaves no text_special placeholder among the children of an inline token *)
Theorem C02_text_join_no_special :
  forall l, Forall (fun x => str_eqb (ttype x) s_text_special = false) (join_children l).
Proof. exact text_join_no_special. Qed.
Print Assumptions C02_text_join_no_special.

(* StateBlock.push: the level of the pushed token is the depth, and the state's level follows *)
Theorem C02_block_push_level :
  forall st ty tag nesting f, (forall t, tlevel (f t) = tlevel t) ->
    b_level (bpush st ty tag nesting f) = b_level st + (if 0 <? nesting then 1 else if nesting <? 0 then -1 else 0)
    /\ exists t, b_tokens (bpush st ty tag nesting f) = b_tokens st ++ [t]
                 /\ tlevel t = (if nesting <? 0 then b_level st - 1 else b_level st).
Proof. exact bpush_level. Qed.
Print Assumptions C02_block_push_level.

(* a tree that builds flattens back to the identical stream *)
Theorem C02_tree_roundtrip : forall ts n, build ts = Ok n -> to_tokens n = ts.
Proof. exact tree_roundtrip. Qed.
Print Assumptions C02_tree_roundtrip.

(* the block parser, whole: balanced, well levelled, for all inputs and configurations *)
Theorem C02_block_stream_balanced :
  forall cfg reformat casefold src env toks st,
    block_parse cfg reformat casefold src env toks = Ok st ->
    exists seg, b_tokens st = toks ++ seg /\ bal 0 seg /\ levels_ok seg 0 /\ nest_sum seg = 0 /\ b_level st = 0.
Proof. exact block_parse_balanced. Qed.
Print Assumptions C02_block_stream_balanced.

(* the same contract for any nested run of the block loop (container contents) *)
Theorem C02_nested_tokenize_balanced :
  forall cfg reformat casefold depth st startLine endLine st',
    tokenize cfg reformat casefold depth st startLine endLine = Ok st' -> ext st st'.
Proof. exact tokenize_ok. Qed.
Print Assumptions C02_nested_tokenize_balanced.

(* what [bal] means: levels are the running depth and nesting sums to zero *)
Theorem C02_balanced_levels : forall d ts, bal d ts -> levels_ok ts d /\ nest_sum ts = 0.
Proof. exact bal_summary. Qed.
Print Assumptions C02_balanced_levels.

(* ---- inline half, tokenizer phase ---------------------------------------------------------- *)
From MD Require Lemmas.InlineNest.

(* ParserInline.tokenize at any nesting depth, from ANY state: the level comes back to where it
   was and the appended segment is nested - link_open / link_close pairs like brackets (matching
   kind), every other token with nesting 0.  Covers all 12 tokenizer rules, label / image
   recursion, skipToken, pending-text flushing. *)
Theorem C02_inline_tokenize_nested :
  forall cfg rf cf lt depth st st',
    inline_tokenize cfg rf cf lt (ifs cfg rf cf lt depth) st = Ok st' ->
    i_level st' = i_level st /\ exists seg, i_tokens st' = i_tokens st ++ seg /\ InlineNest.ib seg.
Proof. exact InlineNest.inline_tokenize_nested. Qed.
Print Assumptions C02_inline_tokenize_nested.

(* the whole inline parser when the emphasis / strikethrough post-rules are not in the chain (they
   are the rules that turn text tokens into pairs): the output checks with a depth counter -
   never negative, zero at the end, every closing token a link_close under an open link_open;
   fragments_join only drops text tokens and rewrites levels *)
Theorem C02_inline_parse_nested :
  forall cfg rf cf lt src env r,
    InlineNest.no_pair_rules2 cfg -> inline_parse cfg rf cf lt src env [] = Ok r -> InlineNest.nested 0 r.
Proof. exact InlineNest.inline_parse_nested. Qed.
Print Assumptions C02_inline_parse_nested.

Theorem C02_fragments_join_keeps_nesting :
  forall tokens d level carry, InlineNest.nested d tokens -> InlineNest.nested d (fj tokens level carry).
Proof. exact InlineNest.fj_nested. Qed.
Print Assumptions C02_fragments_join_keeps_nesting.

(* ---- a syntax tree can be built ------------------------------------------------------------------ *)
From MD Require Import Model.Tree Lemmas.BlockKinds Lemmas.TreeBuild.

(* on every balanced stream of tokens without children the tree builder (SyntaxTreeNode: find the
   closing token by counting nesting) returns a tree, and the tree flattens back to the stream *)
Theorem C02_balanced_stream_builds :
  forall d ts, bal d ts -> Forall childless ts -> exists n, build ts = Ok n /\ to_tokens n = ts.
Proof. exact build_bal. Qed.
Print Assumptions C02_balanced_stream_builds.

(* what ParserBlock.parse returns is such a stream - for every source, env and configuration *)
Theorem C02_block_stream_tree_constructible :
  forall cfg rf cf, chains_sub cfg -> forall src env st,
  block_parse cfg rf cf src env [] = Ok st -> exists n, build (b_tokens st) = Ok n /\ to_tokens n = b_tokens st.
Proof. exact block_parse_tree. Qed.
Print Assumptions C02_block_stream_tree_constructible.
