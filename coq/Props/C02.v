(* C02 -- token streams are well nested, correctly levelled and tree-constructible.
   Stream-level theorems (for ALL token lists); the producer side (every rule pushes balanced
   segments) is carried by the pipeline correspondence and the well-formedness checker on the
   implementation.  Only statements and [exact]. *)
From MD Require Import Base.Py Base.Str Base.Opt Model.Token Model.Utils Model.Render Model.Core Model.StateBlock
     Model.Block Model.Inline Model.Tree Lemmas.StreamWF Lemmas.BlockLemmas Lemmas.TreeLemmas.

(* after fragments_join (the last inline post-processing rule) every token's level equals its
   depth at that point and no two text tokens are adjacent *)
Theorem C02_fragments_join_wf :
  forall ts, text_flat ts -> levels_ok (fj ts 0 None) 0 /\ no_adjacent_text (fj ts 0 None).
Proof. exact fragments_join_wf. Qed.
Print Assumptions C02_fragments_join_wf.

(* text_join leaves no text_special placeholder among the children of an inline token *)
Theorem C02_text_join_no_special :
  forall l, Forall (fun x => str_eqb (ttype x) s_text_special = false) (join_children l).
Proof. exact text_join_no_special. Qed.
Print Assumptions C02_text_join_no_special.

(* StateBlock.push: the level of the pushed token is the depth, and the state's level follows *)
Theorem C02_block_push_level :
  forall st ty tag nesting f, (forall t, tlevel (f t) = tlevel t) ->
    b_level (bpush st ty tag nesting f) = b_level st + (if 0 <? nesting then 1 else if nesting <? 0 then -1 else 0)
    /\ exists t, b_tokens (bpush st ty tag nesting f) = b_tokens st ++ [t]
                 /\ tlevel t = (if nesting <? 0 then b_level st - 1 else b_level st).
Proof. exact bpush_level. Qed.
Print Assumptions C02_block_push_level.

(* a tree that builds flattens back to the identical stream *)
Theorem C02_tree_roundtrip : forall ts n, build ts = Ok n -> to_tokens n = ts.
Proof. exact tree_roundtrip. Qed.
Print Assumptions C02_tree_roundtrip.
