(* C17 -- equivalent encodings parse identically (line endings, NUL).  The first core
   rule maps all encodings to one string before anything else looks at the source, so
   tokens, maps, env and HTML are identical.  Only statements and [exact]. *)
From MD Require Import Base.Py Base.Str Model.Core Lemmas.NormalizeLemmas.

(* any per-line mixture of LF / CR LF / lone CR spellings of a CR-free text *)
Theorem C17_line_endings :
  forall s, no_cr s -> forall choice, normalize (reencode choice s) = normalize s.
Proof. exact normalize_reencode. Qed.
Print Assumptions C17_line_endings.

Theorem C17_crlf : forall s, no_cr s -> normalize (crlf s) = normalize s.
Proof. exact normalize_crlf. Qed.
Print Assumptions C17_crlf.

Theorem C17_nul_is_fffd : forall s, normalize (nul_to_fffd s) = normalize s.
Proof. exact normalize_nul. Qed.
Print Assumptions C17_nul_is_fffd.

Theorem C17_no_cr_nul_left :
  forall s, mem_z CR (normalize s) = false /\ mem_z NUL (normalize s) = false.
Proof. exact normalize_clean. Qed.
Print Assumptions C17_no_cr_nul_left.

Theorem C17_normalize_idempotent : forall s, normalize (normalize s) = normalize s.
Proof. exact normalize_idempotent. Qed.
Print Assumptions C17_normalize_idempotent.

Example C17_nonvacuous :
  normalize (reencode [1; 2; 0; 2] [97; 10; 98; 10; 10; 99; 0; 10]) = [97; 10; 98; 10; 10; 99; 65533; 10]
  /\ reencode [1; 2; 0; 2] [97; 10; 98; 10; 10; 99; 0; 10] = [97; 13; 10; 98; 13; 10; 10; 99; 0; 13].
Proof. vm_compute. split; reflexivity. Qed.
