(* C17 -- equivalent encodings parse identically (line endings, NUL).  The first core
   rule maps all encodings to one string before anything else looks at the source, so
   tokens, maps, env and HTML are identical.  Only statements and [exact]. *)
From MD Require Import Base.Py Base.Str Model.Core Lemmas.NormalizeLemmas.

(* any per-line mixture of LF / CR LF / lone CR spellings of a CR-free text *)
Theorem C17_line_endings :
  forall s, no_cr s -> forall choice, normalize (reencode choice s) = normalize s.
Proof. exact normalize_reencode. Qed.
Print Assumptions C17_line_endings.

Theorem C17_crlf : forall s, no_cr s -> normalize (crlf s) = normalize s.
Proof. exact normalize_crlf. Qed.
Print Assumptions C17_crlf.

Theorem C17_nul_is_fffd : forall s, normalize (nul_to_fffd s) = normalize s.
Proof. exact normalize_nul. Qed.
Print Assumptions C17_nul_is_fffd.

Theorem C17_no_cr_nul_left :
  forall s, mem_z CR (normalize s) = false /\ mem_z NUL (normalize s) = false.
Proof. exact normalize_clean. Qed.
Print Assumptions C17_no_cr_nul_left.

Theorem C17_normalize_idempotent : forall s, normalize (normalize s) = normalize s.
Proof. exact normalize_idempotent. Qed.
Print Assumptions C17_normalize_idempotent.

(* normalize AS WRITTEN - NEWLINES_RE.sub("\n", src) then NULL_RE.sub(U+FFFD, ...), the two regular expressions regenerated
   from /repo on every run and run by the backtracking matcher - is the direct function above, on every string *)
From MD Require Import Lemmas.NormalizeRe.
Theorem C17_normalize_regex_is_direct : forall s, normalize_re s = normalize s.
Proof. exact normalize_re_eq. Qed.
Print Assumptions C17_normalize_regex_is_direct.

Example C17_nonvacuous :
  normalize (reencode [1; 2; 0; 2] [97; 10; 98; 10; 10; 99; 0; 10]) = [97; 10; 98; 10; 10; 99; 65533; 10]
  /\ reencode [1; 2; 0; 2] [97; 10; 98; 10; 10; 99; 0; 10] = [97; 13; 10; 98; 13; 10; 10; 99; 0; 13].
Proof. vm_compute. split; reflexivity. Qed.

(* ---- structural tabs, top level: indentation columns ------------------------------------- *)
From MD Require Import Model.StateBlock Lemmas.TabCols.

(* For EVERY document made of lines  blanks ++ rest ++ LF  (blanks: spaces and tabs; rest empty or
   starting with a non-blank, without line feed): the indentation column the block parser records
   for each line (sCount) is the tab-stop column width of its blanks, tShift their number, and
   lineMax the number of lines. *)
Theorem C17_indent_is_column_width :
  forall ls env toks, Forall line_wf ls ->
    let st := state_init (doc_text ls) env toks in
    b_sCount st = map (fun l => cols 0 (l_ws l)) ls ++ [0]
    /\ b_tShift st = map (fun l => len (l_ws l)) ls ++ [0]
    /\ b_lineMax st = len ls.
Proof. exact init_columns. Qed.
Print Assumptions C17_indent_is_column_width.

(* hence any re-spelling of leading blanks that keeps each line's column - a tab for the spaces up
   to the next multiple of four or the other way round - leaves the indentation table and the
   line count unchanged *)
Theorem C17_respelling_keeps_columns :
  forall ls1 ls2 env1 toks1 env2 toks2,
    Forall line_wf ls1 -> Forall line_wf ls2 ->
    Forall2 (fun a b => cols 0 (l_ws a) = cols 0 (l_ws b)) ls1 ls2 ->
    b_sCount (state_init (doc_text ls1) env1 toks1) = b_sCount (state_init (doc_text ls2) env2 toks2)
    /\ b_lineMax (state_init (doc_text ls1) env1 toks1) = b_lineMax (state_init (doc_text ls2) env2 toks2).
Proof. exact respell_same_columns. Qed.
Print Assumptions C17_respelling_keeps_columns.

Theorem C17_tab_expansion_keeps_columns :
  forall ls env toks, Forall line_wf ls ->
    b_sCount (state_init (doc_text (map expand_line ls)) env toks) = b_sCount (state_init (doc_text ls) env toks)
    /\ b_lineMax (state_init (doc_text (map expand_line ls)) env toks) = b_lineMax (state_init (doc_text ls) env toks).
Proof. exact expand_tabs_same_columns. Qed.
Print Assumptions C17_tab_expansion_keeps_columns.

Theorem C17_expansion_column_exact :
  forall ws off, 0 <= off -> Forall blank ws ->
    cols off (expand off ws) = cols off ws /\ Forall (fun c => c = 32) (expand off ws).
Proof. intros ws off H F. exact (conj (cols_expand ws off H F) (expand_no_tab ws off F)). Qed.
Print Assumptions C17_expansion_column_exact.

(* a concrete document: "\tfoo" / " \t bar" / blank / "x" *)
Example C17_columns_apply :
  let ls := [mkLine [9] [102; 111; 111]; mkLine [32; 9; 32] [98; 97; 114]; mkLine [32; 32] []; mkLine [] [120]] in
  Forall line_wf ls /\ b_sCount (state_init (doc_text ls) env0 []) = [4; 5; 2; 0; 0].
Proof.
  cbv zeta. split; [|vm_compute; reflexivity].
  assert (B32 : blank 32) by (left; reflexivity). assert (B9 : blank 9) by (right; reflexivity).
  constructor; [|constructor; [|constructor; [|constructor; [|constructor]]]].
  - split; [repeat constructor; assumption|]. right. exists 102, [111; 111].
    split; [reflexivity|]. split; [reflexivity|]. split; [discriminate|]. intros x [<-|[<-|[]]]; discriminate.
  - split; [repeat constructor; assumption|]. right. exists 98, [97; 114].
    split; [reflexivity|]. split; [reflexivity|]. split; [discriminate|]. intros x [<-|[<-|[]]]; discriminate.
  - split; [repeat constructor; assumption|]. left. reflexivity.
  - split; [constructor|]. right. exists 120, []. split; [reflexivity|]. split; [reflexivity|]. split; [discriminate|]. intros x [].
Qed.

(* ---- tabs behind a block quote marker ----------------------------------------------------------- *)
From MD Require Import Model.Block Lemmas.QuoteLemmas Lemmas.QuoteCols.

(* the row the quote rule writes for  '>' ws (non-blank | end of line),  ws a non-empty run of spaces
   and tabs, with the marker in real column R = bsCount + sCount: the new sCount is the column the
   blanks reach (tab stops every four real columns) minus R + 2, the new bsCount is R + 2 - whether the
   first blank is a space, a tab one column wide, or a wider tab that the rule splits *)
Theorem C17_quote_marker_blanks_are_columns :
  forall src pos0 mx sc bs ws,
  0 <= pos0 -> 0 <= bs + sc -> ws <> [] -> Forall blank ws -> chars_at src (pos0 + 1) ws ->
  stop_at src (pos0 + 1 + len ws) mx -> pos0 + 1 + len ws <= mx -> mx <= len src ->
  exists q, bq_strip src pos0 mx sc bs = Ok q
    /\ q_sCount q = cols (bs + sc + 1) ws - (bs + sc + 2)
    /\ q_bsCount q = bs + sc + 2
    /\ q_bMark q + q_tShift q = pos0 + 1 + len ws
    /\ q_empty q = (mx <=? pos0 + 1 + len ws).
Proof. exact bq_strip_columns. Qed.
Print Assumptions C17_quote_marker_blanks_are_columns.

(* hence two spellings of those blanks that reach the same column - a run with tabs and its
   expansion to spaces (C17_tab_expansion_keeps_columns) - give the same row for every later rule *)
Theorem C17_quote_marker_respelling :
  forall src1 src2 p1 p2 mx1 mx2 sc bs ws1 ws2 q1 q2,
  0 <= p1 -> 0 <= p2 -> 0 <= bs + sc -> ws1 <> [] -> ws2 <> [] -> Forall blank ws1 -> Forall blank ws2 ->
  chars_at src1 (p1 + 1) ws1 -> chars_at src2 (p2 + 1) ws2 ->
  stop_at src1 (p1 + 1 + len ws1) mx1 -> stop_at src2 (p2 + 1 + len ws2) mx2 ->
  p1 + 1 + len ws1 <= mx1 -> p2 + 1 + len ws2 <= mx2 -> mx1 <= len src1 -> mx2 <= len src2 ->
  cols (bs + sc + 1) ws1 = cols (bs + sc + 1) ws2 ->
  (mx1 <=? p1 + 1 + len ws1) = (mx2 <=? p2 + 1 + len ws2) ->
  bq_strip src1 p1 mx1 sc bs = Ok q1 -> bq_strip src2 p2 mx2 sc bs = Ok q2 ->
  q_sCount q1 = q_sCount q2 /\ q_bsCount q1 = q_bsCount q2 /\ q_empty q1 = q_empty q2.
Proof. exact bq_strip_respelling. Qed.
Print Assumptions C17_quote_marker_respelling.

(* ---- tabs behind a list marker ------------------------------------------------------------------ *)
(* the list rule's scan of the blanks after a marker: with offset the column after the marker and bs
   the line's bsCount it returns the real column the blanks reach (minus bs) ... *)
Theorem C17_list_marker_blanks_are_columns :
  forall ws fuel src pos mx offset bs,
  Forall blank ws -> chars_at src pos ws -> stop_at src (pos + len ws) mx ->
  (length ws < fuel)%nat -> 0 <= pos -> pos + len ws <= mx ->
  list_blanks fuel src pos mx offset bs = Ok (pos + len ws, cols (offset + bs) ws - bs).
Proof. exact list_blanks_exact. Qed.
Print Assumptions C17_list_marker_blanks_are_columns.

(* ... so two spellings that reach the same column give the item the same content column *)
Theorem C17_list_marker_respelling :
  forall src1 src2 p1 p2 mx1 mx2 offset bs ws1 ws2,
  Forall blank ws1 -> Forall blank ws2 -> chars_at src1 p1 ws1 -> chars_at src2 p2 ws2 ->
  stop_at src1 (p1 + len ws1) mx1 -> stop_at src2 (p2 + len ws2) mx2 ->
  0 <= p1 -> 0 <= p2 -> p1 + len ws1 <= mx1 -> p2 + len ws2 <= mx2 -> mx1 <= len src1 -> mx2 <= len src2 ->
  cols (offset + bs) ws1 = cols (offset + bs) ws2 ->
  exists o, list_blanks (S (length src1)) src1 p1 mx1 offset bs = Ok (p1 + len ws1, o)
         /\ list_blanks (S (length src2)) src2 p2 mx2 offset bs = Ok (p2 + len ws2, o).
Proof. exact list_blanks_respelling. Qed.
Print Assumptions C17_list_marker_respelling.
