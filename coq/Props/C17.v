(* C17 -- equivalent encodings parse identically (line endings, NUL).  The first core
   rule maps all encodings to one string before anything else looks at the source, so
   tokens, maps, env and HTML are identical.  Only statements and [exact]. *)
From MD Require Import Base.Py Base.Str Model.Core Lemmas.NormalizeLemmas.

(* any per-line mixture of LF / CR LF / lone CR spellings of a CR-free text *)
Theorem C17_line_endings :
  forall s, no_cr s -> forall choice, normalize (reencode choice s) = normalize s.
Proof. exact normalize_reencode. Qed.
Print Assumptions C17_line_endings.

Theorem C17_crlf : forall s, no_cr s -> normalize (crlf s) = normalize s.
Proof. exact normalize_crlf. Qed.
Print Assumptions C17_crlf.

Theorem C17_nul_is_fffd : forall s, normalize (nul_to_fffd s) = normalize s.
Proof. exact normalize_nul. Qed.
Print Assumptions C17_nul_is_fffd.

Theorem C17_no_cr_nul_left :
  forall s, mem_z CR (normalize s) = false /\ mem_z NUL (normalize s) = false.
Proof. exact normalize_clean. Qed.
Print Assumptions C17_no_cr_nul_left.

Theorem C17_normalize_idempotent : forall s, normalize (normalize s) = normalize s.
Proof. exact normalize_idempotent. Qed.
Print Assumptions C17_normalize_idempotent.

Example C17_nonvacuous :
  normalize (reencode [1; 2; 0; 2] [97; 10; 98; 10; 10; 99; 0; 10]) = [97; 10; 98; 10; 10; 99; 65533; 10]
  /\ reencode [1; 2; 0; 2] [97; 10; 98; 10; 10; 99; 0; 10] = [97; 13; 10; 98; 13; 10; 10; 99; 0; 13].
Proof. vm_compute. split; reflexivity. Qed.

(* ---- structural tabs, top level: indentation columns ------------------------------------- *)
From MD Require Import Model.StateBlock Lemmas.TabCols.

(* For EVERY document made of lines  blanks ++ rest ++ LF  (blanks: spaces and tabs; rest empty or
   starting with a non-blank, without line feed): the indentation column the block parser records
   for each line (sCount) is the tab-stop column width of its blanks, tShift their number, and
   lineMax the number of lines. *)
Theorem C17_indent_is_column_width :
  forall ls env toks, Forall line_wf ls ->
    let st := state_init (doc_text ls) env toks in
    b_sCount st = map (fun l => cols 0 (l_ws l)) ls ++ [0]
    /\ b_tShift st = map (fun l => len (l_ws l)) ls ++ [0]
    /\ b_lineMax st = len ls.
Proof. exact init_columns. Qed.
Print Assumptions C17_indent_is_column_width.

(* hence any re-spelling of leading blanks that keeps each line's column - a tab for the spaces up
   to the next multiple of four or the other way round - leaves the indentation table and the
   line count unchanged *)
Theorem C17_respelling_keeps_columns :
  forall ls1 ls2 env1 toks1 env2 toks2,
    Forall line_wf ls1 -> Forall line_wf ls2 ->
    Forall2 (fun a b => cols 0 (l_ws a) = cols 0 (l_ws b)) ls1 ls2 ->
    b_sCount (state_init (doc_text ls1) env1 toks1) = b_sCount (state_init (doc_text ls2) env2 toks2)
    /\ b_lineMax (state_init (doc_text ls1) env1 toks1) = b_lineMax (state_init (doc_text ls2) env2 toks2).
Proof. exact respell_same_columns. Qed.
Print Assumptions C17_respelling_keeps_columns.

Theorem C17_tab_expansion_keeps_columns :
  forall ls env toks, Forall line_wf ls ->
    b_sCount (state_init (doc_text (map expand_line ls)) env toks) = b_sCount (state_init (doc_text ls) env toks)
    /\ b_lineMax (state_init (doc_text (map expand_line ls)) env toks) = b_lineMax (state_init (doc_text ls) env toks).
Proof. exact expand_tabs_same_columns. Qed.
Print Assumptions C17_tab_expansion_keeps_columns.

Theorem C17_expansion_column_exact :
  forall ws off, 0 <= off -> Forall blank ws ->
    cols off (expand off ws) = cols off ws /\ Forall (fun c => c = 32) (expand off ws).
Proof. intros ws off H F. exact (conj (cols_expand ws off H F) (expand_no_tab ws off F)). Qed.
Print Assumptions C17_expansion_column_exact.

(* a concrete document: "\tfoo" / " \t bar" / blank / "x" *)
Example C17_columns_apply :
  let ls := [mkLine [9] [102; 111; 111]; mkLine [32; 9; 32] [98; 97; 114]; mkLine [32; 32] []; mkLine [] [120]] in
  Forall line_wf ls /\ b_sCount (state_init (doc_text ls) env0 []) = [4; 5; 2; 0; 0].
Proof.
  cbv zeta. split; [|vm_compute; reflexivity].
  assert (B32 : blank 32) by (left; reflexivity). assert (B9 : blank 9) by (right; reflexivity).
  constructor; [|constructor; [|constructor; [|constructor; [|constructor]]]].
  - split; [repeat constructor; assumption|]. right. exists 102, [111; 111].
    split; [reflexivity|]. split; [reflexivity|]. split; [discriminate|]. intros x [<-|[<-|[]]]; discriminate.
  - split; [repeat constructor; assumption|]. right. exists 98, [97; 114].
    split; [reflexivity|]. split; [reflexivity|]. split; [discriminate|]. intros x [<-|[<-|[]]]; discriminate.
  - split; [repeat constructor; assumption|]. left. reflexivity.
  - split; [constructor|]. right. exists 120, []. split; [reflexivity|]. split; [reflexivity|]. split; [discriminate|]. intros x [].
Qed.
