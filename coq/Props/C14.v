(* C14 -- an exception escaping from user code leaves the instance intact.
   Only statements and [exact]. *)
From MD Require Import Base.Py Base.Opt Model.Ruler Model.Instance Model.World
     Lemmas.RulerCoherent Lemmas.InstanceLemmas Lemmas.WorldLemmas Lemmas.ResetLemmas.

(* reset_rules: for ANY body of management calls (incl. nested reset_rules blocks),
   raising at its end or inside, the active rule set of every chain on exit is the
   one in force on entry.  (Rule names unique per chain.) *)
Theorem C14_reset_rules_restores :
  forall body r i,
    let i1 := fst (run_body true r body i) in
    (forall k, NoDup (all_names (get_chain i1 k))) ->
    let i' := fst (mstep true i (MReset body r)) in
    forall k n, In n (active_names (get_chain i' k)) <-> In n (active_names (get_chain i k)).
Proof. exact reset_rules_restores. Qed.
Print Assumptions C14_reset_rules_restores.

(* the exception that propagates is the body's own; the restore never raises *)
Theorem C14_reset_rules_propagates :
  forall body r i,
    let i1 := fst (run_body true r body i) in
    (forall k, NoDup (all_names (get_chain i1 k))) ->
    snd (mstep true i (MReset body r)) =
    match snd (run_body true r body i) with Ok _ => Ok MONone | bad => bad end.
Proof. exact reset_rules_result. Qed.
Print Assumptions C14_reset_rules_propagates.

(* registered rules are never lost, whatever happens *)
Theorem C14_rules_never_lost :
  forall fin (o : mop) i, names_le i (fst (mstep fin i o)).
Proof. exact mstep_names_le. Qed.
Print Assumptions C14_rules_never_lost.

(* a parse or render that fails at ANY point (a plugin rule, a render rule or the
   highlight callback raising at its k-th invocation) has touched the instance only
   through getRules on some chains: the configuration proper is unchanged and the
   caches stay coherent, so every later call behaves as if it never happened *)
Theorem C14_failed_parse_leaves_instance :
  forall chains i, ICoherent i -> Sim (parse_touch chains i) i.
Proof. exact parse_touch_sim. Qed.
Print Assumptions C14_failed_parse_leaves_instance.

Theorem C14_after_failure_same_behaviour :
  forall fin (o : mop) chains i, ICoherent i ->
    RSim (mstep fin (parse_touch chains i) o) (mstep fin i o).
Proof. intros fin o chains i H. apply mstep_sim, parse_touch_sim, H. Qed.
Print Assumptions C14_after_failure_same_behaviour.

(* every facade call keeps all four caches coherent, raising or not *)
Theorem C14_coherent_after_any_call :
  forall fin (o : mop) i, ICoherent i -> ICoherent (fst (mstep fin i o)).
Proof. exact mstep_coherent. Qed.
Print Assumptions C14_coherent_after_any_call.

(* the generator without try/finally (before the repair) is refuted *)
Theorem C14_legacy_refuted :
  let i' := fst (mstep false leak_inst (MReset [MDisable [[101; 109]] false] (Some 3))) in
  active_names (i_inline i') = [[116; 120]] /\ active_names (i_inline leak_inst) = [[101; 109]; [116; 120]].
Proof. exact reset_rules_leak_refuted. Qed.
Print Assumptions C14_legacy_refuted.

(* non-vacuity: a nested block whose inner body raises *)
Example C14_nonvacuous :
  let i := bare_inst [] [] [([101; 109], []); ([116; 120], [])] [] in
  let body := [MDisable [[101; 109]] false; MReset [MDisable [[116; 120]] false] (Some 1); MEnable [[101; 109]] false] in
  let r := mstep true i (MReset body None) in
  active_names (i_inline (fst r)) = [[101; 109]; [116; 120]] /\ snd r = Raise (UserExn 1).
Proof. vm_compute. split; reflexivity. Qed.
