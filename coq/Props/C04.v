(* C04 -- with raw HTML off, output is well-formed and contains only renderer-made
   markup.  END TO END ON THE MODEL (C04_render_safe, C04_render_inline_safe): with options.html
   off and no highlight callback, for EVERY source, env, rule configuration (any core chain, any
   block / inline rule subsets) and any value of the opaque dependencies, the string returned by
   render / renderInline is a concatenation of chunks each of which is a fixed renderer literal,
   "<tag" / "</tag" for one of 26 fixed NON-EMPTY tag names (C04_no_empty_tag: no "<>" can be written; this is
   what the text_special render rule of fix 8e8fca6 made provable), or escapeHtml of data -- never a raw chunk.  Renderer side: statements for ALL token lists without html tokens.  Parser side,
   block half: for EVERY source and configuration the tag of every token the block parser
   appends comes from a fixed vocabulary of 19 names (or is empty), and html_block tokens exist
   only when options.html is on (C04_block_tags_from_vocabulary).  Only statements and [exact]. *)
From MD Require Import Base.Py Base.Str Base.Opt Model.Token Model.Utils Model.Render Model.StateBlock Model.Block
     Model.Inline Model.Pipeline Lemmas.EscapeLemmas Lemmas.RenderLemmas Lemmas.BlockKinds Lemmas.InlineKinds Lemmas.PipelineSafe Lemmas.InlineUrls Lemmas.PipelineUrls.

(* for EVERY string: the escaped form contains no < > double-quote, and every & in it
   begins one of the four entities the escaper itself writes *)
Theorem C04_escape_safe : forall s, safe (escape_html s).
Proof. exact escape_safe. Qed.
Print Assumptions C04_escape_safe.

(* the four replace passes of the source compute exactly that function *)
Theorem C04_escape_as_written : forall s, escape_html_passes s = escape_html s.
Proof. exact escape_html_passes_eq. Qed.
Print Assumptions C04_escape_as_written.

(* with no highlight callback and no html_block/html_inline token in the stream, the
   renderer's output consists only of (i) fixed renderer literals, (ii) "<tag" / "</tag"
   for the tag field of a token, (iii) escaped data: no raw chunk at all *)
Theorem C04_only_renderer_markup :
  forall tags o l p cs l',
    o_highlight o = None -> Forall (ok_top tags) l ->
    render_list o p l = Ok (cs, l') -> forallb (chunk_ok tags) cs = true.
Proof. exact render_list_ok. Qed.
Print Assumptions C04_only_renderer_markup.

Theorem C04_chunk_shape :
  forall tags c, chunk_ok tags c = true ->
  (exists s, c = CEsc s /\ chunk_html c = escape_html s)
  \/ (exists s, c = CLit s /\ chunk_html c = s /\
        (In s fixed_lits \/ exists tag, In tag tags /\ (s = 60 :: tag \/ s = 60 :: 47 :: tag))).
Proof. exact chunk_html_shape. Qed.
Print Assumptions C04_chunk_shape.

(* attribute names and values, text, code, alt text, fence class: all data positions are
   escaped chunks (instances of the theorem above, spelled out for attributes) *)
Theorem C04_attrs_escaped : forall tags t, forallb (chunk_ok tags) (render_attrs t) = true.
Proof. exact render_attrs_ok. Qed.
Print Assumptions C04_attrs_escaped.

(* parser side, block half: tags from the fixed vocabulary; html_block only with options.html *)
Theorem C04_block_tags_from_vocabulary :
  forall cfg reformat casefold, chains_sub cfg ->
  forall src env toks st,
    block_parse cfg reformat casefold src env toks = Ok st ->
    exists seg, b_tokens st = toks ++ seg
                /\ Forall (fun t => In (ttag t) block_tags /\ (ttype t = nm_html_block -> c_html cfg = true)) seg.
Proof. exact block_parse_tags. Qed.
Print Assumptions C04_block_tags_from_vocabulary.

(* the tag vocabulary of the whole parser: 19 block names and 7 inline names.  The empty tag is NOT in
   it: tokens whose tag is empty (text, text_special, definition; inline at top level) are rendered by
   rules that never write the tag, so neither "<" + "" nor "</" + "" is ever a literal of the output *)
Definition C04_all_tags : list str := all_tags.
Theorem C04_no_empty_tag :
  ~ In [] all_tags /\ length all_tags = 26%nat
  /\ chunk_ok all_tags (CLit [60]) = false /\ chunk_ok all_tags (CLit [60; 47]) = false.
Proof. exact no_empty_tag. Qed.
Print Assumptions C04_no_empty_tag.

(* end to end: html off => nothing raw reaches the output of render *)
Theorem C04_render_safe :
  forall cfg reformat casefold linktext,
    c_html (p_block cfg) = false -> ic_html (p_inline cfg) = false -> chains_sub (p_block cfg) ->
    o_highlight (p_render cfg) = None ->
    forall src env h env',
      render_md cfg reformat casefold linktext src env = Ok (h, env') ->
      exists cs, h = html_of cs /\ forallb (chunk_ok all_tags) cs = true.
Proof. exact render_md_safe. Qed.
Print Assumptions C04_render_safe.

Theorem C04_render_inline_safe :
  forall cfg reformat casefold linktext,
    c_html (p_block cfg) = false -> ic_html (p_inline cfg) = false -> chains_sub (p_block cfg) ->
    o_highlight (p_render cfg) = None ->
    forall src env h env',
      render_inline_md cfg reformat casefold linktext src env = Ok (h, env') ->
      exists cs, h = html_of cs /\ forallb (chunk_ok all_tags) cs = true.
Proof. exact render_inline_md_safe. Qed.
Print Assumptions C04_render_inline_safe.

(* the parser side on its own: every token of parse(src), and every child of an inline token, has a
   vocabulary tag and is neither html_block nor html_inline *)
Theorem C04_parse_tokens_from_vocabulary :
  forall cfg reformat casefold linktext,
    c_html (p_block cfg) = false -> ic_html (p_inline cfg) = false -> chains_sub (p_block cfg) ->
    forall src env ts env',
      parse cfg reformat casefold linktext src env = Ok (ts, env') -> Forall (ok_top all_tags) ts.
Proof. exact parse_tokens_ok. Qed.
Print Assumptions C04_parse_tokens_from_vocabulary.

(* ... nor an attribute of its own: every attribute NAME of every token of parse(src), and of every child of an
   inline token, is one of href, title, src, alt, start, style - for every source, configuration (html on or off)
   and every env whose recorded destinations are validated (the empty env, and every env a parse returns:
   C05_parse_urls_validated).  The renderer adds "class" (fence) and "alt" (image) itself. *)
Theorem C04_attribute_names_from_vocabulary :
  forall cfg reformat casefold linktext, chains_sub (p_block cfg) ->
  forall src env ts env',
    env_good reformat env ->
    parse cfg reformat casefold linktext src env = Ok (ts, env') ->
    Forall (fun t => Forall (fun kv => In (fst kv) attr_names) (tattrs t)
                     /\ forall ch, tchildren t = Some ch -> str_eqb (ttype t) s_inline = true ->
                                    Forall (fun c => Forall (fun kv => In (fst kv) attr_names) (tattrs c)) ch) ts.
Proof. exact parse_attr_names. Qed.
Print Assumptions C04_attribute_names_from_vocabulary.

Theorem C04_inline_attribute_names_from_vocabulary :
  forall cfg reformat casefold linktext, chains_sub (p_block cfg) ->
  forall src env ts env',
    env_good reformat env ->
    parse_inline cfg reformat casefold linktext src env = Ok (ts, env') -> Forall (names_inv) ts.
Proof. exact parse_inline_attr_names. Qed.
Print Assumptions C04_inline_attribute_names_from_vocabulary.

Example C04_attr_names_are : attr_names = [[104; 114; 101; 102]; [116; 105; 116; 108; 101]; [115; 114; 99]; [97; 108; 116]; [115; 116; 97; 114; 116]; [115; 116; 121; 108; 101]]
                             /\ env_good (fun s => s) env0.
Proof. split; [reflexivity | constructor]. Qed.

(* inline half on its own: the inline parser only ever leaves vocabulary tokens; html_inline needs options.html *)
Theorem C04_inline_tokens_from_vocabulary :
  forall cfg reformat casefold linktext src env tokens r,
    Forall (V cfg) tokens -> inline_parse cfg reformat casefold linktext src env tokens = Ok r -> Forall (V cfg) r.
Proof. exact inline_parse_kinds. Qed.
Print Assumptions C04_inline_tokens_from_vocabulary.
