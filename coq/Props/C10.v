(* C10 -- rule and option switches have exactly their documented effect.  Proved so far: the
   two extensions are conservative at rule level (a table rule on a source without '|' and a
   strikethrough rule away from '~' return false and leave the state untouched; strikethrough
   post-processing without '~' delimiters leaves the tokens untouched).  Only statements and
   [exact]. *)
From MD Require Import Base.Py Base.Str Base.Opt Model.Token Model.Utils Model.StateBlock Model.Block Model.Inline
     Lemmas.BlockLemmas Lemmas.InlineLemmas.

Theorem C10_table_inert :
  forall cfg term st startLine endLine silent r,
    mem_z 124 (b_src st) = false ->
    r_table cfg term st startLine endLine silent = Ok r -> r = (false, st).
Proof. exact table_inert. Qed.
Print Assumptions C10_table_inert.

Theorem C10_strikethrough_inert :
  forall st silent r,
    (forall c, py_idx (i_src st) (i_pos st) = Ok c -> c <> 126) ->
    r_strikethrough st silent = Ok r -> r = (false, st).
Proof. exact strike_tokenize_inert. Qed.
Print Assumptions C10_strikethrough_inert.

Theorem C10_strikethrough_post_inert :
  forall ds tokens r, Forall (fun d => d_marker d <> 126) ds -> strike_post ds tokens = Ok r -> r = tokens.
Proof. exact strike_post_inert. Qed.
Print Assumptions C10_strikethrough_post_inert.
