(* C10 -- rule and option switches have exactly their documented effect.  Proved: for EVERY source
   and configuration, every token the block parser appends has the (type, tag) of the vocabulary
   of a rule that is in the chain (C10_block_kinds_need_producer): no table tokens without the
   table rule, no heading tokens without heading / lheading, no html_block without the rule and
   options.html ...; the side condition (terminator chains are sub-lists of the main chain) holds
   for every configuration compiled from a Ruler state (C10_ruler_chains).  And: the
   two extensions are conservative at rule level (a table rule on a source without '|' and a
   strikethrough rule away from '~' return false and leave the state untouched; strikethrough
   post-processing without '~' delimiters leaves the tokens untouched).  Only statements and
   [exact]. *)
From MD Require Import Base.Py Base.Str Base.Opt Model.Token Model.Utils Model.StateBlock Model.Block Model.Inline
     Model.Ruler Lemmas.BlockLemmas Lemmas.InlineLemmas Lemmas.BlockKinds.

Theorem C10_table_inert :
  forall cfg term st startLine endLine silent r,
    mem_z 124 (b_src st) = false ->
    r_table cfg term st startLine endLine silent = Ok r -> r = (false, st).
Proof. exact table_inert. Qed.
Print Assumptions C10_table_inert.

Theorem C10_strikethrough_inert :
  forall st silent r,
    (forall c, py_idx (i_src st) (i_pos st) = Ok c -> c <> 126) ->
    r_strikethrough st silent = Ok r -> r = (false, st).
Proof. exact strike_tokenize_inert. Qed.
Print Assumptions C10_strikethrough_inert.

Theorem C10_strikethrough_post_inert :
  forall ds tokens r, Forall (fun d => d_marker d <> 126) ds -> strike_post ds tokens = Ok r -> r = tokens.
Proof. exact strike_post_inert. Qed.
Print Assumptions C10_strikethrough_post_inert.

(* every block token kind has a producer in the chain *)
Theorem C10_block_kinds_need_producer :
  forall cfg reformat casefold, chains_sub cfg ->
  forall src env toks st,
    block_parse cfg reformat casefold src env toks = Ok st ->
    exists seg, b_tokens st = toks ++ seg /\ Forall (fun t => exists n, In n (c_rules cfg) /\ P_rule cfg n t) seg.
Proof. exact block_parse_kinds. Qed.
Print Assumptions C10_block_kinds_need_producer.

(* the side condition holds for every configuration compiled from a Ruler state *)
Theorem C10_ruler_chains :
  forall (rs : list (@rule str)) code mn html defs,
    chains_sub (mkBCfg (compile_chain rs []) (compile_chain rs) code mn html defs).
Proof. exact ruler_cfg_chains_sub. Qed.
Print Assumptions C10_ruler_chains.

(* every inline token kind has a producer: for EVERY source, env and inline configuration, each
   token ParserInline.parse leaves in the list is text, or of a kind one of whose producing rules
   is in the chain - text_special: escape or entity; softbreak: newline; hardbreak: newline or
   escape; code_inline: backticks; link_open / link_close: link or autolink; image: image;
   html_inline: the html option; s_open / s_close: the strikethrough post-rule; em / strong: the
   emphasis post-rule *)
From MD Require Import Model.Render.
From MD Require Lemmas.InlineProducers.
Theorem C10_inline_kinds_need_producer :
  forall cfg rf cf lt src env tokens r,
    Forall (InlineProducers.Vp cfg) tokens -> inline_parse cfg rf cf lt src env tokens = Ok r ->
    Forall (InlineProducers.Vp cfg) r.
Proof. exact InlineProducers.inline_kinds_need_producer. Qed.
Print Assumptions C10_inline_kinds_need_producer.

(* read off for one kind: without the backticks rule there is no code_inline token *)
Theorem C10_no_backticks_no_code_inline :
  forall cfg rf cf lt src env r,
    ~ In n_backticks (ic_rules cfg) -> inline_parse cfg rf cf lt src env [] = Ok r ->
    Forall (fun t => ttype t <> s_code_inline) r.
Proof. exact InlineProducers.no_backticks_no_code_inline. Qed.
Print Assumptions C10_no_backticks_no_code_inline.

(* the inline_definitions option only adds definition tokens: the reference rule under two configurations that differ in nothing
   but this option, from the same state with the same terminator callback, gives the same answer; the same state when it fails
   or runs silently; and otherwise the state with the option on is the state with the option off plus exactly ONE token at the
   end of the token list - a "definition" token, nesting 0, whose map is the definition's own lines - env, line, parent type
   and everything else identical *)
From RecordUpdate Require Import RecordUpdate.
From MD Require Import Model.StateBlock Lemmas.RefDefs.
Theorem C10_inline_definitions_only_adds_a_token :
  forall cfg rf cf term st sl el silent b1 s1 b2 s2,
  r_reference (with_defs cfg false) rf cf term st sl el silent = Ok (b1, s1) ->
  r_reference (with_defs cfg true) rf cf term st sl el silent = Ok (b2, s2) ->
  b2 = b1 /\ (b1 = false \/ silent = true -> s2 = s1)
  /\ (b1 = true -> silent = false ->
      exists d, ttype d = s_definition /\ tnesting d = 0 /\ tmap d = Some (sl, b_line s1)
                /\ s2 = s1 <| b_tokens := b_tokens s1 ++ [d] |>).
Proof. exact reference_inline_defs. Qed.
Print Assumptions C10_inline_definitions_only_adds_a_token.

(* with_defs changes that one field *)
Theorem C10_with_defs_means :
  forall cfg b, c_inline_defs (with_defs cfg b) = b /\ c_rules (with_defs cfg b) = c_rules cfg /\ c_term (with_defs cfg b) = c_term cfg
             /\ c_code (with_defs cfg b) = c_code cfg /\ c_maxNesting (with_defs cfg b) = c_maxNesting cfg /\ c_html (with_defs cfg b) = c_html cfg.
Proof. exact with_defs_fields. Qed.
Print Assumptions C10_with_defs_means.
