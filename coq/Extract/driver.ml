(* Generic driver: one s-expression per input line -> dispatch -> one per output line.
   Nothing in here is specific to any property. *)
open Mdmodel_core

let rec pos_of_int (n : int) : positive =
  if n = 1 then XH
  else if n land 1 = 0 then XO (pos_of_int (n lsr 1))
  else XI (pos_of_int (n lsr 1))

let z_of_int (n : int) : z =
  if n = 0 then Z0 else if n > 0 then Zpos (pos_of_int n) else Zneg (pos_of_int (- n))

let rec int_of_pos (p : positive) : int =
  match p with XH -> 1 | XO q -> 2 * int_of_pos q | XI q -> 2 * int_of_pos q + 1

let int_of_z (x : z) : int =
  match x with Z0 -> 0 | Zpos p -> int_of_pos p | Zneg p -> - (int_of_pos p)

(* parser *)
let parse_line (s : string) : sx =
  let n = String.length s in
  let i = ref 0 in
  let rec skip () = if !i < n && (s.[!i] = ' ' || s.[!i] = '\n' || s.[!i] = '\r') then (incr i; skip ()) in
  let rec value () : sx =
    skip ();
    if !i >= n then failwith "eof"
    else if s.[!i] = '(' then begin
      incr i;
      let acc = ref [] in
      let rec loop () =
        skip ();
        if !i >= n then failwith "unclosed"
        else if s.[!i] = ')' then incr i
        else begin acc := value () :: !acc; loop () end in
      loop ();
      SL (List.rev !acc)
    end else begin
      let st = !i in
      if s.[!i] = '-' then incr i;
      while !i < n && s.[!i] >= '0' && s.[!i] <= '9' do incr i done;
      if !i = st then failwith ("bad char at " ^ string_of_int st);
      SI (z_of_int (int_of_string (String.sub s st (!i - st))))
    end in
  value ()

let rec print_sx (b : Buffer.t) (v : sx) : unit =
  match v with
  | SI x -> Buffer.add_string b (string_of_int (int_of_z x))
  | SL l ->
      Buffer.add_char b '(';
      let first = ref true in
      List.iter (fun x -> if not !first then Buffer.add_char b ' '; first := false; print_sx b x) l;
      Buffer.add_char b ')'

let () =
  let b = Buffer.create 65536 in
  (try
    while true do
      let line = input_line stdin in
      Buffer.clear b;
      (try print_sx b (dispatch (parse_line line))
       with Stack_overflow -> (Buffer.clear b; Buffer.add_string b "(-2)")
          | Failure m -> (Buffer.clear b; Buffer.add_string b ("(-3) ; " ^ m)));
      print_string (Buffer.contents b); print_newline ()
    done
  with End_of_file -> ())
