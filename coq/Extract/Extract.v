(* Extraction of the executable model.  ExtrOcamlBasic only: bool, list, option,
   prod, unit, sumbool map to OCaml natives; Z / positive / N / nat stay the
   extracted inductive types.  No Extract Constant. *)
From Coq Require Import Extraction ExtrOcamlBasic.
From MD Require Import Base.Py Base.Sx Run.Dispatch.
Extraction "mdmodel_core.ml" dispatch.
