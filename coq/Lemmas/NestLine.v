(* C06, containers within containers, on one-line paragraph documents: for EVERY list of containers (block quotes
   "> " and bullet items "- ", in any order, any depth below maxNesting) and every line s, the document
   prefix(cs) s LF  parses to the paragraph of s wrapped in exactly those containers, level by level.
   The container rules are run on a line that begins anywhere inside the source (off_line of QuoteLine.v) and
   hand the rest of the line to the nested block loop; induction on the list of containers. *)
From RecordUpdate Require Import RecordUpdate.
From MD Require Import Base.Py Base.Str Base.Regex Base.Opt Model.Token Model.Utils Model.StateBlock Model.Helpers
     Model.Url Model.Render Model.Core Model.Block Model.Inline Model.Pipeline
     Lemmas.StrLemmas Lemmas.StrLemmas2 Lemmas.BlockLemmas Lemmas.QuoteLemmas Lemmas.BlockWF Lemmas.ParaLine Lemmas.QuoteLine.
From Coq Require Import ZifyBool.

Local Arguments Z.eqb : simpl never.
Local Arguments Z.ltb : simpl never.
Local Arguments Z.leb : simpl never.
Local Arguments str_eqb : simpl never.
Local Arguments Z.add : simpl never.
Local Arguments Z.sub : simpl never.
Local Arguments len : simpl never.
Local Arguments mark_tight : simpl never.

Lemma tb_set2 a b v : tb_set [a; b] 0 v = Ok [v; b].
Proof. reflexivity. Qed.
Lemma tb2 a b : tb [a; b] 0 = Ok a.
Proof. reflexivity. Qed.

Lemma char_at_app (p : str) c r : char_at (p ++ c :: r) (len p) = Some c.
Proof.
  unfold char_at, get. pose proof (len_nonneg p). assert (B : (len p <? 0) = false) by lia. cbv zeta. rewrite !B.
  unfold len. rewrite Nat2Z.id. apply nth_error_app_mid.
Qed.
Lemma char_at_app2 (p : str) a b r : char_at (p ++ a :: b :: r) (len p + 1) = Some b.
Proof.
  replace (p ++ a :: b :: r) with ((p ++ [a]) ++ b :: r) by (rewrite <- app_assoc; reflexivity).
  replace (len p + 1) with (len (p ++ [a])) by (rewrite len_app; reflexivity).
  apply char_at_app.
Qed.
Lemma py_idx_app3 (p : str) a b c r : py_idx (p ++ a :: b :: c :: r) (len p + 1 + 1) = Ok c.
Proof.
  replace (p ++ a :: b :: c :: r) with ((p ++ [a]) ++ b :: c :: r) by (rewrite <- app_assoc; reflexivity).
  replace (len p + 1) with (len (p ++ [a])) by (rewrite len_app; reflexivity).
  apply py_idx_app2.
Qed.

(* ---- the block loop around one rule call, on a one-line range ---- *)
Section Loop.
Context (cfg : bcfg) (rf cf : str -> str).
Context (pre1 pre2 L : str) (bs li lv : Z).
Context (HL : 0 < len L) (Hnest : lv < c_maxNesting cfg).

Lemma any_empty0 st : off_line st pre1 pre2 L bs li lv -> is_empty st 0 = Ok false.
Proof.
  intros H. unfold is_empty. rewrite (QuoteLine.ls0 _ _ _ _ _ _ st H), (QuoteLine.em0 _ _ _ _ _ _ st H). cbn [bind].
  assert (E : (len pre1 + len pre2 + len L <=? len pre1 + len pre2) = false) by lia. rewrite E. reflexivity.
Qed.

Lemma tokenize_one d st st2 : off_line st pre1 pre2 L bs li lv -> b_line st = 0 ->
  try_rules cfg rf cf (tokenize cfg rf cf d) (c_rules cfg) (st_line st 0) 0 1 = Ok st2 ->
  off_line st2 pre1 pre2 L bs li lv -> b_line st2 = 1 ->
  tokenize cfg rf cf (S d) st 0 1 = Ok (st2 <| b_tight := true |>).
Proof.
  intros O0 L0 TR O2 L2. pose proof O0 as O0'. destruct O0' as (Hsrc & HbM & HeM & HtS & HsC & HbS & HbI & HlM & HlI & Hlv).
  cbn [tokenize]. change (Z.to_nat (1 - 0)) with 1%nat. cbn [tok_loop].
  change (negb (0 <? 1)) with false. cbv iota.
  rewrite HlM. change (Z.to_nat 1) with 1%nat.
  assert (SK : skip_empty_lines 2 st 0 = 0).
  { cbn [skip_empty_lines]. rewrite HlM. change (negb (0 <? 1)) with false. cbv iota. rewrite (any_empty0 st O0). reflexivity. }
  rewrite SK. change (1 <=? 0) with false. cbv iota.
  assert (O1 : off_line (st_line st 0) pre1 pre2 L bs li lv) by (unfold off_line, st_line; cbn; repeat split; assumption).
  rewrite (QuoteLine.sc0 _ _ _ _ _ _ (st_line st 0) O1). cbn [bind].
  change (b_blkIndent (st_line st 0)) with (b_blkIndent st). change (b_level (st_line st 0)) with (b_level st).
  rewrite HbI, Hlv. rewrite Z.ltb_irrefl. cbv iota.
  assert (E : (c_maxNesting cfg <=? lv) = false) by lia. rewrite E.
  rewrite TR. cbn [bind].
  change (negb false) with true.
  set (st3 := st2 <| b_tight := true |>).
  assert (O3 : off_line st3 pre1 pre2 L bs li lv) by (unfold off_line, st3; cbn; exact O2).
  change (b_line st3) with (b_line st2). rewrite L2.
  change (1 - 1 <? 1) with true. cbv iota. change (1 - 1) with 0. rewrite (any_empty0 st3 O3). cbn [bind orb].
  change (1 <? 1) with false. cbv iota. cbn [bind]. cbv iota.
  change (negb (1 <? 1)) with true. cbv iota. reflexivity.
Qed.

End Loop.

(* tokens of the containers, parameterised by the level *)
Definition bq_open_at (lv : Z) : token :=
  map_tok 0 1 (set_markup (set_level (set_block (new_token [98; 108; 111; 99; 107; 113; 117; 111; 116; 101; 95; 111; 112; 101; 110] nm_blockquote 1) true) lv) [62]).
Definition bq_close_at (lv : Z) : token :=
  set_markup (set_level (set_block (new_token [98; 108; 111; 99; 107; 113; 117; 111; 116; 101; 95; 99; 108; 111; 115; 101] nm_blockquote (-1)) true) lv) [62].

(* what a callback (the nested block loop) does on the rest of the line *)
Definition rec_adds (rec : rec_t) (p1 p2 L : str) (bs li lv : Z) (X : list token) : Prop :=
  forall stN, off_line stN p1 p2 L bs li lv -> b_line stN = 0 ->
  exists st', rec stN 0 1 = Ok st' /\ off_line st' p1 p2 L bs li lv /\ b_tokens st' = b_tokens stN ++ X
              /\ b_env st' = b_env stN /\ b_line st' = 1 /\ b_tight st' = true.

(* ---- one block quote marker in front of the rest of the line ---- *)
Section QuoteStep.
Context (cfg : bcfg) (rf cf : str -> str).
Context (pre1 pre2 : str) (c1 : Z) (r1 : str) (bs li lv : Z).
Context (Hc1 : is_space c1 = false).
Notation L' := (c1 :: r1).
Notation L := (62 :: 32 :: c1 :: r1).
Notation off := (len pre1 + len pre2).

Lemma q_src st : off_line st pre1 pre2 L bs li lv -> b_src st = (pre1 ++ pre2) ++ 62 :: 32 :: c1 :: r1 ++ [10].
Proof. intros (Hsrc & _). rewrite Hsrc, <- app_assoc. reflexivity. Qed.

Lemma len_L : len L = len r1 + 3.
Proof. rewrite !len_cons. lia. Qed.

Lemma qs_fence_fail st : off_line st pre1 pre2 L bs li lv -> r_fence cfg st 0 1 false = Ok (false, st).
Proof.
  intros H. unfold r_fence. rewrite (QuoteLine.ls0 _ _ _ _ _ _ st H), (QuoteLine.em0 _ _ _ _ _ _ st H), (QuoteLine.cb0 cfg _ _ _ _ _ _ st H). cbn [bind]. cbv iota.
  match goal with |- (if ?c then _ else _) = _ => destruct c end; [reflexivity|].
  rewrite (q_src st H), <- len_app, py_idx_app. cbn [bind].
  change (negb ((62 =? 126) || (62 =? 96))) with true. reflexivity.
Qed.

Lemma qs_before_fail rec term n st : n = nm_table \/ n = nm_code \/ n = nm_fence -> off_line st pre1 pre2 L bs li lv ->
  apply_rule cfg rf cf rec term n st 0 1 false = Ok (false, st).
Proof.
  intros [->|[->| ->]] H; unfold apply_rule.
  - change (str_eqb nm_table nm_table) with true. cbv iota. unfold r_table. change (1 <? 0 + 2) with true. reflexivity.
  - change (str_eqb nm_code nm_table) with false. change (str_eqb nm_code nm_code) with true. cbv iota.
    unfold r_code. rewrite (QuoteLine.cb0 cfg _ _ _ _ _ _ st H). reflexivity.
  - change (str_eqb nm_fence nm_table) with false. change (str_eqb nm_fence nm_code) with false. change (str_eqb nm_fence nm_fence) with true.
    cbv iota. apply qs_fence_fail, H.
Qed.

Lemma qs_strip st : off_line st pre1 pre2 L bs li lv ->
  bq_strip (b_src st) off (off + len L) (len pre2) bs = Ok (mkBq (off + 1 + 1) 0 0 (bs + len pre2 + 1 + 1) false).
Proof.
  intros H. unfold bq_strip. rewrite (q_src st H), <- len_app. cbv zeta.
  rewrite char_at_app2. cbv iota beta.
  set (src := (pre1 ++ pre2) ++ 62 :: 32 :: c1 :: r1 ++ [10]).
  destruct (length src) as [|n] eqn:LS; [unfold src in LS; rewrite app_length in LS; cbn [length] in LS; lia|].
  cbn [bq_blanks]. pose proof len_L as LL. pose proof (len_nonneg r1).
  assert (E1 : negb (len (pre1 ++ pre2) + 1 + 1 <? len (pre1 ++ pre2) + len L) = false) by lia. rewrite E1.
  unfold src. rewrite py_idx_app3. cbn [bind]. rewrite Hc1.
  cbn [bind]. rewrite !Z.sub_diag.
  assert (E2 : (len (pre1 ++ pre2) + len L <=? len (pre1 ++ pre2) + 1 + 1) = false) by lia. rewrite E2.
  rewrite len_app. reflexivity.
Qed.

Context (rec : rec_t) (X : list token).
Context (HREC : rec_adds rec (pre1 ++ pre2 ++ [62; 32]) [] L' (bs + len pre2 + 1 + 1) li (lv + 1) X).

Lemma r_blockquote_off term st : off_line st pre1 pre2 L bs li lv -> b_line st = 0 ->
  exists st', r_blockquote cfg rec term st 0 1 false = Ok (true, st')
    /\ off_line st' pre1 pre2 L bs li lv /\ b_tokens st' = b_tokens st ++ bq_open_at lv :: X ++ [bq_close_at lv]
    /\ b_env st' = b_env st /\ b_line st' = 1.
Proof.
  intros H L0. pose proof H as H'. destruct H' as (Hsrc & HbM & HeM & HtS & HsC & HbS & HbI & HlM & HlI & Hlv).
  unfold r_blockquote.
  rewrite (QuoteLine.ls0 _ _ _ _ _ _ st H), (QuoteLine.em0 _ _ _ _ _ _ st H), (QuoteLine.cb0 cfg _ _ _ _ _ _ st H). cbn [bind]. cbv iota.
  assert (CA : char_at (b_src st) (len pre1 + len pre2) = Some 62) by (rewrite (q_src st H), <- len_app; apply char_at_app).
  rewrite CA. cbv iota.
  rewrite HsC, HbS, !tb2. cbn [bind].
  rewrite (qs_strip st H). cbn [bind].
  unfold save_line. rewrite HbM, HbS, HtS, HsC, !tb2. cbn [bind o_b o_bs o_ts o_sc app].
  unfold apply_bq. rewrite HbM, HbS, HtS, HsC. cbn [q_bMark q_bsCount q_sCount q_tShift]. rewrite !tb_set2. cbn [bind].
  change (Z.to_nat (1 - 0)) with 1%nat. cbn [bq_loop]. change (negb (0 + 1 <? 1)) with true. cbv iota. cbn [bind].
  match goal with |- context [rec ?s5 0 (0 + 1)] => set (st5 := s5) end.
  change (0 + 1) with 1.
  assert (O5 : off_line st5 (pre1 ++ pre2 ++ [62; 32]) [] L' (bs + len pre2 + 1 + 1) li (lv + 1)).
  { unfold off_line, st5, bpush, st_parent. cbn. rewrite ?Hlv, ?HeM, ?HlM, ?HlI, ?Hsrc. cbn.
    change (1 <? 0) with false. change (0 <? 1) with true. cbv iota.
    rewrite !len_app. change (len [62; 32]) with 2. change (len (@nil Z)) with 0. pose proof len_L as LL. rewrite !len_cons in *.
    repeat split; try reflexivity; try (f_equal; lia); try (f_equal; [lia | f_equal; lia]); try (f_equal; f_equal; lia).
    rewrite <- !app_assoc. reflexivity. }
  assert (L5 : b_line st5 = 0) by exact L0.
  destruct (HREC st5 O5 L5) as (st6 & TK & O6 & T6 & E6 & L6 & _).
  rewrite TK. cbn [bind].
  destruct O6 as (Hsrc6 & HbM6 & HeM6 & HtS6 & HsC6 & HbS6 & HbI6 & HlM6 & HlI6 & Hlv6).
  unfold restore_tables. cbn [o_b o_bs o_ts o_sc].
  cbn [b_bMarks b_tShift b_sCount b_bsCount bpush st_parent set b_tokens b_lineMax b_parentType b_blkIndent].
  rewrite HbM6, HtS6, HsC6, HbS6, !tb_set2. cbn [bind].
  eexists. split; [reflexivity|].
  change (-1 <? 0) with true. change (0 <? -1) with false. cbv iota.
  split; [|split; [|split]].
  - unfold off_line. cbn. rewrite ?Hsrc6, ?HeM6, ?HlI6, ?Hlv6, ?HlM, ?HbI.
    change (-1 <? 0) with true. change (0 <? -1) with false. cbv iota.
    rewrite !len_app. change (len [62; 32]) with 2. change (len (@nil Z)) with 0. pose proof len_L as LL. rewrite !len_cons in *.
    repeat split; try reflexivity; try (f_equal; lia); try (f_equal; [lia | f_equal; lia]); try (f_equal; f_equal; lia); try lia.
    cbn [app]. rewrite <- !app_assoc. reflexivity.
  - cbn. rewrite T6, L6. unfold st5. cbn. rewrite Hlv6, Hlv.
    change (1 <? 0) with false. change (0 <? 1) with true. cbv iota.
    unfold set_map_at. rewrite <- !app_assoc. cbn [app]. rewrite update_nth_tok_app.
    unfold bq_open_at, bq_close_at. replace (lv + 1 - 1) with lv by lia. reflexivity.
  - cbn. rewrite E6. reflexivity.
  - cbn. exact L6.
Qed.

End QuoteStep.

Definition ul_open_at (m lv : Z) : token :=
  map_tok 0 1 (set_markup (set_level (set_block (new_token [98; 117; 108; 108; 101; 116; 95; 108; 105; 115; 116; 95; 111; 112; 101; 110] [117; 108] 1) true) lv) [m]).
Definition ul_close_at (m lv : Z) : token :=
  set_markup (set_level (set_block (new_token [98; 117; 108; 108; 101; 116; 95; 108; 105; 115; 116; 95; 99; 108; 111; 115; 101] [117; 108] (-1)) true) lv) [m].
Definition li_open_at (m lv : Z) : token :=
  map_tok 0 1 (set_markup (set_level (set_block (new_token s_list_item_open s_li 1) true) lv) [m]).
Definition li_close_at (m lv : Z) : token :=
  set_markup (set_level (set_block (new_token s_list_item_close s_li (-1)) true) lv) [m].

(* the line tables of an off_line state, whatever the level *)
Definition off_tabs (st : bstate) (pre1 pre2 s : str) (bs li : Z) : Prop :=
  b_src st = pre1 ++ pre2 ++ s ++ [10]
  /\ b_bMarks st = [len pre1; len pre1 + len pre2 + len s + 1] /\ b_eMarks st = [len pre1 + len pre2 + len s; len pre1 + len pre2 + len s + 1]
  /\ b_tShift st = [len pre2; 0] /\ b_sCount st = [len pre2; 0] /\ b_bsCount st = [bs; 0]
  /\ b_blkIndent st = len pre2 /\ b_lineMax st = 1 /\ b_listIndent st = li.

(* k spaces *)
Definition sp (k : nat) : str := repeat 32 k.
Lemma len_sp k : len (sp k) = Z.of_nat k.
Proof. unfold len, sp. rewrite repeat_length. reflexivity. Qed.
Lemma sp_S k : sp (S k) = 32 :: sp k.
Proof. reflexivity. Qed.

(* reading a character that follows k spaces *)
Lemma py_idx_after_sp : forall k (P : str) c r, py_idx (P ++ sp k ++ c :: r) (len P + Z.of_nat k) = Ok c.
Proof.
  induction k as [|k IH]; intros P c r.
  - cbn [sp repeat app]. change (Z.of_nat 0) with 0. rewrite Z.add_0_r. apply py_idx_app.
  - rewrite sp_S. cbn [app].
    replace (P ++ 32 :: sp k ++ c :: r) with ((P ++ [32]) ++ sp k ++ c :: r) by (rewrite <- app_assoc; reflexivity).
    replace (len P + Z.of_nat (S k)) with (len (P ++ [32]) + Z.of_nat k) by (rewrite len_app; change (len [32]) with 1; lia).
    apply IH.
Qed.

(* the blanks after a list marker: k spaces, then a character that is neither space nor tab *)
Lemma list_blanks_spaces c1 (H9 : (c1 =? 9) = false) (H32 : (c1 =? 32) = false) :
  forall k (P : str) r fuel mx o bs, (k < fuel)%nat -> len P + Z.of_nat k < mx ->
  list_blanks fuel (P ++ sp k ++ c1 :: r) (len P) mx o bs = Ok (len P + Z.of_nat k, o + Z.of_nat k).
Proof.
  induction k as [|k IH]; intros P r fuel mx o bs Hf Hm; (destruct fuel as [|f]; [lia|]); cbn [list_blanks].
  - change (Z.of_nat 0) with 0 in *. assert (E : negb (len P <? mx) = false) by lia. rewrite E.
    cbn [sp repeat app]. rewrite py_idx_app. cbn [bind]. rewrite H9, H32. rewrite !Z.add_0_r. reflexivity.
  - assert (E : negb (len P <? mx) = false) by lia. rewrite E.
    rewrite sp_S. cbn [app]. rewrite py_idx_app. cbn [bind]. change (32 =? 9) with false. change (32 =? 32) with true. cbv iota.
    replace (P ++ 32 :: sp k ++ c1 :: r) with ((P ++ [32]) ++ sp k ++ c1 :: r) by (rewrite <- app_assoc; reflexivity).
    replace (len P + 1) with (len (P ++ [32])) by (rewrite len_app; reflexivity).
    rewrite IH; [| lia | rewrite len_app; change (len [32]) with 1; lia].
    rewrite len_app. change (len [32]) with 1. f_equal. f_equal; lia.
Qed.

(* the list_item_open token: ordered items record the digits written *)
Definition li_open_g (isOrd : bool) (body : str) (mc lv : Z) : token :=
  (if isOrd then (fun x => set_info x body) else (fun x => x))
    (map_tok 0 1 (set_markup (set_level (set_block (new_token s_list_item_open s_li 1) true) lv) [mc])).
Lemma li_open_g_bullet m lv : li_open_g false [] m lv = li_open_at m lv.
Proof. reflexivity. Qed.

(* ---- one list marker (body ++ [mc]: a bullet, or digits and a delimiter) and its blanks in front of the rest of the line ---- *)
Section ItemStep.
Context (cfg : bcfg) (rf cf : str -> str).
Context (pre1 pre2 : str) (isOrd : bool) (body : str) (mc : Z) (k : nat) (c1 : Z) (r1 : str) (bs li lv : Z).
Context (Hk : (1 <= k <= 4)%nat).
Context (Hc9 : (c1 =? 9) = false) (Hc32 : (c1 =? 32) = false).
Notation L' := (c1 :: r1).
Notation L := (body ++ mc :: sp k ++ c1 :: r1).
Notation off := (len pre1 + len pre2).
Notation pam := (len pre1 + len pre2 + len body + 1).

Lemma i_src st : b_src st = pre1 ++ pre2 ++ L ++ [10] -> b_src st = ((pre1 ++ pre2) ++ body) ++ mc :: sp k ++ c1 :: r1 ++ [10].
Proof. intros ->. rewrite <- !app_assoc. cbn [app]. rewrite <- ?app_assoc. reflexivity. Qed.

Lemma len_Li : len L = len body + len r1 + 2 + Z.of_nat k.
Proof. rewrite len_app, len_cons, len_app, len_sp, len_cons. lia. Qed.

Lemma i_body st : b_src st = pre1 ++ pre2 ++ L ++ [10] -> slice (b_src st) off (pam - 1) = body.
Proof.
  intros ->. replace (pre1 ++ pre2 ++ (body ++ mc :: sp k ++ c1 :: r1) ++ [10]) with ((pre1 ++ pre2) ++ body ++ (mc :: sp k ++ c1 :: r1 ++ [10])).
  2:{ rewrite <- !app_assoc. cbn [app]. rewrite <- ?app_assoc. reflexivity. }
  replace (len pre1 + len pre2) with (len (pre1 ++ pre2)) by apply len_app.
  replace (len (pre1 ++ pre2) + len body + 1 - 1) with (len (pre1 ++ pre2) + len body) by lia.
  apply slice_app_mid.
Qed.

Context (rec : rec_t) (X : list token).
Context (HREC : rec_adds rec pre1 (pre2 ++ body ++ mc :: sp k) L' bs (len pre2) (lv + 2) X).

Lemma list_items_off f term st2 start : (isOrd = true -> start = off) ->
  off_tabs st2 pre1 pre2 L bs li -> b_level st2 = lv + 1 -> b_line st2 = 0 ->
  exists st6, list_items cfg (S f) rec term st2 isOrd mc 0 0 1 pam start true false = Ok (1, true, st6)
    /\ off_tabs st6 pre1 pre2 L bs li /\ b_level st6 = lv + 1
    /\ b_tokens st6 = b_tokens st2 ++ li_open_g isOrd body mc (lv + 1) :: X ++ [li_close_at mc (lv + 1)]
    /\ b_env st6 = b_env st2 /\ b_line st6 = 1.
Proof.
  intros HST (Hsrc & HbM & HeM & HtS & HsC & HbS & HbI & HlM & HlI) Hlv L0.
  cbn [list_items]. change (negb (0 <? 1)) with false. cbv iota.
  unfold line_start.
  rewrite HeM, HsC, HbM, HtS, HbS, !tb2. cbn [bind].
  replace (len pre2 + pam - off) with (len pre2 + len body + 1) by lia.
  pose proof len_Li as LL. pose proof (len_nonneg r1). pose proof (len_nonneg pre1). pose proof (len_nonneg pre2). pose proof (len_nonneg body).
  assert (LB : list_blanks (S (length (b_src st2))) (b_src st2) pam (off + len L) (len pre2 + len body + 1) bs
               = Ok (pam + Z.of_nat k, len pre2 + len body + 1 + Z.of_nat k)).
  { rewrite (i_src st2 Hsrc).
    replace (((pre1 ++ pre2) ++ body) ++ mc :: sp k ++ c1 :: r1 ++ [10]) with ((((pre1 ++ pre2) ++ body) ++ [mc]) ++ sp k ++ c1 :: r1 ++ [10]) by (rewrite <- (app_assoc _ [mc]); reflexivity).
    replace pam with (len (((pre1 ++ pre2) ++ body) ++ [mc])) by (rewrite !len_app; reflexivity).
    apply (list_blanks_spaces c1 Hc9 Hc32).
    - rewrite !app_length. cbn [length]. rewrite !app_length. unfold sp. rewrite repeat_length. lia.
    - rewrite LL. rewrite !len_app. change (len [mc]) with 1. lia. }
  rewrite LB. cbn [bind].
  assert (EM : (off + len L <=? pam + Z.of_nat k) = false) by lia. rewrite !EM.
  replace (len pre2 + len body + 1 + Z.of_nat k - (len pre2 + len body + 1)) with (Z.of_nat k) by lia.
  assert (K4 : (4 <? Z.of_nat k) = false) by lia. rewrite K4. cbv iota.
  cbn [bpush b_tShift b_sCount b_bMarks b_src set]. rewrite HtS, HsC, HbM, !tb2. cbn [bind]. rewrite !tb_set2. cbn [bind].
  assert (INFO : (if isOrd then fun x : token => set_info x (slice (b_src st2) start (pam - 1)) else fun x : token => x)
                 = (if isOrd then fun x : token => set_info x body else fun x : token => x)).
  { destruct isOrd; [|reflexivity]. rewrite (HST eq_refl), (i_body st2 Hsrc). reflexivity. }
  rewrite INFO.
  match goal with |- context [rec ?sN 0 1] => set (stN := sN) end.
  assert (ON : off_line stN pre1 (pre2 ++ body ++ mc :: sp k) L' bs (len pre2) (lv + 2)).
  { unfold off_line, stN, bpush. cbn. rewrite ?Hlv, ?HeM, ?HbM, ?HbS, ?HbI, ?HlM, ?HlI, ?Hsrc. cbn.
    change (1 <? 0) with false. change (0 <? 1) with true. cbv iota.
    rewrite !len_app, !len_cons, !len_app, len_sp, len_cons in *. rewrite ?len_app, ?len_cons, ?len_sp.
    repeat split; try reflexivity; try (f_equal; lia); try (f_equal; [lia | f_equal; lia]); try (f_equal; f_equal; lia); try lia.
    rewrite <- !app_assoc. cbn [app]. rewrite <- ?app_assoc. reflexivity. }
  assert (LN : b_line stN = 0) by exact L0.
  destruct (HREC stN ON LN) as (st3 & TK & O3 & T3 & E3 & L3 & TT3).
  rewrite TK. cbn [bind].
  destruct O3 as (Hsrc3 & HbM3 & HeM3 & HtS3 & HsC3 & HbS3 & HbI3 & HlM3 & HlI3 & Hlv3).
  rewrite L3. change (1 <? 1 - 0) with false. cbv iota. cbn [bind].
  rewrite HtS3, HsC3, !tb_set2. cbn [bind].
  cbn [bpush b_line set]. rewrite L3. change (1 <=? 1) with true. cbv iota.
  rewrite TT3. cbn [negb orb]. cbv iota.
  eexists. split; [reflexivity|].
  split; [|split; [|split; [|split]]].
  - unfold off_tabs. cbn. rewrite ?Hsrc3, ?HbM3, ?HeM3, ?HbS3, ?HlI3, ?HlM3, ?HlI.
    rewrite !len_app, !len_cons, !len_app, len_sp, len_cons in *. rewrite ?len_app, ?len_cons, ?len_sp.
    repeat split; try reflexivity; try (f_equal; lia); try (f_equal; [lia | f_equal; lia]); try (f_equal; f_equal; lia); try lia.
    rewrite <- !app_assoc. cbn [app]. rewrite <- ?app_assoc. reflexivity.
  - cbn. rewrite Hlv3. change (-1 <? 0) with true. change (0 <? -1) with false. cbv iota. lia.
  - cbn. rewrite T3. unfold stN. cbn. rewrite Hlv3, Hlv.
    change (1 <? 0) with false. change (0 <? 1) with true. change (-1 <? 0) with true. change (0 <? -1) with false. cbv iota.
    unfold set_map_at. rewrite <- !app_assoc. cbn [app]. rewrite update_nth_tok_app.
    unfold li_open_g, li_close_at. replace (lv + 2 - 1) with (lv + 1) by lia. destruct isOrd; reflexivity.
  - cbn. rewrite E3. reflexivity.
  - cbn. exact L3.
Qed.

End ItemStep.

(* ---- the list rule on a bullet marker ---- *)
Section BulletStep.
Context (cfg : bcfg) (rf cf : str -> str).
Context (pre1 pre2 : str) (m : Z) (k : nat) (c1 : Z) (r1 : str) (bs li lv : Z).
Context (Hm : m = 42 \/ m = 45 \/ m = 43) (Hk : (1 <= k <= 4)%nat).
Context (Hc9 : (c1 =? 9) = false) (Hc32 : (c1 =? 32) = false).
Notation L' := (c1 :: r1).
Notation L := (m :: sp k ++ c1 :: r1).
Notation off := (len pre1 + len pre2).

Lemma b_src_eq st : b_src st = pre1 ++ pre2 ++ L ++ [10] -> b_src st = (pre1 ++ pre2) ++ m :: sp k ++ c1 :: r1 ++ [10].
Proof. intros ->. rewrite <- !app_assoc. cbn [app]. rewrite <- ?app_assoc. reflexivity. Qed.

Lemma b_len : len L = len r1 + 2 + Z.of_nat k.
Proof. rewrite len_cons, len_app, len_sp, len_cons. lia. Qed.

Lemma b_second st : b_src st = pre1 ++ pre2 ++ L ++ [10] -> py_idx (b_src st) (off + 1) = Ok 32.
Proof.
  intros H. rewrite (b_src_eq st H), <- len_app. destruct k as [|k']; [lia|]. rewrite sp_S. cbn [app]. apply py_idx_app2.
Qed.

Context (rec : rec_t) (X : list token).
Context (HREC : rec_adds rec pre1 (pre2 ++ m :: sp k) L' bs (len pre2) (lv + 2) X).
Context (X' : list token).
Context (HMT : forall A,
  mark_tight (S (length (A ++ ul_open_at m lv :: li_open_at m (lv + 1) :: X ++ [li_close_at m (lv + 1); ul_close_at m lv])))
             (A ++ ul_open_at m lv :: li_open_at m (lv + 1) :: X ++ [li_close_at m (lv + 1); ul_close_at m lv])
             (Z.of_nat (length A) + 2) (len (A ++ ul_open_at m lv :: li_open_at m (lv + 1) :: X ++ [li_close_at m (lv + 1); ul_close_at m lv]) - 2) (lv + 2)
  = A ++ ul_open_at m lv :: li_open_at m (lv + 1) :: X' ++ [li_close_at m (lv + 1); ul_close_at m lv]).

Lemma i_skip_ordered st : off_line st pre1 pre2 L bs li lv -> skip_ordered st 0 = Ok (-1).
Proof.
  intros H. unfold skip_ordered. rewrite (QuoteLine.ls0 _ _ _ _ _ _ st H), (QuoteLine.em0 _ _ _ _ _ _ st H). cbn [bind].
  match goal with |- (if ?c then _ else _) = _ => destruct c end; [reflexivity|].
  destruct H as (Hsrc & _). rewrite (b_src_eq st Hsrc), <- len_app, py_idx_app. cbn [bind].
  assert (E : negb (is_digit m) = true) by (unfold is_digit; lia). rewrite E. reflexivity.
Qed.

Lemma i_skip_bullet st : off_line st pre1 pre2 L bs li lv -> skip_bullet st 0 = Ok (off + 1).
Proof.
  intros H. unfold skip_bullet. rewrite (QuoteLine.ls0 _ _ _ _ _ _ st H), (QuoteLine.em0 _ _ _ _ _ _ st H). cbn [bind].
  destruct H as (Hsrc & _). pose proof (b_second st Hsrc) as SEC. rewrite (b_src_eq st Hsrc) in *. rewrite <- len_app, char_at_app.
  assert (E0 : negb ((m =? 42) || (m =? 45) || (m =? 43)) = false) by lia. rewrite E0. cbv iota.
  pose proof b_len. pose proof (len_nonneg r1).
  assert (E : (len (pre1 ++ pre2) + 1 <? len (pre1 ++ pre2) + len L) = true) by lia. rewrite E.
  rewrite len_app. rewrite SEC. cbn [bind]. reflexivity.
Qed.

Lemma r_list_off term st : off_line st pre1 pre2 L bs li lv -> b_line st = 0 ->
  exists st', r_list cfg rec term st 0 1 false = Ok (true, st')
    /\ off_line st' pre1 pre2 L bs li lv
    /\ b_tokens st' = b_tokens st ++ ul_open_at m lv :: li_open_at m (lv + 1) :: X' ++ [li_close_at m (lv + 1); ul_close_at m lv]
    /\ b_env st' = b_env st /\ b_line st' = 1.
Proof.
  intros H L0. pose proof H as H'. destruct H' as (Hsrc & HbM & HeM & HtS & HsC & HbS & HbI & HlM & HlI & Hlv).
  unfold r_list.
  rewrite (QuoteLine.cb0 cfg _ _ _ _ _ _ st H), (QuoteLine.sc0 _ _ _ _ _ _ st H). cbn [bind]. cbv iota.
  rewrite HbI, Z.ltb_irrefl, Bool.andb_false_r. cbv iota.
  rewrite (i_skip_ordered st H), (QuoteLine.ls0 _ _ _ _ _ _ st H). cbn [bind]. change (0 <=? -1) with false. cbv iota.
  rewrite (i_skip_bullet st H). cbn [bind].
  pose proof (len_nonneg pre1). pose proof (len_nonneg pre2).
  assert (E0 : (0 <=? off + 1) = true) by lia. rewrite E0. cbv iota. cbn [bind].
  rewrite (QuoteLine.em0 _ _ _ _ _ _ st H). cbn [bind andb]. cbv iota.
  replace (off + 1 - 1) with off by lia.
  assert (PM : py_idx (b_src st) off = Ok m) by (rewrite (b_src_eq st Hsrc), <- len_app; apply py_idx_app).
  rewrite PM. cbn [bind]. cbv iota.
  change (Z.to_nat (1 - 0)) with 1%nat.
  match goal with |- context [list_items cfg 2 rec term ?s2 false m 0 0 1 (off + 1) off true false] => set (st2 := s2) end.
  assert (TL : off_tabs st2 pre1 pre2 ([] ++ m :: sp k ++ c1 :: r1) bs li) by (unfold off_tabs, st2, st_parent, bpush; cbn; repeat split; assumption).
  assert (LV : b_level st2 = lv + 1) by (unfold st2, st_parent, bpush; cbn; rewrite Hlv; change (1 <? 0) with false; change (0 <? 1) with true; reflexivity).
  assert (L2 : b_line st2 = 0) by exact L0.
  replace (off + 1) with (len pre1 + len pre2 + len (@nil Z) + 1) by (change (len (@nil Z)) with 0; lia).
  destruct (list_items_off cfg pre1 pre2 false [] m k c1 r1 bs li lv Hk Hc9 Hc32 rec X HREC 1 term st2 off (fun E => ltac:(discriminate E)) TL LV L2)
    as (st6 & LI & TL6 & LV6 & T6 & E6 & L6).
  rewrite LI. cbn [bind]. cbv iota.
  destruct TL6 as (Hsrc6 & HbM6 & HeM6 & HtS6 & HsC6 & HbS6 & HbI6 & HlM6 & HlI6).
  eexists. split; [reflexivity|].
  split; [|split; [|split]].
  - unfold off_line. cbn. rewrite LV6. change (-1 <? 0) with true. change (0 <? -1) with false. cbv iota.
    cbn [app] in *. repeat split; try assumption. lia.
  - cbn. rewrite T6. unfold st2. cbn. rewrite LV6, Hlv.
    change (1 <? 0) with false. change (0 <? 1) with true. change (-1 <? 0) with true. change (0 <? -1) with false. cbv iota.
    replace (lv + 1 - 1) with lv by lia.
    unfold set_map_at. rewrite <- !app_assoc. cbn [app]. rewrite <- ?app_assoc. cbn [app]. rewrite update_nth_tok_app.
    exact (HMT (b_tokens st)).
  - cbn. rewrite E6. reflexivity.
  - reflexivity.
Qed.

End BulletStep.

(* ---- the list rule on an ordered marker: digits, '.' or ')', blanks ---- *)
Definition ol_open_at (dl mv lv : Z) : token :=
  map_tok 0 1 (set_markup ((fun t => if negb (mv =? 1) then set_attrs t [(s_start, AInt mv)] else t)
                             (set_level (set_block (new_token [111; 114; 100; 101; 114; 101; 100; 95; 108; 105; 115; 116; 95; 111; 112; 101; 110] [111; 108] 1) true) lv)) [dl]).
Definition ol_close_at (dl lv : Z) : token :=
  set_markup (set_level (set_block (new_token [111; 114; 100; 101; 114; 101; 100; 95; 108; 105; 115; 116; 95; 99; 108; 111; 115; 101] [111; 108] (-1)) true) lv) [dl].

(* the digit scan of skipOrderedListMarker *)
Lemma ordered_digits_run dl (Hdl : dl = 46 \/ dl = 41) : forall ds (P : str) r fuel start mx,
  Forall (fun d => is_digit d = true) ds -> (length ds < fuel)%nat ->
  len P + len ds - start < 10 -> len P + len ds + 1 < mx ->
  ordered_digits fuel (P ++ ds ++ dl :: 32 :: r) start (len P) mx = Ok (len P + len ds + 1).
Proof.
  induction ds as [|d ds IH]; intros P r fuel start mx FD Hf H10 Hmx; (destruct fuel as [|f]; [cbn [length] in Hf; lia|]); cbn [ordered_digits app].
  - change (len (@nil Z)) with 0 in *. assert (E : (mx <=? len P) = false) by lia. rewrite E.
    rewrite py_idx_app. cbn [bind].
    assert (ND : is_digit dl = false) by (unfold is_digit; lia). rewrite ND.
    assert (DL : (dl =? 41) || (dl =? 46) = true) by lia. rewrite DL.
    assert (E2 : (len P + 1 <? mx) = true) by lia. rewrite E2.
    rewrite py_idx_app2. cbn [bind]. change (is_space 32) with true. cbv iota. f_equal. lia.
  - rewrite len_cons in *. pose proof (len_nonneg ds). assert (E : (mx <=? len P) = false) by lia. rewrite E.
    rewrite py_idx_app. cbn [bind]. inversion FD as [|? ? Hd FD']; subst. rewrite Hd.
    assert (E10 : (10 <=? len P + 1 - start) = false) by lia. rewrite E10.
    replace (P ++ d :: ds ++ dl :: 32 :: r) with ((P ++ [d]) ++ ds ++ dl :: 32 :: r) by (rewrite <- app_assoc; reflexivity).
    replace (len P + 1) with (len (P ++ [d])) by (rewrite len_app; reflexivity).
    rewrite IH; [rewrite len_app; change (len [d]) with 1; f_equal; lia | exact FD' | cbn [length] in Hf; lia
                | rewrite len_app; change (len [d]) with 1; lia | rewrite len_app; change (len [d]) with 1; lia].
Qed.

Section OrderedStep.
Context (cfg : bcfg) (rf cf : str -> str).
Context (pre1 pre2 : str) (d0 : Z) (ds : str) (dl : Z) (k : nat) (c1 : Z) (r1 : str) (bs li lv : Z).
Context (Hd0 : is_digit d0 = true) (Hds : Forall (fun d => is_digit d = true) ds) (Hlen : len ds <= 8).
Context (Hdl : dl = 46 \/ dl = 41) (Hk : (1 <= k <= 4)%nat).
Context (Hc9 : (c1 =? 9) = false) (Hc32 : (c1 =? 32) = false).
Notation body := (d0 :: ds).
Notation L' := (c1 :: r1).
Notation L := (body ++ dl :: sp k ++ c1 :: r1).
Notation off := (len pre1 + len pre2).
Notation mv := (int_of_digits body).

Lemma o_src st : b_src st = pre1 ++ pre2 ++ L ++ [10] -> b_src st = (pre1 ++ pre2) ++ d0 :: ds ++ dl :: sp k ++ c1 :: r1 ++ [10].
Proof. intros ->. rewrite <- !app_assoc. cbn [app]. rewrite <- ?app_assoc. reflexivity. Qed.

Lemma o_len : len L = len ds + len r1 + 3 + Z.of_nat k.
Proof. rewrite len_app, !len_cons, len_app, len_sp, len_cons. lia. Qed.

Lemma o_skip_ordered st : off_line st pre1 pre2 L bs li lv -> skip_ordered st 0 = Ok (off + len body + 1).
Proof.
  intros H. unfold skip_ordered. rewrite (QuoteLine.ls0 _ _ _ _ _ _ st H), (QuoteLine.em0 _ _ _ _ _ _ st H). cbn [bind].
  pose proof o_len as LL. pose proof (len_nonneg ds). pose proof (len_nonneg r1).
  assert (E : (off + len L <=? off + 1) = false) by lia. rewrite E.
  destruct H as (Hsrc & _). rewrite (o_src st Hsrc), <- len_app, py_idx_app. cbn [bind]. rewrite Hd0. cbn [negb]. cbv iota.
  destruct k as [|k']; [lia|]. rewrite sp_S. cbn [app].
  replace ((pre1 ++ pre2) ++ d0 :: ds ++ dl :: 32 :: sp k' ++ c1 :: r1 ++ [10]) with (((pre1 ++ pre2) ++ [d0]) ++ ds ++ dl :: 32 :: sp k' ++ c1 :: r1 ++ [10])
    by (rewrite <- app_assoc; reflexivity).
  replace (len (pre1 ++ pre2) + 1) with (len ((pre1 ++ pre2) ++ [d0])) by (rewrite len_app; reflexivity).
  rewrite (ordered_digits_run dl Hdl); try assumption.
  - rewrite !len_app, !len_cons. change (len (@nil Z)) with 0. f_equal. lia.
  - unfold len in Hlen. lia.
  - rewrite !len_app. change (len [d0]) with 1. lia.
  - clear LL E. repeat (rewrite ?len_app, ?len_cons, ?len_sp). change (len (@nil Z)) with 0. lia.
Qed.

Context (rec : rec_t) (X : list token).
Context (HREC : rec_adds rec pre1 (pre2 ++ body ++ dl :: sp k) L' bs (len pre2) (lv + 2) X).
Context (X' : list token).
Context (HMT : forall A,
  mark_tight (S (length (A ++ ol_open_at dl mv lv :: li_open_g true body dl (lv + 1) :: X ++ [li_close_at dl (lv + 1); ol_close_at dl lv])))
             (A ++ ol_open_at dl mv lv :: li_open_g true body dl (lv + 1) :: X ++ [li_close_at dl (lv + 1); ol_close_at dl lv])
             (Z.of_nat (length A) + 2) (len (A ++ ol_open_at dl mv lv :: li_open_g true body dl (lv + 1) :: X ++ [li_close_at dl (lv + 1); ol_close_at dl lv]) - 2) (lv + 2)
  = A ++ ol_open_at dl mv lv :: li_open_g true body dl (lv + 1) :: X' ++ [li_close_at dl (lv + 1); ol_close_at dl lv]).

Lemma r_list_off_ordered term st : off_line st pre1 pre2 L bs li lv -> b_line st = 0 ->
  exists st', r_list cfg rec term st 0 1 false = Ok (true, st')
    /\ off_line st' pre1 pre2 L bs li lv
    /\ b_tokens st' = b_tokens st ++ ol_open_at dl mv lv :: li_open_g true body dl (lv + 1) :: X' ++ [li_close_at dl (lv + 1); ol_close_at dl lv]
    /\ b_env st' = b_env st /\ b_line st' = 1.
Proof.
  intros H L0. pose proof H as H'. destruct H' as (Hsrc & HbM & HeM & HtS & HsC & HbS & HbI & HlM & HlI & Hlv).
  unfold r_list.
  rewrite (QuoteLine.cb0 cfg _ _ _ _ _ _ st H), (QuoteLine.sc0 _ _ _ _ _ _ st H). cbn [bind]. cbv iota.
  rewrite HbI, Z.ltb_irrefl, Bool.andb_false_r. cbv iota.
  rewrite (o_skip_ordered st H), (QuoteLine.ls0 _ _ _ _ _ _ st H). cbn [bind].
  pose proof (len_nonneg pre1). pose proof (len_nonneg pre2). pose proof (len_nonneg body).
  assert (E0 : (0 <=? off + len body + 1) = true) by lia. rewrite E0. cbv iota. cbn [andb]. cbv iota. cbn [bind].
  rewrite (QuoteLine.em0 _ _ _ _ _ _ st H). cbn [bind andb]. cbv iota.
  rewrite (i_body pre1 pre2 body dl k c1 r1 Hk st Hsrc).
  replace (off + len body + 1 - 1) with (off + len body) by lia.
  assert (PM : py_idx (b_src st) (off + len body) = Ok dl).
  { rewrite (i_src pre1 pre2 body dl k c1 r1 st Hsrc). rewrite <- !len_app. apply py_idx_app. }
  rewrite PM. cbn [bind]. cbv iota.
  change (Z.to_nat (1 - 0)) with 1%nat.
  match goal with |- context [list_items cfg 2 rec term ?s2 true dl 0 0 1 (off + len body + 1) off true false] => set (st2 := s2) end.
  assert (TL : off_tabs st2 pre1 pre2 L bs li) by (unfold off_tabs, st2, st_parent, bpush; cbn; repeat split; assumption).
  assert (LV : b_level st2 = lv + 1) by (unfold st2, st_parent, bpush; cbn; rewrite Hlv; change (1 <? 0) with false; change (0 <? 1) with true; reflexivity).
  assert (L2 : b_line st2 = 0) by exact L0.
  destruct (list_items_off cfg pre1 pre2 true body dl k c1 r1 bs li lv Hk Hc9 Hc32 rec X HREC 1 term st2 off (fun _ => eq_refl) TL LV L2)
    as (st6 & LI & TL6 & LV6 & T6 & E6 & L6).
  rewrite LI. cbn [bind]. cbv iota.
  destruct TL6 as (Hsrc6 & HbM6 & HeM6 & HtS6 & HsC6 & HbS6 & HbI6 & HlM6 & HlI6).
  eexists. split; [reflexivity|].
  split; [|split; [|split]].
  - unfold off_line. cbn. rewrite LV6. change (-1 <? 0) with true. change (0 <? -1) with false. cbv iota.
    repeat split; try assumption. lia.
  - cbn. rewrite T6. unfold st2. cbn. rewrite LV6, Hlv.
    change (1 <? 0) with false. change (0 <? 1) with true. change (-1 <? 0) with true. change (0 <? -1) with false. cbv iota.
    replace (lv + 1 - 1) with lv by lia.
    unfold set_map_at. rewrite <- !app_assoc. cbn [app]. rewrite <- ?app_assoc. cbn [app]. rewrite update_nth_tok_app.
    exact (HMT (b_tokens st)).
  - cbn. rewrite E6. reflexivity.
  - reflexivity.
Qed.

(* nothing before the list rule claims a line that starts with a digit *)
Lemma ob_before_fail rec0 term n st : n = nm_table \/ n = nm_code \/ n = nm_fence \/ n = nm_blockquote \/ n = nm_hr ->
  off_line st pre1 pre2 L bs li lv -> apply_rule cfg rf cf rec0 term n st 0 1 false = Ok (false, st).
Proof.
  assert (D0 : 48 <= d0 <= 57) by (unfold is_digit in Hd0; lia).
  intros [->|[->|[->|[->| ->]]]] H; unfold apply_rule.
  - change (str_eqb nm_table nm_table) with true. cbv iota. unfold r_table. change (1 <? 0 + 2) with true. reflexivity.
  - change (str_eqb nm_code nm_table) with false. change (str_eqb nm_code nm_code) with true. cbv iota.
    unfold r_code. rewrite (QuoteLine.cb0 cfg _ _ _ _ _ _ st H). reflexivity.
  - change (str_eqb nm_fence nm_table) with false. change (str_eqb nm_fence nm_code) with false. change (str_eqb nm_fence nm_fence) with true.
    cbv iota. unfold r_fence. rewrite (QuoteLine.ls0 _ _ _ _ _ _ st H), (QuoteLine.em0 _ _ _ _ _ _ st H), (QuoteLine.cb0 cfg _ _ _ _ _ _ st H). cbn [bind]. cbv iota.
    match goal with |- (if ?x then _ else _) = _ => destruct x end; [reflexivity|].
    destruct H as (Hsrc & _). rewrite (o_src st Hsrc), <- len_app, py_idx_app. cbn [bind].
    assert (E : negb ((d0 =? 126) || (d0 =? 96)) = true) by lia. rewrite E. reflexivity.
  - change (str_eqb nm_blockquote nm_table) with false. change (str_eqb nm_blockquote nm_code) with false.
    change (str_eqb nm_blockquote nm_fence) with false. change (str_eqb nm_blockquote nm_blockquote) with true.
    cbv iota. unfold r_blockquote. rewrite (QuoteLine.ls0 _ _ _ _ _ _ st H), (QuoteLine.em0 _ _ _ _ _ _ st H), (QuoteLine.cb0 cfg _ _ _ _ _ _ st H). cbn [bind]. cbv iota.
    rewrite match_some_62. destruct H as (Hsrc & _). rewrite (o_src st Hsrc), <- len_app, char_at_app.
    assert (E : (d0 =? 62) = false) by lia. rewrite E. reflexivity.
  - change (str_eqb nm_hr nm_table) with false. change (str_eqb nm_hr nm_code) with false.
    change (str_eqb nm_hr nm_fence) with false. change (str_eqb nm_hr nm_blockquote) with false. change (str_eqb nm_hr nm_hr) with true.
    cbv iota. unfold r_hr. rewrite (QuoteLine.ls0 _ _ _ _ _ _ st H), (QuoteLine.em0 _ _ _ _ _ _ st H), (QuoteLine.cb0 cfg _ _ _ _ _ _ st H). cbn [bind]. cbv iota.
    destruct H as (Hsrc & _). rewrite (o_src st Hsrc), <- len_app, char_at_app.
    assert (E : negb ((d0 =? 42) || (d0 =? 45) || (d0 =? 95)) = true) by lia. rewrite E. reflexivity.
Qed.

End OrderedStep.

(* ---- nothing before the list rule claims a line that starts with a bullet marker and blanks and has a character
   that is neither that marker nor a blank ---- *)
Lemma hr_scan_stop mk : forall (a P : str) c rest fuel mx cnt,
  Forall (fun x => x = mk \/ is_space x = true) a -> c <> mk -> is_space c = false ->
  len P + len a < mx -> (length a < fuel)%nat ->
  hr_scan fuel (P ++ a ++ c :: rest) (len P) mx mk cnt = Ok None.
Proof.
  induction a as [|x a IH]; intros P c rest fuel mx cnt Fa Hc Hs Hm Hf; (destruct fuel as [|f]; [cbn [length] in Hf; lia|]); cbn [hr_scan app].
  - change (len (@nil Z)) with 0 in Hm. assert (E : negb (len P <? mx) = false) by lia. rewrite E.
    rewrite py_idx_app. cbn [bind]. assert (N : (c =? mk) = false) by lia. rewrite N, Hs. reflexivity.
  - rewrite len_cons in Hm. pose proof (len_nonneg a). assert (E : negb (len P <? mx) = false) by lia. rewrite E.
    rewrite py_idx_app. cbn [bind]. inversion Fa as [|? ? Hx Fa']; subst.
    assert (C : negb (x =? mk) && negb (is_space x) = false).
    { destruct Hx as [->|Hx]; [rewrite Z.eqb_refl; reflexivity | rewrite Hx; apply Bool.andb_false_r]. }
    rewrite C.
    replace (P ++ x :: a ++ c :: rest) with ((P ++ [x]) ++ a ++ c :: rest) by (rewrite <- app_assoc; reflexivity).
    replace (len P + 1) with (len (P ++ [x])) by (rewrite len_app; reflexivity).
    apply IH; try assumption; [rewrite len_app; change (len [x]) with 1; lia | cbn [length] in Hf; lia].
Qed.

Section ItemBefore.
Context (cfg : bcfg) (rf cf : str -> str).
Context (pre1 pre2 : str) (m : Z) (k : nat) (c1 : Z) (r1 : str) (bs li lv : Z).
Context (Hm : m = 42 \/ m = 45 \/ m = 43).
Context (a : str) (c : Z) (b : str).
Context (HL' : c1 :: r1 = a ++ c :: b) (Ha : Forall (fun x => x = m \/ is_space x = true) a) (Hc : c <> m) (Hcs : is_space c = false).
Notation L := (m :: sp k ++ c1 :: r1).
Notation off := (len pre1 + len pre2).

Lemma ib_fence_fail st : off_line st pre1 pre2 L bs li lv -> r_fence cfg st 0 1 false = Ok (false, st).
Proof.
  intros H. unfold r_fence. rewrite (QuoteLine.ls0 _ _ _ _ _ _ st H), (QuoteLine.em0 _ _ _ _ _ _ st H), (QuoteLine.cb0 cfg _ _ _ _ _ _ st H). cbn [bind]. cbv iota.
  match goal with |- (if ?x then _ else _) = _ => destruct x end; [reflexivity|].
  destruct H as (Hsrc & _). rewrite (b_src_eq pre1 pre2 m k c1 r1 st Hsrc), <- len_app, py_idx_app. cbn [bind].
  assert (E : negb ((m =? 126) || (m =? 96)) = true) by lia. rewrite E. reflexivity.
Qed.

Lemma ib_blockquote_fail rec term st : off_line st pre1 pre2 L bs li lv -> r_blockquote cfg rec term st 0 1 false = Ok (false, st).
Proof.
  intros H. unfold r_blockquote. rewrite (QuoteLine.ls0 _ _ _ _ _ _ st H), (QuoteLine.em0 _ _ _ _ _ _ st H), (QuoteLine.cb0 cfg _ _ _ _ _ _ st H). cbn [bind]. cbv iota.
  rewrite match_some_62.
  destruct H as (Hsrc & _). rewrite (b_src_eq pre1 pre2 m k c1 r1 st Hsrc), <- len_app, char_at_app.
  assert (E : (m =? 62) = false) by lia. rewrite E. reflexivity.
Qed.

Lemma ib_hr_fail st : off_line st pre1 pre2 L bs li lv -> r_hr cfg st 0 1 false = Ok (false, st).
Proof.
  intros H. unfold r_hr. rewrite (QuoteLine.ls0 _ _ _ _ _ _ st H), (QuoteLine.em0 _ _ _ _ _ _ st H), (QuoteLine.cb0 cfg _ _ _ _ _ _ st H). cbn [bind]. cbv iota.
  destruct H as (Hsrc & _). rewrite (b_src_eq pre1 pre2 m k c1 r1 st Hsrc), <- len_app, char_at_app.
  destruct (negb ((m =? 42) || (m =? 45) || (m =? 95))) eqn:EM; [reflexivity|].
  assert (SRC : (pre1 ++ pre2) ++ m :: sp k ++ c1 :: r1 ++ [10] = ((pre1 ++ pre2) ++ [m]) ++ (sp k ++ a) ++ c :: b ++ [10]).
  { change (c1 :: r1 ++ [10]) with ((c1 :: r1) ++ [10]). rewrite HL'. rewrite <- !app_assoc. cbn [app]. rewrite <- ?app_assoc. cbn [app]. reflexivity. }
  rewrite SRC.
  replace (len (pre1 ++ pre2) + 1) with (len ((pre1 ++ pre2) ++ [m])) by (rewrite len_app; reflexivity).
  rewrite hr_scan_stop; [reflexivity| | exact Hc | exact Hcs | |].
  - apply Forall_app. split; [|exact Ha]. unfold sp. apply Forall_forall. intros x I. apply repeat_spec in I. subst x. right. reflexivity.
  - assert (LL : len (c1 :: r1) = len a + 1 + len b) by (rewrite HL', len_app, len_cons; lia).
    rewrite len_cons in LL. rewrite !len_app, !len_cons, !len_app, !len_cons, len_sp. change (len (@nil Z)) with 0. pose proof (len_nonneg b). lia.
  - rewrite ?app_length. cbn [length]. rewrite ?app_length. cbn [length]. rewrite ?app_length. cbn [length]. lia.
Qed.

Lemma ib_before_fail rec term n st : n = nm_table \/ n = nm_code \/ n = nm_fence \/ n = nm_blockquote \/ n = nm_hr ->
  off_line st pre1 pre2 L bs li lv -> apply_rule cfg rf cf rec term n st 0 1 false = Ok (false, st).
Proof.
  intros [->|[->|[->|[->| ->]]]] H; unfold apply_rule.
  - change (str_eqb nm_table nm_table) with true. cbv iota. unfold r_table. change (1 <? 0 + 2) with true. reflexivity.
  - change (str_eqb nm_code nm_table) with false. change (str_eqb nm_code nm_code) with true. cbv iota.
    unfold r_code. rewrite (QuoteLine.cb0 cfg _ _ _ _ _ _ st H). reflexivity.
  - change (str_eqb nm_fence nm_table) with false. change (str_eqb nm_fence nm_code) with false. change (str_eqb nm_fence nm_fence) with true.
    cbv iota. apply ib_fence_fail, H.
  - change (str_eqb nm_blockquote nm_table) with false. change (str_eqb nm_blockquote nm_code) with false.
    change (str_eqb nm_blockquote nm_fence) with false. change (str_eqb nm_blockquote nm_blockquote) with true.
    cbv iota. apply ib_blockquote_fail, H.
  - change (str_eqb nm_hr nm_table) with false. change (str_eqb nm_hr nm_code) with false.
    change (str_eqb nm_hr nm_fence) with false. change (str_eqb nm_hr nm_blockquote) with false. change (str_eqb nm_hr nm_hr) with true.
    cbv iota. apply ib_hr_fail, H.
Qed.

End ItemBefore.

(* ---- markTightParagraphs ---- *)
Definition s_para_open : str := [112; 97; 114; 97; 103; 114; 97; 112; 104; 95; 111; 112; 101; 110].
(* not a paragraph_open at that level *)
Definition NP (lvl : Z) (t : token) : Prop := (tlevel t =? lvl) && str_eqb (ttype t) s_para_open = false.

Lemma mark_tight_noop lvl : forall (Q P R : list token) fuel i n,
  Forall (NP lvl) Q -> i = Z.of_nat (length P) -> n = Z.of_nat (length P + length Q) -> (length Q < fuel)%nat ->
  mark_tight fuel (P ++ Q ++ R) i n lvl = P ++ Q ++ R.
Proof.
  induction Q as [|q Q IH]; intros P R fuel i n F Hi Hn Hf; (destruct fuel as [|f]; [cbn [length] in Hf; lia|]); unfold mark_tight; fold mark_tight.
  - cbn [length] in Hn. assert (E : negb (i <? n) = true) by lia. rewrite E. reflexivity.
  - cbn [length] in Hn, Hf. assert (E : negb (i <? n) = false) by lia. rewrite E.
    rewrite Hi, Nat2Z.id. cbn [app]. rewrite nth_error_app_mid.
    inversion F as [|? ? Hq F']; subst. unfold NP in Hq. change [112; 97; 114; 97; 103; 114; 97; 112; 104; 95; 111; 112; 101; 110] with s_para_open. rewrite Hq.
    replace (P ++ q :: Q ++ R) with ((P ++ [q]) ++ Q ++ R) by (rewrite <- app_assoc; reflexivity).
    apply IH; [exact F' | rewrite app_length; cbn [length]; lia | rewrite app_length; cbn [length]; lia | lia].
Qed.

Lemma update_nth_tok_app_r f (A l : list token) k : update_nth_tok (length A + k) f (A ++ l) = A ++ update_nth_tok k f l.
Proof. unfold update_nth_tok. induction A as [|y A IH]; cbn [length app Nat.add]; [reflexivity | f_equal; exact IH]. Qed.

(* a list whose item holds the paragraph directly: the paragraph tokens get hidden *)
Lemma mark_tight_para s lv (o1 o2 e1 e2 : token) (A : list token) :
  mark_tight (S (length (A ++ o1 :: o2 :: para_tokens s (lv + 2) ++ [e1; e2])))
             (A ++ o1 :: o2 :: para_tokens s (lv + 2) ++ [e1; e2])
             (Z.of_nat (length A) + 2) (len (A ++ o1 :: o2 :: para_tokens s (lv + 2) ++ [e1; e2]) - 2) (lv + 2)
  = A ++ o1 :: o2 :: hide_para (para_tokens s (lv + 2)) ++ [e1; e2].
Proof.
  unfold para_tokens, hide_para. cbn [app].
  set (po := map_tok 0 1 (set_level (set_block (new_token [112; 97; 114; 97; 103; 114; 97; 112; 104; 95; 111; 112; 101; 110] [112] 1) true) (lv + 2))).
  set (inl := set_children (map_tok 0 1 (set_content (set_level (set_block (new_token s_inline [] 0) true) (lv + 2 + 1)) s)) (Some [])).
  set (pc := set_level (set_block (new_token [112; 97; 114; 97; 103; 114; 97; 112; 104; 95; 99; 108; 111; 115; 101] [112] (-1)) true) (lv + 2)).
  set (rest := [o1; o2; po; inl; pc; e1; e2]).
  change (o1 :: o2 :: po :: inl :: pc :: [e1; e2]) with rest.
  assert (LN : len (A ++ rest) - 2 = Z.of_nat (length A) + 5) by (unfold len; rewrite app_length; change (length rest) with 7%nat; lia).
  rewrite LN. rewrite app_length. change (length rest) with 7%nat.
  replace (S (length A + 7)) with (S (S (length A + 6))) by lia. unfold mark_tight; fold mark_tight.
  assert (E1 : negb (Z.of_nat (length A) + 2 <? Z.of_nat (length A) + 5) = false) by lia. rewrite E1.
  replace (Z.to_nat (Z.of_nat (length A) + 2)) with (length A + 2)%nat by lia.
  rewrite nth_error_app2 by lia. replace (length A + 2 - length A)%nat with 2%nat by lia. cbn [nth_error rest].
  assert (T : (tlevel po =? lv + 2) && str_eqb (ttype po) [112; 97; 114; 97; 103; 114; 97; 112; 104; 95; 111; 112; 101; 110] = true).
  { unfold po. cbn. rewrite Z.eqb_refl. reflexivity. }
  rewrite T.
  assert (E2 : negb (Z.of_nat (length A) + 2 + 3 <? Z.of_nat (length A) + 5) = true) by lia. rewrite E2.
  replace (Z.to_nat (Z.of_nat (length A) + 2 + 2)) with (length A + 4)%nat by lia.
  rewrite !update_nth_tok_app_r. reflexivity.
Qed.

(* a block quote marker "> ", a bullet marker m followed by k spaces, or an ordered marker: digits d0 ds, a delimiter
   '.' or ')', k spaces *)
Inductive ctr := CQ | CI (m : Z) (k : nat) | CO (d0 : Z) (ds : str) (dl : Z) (k : nat).
Definition okc (c : ctr) : Prop :=
  match c with
  | CQ => True
  | CI m k => (m = 42 \/ m = 45 \/ m = 43) /\ (1 <= k <= 4)%nat
  | CO d0 ds dl k => is_digit d0 = true /\ Forall (fun d => is_digit d = true) ds /\ len ds <= 8 /\ (dl = 46 \/ dl = 41) /\ (1 <= k <= 4)%nat
  end.
Definition cpre (c : ctr) : str := match c with CQ => [62; 32] | CI m k => m :: sp k | CO d0 ds dl k => (d0 :: ds) ++ dl :: sp k end.
Fixpoint prefix (cs : list ctr) : str := match cs with [] => [] | c :: r => cpre c ++ prefix r end.
Fixpoint weight (cs : list ctr) : Z := match cs with [] => 0 | CQ :: r => 1 + weight r | CI _ _ :: r => 2 + weight r | CO _ _ _ _ :: r => 2 + weight r end.

Lemma try_rules_skip cfg rf cf rec : forall l rest st,
  (forall n, In n l -> apply_rule cfg rf cf rec (terminated cfg rf cf) n st 0 1 false = Ok (false, st)) ->
  try_rules cfg rf cf rec (l ++ rest) st 0 1 = try_rules cfg rf cf rec rest st 0 1.
Proof.
  induction l as [|n l IH]; intros rest st H; cbn [app try_rules]; [reflexivity|].
  rewrite (H n (or_introl eq_refl)). cbn [bind]. cbv iota. apply IH. intros m I. apply H. right. exact I.
Qed.

Section Nest.
Context (cfg : bcfg) (rf cf : str -> str).
Context (s : str) (Hs : line_ok s).
Context (RA RB RC RD : list str).
Context (HC : c_rules cfg = RA ++ nm_blockquote :: RB ++ nm_list :: RC ++ nm_paragraph :: RD).
Context (HA : Forall (fun n => n = nm_table \/ n = nm_code \/ n = nm_fence) RA).
Context (HB : Forall (fun n => n = nm_table \/ n = nm_code \/ n = nm_fence \/ n = nm_hr) RB).
Context (HCn : Forall (fun n => str_eqb n nm_paragraph = false) RC).

(* the tokens: the paragraph of s wrapped container by container; [hid]: the paragraph sits directly in a tight item *)
Fixpoint wrap (cs : list ctr) (lv : Z) (hid : bool) : list token :=
  match cs with
  | [] => if hid then hide_para (para_tokens s lv) else para_tokens s lv
  | CQ :: r => bq_open_at lv :: wrap r (lv + 1) false ++ [bq_close_at lv]
  | CI m _ :: r => ul_open_at m lv :: li_open_at m (lv + 1) :: wrap r (lv + 2) true ++ [li_close_at m (lv + 1); ul_close_at m lv]
  | CO d0 ds dl _ :: r => ol_open_at dl (int_of_digits (d0 :: ds)) lv :: li_open_g true (d0 :: ds) dl (lv + 1) :: wrap r (lv + 2) true
                          ++ [li_close_at dl (lv + 1); ol_close_at dl lv]
  end.

Lemma wrap_hid c r lv h : wrap (c :: r) lv h = wrap (c :: r) lv false.
Proof. destruct c; reflexivity. Qed.

(* the first character of the rest of the line is never a blank; and somewhere there is a character that is neither a
   hyphen nor a blank *)
Lemma rest_head cs : Forall okc cs -> exists c1 r1, prefix cs ++ s = c1 :: r1 /\ is_space c1 = false /\ (c1 =? 9) = false /\ (c1 =? 32) = false.
Proof.
  intros F. destruct cs as [|[|m k|d0 ds dl k] cs]; cbn [prefix cpre app]; rewrite <- ?app_assoc; cbn [app].
  - destruct (s_facts s Hs) as (c0 & body & E & L & _). destruct (letter_not_space c0 L) as [Hsp _].
    exists c0, body. split; [exact E|]. split; [exact Hsp|]. unfold letter in L. split; lia.
  - eexists _, _. split; [reflexivity|]. repeat split.
  - inversion F as [|? ? OK _]; subst. destruct OK as [Hm _]. eexists _, _. split; [reflexivity|]. unfold is_space. repeat split; lia.
  - inversion F as [|? ? OK _]; subst. destruct OK as [Hd _]. unfold is_digit in Hd. eexists _, _. split; [reflexivity|]. unfold is_space. repeat split; lia.
Qed.

(* for a bullet marker mk: somewhere in the rest of the line there is a character that is neither mk nor a blank *)
Lemma rest_hr mk : mk = 42 \/ mk = 45 \/ mk = 43 -> forall cs, Forall okc cs ->
  exists a c b, prefix cs ++ s = a ++ c :: b /\ Forall (fun x => x = mk \/ is_space x = true) a /\ c <> mk /\ is_space c = false.
Proof.
  intros Hmk. induction cs as [|[|m k|d0 ds dl k] cs IH]; intros F; cbn [prefix cpre app]; rewrite <- ?app_assoc; cbn [app].
  - destruct (s_facts s Hs) as (c0 & body & E & L & _). destruct (letter_not_space c0 L) as [Hsp _].
    exists [], c0, body. split; [exact E|]. split; [constructor|]. split; [unfold letter in L; lia | exact Hsp].
  - exists [], 62, (32 :: prefix cs ++ s). split; [reflexivity|]. split; [constructor|]. split; [lia | reflexivity].
  - inversion F as [|? ? OK F']; subst. destruct OK as [Hm _].
    destruct (Z.eq_dec m mk) as [->|NE].
    + destruct (IH F') as (a & c & b & E & Fa & Hc & Hcs). exists (mk :: sp k ++ a), c, b. rewrite E. split; [cbn [app]; rewrite <- ?app_assoc; reflexivity|].
      split; [|split; assumption]. constructor; [left; reflexivity|]. apply Forall_app. split; [|exact Fa].
      unfold sp. apply Forall_forall. intros x I. apply repeat_spec in I. subst x. right. reflexivity.
    + exists [], m, (sp k ++ prefix cs ++ s). split; [reflexivity|]. split; [constructor|]. split; [exact NE | unfold is_space; lia].
  - inversion F as [|? ? OK _]; subst. destruct OK as [Hd _]. unfold is_digit in Hd.
    exists [], d0, (ds ++ dl :: sp k ++ prefix cs ++ s). split; [reflexivity|]. split; [constructor|]. split; [lia | unfold is_space; lia].
Qed.

(* every token of a wrapped paragraph below level lvl is not a paragraph_open at level lvl *)
Lemma wrap_np : forall cs lv h lvl, lvl < lv -> Forall (NP lvl) (wrap cs lv h).
Proof.
  assert (LVL : forall t lvl, lvl <> tlevel t -> NP lvl t) by (intros t lvl H; unfold NP; assert (E : (tlevel t =? lvl) = false) by lia; rewrite E; reflexivity).
  induction cs as [|[|m k|d0 ds dl k] cs IH]; intros lv h lvl Hl; cbn [wrap].
  - destruct h; unfold hide_para, para_tokens; repeat constructor; apply LVL; cbn; lia.
  - constructor; [apply LVL; cbn; lia|]. apply Forall_app. split; [apply IH; lia | repeat constructor; apply LVL; cbn; lia].
  - constructor; [apply LVL; cbn; lia|]. constructor; [apply LVL; cbn; lia|]. apply Forall_app. split; [apply IH; lia | repeat constructor; apply LVL; cbn; lia].
  - constructor; [apply LVL; unfold ol_open_at; destruct (negb (int_of_digits (d0 :: ds) =? 1)); cbn; lia|].
    constructor; [apply LVL; cbn; lia|]. apply Forall_app. split; [apply IH; lia | repeat constructor; apply LVL; cbn; lia].
Qed.

Lemma wrap_np_head c cs lv : Forall (NP lv) (wrap (c :: cs) lv false).
Proof.
  assert (LVL : forall t lvl, lvl <> tlevel t -> NP lvl t) by (intros t lvl H; unfold NP; assert (E : (tlevel t =? lvl) = false) by lia; rewrite E; reflexivity).
  assert (TY : forall t lvl, str_eqb (ttype t) s_para_open = false -> NP lvl t) by (intros t lvl H; unfold NP; rewrite H; apply Bool.andb_false_r).
  destruct c; cbn [wrap].
  - constructor; [apply TY; reflexivity|]. apply Forall_app. split; [apply wrap_np; lia | repeat constructor; apply TY; reflexivity].
  - constructor; [apply TY; reflexivity|]. constructor; [apply TY; reflexivity|]. apply Forall_app.
    split; [apply wrap_np; lia | repeat constructor; apply TY; reflexivity].
  - constructor; [apply TY; unfold ol_open_at; destruct (negb (int_of_digits (d0 :: ds) =? 1)); reflexivity|]. constructor; [apply TY; reflexivity|]. apply Forall_app.
    split; [apply wrap_np; lia | repeat constructor; apply TY; reflexivity].
Qed.

(* markTightParagraphs on a finished item *)
Lemma mark_tight_wrap (o1 o2 e1 e2 : token) cs lv (A : list token) :
  mark_tight (S (length (A ++ o1 :: o2 :: wrap cs (lv + 2) false ++ [e1; e2])))
             (A ++ o1 :: o2 :: wrap cs (lv + 2) false ++ [e1; e2])
             (Z.of_nat (length A) + 2) (len (A ++ o1 :: o2 :: wrap cs (lv + 2) false ++ [e1; e2]) - 2) (lv + 2)
  = A ++ o1 :: o2 :: wrap cs (lv + 2) true ++ [e1; e2].
Proof.
  destruct cs as [|c cs]; [apply mark_tight_para|].
  rewrite (wrap_hid c cs (lv + 2) true).
  set (Q := wrap (c :: cs) (lv + 2) false).
  replace (A ++ o1 :: o2 :: Q ++ [e1; e2]) with ((A ++ [o1; o2]) ++ Q ++ [e1; e2]) by (rewrite <- app_assoc; reflexivity).
  apply mark_tight_noop.
  - apply wrap_np_head.
  - rewrite app_length. cbn [length]. lia.
  - unfold len. rewrite !app_length. cbn [length]. lia.
  - rewrite !app_length. cbn [length]. lia.
Qed.

Notation rpre := (RA ++ nm_blockquote :: RB ++ nm_list :: RC).

Lemma HR' : c_rules cfg = rpre ++ nm_paragraph :: RD.
Proof. rewrite HC, <- !app_assoc. cbn [app]. rewrite <- !app_assoc. reflexivity. Qed.

Lemma Hpre' : Forall (fun n => str_eqb n nm_paragraph = false) rpre.
Proof.
  apply Forall_app. split.
  - eapply Forall_impl; [|exact HA]. intros n [->|[->| ->]]; reflexivity.
  - constructor; [reflexivity|]. apply Forall_app. split.
    + eapply Forall_impl; [|exact HB]. intros n [->|[->|[->| ->]]]; reflexivity.
    + constructor; [reflexivity | exact HCn].
Qed.

Theorem nest : forall cs, Forall okc cs -> forall pre1 pre2 bs li lv d,
  (forall x, In x pre2 -> x <> 9) -> lv + weight cs < c_maxNesting cfg -> (length cs <= d)%nat ->
  rec_adds (tokenize cfg rf cf (S d)) pre1 pre2 (prefix cs ++ s) bs li lv (wrap cs lv false).
Proof.
  induction cs as [|c cs IH]; intros FO pre1 pre2 bs li lv d Hp2 Hw Hd st O0 L0.
  - cbn [prefix app wrap] in *. cbn [weight] in Hw.
    exact (tokenize_off_line cfg rf cf pre1 pre2 s bs li lv Hs Hp2 rpre RD HR' Hpre' ltac:(lia) d st O0 L0).
  - destruct d as [|d]; [cbn [length] in Hd; lia|]. cbn [length] in Hd.
    inversion FO as [|? ? OKc FO']; subst. specialize (IH FO').
    destruct (rest_head cs FO') as (c1 & r1 & EL & Hsp & H9 & H32).
    assert (WP : 0 <= weight cs) by (clear; induction cs as [|[| |] cs IH]; cbn [weight]; lia).
    destruct c as [|m k|d0 ds dl k]; cbn [prefix cpre app wrap] in *; cbn [weight] in Hw; rewrite <- ?app_assoc in *; cbn [app] in *; rewrite EL in *.
    + (* a block quote marker *)
      assert (REC : rec_adds (tokenize cfg rf cf (S d)) (pre1 ++ pre2 ++ [62; 32]) [] (c1 :: r1) (bs + len pre2 + 1 + 1) li (lv + 1) (wrap cs (lv + 1) false)).
      { exact (IH (pre1 ++ pre2 ++ [62; 32]) [] (bs + len pre2 + 1 + 1) li (lv + 1) d (fun x (H : In x []) => match H with end) ltac:(lia) ltac:(lia)). }
      assert (O1 : off_line (st_line st 0) pre1 pre2 (62 :: 32 :: c1 :: r1) bs li lv) by (unfold off_line, st_line in *; cbn; exact O0).
      destruct (r_blockquote_off cfg pre1 pre2 c1 r1 bs li lv Hsp (tokenize cfg rf cf (S d)) _ REC (terminated cfg rf cf) (st_line st 0) O1 eq_refl)
        as (st2 & RB2 & O2 & T2 & E2 & L2).
      assert (TR : try_rules cfg rf cf (tokenize cfg rf cf (S d)) (c_rules cfg) (st_line st 0) 0 1 = Ok st2).
      { rewrite HC. rewrite try_rules_skip.
        - cbn [try_rules]. unfold apply_rule.
          change (str_eqb nm_blockquote nm_table) with false. change (str_eqb nm_blockquote nm_code) with false.
          change (str_eqb nm_blockquote nm_fence) with false. change (str_eqb nm_blockquote nm_blockquote) with true. cbv iota.
          rewrite RB2. reflexivity.
        - intros n I. rewrite Forall_forall in HA. exact (qs_before_fail cfg rf cf pre1 pre2 c1 r1 bs li lv _ _ n _ (HA n I) O1). }
      assert (HL : 0 < len (62 :: 32 :: c1 :: r1)) by (rewrite !len_cons; pose proof (len_nonneg r1); lia).
      rewrite (tokenize_one cfg rf cf pre1 pre2 _ bs li lv HL ltac:(lia) (S d) st st2 O0 L0 TR O2 L2).
      eexists. split; [reflexivity|]. split; [exact O2|]. split; [exact T2|]. split; [exact E2|]. split; [exact L2 | reflexivity].
    + (* a bullet marker *)
      destruct OKc as [Hm Hk].
      assert (REC : rec_adds (tokenize cfg rf cf (S d)) pre1 (pre2 ++ m :: sp k) (c1 :: r1) bs (len pre2) (lv + 2) (wrap cs (lv + 2) false)).
      { assert (HP : forall x, In x (pre2 ++ m :: sp k) -> x <> 9).
        { intros x I. apply in_app_or in I. destruct I as [I|[<-|I]]; [exact (Hp2 x I) | lia | unfold sp in I; apply repeat_spec in I; subst x; discriminate]. }
        exact (IH pre1 (pre2 ++ m :: sp k) bs (len pre2) (lv + 2) d HP ltac:(lia) ltac:(lia)). }
      assert (O1 : off_line (st_line st 0) pre1 pre2 (m :: sp k ++ c1 :: r1) bs li lv) by (unfold off_line, st_line in *; cbn; exact O0).
      destruct (r_list_off cfg pre1 pre2 m k c1 r1 bs li lv Hm Hk H9 H32 (tokenize cfg rf cf (S d)) _ REC (wrap cs (lv + 2) true) (mark_tight_wrap _ _ _ _ cs lv)
                           (terminated cfg rf cf) (st_line st 0) O1 eq_refl) as (st2 & RL2 & O2 & T2 & E2 & L2).
      destruct (rest_hr m Hm cs FO') as (a & c & b & EA & Fa & Hc & Hcs). rewrite EL in EA.
      assert (TR : try_rules cfg rf cf (tokenize cfg rf cf (S d)) (c_rules cfg) (st_line st 0) 0 1 = Ok st2).
      { rewrite HC.
        replace (RA ++ nm_blockquote :: RB ++ nm_list :: RC ++ nm_paragraph :: RD) with ((RA ++ nm_blockquote :: RB) ++ nm_list :: RC ++ nm_paragraph :: RD)
          by (rewrite <- app_assoc; reflexivity).
        rewrite try_rules_skip.
        - cbn [try_rules]. unfold apply_rule.
          change (str_eqb nm_list nm_table) with false. change (str_eqb nm_list nm_code) with false.
          change (str_eqb nm_list nm_fence) with false. change (str_eqb nm_list nm_blockquote) with false.
          change (str_eqb nm_list nm_hr) with false. change (str_eqb nm_list nm_list) with true. cbv iota.
          rewrite RL2. reflexivity.
        - intros n I. apply (ib_before_fail cfg rf cf pre1 pre2 m k c1 r1 bs li lv Hm a c b EA Fa Hc Hcs); [|exact O1].
          apply in_app_or in I. rewrite Forall_forall in HA, HB. destruct I as [I|[<-|I]].
          + destruct (HA n I) as [->|[->| ->]]; tauto.
          + tauto.
          + destruct (HB n I) as [->|[->|[->| ->]]]; tauto. }
      assert (HL : 0 < len (m :: sp k ++ c1 :: r1)) by (rewrite len_cons, len_app, len_sp, len_cons; pose proof (len_nonneg r1); lia).
      rewrite (tokenize_one cfg rf cf pre1 pre2 _ bs li lv HL ltac:(lia) (S d) st st2 O0 L0 TR O2 L2).
      eexists. split; [reflexivity|]. split; [exact O2|]. split; [exact T2|]. split; [exact E2|]. split; [exact L2 | reflexivity].
    + (* an ordered marker *)
      destruct OKc as (Hd0 & Hds & Hl8 & Hdl & Hk).
      assert (REC : rec_adds (tokenize cfg rf cf (S d)) pre1 (pre2 ++ (d0 :: ds) ++ dl :: sp k) (c1 :: r1) bs (len pre2) (lv + 2) (wrap cs (lv + 2) false)).
      { assert (HP : forall x, In x (pre2 ++ (d0 :: ds) ++ dl :: sp k) -> x <> 9).
        { intros x I. apply in_app_or in I. destruct I as [I|I]; [exact (Hp2 x I)|].
          apply in_app_or in I. destruct I as [[<-|I]|[<-|I]].
          - unfold is_digit in Hd0. lia.
          - rewrite Forall_forall in Hds. specialize (Hds x I). unfold is_digit in Hds. lia.
          - lia.
          - unfold sp in I. apply repeat_spec in I. subst x. discriminate. }
        exact (IH pre1 (pre2 ++ (d0 :: ds) ++ dl :: sp k) bs (len pre2) (lv + 2) d HP ltac:(lia) ltac:(lia)). }
      assert (O1 : off_line (st_line st 0) pre1 pre2 ((d0 :: ds) ++ dl :: sp k ++ c1 :: r1) bs li lv) by (unfold off_line, st_line in *; cbn; exact O0).
      destruct (r_list_off_ordered cfg pre1 pre2 d0 ds dl k c1 r1 bs li lv Hd0 Hds Hl8 Hdl Hk H9 H32 (tokenize cfg rf cf (S d)) _ REC (wrap cs (lv + 2) true)
                           (mark_tight_wrap _ _ _ _ cs lv) (terminated cfg rf cf) (st_line st 0) O1 eq_refl) as (st2 & RL2 & O2 & T2 & E2 & L2).
      assert (TR : try_rules cfg rf cf (tokenize cfg rf cf (S d)) (c_rules cfg) (st_line st 0) 0 1 = Ok st2).
      { rewrite HC.
        replace (RA ++ nm_blockquote :: RB ++ nm_list :: RC ++ nm_paragraph :: RD) with ((RA ++ nm_blockquote :: RB) ++ nm_list :: RC ++ nm_paragraph :: RD)
          by (rewrite <- app_assoc; reflexivity).
        rewrite try_rules_skip.
        - cbn [try_rules]. unfold apply_rule.
          change (str_eqb nm_list nm_table) with false. change (str_eqb nm_list nm_code) with false.
          change (str_eqb nm_list nm_fence) with false. change (str_eqb nm_list nm_blockquote) with false.
          change (str_eqb nm_list nm_hr) with false. change (str_eqb nm_list nm_list) with true. cbv iota.
          rewrite RL2. reflexivity.
        - intros n I.
          assert (DN : n = nm_table \/ n = nm_code \/ n = nm_fence \/ n = nm_blockquote \/ n = nm_hr).
          { apply in_app_or in I. rewrite Forall_forall in HA, HB. destruct I as [I|[<-|I]].
            + destruct (HA n I) as [->|[->| ->]]; tauto.
            + tauto.
            + destruct (HB n I) as [->|[->|[->| ->]]]; tauto. }
          eapply (ob_before_fail cfg rf cf pre1 pre2 d0 ds dl k c1 r1 bs li lv); eassumption. }
      assert (HL : 0 < len ((d0 :: ds) ++ dl :: sp k ++ c1 :: r1)) by (rewrite len_app, len_cons; pose proof (len_nonneg ds); pose proof (len_nonneg (dl :: sp k ++ c1 :: r1)); lia).
      rewrite (tokenize_one cfg rf cf pre1 pre2 _ bs li lv HL ltac:(lia) (S d) st st2 O0 L0 TR O2 L2).
      eexists. split; [reflexivity|]. split; [exact O2|]. split; [exact T2|]. split; [exact E2|]. split; [exact L2 | reflexivity].
Qed.

End Nest.

(* ---- the document level ---- *)
Lemma init_line_gen c body env toks : is_space c = false -> c <> 10 -> (forall x, In x body -> x <> 10) ->
  one_line (state_init ((c :: body) ++ [10]) env toks) (c :: body) /\ b_tokens (state_init ((c :: body) ++ [10]) env toks) = toks
  /\ b_env (state_init ((c :: body) ++ [10]) env toks) = env /\ b_line (state_init ((c :: body) ++ [10]) env toks) = 0.
Proof.
  intros Hsp Hn NB. unfold state_init. change ((c :: body) ++ [10]) with (c :: body ++ [10]).
  pose proof (scan_text_line 0 c body (len (c :: body ++ [10])) [] [] [] [] 0 0 Hsp Hn NB) as SC.
  cbn [repeat_z app] in SC.
  assert (HL : len (c :: body ++ [10]) = len body + 2) by (rewrite len_cons, len_app; change (len [10]) with 1; lia).
  rewrite SC by (rewrite HL; change (Z.of_nat 0) with 0; lia).
  cbv zeta. cbn [sc_bM sc_eM sc_tS sc_sC rev app map].
  unfold one_line. cbn [b_src b_bMarks b_eMarks b_tShift b_sCount b_bsCount b_blkIndent b_lineMax b_listIndent b_level b_tokens b_env b_line].
  rewrite HL, !len_cons. change (Z.of_nat 0) with 0. repeat split; try reflexivity; try (f_equal; try lia; f_equal; lia).
Qed.

Lemma one_line_off st L : one_line st L -> off_line st [] [] L 0 (-1) 0.
Proof.
  intros (A1 & A2 & A3 & A4 & A5 & A6 & A7 & A8 & A9 & A10). unfold off_line. change (len (@nil Z)) with 0. cbn [app].
  rewrite A1, A2, A3, A4, A5, A6, A7, A8, A9, A10. repeat split; f_equal; try lia; f_equal; lia.
Qed.
Lemma off_one_line st L : off_line st [] [] L 0 (-1) 0 -> one_line st L.
Proof.
  intros (A1 & A2 & A3 & A4 & A5 & A6 & A7 & A8 & A9 & A10). unfold one_line. change (len (@nil Z)) with 0 in *. cbn [app] in A1.
  rewrite A1, A2, A3, A4, A5, A6, A7, A8, A9, A10. repeat split; f_equal; try lia; f_equal; lia.
Qed.

Section NestDoc.
Context (cfg : bcfg) (rf cf : str -> str).
Context (s : str) (Hs : line_ok s).
Context (RA RB RC RD : list str).
Context (HC : c_rules cfg = RA ++ nm_blockquote :: RB ++ nm_list :: RC ++ nm_paragraph :: RD).
Context (HA : Forall (fun n => n = nm_table \/ n = nm_code \/ n = nm_fence) RA).
Context (HB : Forall (fun n => n = nm_table \/ n = nm_code \/ n = nm_fence \/ n = nm_hr) RB).
Context (HCn : Forall (fun n => str_eqb n nm_paragraph = false) RC).

Lemma rest_nolf : forall cs, Forall okc cs -> forall x, In x (prefix cs ++ s) -> x <> 10.
Proof.
  induction cs as [|[|m k|d0 ds dl k] cs IH]; intros F x I; cbn [prefix cpre app] in I; rewrite <- ?app_assoc in I; cbn [app] in I.
  - destruct (s_facts s Hs) as (c0 & body & E & L & B & _). destruct (letter_not_space c0 L) as [_ Hn].
    rewrite E in I. destruct I as [<-|I]; [exact Hn | exact (B x I)].
  - inversion F; subst. destruct I as [<-|[<-|I]]; [discriminate | discriminate | apply IH; assumption].
  - inversion F as [|? ? OK F']; subst. destruct OK as [Hm _]. destruct I as [<-|I]; [lia|].
    apply in_app_or in I. destruct I as [I|I]; [unfold sp in I; apply repeat_spec in I; subst x; discriminate | apply IH; assumption].
  - inversion F as [|? ? OK F']; subst. destruct OK as (Hd0 & Hds & _ & Hdl & _). unfold is_digit in Hd0.
    destruct I as [<-|I]; [lia|]. apply in_app_or in I. destruct I as [I|[<-|I]].
    + rewrite Forall_forall in Hds. specialize (Hds x I). unfold is_digit in Hds. lia.
    + lia.
    + apply in_app_or in I. destruct I as [I|I]; [unfold sp in I; apply repeat_spec in I; subst x; discriminate | apply IH; assumption].
Qed.

Lemma length_weight : forall cs, Z.of_nat (length cs) <= weight cs.
Proof. induction cs as [|[|m k|d0 ds dl k] cs IH]; cbn [length weight]; lia. Qed.

Theorem block_parse_nest cs env toks : Forall okc cs -> weight cs < c_maxNesting cfg ->
  exists st, block_parse cfg rf cf (prefix cs ++ s ++ [10]) env toks = Ok st
    /\ b_tokens st = toks ++ wrap s cs 0 false /\ b_env st = env.
Proof.
  intros FO Hw. unfold block_parse.
  destruct (rest_head s Hs cs FO) as (c1 & r1 & EL & Hsp & H9 & H32).
  assert (NB : forall x, In x r1 -> x <> 10) by (intros x I; apply (rest_nolf cs FO); rewrite EL; right; exact I).
  assert (N1 : c1 <> 10) by (apply (rest_nolf cs FO); rewrite EL; left; reflexivity).
  rewrite app_assoc, EL.
  destruct (init_line_gen c1 r1 env toks Hsp N1 NB) as (O0 & T0 & E0 & L0).
  set (st := state_init ((c1 :: r1) ++ [10]) env toks) in *.
  cbn [app]. cbv zeta. cbv iota.
  pose proof O0 as O0'. destruct O0' as (_ & _ & _ & _ & _ & _ & _ & HlM & _ & _).
  rewrite L0, HlM.
  pose proof (length_weight cs) as LW.
  destruct (nest cfg rf cf s Hs RA RB RC RD HC HA HB HCn cs FO [] [] 0 (-1) 0 (S (Z.to_nat (c_maxNesting cfg)))
                 (fun x (H : In x []) => match H with end) ltac:(lia) ltac:(lia) st) as (st' & TK & O' & T' & E' & L' & _).
  - rewrite EL. apply one_line_off, O0.
  - exact L0.
  - rewrite TK. exists st'. split; [reflexivity|]. split; [rewrite T', T0; reflexivity | rewrite E'; exact E0].
Qed.

End NestDoc.

(* ---- the whole pipeline ---- *)
From MD Require Import Lemmas.NormalizeLemmas.

(* the wrapped paragraph with given children of its inline token *)
Definition inl_at (s : str) (lv : Z) (ch : list token) : token :=
  set_children (map_tok 0 1 (set_content (set_level (set_block (new_token s_inline [] 0) true) (lv + 1)) s)) (Some ch).
Definition para_ch (s : str) (lv : Z) (ch : list token) : list token :=
  [map_tok 0 1 (set_level (set_block (new_token [112; 97; 114; 97; 103; 114; 97; 112; 104; 95; 111; 112; 101; 110] [112] 1) true) lv);
   inl_at s lv ch;
   set_level (set_block (new_token [112; 97; 114; 97; 103; 114; 97; 112; 104; 95; 99; 108; 111; 115; 101] [112] (-1)) true) lv].
Fixpoint wrapc (s : str) (cs : list ctr) (lv : Z) (hid : bool) (ch : list token) : list token :=
  match cs with
  | [] => if hid then hide_para (para_ch s lv ch) else para_ch s lv ch
  | CQ :: r => bq_open_at lv :: wrapc s r (lv + 1) false ch ++ [bq_close_at lv]
  | CI m _ :: r => ul_open_at m lv :: li_open_at m (lv + 1) :: wrapc s r (lv + 2) true ch ++ [li_close_at m (lv + 1); ul_close_at m lv]
  | CO d0 ds dl _ :: r => ol_open_at dl (int_of_digits (d0 :: ds)) lv :: li_open_g true (d0 :: ds) dl (lv + 1) :: wrapc s r (lv + 2) true ch
                          ++ [li_close_at dl (lv + 1); ol_close_at dl lv]
  end.

Lemma wrap_wrapc s : forall cs lv hid, wrap s cs lv hid = wrapc s cs lv hid [].
Proof. induction cs as [|[|m k|d0 ds dl k] cs IH]; intros lv hid; cbn [wrap wrapc]; [destruct hid; reflexivity | rewrite IH; reflexivity | rewrite IH; reflexivity | rewrite IH; reflexivity]. Qed.

Section NPipe.
Context (cfg : pcfg) (rf cf lt : str -> str).
Context (s : str).

Lemma inline_all_app : forall a b env,
  inline_all cfg rf cf lt (a ++ b) env = (do a' <- inline_all cfg rf cf lt a env; do b' <- inline_all cfg rf cf lt b env; Ok (a' ++ b')).
Proof.
  induction a as [|t a IH]; intros b env; cbn [app inline_all].
  - cbn [bind]. destruct (inline_all cfg rf cf lt b env); reflexivity.
  - match goal with |- bind ?m _ = _ => destruct m as [t'|e|] end; cbn [bind]; try reflexivity.
    rewrite IH. destruct (inline_all cfg rf cf lt a env) as [a'|e|]; cbn [bind]; try reflexivity.
    destruct (inline_all cfg rf cf lt b env) as [b'|e|]; cbn [bind]; reflexivity.
Qed.

Lemma inline_all_para (lv : Z) (hid : bool) (env : envt) :
  inline_all cfg rf cf lt (if hid then hide_para (para_ch s lv []) else para_ch s lv []) env
  = (do toks <- inline_parse (p_inline cfg) rf cf lt s env []; Ok (if hid then hide_para (para_ch s lv toks) else para_ch s lv toks)).
Proof.
  destruct hid; unfold hide_para, para_ch; cbn [inline_all];
    repeat match goal with |- context [str_eqb (ttype ?t) s_inline] =>
      first [ change (str_eqb (ttype t) s_inline) with false | change (str_eqb (ttype t) s_inline) with true ] end;
    cbv iota; cbn [bind];
    change (tcontent (inl_at s lv [])) with s; change (tchildren (inl_at s lv [])) with (Some (@nil token)); cbv iota;
    destruct (inline_parse (p_inline cfg) rf cf lt s env []) as [toks|e|]; cbn [bind]; reflexivity.
Qed.

Lemma inline_all_wrapc env : forall cs lv hid,
  inline_all cfg rf cf lt (wrapc s cs lv hid []) env
  = (do toks <- inline_parse (p_inline cfg) rf cf lt s env []; Ok (wrapc s cs lv hid toks)).
Proof.
  induction cs as [|[|m k|d0 ds dl k] cs IH]; intros lv hid; cbn [wrapc].
  - apply inline_all_para.
  - cbn [inline_all]. change (str_eqb (ttype (bq_open_at lv)) s_inline) with false. cbv iota. cbn [bind].
    rewrite inline_all_app, IH.
    destruct (inline_parse (p_inline cfg) rf cf lt s env []) as [toks|e|]; cbn [bind]; reflexivity.
  - cbn [inline_all]. change (str_eqb (ttype (ul_open_at m lv)) s_inline) with false. change (str_eqb (ttype (li_open_at m (lv + 1))) s_inline) with false.
    cbv iota. cbn [bind].
    rewrite inline_all_app, IH.
    destruct (inline_parse (p_inline cfg) rf cf lt s env []) as [toks|e|]; cbn [bind]; reflexivity.
  - cbn [inline_all].
    assert (T1 : str_eqb (ttype (ol_open_at dl (int_of_digits (d0 :: ds)) lv)) s_inline = false) by (unfold ol_open_at; destruct (negb (int_of_digits (d0 :: ds) =? 1)); reflexivity).
    rewrite T1. change (str_eqb (ttype (li_open_g true (d0 :: ds) dl (lv + 1))) s_inline) with false.
    cbv iota. cbn [bind].
    rewrite inline_all_app, IH.
    destruct (inline_parse (p_inline cfg) rf cf lt s env []) as [toks|e|]; cbn [bind]; reflexivity.
Qed.

Lemma text_join_wrapc toks : forall cs lv hid, text_join (wrapc s cs lv hid toks) = wrapc s cs lv hid (join_children toks).
Proof.
  unfold text_join.
  induction cs as [|[|m k|d0 ds dl k] cs IH]; intros lv hid; cbn [wrapc].
  - destruct hid; reflexivity.
  - cbn [map]. rewrite map_app, IH. reflexivity.
  - cbn [map]. rewrite map_app, IH. reflexivity.
  - cbn [map]. rewrite map_app, IH.
    assert (T1 : str_eqb (ttype (ol_open_at dl (int_of_digits (d0 :: ds)) lv)) s_inline = false) by (unfold ol_open_at; destruct (negb (int_of_digits (d0 :: ds) =? 1)); reflexivity).
    rewrite T1. reflexivity.
Qed.

End NPipe.

Lemma mem_prefix c : c <> 62 -> c <> 32 -> c <> 42 -> c <> 45 -> c <> 43 -> c <> 46 -> c <> 41 -> (c < 48 \/ 57 < c) ->
  forall cs, Forall okc cs -> mem_z c (prefix cs) = false.
Proof.
  intros A B C D E G1 G2 ND.
  assert (E2 : forall j, existsb (Z.eqb c) (sp j) = false).
  { unfold sp. induction j as [|j IHj]; [reflexivity|]. cbn [repeat existsb]. assert (E3 : (c =? 32) = false) by lia. rewrite E3. exact IHj. }
  induction cs as [|[|m k|d0 ds dl k] cs IH]; intros F; cbn [prefix cpre]; [reflexivity| | |]; inversion F as [|? ? OK F']; subst.
  - unfold mem_z in *. cbn [app existsb]. rewrite (IH F'). assert (E1 : (c =? 62) = false) by lia. assert (E3 : (c =? 32) = false) by lia.
    rewrite E1, E3. reflexivity.
  - destruct OK as [Hm _]. unfold mem_z in *. cbn [app existsb]. rewrite existsb_app, (IH F').
    assert (E1 : (c =? m) = false) by lia. rewrite E1, E2. reflexivity.
  - destruct OK as (Hd0 & Hds & _ & Hdl & _). unfold is_digit in Hd0. unfold mem_z in *. cbn [app existsb]. rewrite !existsb_app. cbn [existsb]. rewrite ?existsb_app, (IH F'), E2.
    assert (E1 : (c =? d0) = false) by lia. assert (E3 : (c =? dl) = false) by lia. rewrite E1, E3.
    assert (E4 : existsb (Z.eqb c) ds = false).
    { clear - Hds ND. induction ds as [|x ds IHd]; [reflexivity|]. inversion Hds as [|? ? Hx Hr]; subst. cbn [existsb]. unfold is_digit in Hx.
      assert (E5 : (c =? x) = false) by lia. rewrite E5. exact (IHd Hr). }
    rewrite E4. reflexivity.
Qed.

(* C06, containers within containers: the document  prefix(cs) s LF  - any list of "> " and "- " markers in front of
   the line - parses to the paragraph of s wrapped in exactly those containers, level by level; the inline token has the
   content s, the map [0,1] and the children of parseInline(s) at every depth *)
Theorem parse_nested :
  forall cfg rf cf lt s, line_ok s -> mem_z 13 s = false -> mem_z 0 s = false ->
  forall RA RB RC RD, c_rules (p_block cfg) = RA ++ nm_blockquote :: RB ++ nm_list :: RC ++ nm_paragraph :: RD ->
    Forall (fun n => n = nm_table \/ n = nm_code \/ n = nm_fence) RA ->
    Forall (fun n => n = nm_table \/ n = nm_code \/ n = nm_fence \/ n = nm_hr) RB ->
    Forall (fun n => str_eqb n nm_paragraph = false) RC ->
    p_core cfg = [n_normalize; n_block; n_inline; n_text_join] ->
  forall cs, Forall okc cs -> weight cs < c_maxNesting (p_block cfg) ->
  forall env,
    parse cfg rf cf lt (prefix cs ++ s ++ [10]) env
    = (do toks <- inline_parse (p_inline cfg) rf cf lt s env [];
       Ok (wrapc s cs 0 false (join_children toks), env)).
Proof.
  intros cfg rf cf lt s Hs H13 H0 RA RB RC RD HC HA HB HCn Hcore cs FO Hw env.
  unfold parse. rewrite Hcore. cbn [core_process].
  change (core_rule cfg rf cf lt n_normalize (mkC (prefix cs ++ s ++ [10]) env [] false))
    with (Ok (mkC (normalize (prefix cs ++ s ++ [10])) env [] false) : res cstate).
  cbn [bind].
  assert (M : forall c, c <> 10 -> c <> 62 -> c <> 32 -> c <> 42 -> c <> 45 -> c <> 43 -> c <> 46 -> c <> 41 -> (c < 48 \/ 57 < c) ->
              mem_z c s = false -> mem_z c (prefix cs ++ s ++ [10]) = false).
  { intros c A B C D D2 D3 D4 D5 D6 E. unfold mem_z. rewrite !existsb_app. fold (mem_z c (prefix cs)). fold (mem_z c s). rewrite (mem_prefix c B C D D2 D3 D4 D5 D6 cs FO), E.
    cbn. assert (E1 : (c =? 10) = false) by lia. rewrite E1. reflexivity. }
  rewrite (normalize_id (prefix cs ++ s ++ [10])) by (apply M; try discriminate; try assumption; unfold CR, NUL; lia).
  change (core_rule cfg rf cf lt n_block (mkC (prefix cs ++ s ++ [10]) env [] false))
    with (do b <- block_parse (p_block cfg) rf cf (prefix cs ++ s ++ [10]) env []; Ok (mkC (prefix cs ++ s ++ [10]) (b_env b) (b_tokens b) false)).
  destruct (block_parse_nest (p_block cfg) rf cf s Hs RA RB RC RD HC HA HB HCn cs env [] FO Hw) as (st & BP & T & E).
  rewrite BP. cbn [bind]. rewrite T, E. cbn [app].
  change (core_rule cfg rf cf lt n_inline ?x) with (do ts <- inline_all cfg rf cf lt (c_tokens x) (c_env x); Ok (mkC (c_src x) (c_env x) ts (c_inlineMode x))).
  cbn [c_tokens c_env c_src c_inlineMode].
  rewrite wrap_wrapc, inline_all_wrapc.
  destruct (inline_parse (p_inline cfg) rf cf lt s env []) as [toks|e|]; cbn [bind]; try reflexivity.
  change (core_rule cfg rf cf lt n_text_join ?x) with (Ok (mkC (c_src x) (c_env x) (text_join (c_tokens x)) (c_inlineMode x)) : res cstate).
  cbn [bind c_tokens c_env c_src c_inlineMode]. rewrite text_join_wrapc. reflexivity.
Qed.

(* the hypotheses are met: the commonmark chain, a line, three containers *)
Example nested_example :
  [nm_table; nm_code; nm_fence; nm_blockquote; nm_hr; nm_list; nm_reference; nm_html_block; nm_heading; nm_lheading; nm_paragraph]
  = [nm_table; nm_code; nm_fence] ++ nm_blockquote :: [nm_hr] ++ nm_list :: [nm_reference; nm_html_block; nm_heading; nm_lheading] ++ nm_paragraph :: []
  /\ prefix [CQ; CI 45 1; CO 49 [50] 46 2; CQ] ++ [102; 111; 111] ++ [10] = [62; 32; 45; 32; 49; 50; 46; 32; 32; 62; 32; 102; 111; 111; 10]
  /\ weight [CQ; CI 45 1; CO 49 [50] 46 2; CQ] = 6 /\ Forall okc [CQ; CI 45 1; CO 49 [50] 46 2; CQ].
Proof.
  split; [reflexivity|]. split; [reflexivity|]. split; [reflexivity|].
  constructor; [exact I|]. constructor; [cbn; split; [tauto | lia]|].
  constructor; [unfold okc; split; [reflexivity|]; split; [repeat constructor|]; split; [unfold len; cbn; lia|]; split; [left; reflexivity | lia]|].
  constructor; [exact I | constructor].
Qed.

(* ---- C09 in every nesting of block quotes and list items: escaped text is one literal text token ---- *)
From MD Require Import Lemmas.InlineEsc.

Theorem parse_nested_escaped :
  forall cfg rf cf lt (segs : list seg), wf segs -> line_ok (src_of segs) ->
    mem_z 13 (src_of segs) = false -> mem_z 0 (src_of segs) = false ->
  forall RA RB RC RD, c_rules (p_block cfg) = RA ++ nm_blockquote :: RB ++ nm_list :: RC ++ nm_paragraph :: RD ->
    Forall (fun n => n = nm_table \/ n = nm_code \/ n = nm_fence) RA ->
    Forall (fun n => n = nm_table \/ n = nm_code \/ n = nm_fence \/ n = nm_hr) RB ->
    Forall (fun n => str_eqb n nm_paragraph = false) RC ->
    p_core cfg = [n_normalize; n_block; n_inline; n_text_join] ->
  forall ipre ipost, ic_rules (p_inline cfg) = ipre ++ n_escape :: ipost ->
    Forall (fun n => n = n_text \/ n = n_linkify \/ n = n_newline) ipre -> In n_text ipre ->
    ic_linkify (p_inline cfg) = false -> 0 < ic_maxNesting (p_inline cfg) ->
  forall cs, Forall okc cs -> weight cs < c_maxNesting (p_block cfg) ->
  forall env, exists p,
    parse cfg rf cf lt (prefix cs ++ src_of segs ++ [10]) env = Ok (wrapc (src_of segs) cs 0 false [p], env)
    /\ ttype p = s_text /\ tcontent p = text_of segs.
Proof.
  intros cfg rf cf lt segs Hwf Hs H13 H0 RA RB RC RD HC HA HB HCn Hcore ipre ipost HRi Hipre Hitext Hlink Hinest cs FO Hw env.
  rewrite (parse_nested cfg rf cf lt (src_of segs) Hs H13 H0 RA RB RC RD HC HA HB HCn Hcore cs FO Hw env).
  unfold inline_parse.
  destruct (inline_parse_esc_with (p_inline cfg) rf cf lt (ifs (p_inline cfg) rf cf lt (inline_depth (p_inline cfg))) ipre ipost HRi Hipre Hitext Hlink Hinest segs env Hwf)
    as (toks & IP & CT & TL).
  rewrite IP. cbn [bind].
  destruct (join_children_textlike toks TL) as [(-> & ->) | (p & -> & Hp & Cp)].
  - exfalso. destruct Hs as [(c0 & body & E & _) _]. unfold contents in CT. cbn in CT.
    destruct segs as [|[r|c] l]; [discriminate E| |].
    + destruct Hwf as (Hne & _). unfold text_of in CT. cbn in CT. destruct r; [contradiction Hne; reflexivity | discriminate CT].
    + unfold text_of in CT. cbn in CT. discriminate CT.
  - exists p. split; [reflexivity|]. split; [exact Hp | rewrite Cp; exact CT].
Qed.

(* C08: an ordered marker is recorded as written *)
Theorem ordered_marker_recorded :
  forall cfg rf cf lt s, line_ok s -> mem_z 13 s = false -> mem_z 0 s = false ->
  forall RA RB RC RD, c_rules (p_block cfg) = RA ++ nm_blockquote :: RB ++ nm_list :: RC ++ nm_paragraph :: RD ->
    Forall (fun n => n = nm_table \/ n = nm_code \/ n = nm_fence) RA ->
    Forall (fun n => n = nm_table \/ n = nm_code \/ n = nm_fence \/ n = nm_hr) RB ->
    Forall (fun n => str_eqb n nm_paragraph = false) RC ->
    p_core cfg = [n_normalize; n_block; n_inline; n_text_join] ->
  forall d0 ds dl k, okc (CO d0 ds dl k) -> 2 < c_maxNesting (p_block cfg) ->
  forall env,
    parse cfg rf cf lt (((d0 :: ds) ++ dl :: repeat 32 k) ++ s ++ [10]) env
    = (do toks <- inline_parse (p_inline cfg) rf cf lt s env [];
       Ok (ol_open_at dl (int_of_digits (d0 :: ds)) 0 :: li_open_g true (d0 :: ds) dl 1 :: wrapc s [] 2 true (join_children toks)
           ++ [li_close_at dl 1; ol_close_at dl 0], env))
    /\ tinfo (li_open_g true (d0 :: ds) dl 1) = d0 :: ds /\ tmarkup (li_open_g true (d0 :: ds) dl 1) = [dl]
    /\ tmarkup (ol_open_at dl (int_of_digits (d0 :: ds)) 0) = [dl]
    /\ (int_of_digits (d0 :: ds) <> 1 -> tattrs (ol_open_at dl (int_of_digits (d0 :: ds)) 0) = [(s_start, AInt (int_of_digits (d0 :: ds)))])
    /\ (int_of_digits (d0 :: ds) = 1 -> tattrs (ol_open_at dl (int_of_digits (d0 :: ds)) 0) = []).
Proof.
  intros cfg rf cf lt s Hs H13 H0 RA RB RC RD HC HA HB HCn Hcore d0 ds dl k OK Hw env.
  split.
  - pose proof (parse_nested cfg rf cf lt s Hs H13 H0 RA RB RC RD HC HA HB HCn Hcore [CO d0 ds dl k] (Forall_cons _ OK (Forall_nil _)) ltac:(cbn [weight]; lia) env) as P.
    cbn [prefix cpre wrapc] in P. rewrite app_nil_r in P. exact P.
  - split; [reflexivity|]. split; [reflexivity|].
    split; [unfold ol_open_at; destruct (negb (int_of_digits (d0 :: ds) =? 1)); reflexivity|].
    split; intros H; unfold ol_open_at.
    + destruct (int_of_digits (d0 :: ds) =? 1) eqn:E; [apply Z.eqb_eq in E; contradiction | reflexivity].
    + rewrite H. reflexivity.
Qed.
