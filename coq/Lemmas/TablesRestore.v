(* C07: indentation bookkeeping does not leak.  The five line tables (bMarks, eMarks, tShift, sCount,
   bsCount), the source and lineMax are rewritten in place by the block quote and list rules while
   they run the nested block loop; every call of the block loop - at any depth, on any well-formed
   state - returns with all of them exactly as it found them, and so does the whole block parser.
   (Consequences of the invariants of NoRaise.v.) *)
From MD Require Import Base.Py Base.Str Base.Opt Model.Token Model.Utils Model.StateBlock Model.Block
     Lemmas.BlockLemmas Lemmas.MapWhole Lemmas.NoRaise.
From Coq Require Import Lia.

Theorem tokenize_tables cfg rf cf N d st a b st' :
  term_names_ok cfg -> mem_str nm_paragraph (c_rules cfg) = true ->
  RI N st -> TI st -> CI st -> 0 <= a -> a < b -> b <= b_lineMax st ->
  tokenize cfg rf cf d st a b = Ok st' -> tabs_eq st st' /\ a <= b_line st' <= b_lineMax st.
Proof.
  intros TNO PA R HT HC A0 AB BL H.
  exact (proj2 (tokenize_rec_n cfg rf cf N TNO PA d st a b R HT HC A0 AB BL) st' H).
Qed.

Theorem block_parse_tables cfg rf cf src env toks st :
  term_names_ok cfg -> mem_str nm_paragraph (c_rules cfg) = true ->
  block_parse cfg rf cf src env toks = Ok st -> tabs_eq (state_init src env toks) st.
Proof.
  intros TNO PA H. unfold block_parse in H.
  destruct src as [|c src0]; [injection H as <-; apply tabs_eq_refl|].
  set (st0 := state_init (c :: src0) env toks) in *.
  pose proof (state_init_RI (c :: src0) env toks) as R. pose proof (state_init_TI (c :: src0) env toks) as HT.
  pose proof (state_init_CI (c :: src0) env toks) as HC. fold st0 in R, HT, HC.
  assert (B0 : b_line st0 = 0) by reflexivity. rewrite B0 in H.
  destruct (Z.eq_dec (b_lineMax st0) 0) as [Z0|NZ].
  - rewrite Z0 in H. cbn [tokenize Z.to_nat Z.sub tok_loop] in H. change (negb (0 <? 0)) with true in H. cbv iota in H.
    injection H as <-. apply tabs_eq_refl.
  - assert (LM : 0 <= b_lineMax st0) by (destruct R as [LM _]; lia).
    exact (proj1 (tokenize_tables cfg rf cf (b_lineMax st0) _ st0 0 (b_lineMax st0) st TNO PA R HT HC ltac:(lia) ltac:(lia) ltac:(lia) H)).
Qed.
