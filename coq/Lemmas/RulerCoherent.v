(* C11: coherence of the Ruler cache over every history. *)
From MD Require Import Base.Py Model.Ruler.

Section Coh.
Context {F : Type}.
Notation rule := (rule F).
Notation ruler := (ruler F).
Notation op := (op F).

Definition Coherent (r : ruler) : Prop :=
  match cache r with
  | None => True
  | Some c => forall chain, cache_get c chain = compile_chain (rules r) chain
  end.

Lemma alookup_map_self {V} (f : str -> V) k cs :
  alookup k (map (fun c => (c, f c)) cs) = if mem_str k cs then Some (f k) else None.
Proof.
  induction cs as [|c cs IH]; simpl; [reflexivity|].
  destruct (str_eqb_spec k c) as [->|N]; simpl; [reflexivity | exact IH].
Qed.

Lemma filter_none {A} (p : A -> bool) l : (forall x, In x l -> p x = false) -> filter p l = [].
Proof.
  induction l as [|x l IH]; simpl; intros H; [reflexivity|].
  rewrite (H x (or_introl eq_refl)). apply IH. intros y Hy; apply H; right; exact Hy.
Qed.

Lemma compile_chain_absent (rs : list rule) chain :
  mem_str chain (chains_of rs) = false -> compile_chain rs chain = [].
Proof.
  unfold chains_of, compile_chain. intros H.
  rewrite filter_none; [reflexivity|].
  intros r Hr. destruct (renabled r) eqn:En; simpl; [|reflexivity].
  destruct (in_chain chain r) eqn:Hc; [|reflexivity]. exfalso.
  assert (Hin : mem_str chain ([] :: flat_map (fun r => if renabled r then ralt r else []) rs) = true).
  { apply mem_str_In. unfold in_chain in Hc. destruct chain as [|c0 ch]; [left; reflexivity|].
    right. apply in_flat_map. exists r; split; [exact Hr|]. rewrite En. apply mem_str_In; exact Hc. }
  congruence.
Qed.

Lemma compile_correct (rs : list rule) chain :
  cache_get (compile rs) chain = compile_chain rs chain.
Proof.
  unfold cache_get, compile. rewrite alookup_map_self.
  destruct (mem_str chain (chains_of rs)) eqn:E; [reflexivity|].
  symmetry; apply compile_chain_absent; exact E.
Qed.

Lemma toggle_cache v names ign (r : ruler) : cache (fst (toggle v names ign r)) = None.
Proof. unfold toggle. destruct (toggle_loop v names ign (rules r) []); reflexivity. Qed.

Lemma get_rules_rules (r : ruler) chain : rules (fst (get_rules r chain)) = rules r.
Proof. unfold get_rules; destruct (cache r); reflexivity. Qed.

Lemma get_rules_coherent (r : ruler) chain : Coherent r -> Coherent (fst (get_rules r chain)).
Proof.
  unfold get_rules, Coherent. destruct (cache r) eqn:E; simpl; intros H.
  - rewrite E; exact H.
  - intros c; apply compile_correct.
Qed.

Lemma step_coherent (r : ruler) (o : op) : Coherent r -> Coherent (fst (step r o)).
Proof.
  intros H. destruct o; simpl;
    try (destruct (find (rules r) _); simpl; [exact I | exact H]);
    try exact I; try exact H;
    try (unfold Coherent; rewrite toggle_cache; exact I).
  - pose proof (get_rules_coherent r chain H) as H'.
    destruct (get_rules r chain); exact H'.
Qed.

Theorem history_coherent (ops : list op) (r : ruler) : Coherent r -> Coherent (run ops r).
Proof.
  unfold run. revert r; induction ops as [|o ops IH]; simpl; intros r H; [exact H|].
  apply IH, step_coherent, H.
Qed.

Lemma init_coherent : Coherent (@ruler_init F).
Proof. exact I. Qed.

Lemma filter_filter_and {A} (p q : A -> bool) l :
  filter q (filter p l) = filter (fun x => p x && q x) l.
Proof.
  induction l as [|x l IH]; simpl; [reflexivity|].
  destruct (p x); simpl; [destruct (q x); simpl; rewrite IH; reflexivity | exact IH].
Qed.

(* What a parse applies ([getRules chain]) is computed from exactly the list
   that [get_active_rules] reports: the enabled rules in registration order,
   filtered by chain membership. *)
Lemma get_rules_spec (r : ruler) chain :
  Coherent r ->
  snd (get_rules r chain) = map rfn (filter (in_chain chain) (active r)).
Proof.
  unfold get_rules, Coherent, active. rewrite filter_filter_and.
  destruct (cache r); simpl; intros H.
  - apply H.
  - apply compile_correct.
Qed.

Theorem applied_eq_reported (ops : list op) chain :
  let r := run ops ruler_init in
  snd (get_rules r chain) = map rfn (filter (in_chain chain) (active r))
  /\ active_names r = map rname (active r).
Proof.
  intros r; split; [|reflexivity].
  apply get_rules_spec, history_coherent, init_coherent.
Qed.

(* same statement from any coherent starting point, e.g. a ruler populated
   by the parser constructors *)
Theorem applied_eq_reported_from (ops : list op) (r0 : ruler) chain :
  Coherent r0 ->
  let r := run ops r0 in
  snd (get_rules r chain) = map rfn (filter (in_chain chain) (active r)).
Proof. intros H r. apply get_rules_spec, history_coherent, H. Qed.

(* and asking twice, or for another chain first, changes nothing *)
Theorem get_rules_stable (r : ruler) c1 c2 :
  Coherent r ->
  snd (get_rules (fst (get_rules r c1)) c2) = snd (get_rules r c2).
Proof.
  intros H. rewrite !get_rules_spec; [|exact H|apply get_rules_coherent, H].
  unfold active. rewrite get_rules_rules. reflexivity.
Qed.

End Coh.

(* ---- the unrepaired code violates coherence (F6) ------------------------ *)

Definition legacy_run (ops : list (op Z)) : ruler Z :=
  fold_left (fun r o => fst (step_legacy r o)) ops ruler_init.

Definition stale_history : list (op Z) :=
  [OpPush [97] 1 []; OpPush [98] 2 []; OpGetRules [];
   OpEnableOnly [[97]; [110; 111]] false].

Lemma stale_cache_refuted :
  let r := legacy_run stale_history in
  snd (get_rules r []) = [1; 2] /\ active_names r = [[97]]
  /\ snd (get_rules r []) <> map rfn (filter (in_chain []) (active r)).
Proof. vm_compute. repeat split; congruence. Qed.
