(* C17: normalize as written - NEWLINES_RE.sub("\n", src), then NULL_RE.sub(U+FFFD, ...), the two regular expressions
   regenerated from /repo on every run and executed by the backtracking matcher - computes on EVERY string the direct
   function [normalize] that the C17 theorems speak about. *)
From MD Require Import Base.Py Base.Str Base.Regex Base.Opt Model.Core Gen.Regexes.
From Coq Require Import Lia.

Local Arguments Z.eqb : simpl never.
Local Arguments Z.add : simpl never.

(* the two passes, directly *)
Fixpoint nlpass (s : str) : str :=
  match s with
  | [] => []
  | c :: r => if c =? 13 then 10 :: (match r with d :: r' => if d =? 10 then nlpass r' else nlpass r | [] => [] end)
              else c :: nlpass r
  end.
Definition nulpass (s : str) : str := map (fun c => if c =? 0 then 65533 else c) s.

Lemma normalize_two : forall n s, (length s <= n)%nat -> normalize s = nulpass (nlpass s).
Proof.
  induction n as [|n IH]; intros s H.
  - destruct s; [reflexivity | cbn in H; lia].
  - destruct s as [|c r]; [reflexivity|]. cbn [normalize nlpass].
    destruct (c =? 13) eqn:E13.
    + cbn [nulpass map]. change (10 =? 0) with false. cbv iota. f_equal.
      destruct r as [|d r']; [reflexivity|]. destruct (d =? 10); apply IH; cbn [length] in H |- *; lia.
    + cbn [nulpass map]. destruct (c =? 0); f_equal; apply IH; cbn [length] in H; lia.
Qed.

(* ---- NEWLINES_RE = \r\n?|\n at the cursor ---- *)
Notation NL := re_normalize_NEWLINES_RE.

Lemma match_nl_crlf b r p g : match_at NL (mkM b (13 :: 10 :: r) p g) = Some (mkM (10 :: 13 :: b) r (p + 1 + 1) g).
Proof.
  unfold match_at, re_normalize_NEWLINES_RE. cbn. change (13 =? 13) with true. change (10 =? 10) with true. cbn.
  destruct (p + 1 + 1 =? p + 1); reflexivity.
Qed.
Lemma match_nl_lf b r p g : match_at NL (mkM b (10 :: r) p g) = Some (mkM (10 :: b) r (p + 1) g).
Proof. reflexivity. Qed.
Lemma match_nl_cr_end b p g : match_at NL (mkM b [13] p g) = Some (mkM (13 :: b) [] (p + 1) g).
Proof. reflexivity. Qed.
Lemma match_nl_cr b d r p g : (d =? 10) = false -> match_at NL (mkM b (13 :: d :: r) p g) = Some (mkM (13 :: b) (d :: r) (p + 1) g).
Proof.
  intros H. unfold match_at, re_normalize_NEWLINES_RE. cbn [mt advance m_after m_before m_pos m_groups in_cls existsb in_item xorb].
  change (13 =? 13) with true. cbn. rewrite H. cbn. reflexivity.
Qed.
Lemma match_nl_other b c r p g : (c =? 13) = false -> (c =? 10) = false -> match_at NL (mkM b (c :: r) p g) = None.
Proof.
  intros H1 H2. unfold match_at, re_normalize_NEWLINES_RE. cbn [mt advance m_after m_before m_pos m_groups in_cls existsb in_item xorb].
  rewrite H1, H2. reflexivity.
Qed.
Lemma match_nl_nil b p g : match_at NL (mkM b [] p g) = None.
Proof. reflexivity. Qed.

Lemma sub_nl_loop (s : str) : forall fuel after before pos acc, (length after < fuel)%nat ->
  sub_loop fuel NL (expand s [TLit [10]]) s (mkM before after pos []) acc = acc ++ nlpass after.
Proof.
  induction fuel as [|f IH]; intros after before pos acc H; [lia|]. cbn [sub_loop m_before m_after m_pos].
  destruct after as [|c r].
  - rewrite match_nl_nil. cbn [advance m_after nlpass]. rewrite app_nil_r. reflexivity.
  - cbn [nlpass]. destruct (c =? 13) eqn:E13.
    + apply Z.eqb_eq in E13. subst c. destruct r as [|d r'].
      * rewrite match_nl_cr_end. cbn [m_pos m_before m_after]. assert (N : (pos + 1 =? pos) = false) by (apply Z.eqb_neq; lia). rewrite N.
        rewrite IH by (cbn [length] in *; lia). cbn [nlpass]. change (expand s [TLit [10]] (slice s pos (pos + 1)) (mkM (13 :: before) [] (pos + 1) [])) with [10].
        rewrite app_nil_r. reflexivity.
      * destruct (d =? 10) eqn:E10.
        -- apply Z.eqb_eq in E10. subst d. rewrite match_nl_crlf. cbn [m_pos m_before m_after].
           assert (N : (pos + 1 + 1 =? pos) = false) by (apply Z.eqb_neq; lia). rewrite N.
           rewrite IH by (cbn [length] in *; lia).
           change (expand s [TLit [10]] (slice s pos (pos + 1 + 1)) (mkM (10 :: 13 :: before) r' (pos + 1 + 1) [])) with [10].
           rewrite <- app_assoc. reflexivity.
        -- rewrite (match_nl_cr _ _ _ _ _ E10). cbn [m_pos m_before m_after].
           assert (N : (pos + 1 =? pos) = false) by (apply Z.eqb_neq; lia). rewrite N.
           rewrite IH by (cbn [length] in *; lia).
           change (expand s [TLit [10]] (slice s pos (pos + 1)) (mkM (13 :: before) (d :: r') (pos + 1) [])) with [10].
           rewrite <- app_assoc. reflexivity.
    + destruct (c =? 10) eqn:E10.
      * apply Z.eqb_eq in E10. subst c. rewrite match_nl_lf. cbn [m_pos m_before m_after].
        assert (N : (pos + 1 =? pos) = false) by (apply Z.eqb_neq; lia). rewrite N.
        rewrite IH by (cbn [length] in *; lia).
        change (expand s [TLit [10]] (slice s pos (pos + 1)) (mkM (10 :: before) r (pos + 1) [])) with [10].
        rewrite <- app_assoc. reflexivity.
      * rewrite (match_nl_other _ _ _ _ _ E13 E10). cbn [advance m_after m_before m_pos m_groups].
        rewrite IH by (cbn [length] in *; lia). rewrite <- app_assoc. reflexivity.
Qed.

Theorem sub_newlines s : sub_tpl re_normalize_NEWLINES_RE [TLit [10]] s = nlpass s.
Proof. unfold sub_tpl, sub, init_state. rewrite sub_nl_loop by lia. reflexivity. Qed.

(* ---- NULL_RE = \x00 ---- *)
Lemma sub_nul_loop (s : str) : forall fuel after before pos acc, (length after < fuel)%nat ->
  sub_loop fuel re_normalize_NULL_RE (expand s [TLit [65533]]) s (mkM before after pos []) acc = acc ++ nulpass after.
Proof.
  induction fuel as [|f IH]; intros after before pos acc H; [lia|]. cbn [sub_loop m_before m_after m_pos].
  destruct after as [|c r].
  - cbn [advance m_after nulpass map]. change (match_at re_normalize_NULL_RE (mkM before [] pos [])) with (@None mstate).
    cbn [advance m_after]. rewrite app_nil_r. reflexivity.
  - cbn [nulpass map]. destruct (c =? 0) eqn:E0.
    + apply Z.eqb_eq in E0. subst c.
      change (match_at re_normalize_NULL_RE (mkM before (0 :: r) pos [])) with (Some (mkM (0 :: before) r (pos + 1) [])).
      cbn [m_pos m_before m_after]. assert (N : (pos + 1 =? pos) = false) by (apply Z.eqb_neq; lia). rewrite N.
      rewrite IH by (cbn [length] in *; lia).
      change (expand s [TLit [65533]] (slice s pos (pos + 1)) (mkM (0 :: before) r (pos + 1) [])) with [65533].
      rewrite <- app_assoc. reflexivity.
    + assert (M : match_at re_normalize_NULL_RE (mkM before (c :: r) pos []) = None).
      { unfold match_at, re_normalize_NULL_RE. cbn [mt advance m_after in_cls existsb in_item xorb]. rewrite E0. reflexivity. }
      rewrite M. cbn [advance m_after m_before m_pos m_groups].
      rewrite IH by (cbn [length] in *; lia). rewrite <- app_assoc. reflexivity.
Qed.

Theorem sub_nul s : sub_tpl re_normalize_NULL_RE [TLit [65533]] s = nulpass s.
Proof. unfold sub_tpl, sub, init_state. rewrite sub_nul_loop by lia. reflexivity. Qed.

(* normalize as written is the direct function *)
Theorem normalize_re_eq s : normalize_re s = normalize s.
Proof. unfold normalize_re. rewrite sub_newlines, sub_nul. symmetry. apply (normalize_two (length s)). lia. Qed.
