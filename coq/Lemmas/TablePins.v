(* The character classes the wording of C09 relies on ("white space", "ASCII punctuation"), stated about the tables that are
   regenerated from /repo on every run: a change to markdown_it.common.utils.MD_WHITESPACE / MD_ASCII_PUNCT changes Gen/Tables.v,
   and these statements stop checking.  (A regenerated table follows the code, so the model-vs-implementation comparison cannot
   notice such a change; only a statement about the table's content can.) *)
From MD Require Import Base.Py Base.Str Model.Utils Gen.Tables.

(* Markdown white space = TAB LF VT FF CR SPACE + the Unicode Zs characters outside U+2000..U+200A, which the function adds itself *)
Lemma md_whitespace_pin : md_whitespace = [9; 10; 11; 12; 13; 32; 160; 5760; 8239; 8287; 12288].
Proof. reflexivity. Qed.

Lemma is_white_space_spec c :
  is_white_space c = true <->
  (9 <= c <= 13 \/ c = 32 \/ c = 160 \/ c = 5760 \/ 8192 <= c <= 8202 \/ c = 8239 \/ c = 8287 \/ c = 12288).
Proof.
  unfold is_white_space. rewrite md_whitespace_pin. cbn [mem_z]. split.
  - intros H. apply Bool.orb_true_iff in H. destruct H as [H|H]; [lia|].
    repeat (apply Bool.orb_true_iff in H; destruct H as [H|H]; [lia|]). discriminate H.
  - intros H. apply Bool.orb_true_iff.
    destruct (Z_le_gt_dec 8192 c) as [A|A]; [destruct (Z_le_gt_dec c 8202) as [B|B]; [left; lia|]|]; right;
      repeat (apply Bool.orb_true_iff; match goal with |- (?x =? ?k) = true \/ _ => destruct (Z.eq_dec x k) as [->|?]; [left; reflexivity | right] end); lia.
Qed.

(* the 32 ASCII punctuation characters *)
Lemma md_ascii_punct_pin :
  md_ascii_punct = [33; 34; 35; 36; 37; 38; 39; 40; 41; 42; 43; 44; 45; 46; 47; 58; 59; 60; 61; 62; 63; 64; 91; 92; 93; 94; 95; 96; 123; 124; 125; 126].
Proof. reflexivity. Qed.
