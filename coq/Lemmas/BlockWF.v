(* C02, block half: every block rule appends a BALANCED segment of tokens whose levels are the
   running depth, and leaves the state's level where it was; hence so does the block loop, at
   any container depth, for every source and every configuration. *)
From RecordUpdate Require Import RecordUpdate.
From MD Require Import Base.Py Base.Str Base.Regex Base.Opt Model.Token Model.Utils Model.StateBlock Model.Helpers
     Model.Url Model.Render Model.Block Lemmas.StrLemmas Lemmas.StreamWF.
From Coq Require Import ZifyBool.

Local Arguments Z.eqb : simpl never.
Local Arguments Z.ltb : simpl never.
Local Arguments Z.leb : simpl never.
Local Arguments str_eqb : simpl never.

(* ---- balanced segments ------------------------------------------------------------------ *)

Inductive bal : Z -> list token -> Prop :=
| bal_nil d : bal d []
| bal_leaf d t rest : tnesting t = 0 -> tlevel t = d -> bal d rest -> bal d (t :: rest)
| bal_pair d o inner c rest :
    tnesting o = 1 -> tlevel o = d -> bal (d + 1) inner ->
    tnesting c = -1 -> tlevel c = d -> bal d rest -> bal d (o :: inner ++ c :: rest).

Lemma bal_app d a : bal d a -> forall b, bal d b -> bal d (a ++ b).
Proof.
  induction 1 as [d | d t rest Hn Hl _ IH | d o inner c rest Ho Hol Hi _ Hc Hcl _ IH]; intros b Hb.
  - exact Hb.
  - cbn [app]. apply bal_leaf; auto.
  - cbn [app]. rewrite <- app_assoc. cbn [app]. apply bal_pair; auto.
Qed.

Lemma bal_one d t : tnesting t = 0 -> tlevel t = d -> bal d [t].
Proof. intros. apply bal_leaf; auto. constructor. Qed.

Lemma bal_wrap d o inner c : tnesting o = 1 -> tlevel o = d -> bal (d + 1) inner -> tnesting c = -1 -> tlevel c = d ->
  bal d (o :: inner ++ [c]).
Proof. intros. apply bal_pair; auto. constructor. Qed.

(* a balanced segment followed by a well-levelled continuation is well levelled *)
Lemma bal_levels_k d ts : bal d ts -> forall k, levels_ok k d -> levels_ok (ts ++ k) d.
Proof.
  induction 1 as [d | d t rest Hn Hl _ IH | d o inner c rest Ho Hol _ II Hc Hcl _ IR]; intros k Hk.
  - exact Hk.
  - cbn [app levels_ok]. rewrite Hn. change (0 <? 0) with false. cbv iota. split; [exact Hl | apply IH, Hk].
  - cbn [app levels_ok]. rewrite Ho. change (1 <? 0) with false. change (0 <? 1) with true. cbv iota.
    split; [exact Hol|]. rewrite <- app_assoc. apply II.
    cbn [app levels_ok]. rewrite Hc. change (-1 <? 0) with true. change (0 <? -1) with false. cbv iota.
    replace (d + 1 - 1) with d by lia. split; [exact Hcl | apply IR, Hk].
Qed.

Theorem bal_levels_ok d ts : bal d ts -> levels_ok ts d.
Proof. intros H. rewrite <- (app_nil_r ts). apply (bal_levels_k d ts H []). exact I. Qed.

(* nesting sums to zero and no prefix dips below the start *)
Fixpoint nest_sum (ts : list token) : Z := match ts with [] => 0 | t :: r => tnesting t + nest_sum r end.
Lemma nest_sum_app a b : nest_sum (a ++ b) = nest_sum a + nest_sum b.
Proof. induction a as [|t a IH]; cbn [app nest_sum]; lia. Qed.
Theorem bal_nest_sum d ts : bal d ts -> nest_sum ts = 0.
Proof.
  induction 1 as [d | d t rest Hn _ _ IH | d o inner c rest Ho _ _ II Hc _ _ IR]; cbn [nest_sum]; try lia.
  rewrite nest_sum_app. cbn [nest_sum]. lia.
Qed.

Theorem bal_summary d ts : bal d ts -> levels_ok ts d /\ nest_sum ts = 0.
Proof. intros H. split; [apply bal_levels_ok, H | eapply bal_nest_sum, H]. Qed.

(* ---- the contract ------------------------------------------------------------------------ *)

Definition ext (st st' : bstate) : Prop :=
  b_level st' = b_level st /\ exists seg, b_tokens st' = b_tokens st ++ seg /\ bal (b_level st) seg.

Lemma ext_refl st : ext st st.
Proof. split; [reflexivity|]. exists []. rewrite app_nil_r. split; [reflexivity | constructor]. Qed.

Lemma ext_trans a b c : ext a b -> ext b c -> ext a c.
Proof.
  intros [L1 (s1 & T1 & B1)] [L2 (s2 & T2 & B2)]. split; [congruence|].
  exists (s1 ++ s2). split; [rewrite T2, T1, app_assoc; reflexivity|].
  apply bal_app; [exact B1 | rewrite <- L1; exact B2].
Qed.

(* same tokens and level: any other field may differ *)
Definition same_tl (a b : bstate) : Prop := b_tokens b = b_tokens a /\ b_level b = b_level a.
Lemma same_tl_refl a : same_tl a a. Proof. split; reflexivity. Qed.
Lemma same_tl_trans a b c : same_tl a b -> same_tl b c -> same_tl a c.
Proof. intros [A B] [C D]. split; congruence. Qed.
Lemma same_tl_ext a b : same_tl a b -> ext a b.
Proof. intros [T L]. split; [exact L|]. exists []. rewrite app_nil_r. split; [exact T | constructor]. Qed.
Lemma ext_same_l a b c : same_tl a b -> ext b c -> ext a c.
Proof. intros H. apply ext_trans, same_tl_ext, H. Qed.
Lemma ext_same_r a b c : ext a b -> same_tl b c -> ext a c.
Proof. intros H1 H2. eapply ext_trans; [exact H1 | apply same_tl_ext, H2]. Qed.

(* modifiers that keep nesting and level *)
Definition keeps (f : token -> token) : Prop := forall t, tnesting (f t) = tnesting t /\ tlevel (f t) = tlevel t.

Lemma bpush_tokens st ty tag nesting f :
  b_tokens (bpush st ty tag nesting f)
  = b_tokens st ++ [f (set_level (set_block (new_token ty tag nesting) true) (if nesting <? 0 then b_level st - 1 else b_level st))].
Proof. reflexivity. Qed.

Lemma bpush_lvl st ty tag nesting f :
  b_level (bpush st ty tag nesting f)
  = (if 0 <? nesting then (if nesting <? 0 then b_level st - 1 else b_level st) + 1
     else (if nesting <? 0 then b_level st - 1 else b_level st)).
Proof. reflexivity. Qed.

Lemma ext_push0 st ty tag f : keeps f -> ext st (bpush st ty tag 0 f).
Proof.
  intros K. split; [reflexivity|]. eexists. split; [apply bpush_tokens|].
  apply bal_one; destruct (K (set_level (set_block (new_token ty tag 0) true) (if 0 <? 0 then b_level st - 1 else b_level st))) as [N L].
  - rewrite N. reflexivity.
  - rewrite L. reflexivity.
Qed.

(* open ; anything balanced one level deeper ; close *)
Lemma ext_wrap st ty tag f mid ty' tag' f' :
  keeps f -> keeps f' -> ext (bpush st ty tag 1 f) mid -> ext st (bpush mid ty' tag' (-1) f').
Proof.
  intros K K' [L (seg & T & B)]. rewrite bpush_lvl in L, B. change (0 <? 1) with true in *. change (1 <? 0) with false in *. cbv iota in *.
  split.
  - rewrite bpush_lvl. change (0 <? -1) with false. change (-1 <? 0) with true. cbv iota. lia.
  - eexists. split.
    + rewrite bpush_tokens, T, bpush_tokens. rewrite <- !app_assoc. cbn [app]. reflexivity.
    + change (1 <? 0) with false. change (-1 <? 0) with true. cbv iota.
      apply bal_wrap.
      * destruct (K (set_level (set_block (new_token ty tag 1) true) (b_level st))) as [N _]. rewrite N. reflexivity.
      * destruct (K (set_level (set_block (new_token ty tag 1) true) (b_level st))) as [_ Lv]. rewrite Lv. reflexivity.
      * exact B.
      * destruct (K' (set_level (set_block (new_token ty' tag' (-1)) true) (b_level mid - 1))) as [N _]. rewrite N. reflexivity.
      * destruct (K' (set_level (set_block (new_token ty' tag' (-1)) true) (b_level mid - 1))) as [_ Lv]. rewrite Lv. cbn. lia.
Qed.

(* the three-token leaf blocks: open, inline, close *)
Lemma ext_open_inline_close st ty tag f ity itag fi ty' tag' f' :
  keeps f -> keeps fi -> keeps f' ->
  ext st (bpush (bpush (bpush st ty tag 1 f) ity itag 0 fi) ty' tag' (-1) f').
Proof. intros K Ki K'. apply (ext_wrap st ty tag f _ ty' tag' f'); [exact K | exact K' | apply ext_push0, Ki]. Qed.

(* ---- [keeps] for the modifiers the rules use ---------------------------------------------- *)

Ltac keeps_tac := let t := fresh "t" in intros t; split; reflexivity.
Lemma keeps_id : keeps (fun t => t). Proof. keeps_tac. Qed.
Lemma keeps_comp f g : keeps f -> keeps g -> keeps (fun t => f (g t)).
Proof. intros F G t. destruct (F (g t)) as [A B], (G t) as [C D]. split; congruence. Qed.
Lemma keeps_map a b : keeps (map_tok a b). Proof. keeps_tac. Qed.
Lemma keeps_set_map v : keeps (fun t => set_map t v). Proof. keeps_tac. Qed.
Lemma keeps_set_markup v : keeps (fun t => set_markup t v). Proof. keeps_tac. Qed.
Lemma keeps_set_content v : keeps (fun t => set_content t v). Proof. keeps_tac. Qed.
Lemma keeps_set_info v : keeps (fun t => set_info t v). Proof. keeps_tac. Qed.
Lemma keeps_set_children v : keeps (fun t => set_children t v). Proof. keeps_tac. Qed.
Lemma keeps_set_meta v : keeps (fun t => set_meta t v). Proof. keeps_tac. Qed.
Lemma keeps_set_attrs v : keeps (fun t => set_attrs t v). Proof. keeps_tac. Qed.
Lemma keeps_set_hidden v : keeps (fun t => set_hidden t v). Proof. keeps_tac. Qed.

(* any modifier written as nested set_* / map_tok applications *)
Ltac solve_keeps :=
  let t := fresh "t" in
  intros t; unfold map_tok;
  repeat match goal with |- context [if ?c then _ else _] => destruct c end;
  split; reflexivity.

(* ---- symbolic execution of a rule body ----------------------------------------------------- *)

(* one step: split the head bind / if / match of the hypothesis H : body = Ok _ *)
Ltac rstep H :=
  match type of H with
  | bind ?m _ = Ok _ =>
      let x := fresh "x" in let e := fresh "e" in
      destruct m as [x|e|]; cbn [bind] in H; [|discriminate H|discriminate H]
  | (if ?c then _ else _) = Ok _ => destruct c
  | (match ?o with Some _ => _ | None => _ end) = Ok _ => destruct o
  | (let '(_, _) := ?p in _) = Ok _ => destruct p
  | Raise _ = Ok _ => discriminate H
  | OutOfFuel = Ok _ => discriminate H
  end.

Ltac rfinish H :=
  match type of H with
  | Ok _ = Ok _ => injection H; clear H; intros; subst
  end.

Ltac same_tl_tac := split; reflexivity.

Section RuleContracts.
Context (cfg : bcfg) (rf cf : str -> str).

Lemma r_hr_ext st sl el silent b st' : r_hr cfg st sl el silent = Ok (b, st') -> ext st st'.
Proof.
  unfold r_hr. intros H. repeat rstep H; rfinish H; try apply ext_refl.
  apply (ext_same_l _ (st_line st (sl + 1))); [same_tl_tac|]. apply ext_push0. solve_keeps.
Qed.

Lemma r_code_ext st sl el silent b st' : r_code cfg st sl el silent = Ok (b, st') -> ext st st'.
Proof.
  unfold r_code. intros H. repeat rstep H; rfinish H; try apply ext_refl.
  match goal with |- ext _ (bpush ?s _ _ _ _) => apply (ext_same_l _ s); [same_tl_tac|] end.
  apply ext_push0. solve_keeps.
Qed.

Lemma r_fence_ext st sl el silent b st' : r_fence cfg st sl el silent = Ok (b, st') -> ext st st'.
Proof.
  unfold r_fence. intros H. repeat rstep H; rfinish H; try apply ext_refl.
  all: match goal with |- ext _ (bpush ?s _ _ _ _) => apply (ext_same_l _ s); [same_tl_tac|] end.
  all: apply ext_push0; solve_keeps.
Qed.

Lemma r_heading_ext st sl el silent b st' : r_heading cfg st sl el silent = Ok (b, st') -> ext st st'.
Proof.
  unfold r_heading. intros H. repeat rstep H; rfinish H; try apply ext_refl.
  all: match goal with |- ext _ (bpush (bpush (bpush ?s _ _ _ _) _ _ _ _) _ _ _ _) => apply (ext_same_l _ s); [same_tl_tac|] end.
  all: apply ext_open_inline_close; solve_keeps.
Qed.

(* contracts of the two callbacks *)
Definition rec_ok (rec : rec_t) : Prop := forall s a b s', rec s a b = Ok s' -> ext s s'.
Definition term_ok (term : term_t) : Prop := forall ch s a b r s', term ch s a b = Ok (r, s') -> ext s s'.

Lemma no_rec_ok : rec_ok no_rec. Proof. intros s a b s' H. discriminate H. Qed.
Lemma no_term_ok : term_ok no_term. Proof. intros ch s a b r s' H. discriminate H. Qed.

Lemma para_scan_ext term (T : term_ok term) : forall fuel chain st nl el cu r u st',
  para_scan fuel term chain st nl el cu = Ok (r, u, st') -> ext st st'.
Proof.
  induction fuel as [|f IH]; intros chain st nl el cu r u st' H; [discriminate H|].
  cbn [para_scan] in H.
  destruct (negb (nl <? el)); [injection H as <- <- <-; apply ext_refl|].
  destruct (is_empty st nl) as [e|?|]; cbn [bind] in H; try discriminate H.
  destruct e; [injection H as <- <- <-; apply ext_refl|].
  destruct (tb (b_sCount st) nl) as [sc|?|]; cbn [bind] in H; try discriminate H.
  destruct (3 <? sc - b_blkIndent st); [eapply IH; exact H|].
  match type of H with bind ?m _ = _ => destruct m as [ul|?|] end; cbn [bind] in H; try discriminate H.
  destruct ul as [ml|]; [injection H as <- <- <-; apply ext_refl|].
  destruct (sc <? 0); [eapply IH; exact H|].
  destruct (term chain st nl el) as [[t st1]|?|] eqn:TE; cbn [bind] in H; try discriminate H.
  pose proof (T _ _ _ _ _ _ TE) as E1.
  destruct t; [injection H as <- <- <-; exact E1|].
  eapply ext_trans; [exact E1 | eapply IH; exact H].
Qed.

Lemma r_html_block_ext st sl el silent b st' : r_html_block cfg st sl el silent = Ok (b, st') -> ext st st'.
Proof.
  unfold r_html_block. intros H. repeat rstep H; rfinish H; try apply ext_refl.
  all: match goal with |- ext _ (bpush ?s _ _ _ _) => apply (ext_same_l _ s); [same_tl_tac|] end.
  all: apply ext_push0; solve_keeps.
Qed.

Lemma push_inline_ext st content a b : ext st (push_inline st content a b).
Proof. unfold push_inline. apply ext_push0. solve_keeps. Qed.

(* open ; inline ; close around a state that differs from [st] by a balanced extension *)
Lemma ext_para st st1 s2 ty tag f content a b ty' tag' f' :
  ext st st1 -> same_tl st1 s2 -> keeps f -> keeps f' ->
  ext st (bpush (push_inline (bpush s2 ty tag 1 f) content a b) ty' tag' (-1) f').
Proof.
  intros E S K K'. eapply ext_trans; [exact E|]. apply (ext_same_l _ s2); [exact S|].
  apply (ext_wrap s2 ty tag f _ ty' tag' f'); [exact K | exact K' | apply push_inline_ext].
Qed.

Lemma r_paragraph_ext term (T : term_ok term) st sl el silent b st' :
  r_paragraph term st sl el silent = Ok (b, st') -> ext st st'.
Proof.
  unfold r_paragraph. intros H.
  match type of H with bind ?m _ = _ => destruct m as [[[nl u] st1]|?|] eqn:PS end; cbn [bind] in H; try discriminate H.
  apply (para_scan_ext term T) in PS.
  repeat rstep H; rfinish H.
  match goal with |- ext _ (st_parent ?s _) => apply (ext_same_r _ s); [|same_tl_tac] end.
  eapply ext_para; [apply (ext_same_l _ _ _ (same_tl_refl _)); exact PS | same_tl_tac | solve_keeps | solve_keeps].
Qed.

Lemma r_lheading_ext term (T : term_ok term) st sl el silent b st' :
  r_lheading cfg term st sl el silent = Ok (b, st') -> ext st st'.
Proof.
  unfold r_lheading. intros H. rstep H. rstep H; [rfinish H; apply ext_refl|].
  match type of H with bind ?m _ = _ => destruct m as [[[nl u] st1]|?|] eqn:PS end; cbn [bind] in H; try discriminate H.
  apply (para_scan_ext term T) in PS.
  assert (PS' : ext st st1) by (eapply ext_same_l; [|exact PS]; same_tl_tac).
  destruct u as [[marker level]|]; [|rfinish H; exact PS'].
  repeat rstep H; rfinish H.
  match goal with |- ext _ (st_parent ?s _) => apply (ext_same_r _ s); [|same_tl_tac] end.
  eapply ext_para; [exact PS' | same_tl_tac | solve_keeps | solve_keeps].
Qed.

Lemma r_reference_ext term (T : term_ok term) st sl el silent b st' :
  r_reference cfg rf cf term st sl el silent = Ok (b, st') -> ext st st'.
Proof.
  unfold r_reference. intros H.
  do 3 rstep H. rstep H; [rfinish H; apply ext_refl|].
  rstep H. rstep H; [rfinish H; apply ext_refl|].
  rstep H. rstep H; [rfinish H; apply ext_refl|].
  match type of H with bind ?m _ = _ => destruct m as [[[nl u] st1]|?|] eqn:PS end; cbn [bind] in H; try discriminate H.
  apply (para_scan_ext term T) in PS.
  assert (PS' : ext st st1) by (eapply ext_same_l; [|exact PS]; same_tl_tac).
  rstep H.
  match type of H with (match ?o with Some _ => _ | None => _ end) = _ => destruct o as [[[labelEnd|] lines0]|] end;
    try (rfinish H; exact PS').
  repeat rstep H; rfinish H; try exact PS'.
  all: destruct (c_inline_defs cfg).
  all: try (eapply ext_same_r; [exact PS' | same_tl_tac]).
  all: eapply ext_trans; [exact PS'|].
  all: match goal with |- ext _ (st_parent (?s <| b_env := _ |>) _) => apply (ext_same_r _ s); [|same_tl_tac] end.
  all: match goal with |- ext _ (bpush ?s _ _ _ _) => apply (ext_same_l _ s); [same_tl_tac|] end.
  all: apply ext_push0; solve_keeps.
Qed.

(* ---- block quote --------------------------------------------------------------------------- *)

Lemma match_some_62 {A} (o : option Z) (a b : A) :
  (match o with Some 62 => a | _ => b end) = if (match o with Some z => z =? 62 | None => false end) then a else b.
Proof.
  destruct o as [z|]; [|reflexivity].
  destruct (Z.eqb_spec z 62) as [->|N]; [reflexivity|].
  destruct z as [|p|p]; try reflexivity.
  do 6 (try destruct p as [p|p|]); try reflexivity. contradiction N; reflexivity.
Qed.

Lemma update_nth_app (f : token -> token) : forall (a : list token) x r,
  update_nth_tok (length a) f (a ++ x :: r) = a ++ f x :: r.
Proof.
  unfold update_nth_tok. induction a as [|y a IH]; intros x r; cbn [length app]; [reflexivity|].
  f_equal. apply IH.
Qed.

Lemma apply_bq_same st line q st' : apply_bq st line q = Ok st' -> same_tl st st'.
Proof. unfold apply_bq. intros H. repeat rstep H. rfinish H. same_tl_tac. Qed.

Lemma restore_tables_same : forall ts st line b bs sc st',
  restore_tables st line b bs ts sc = Ok st' -> same_tl st st'.
Proof.
  induction ts as [|t ts IH]; intros st line b bs sc st' H.
  - destruct b, sc, bs; cbn [restore_tables] in H; rfinish H; apply same_tl_refl.
  - destruct b as [|x b]; [discriminate H|]. destruct sc as [|s0 sc]; [discriminate H|]. destruct bs as [|y bs]; [discriminate H|].
    cbn [restore_tables] in H. repeat rstep H.
    eapply same_tl_trans; [|eapply IH; exact H]. same_tl_tac.
Qed.

Lemma bq_loop_ext term (T : term_ok term) : forall fuel st sv nl el lle r sv' st',
  bq_loop fuel term st sv nl el lle = Ok (r, sv', st') -> ext st st'.
Proof.
  induction fuel as [|f IH]; intros st sv nl el lle r sv' st' H; [discriminate H|].
  cbn [bq_loop] in H.
  destruct (negb (nl <? el)); [rfinish H; apply ext_refl|].
  do 3 rstep H. destruct (x1 <=? x0); [rfinish H; apply ext_refl|].
  rstep H.
  destruct ((x2 =? 62) && negb (x <? b_blkIndent st)).
  - do 3 rstep H.
    match type of H with bind (apply_bq ?a ?b ?c) _ = _ => destruct (apply_bq a b c) as [st1|?|] eqn:AB end;
      cbn [bind] in H; try discriminate H.
    apply apply_bq_same in AB. eapply ext_trans; [apply same_tl_ext, AB | eapply IH; exact H].
  - destruct lle; [rfinish H; apply ext_refl|].
    destruct (term nm_blockquote st nl el) as [[t st1]|?|] eqn:TE; cbn [bind] in H; try discriminate H.
    pose proof (T _ _ _ _ _ _ TE) as E1.
    destruct t.
    + repeat rstep H; rfinish H; (eapply ext_same_r; [exact E1 | same_tl_tac]).
    + do 2 rstep H. eapply ext_trans; [exact E1|].
      eapply ext_trans; [|eapply IH; exact H]. apply same_tl_ext. same_tl_tac.
Qed.

(* open at [s4], balanced inner part, close, then a level/nesting-preserving update of the open token *)
Lemma ext_wrap_upd st s4 ty tag f s6 ty' tag' f' g X :
  ext st s4 -> keeps f -> keeps f' -> keeps g ->
  ext (bpush s4 ty tag 1 f) s6 ->
  b_level X = b_level (bpush s6 ty' tag' (-1) f') ->
  b_tokens X = update_nth_tok (length (b_tokens s4)) g (b_tokens (bpush s6 ty' tag' (-1) f')) ->
  ext st X.
Proof.
  intros [L4 (segA & T4 & B4)] K K' G E6 LX TX.
  pose proof (ext_wrap s4 ty tag f s6 ty' tag' f' K K' E6) as [L7 (seg & T7 & B7)].
  split; [rewrite LX, L7; exact L4|].
  (* the segment of the wrap starts with the open token *)
  destruct E6 as [L6 (inner & T6 & B6)].
  assert (T7' : b_tokens (bpush s6 ty' tag' (-1) f')
                = b_tokens s4 ++ f (set_level (set_block (new_token ty tag 1) true) (b_level s4))
                    :: inner ++ [f' (set_level (set_block (new_token ty' tag' (-1)) true) (b_level s6 - 1))]).
  { rewrite bpush_tokens, T6, bpush_tokens. change (1 <? 0) with false. change (-1 <? 0) with true. cbv iota.
    rewrite <- !app_assoc. reflexivity. }
  rewrite TX, T7', update_nth_app, T4.
  eexists. split; [rewrite <- app_assoc; reflexivity|].
  apply bal_app; [exact B4|].
  rewrite bpush_lvl in L6, B6. change (0 <? 1) with true in *. change (1 <? 0) with false in *. cbv iota in *.
  apply bal_wrap.
  - destruct (G (f (set_level (set_block (new_token ty tag 1) true) (b_level s4)))) as [N _]. rewrite N.
    destruct (K (set_level (set_block (new_token ty tag 1) true) (b_level s4))) as [N2 _]. rewrite N2. reflexivity.
  - destruct (G (f (set_level (set_block (new_token ty tag 1) true) (b_level s4)))) as [_ Lv]. rewrite Lv.
    destruct (K (set_level (set_block (new_token ty tag 1) true) (b_level s4))) as [_ L2]. rewrite L2. cbn. lia.
  - rewrite <- L4. exact B6.
  - destruct (K' (set_level (set_block (new_token ty' tag' (-1)) true) (b_level s6 - 1))) as [N _]. rewrite N. reflexivity.
  - destruct (K' (set_level (set_block (new_token ty' tag' (-1)) true) (b_level s6 - 1))) as [_ Lv]. rewrite Lv. cbn. lia.
Qed.

Lemma r_blockquote_ext rec term (R : rec_ok rec) (T : term_ok term) st sl el silent b st' :
  r_blockquote cfg rec term st sl el silent = Ok (b, st') -> ext st st'.
Proof.
  unfold r_blockquote. intros H.
  do 3 rstep H. rstep H; [rfinish H; apply ext_refl|].
  rewrite match_some_62 in H.
  rstep H; [|rfinish H; apply ext_refl].
  destruct silent; [rfinish H; apply ext_refl|].
  do 4 rstep H.
  match type of H with bind (apply_bq ?a ?b ?c) _ = _ => destruct (apply_bq a b c) as [st1|?|] eqn:AB end;
    cbn [bind] in H; try discriminate H.
  apply apply_bq_same in AB.
  match type of H with bind ?m _ = _ => destruct m as [[[nl sv] st3]|?|] eqn:BL end; cbn [bind] in H; try discriminate H.
  apply (bq_loop_ext term T) in BL.
  match type of H with bind (rec ?a ?b ?c) _ = _ => destruct (rec a b c) as [st6|?|] eqn:RC end;
    cbn [bind] in H; try discriminate H.
  apply R in RC.
  match type of H with bind ?m _ = _ => destruct m as [st10|?|] eqn:RT end; cbn [bind] in H; try discriminate H.
  apply restore_tables_same in RT. rfinish H.
  assert (E4 : ext st (st3 <| b_blkIndent := 0 |>)).
  { eapply ext_trans; [apply same_tl_ext, AB|]. eapply ext_same_r; [eapply ext_same_l; [|exact BL]; same_tl_tac | same_tl_tac]. }
  eapply ext_same_r; [|eapply same_tl_trans; [exact RT | same_tl_tac]].
  eapply (ext_wrap_upd st _ _ _ _ st6 _ _ _ _ _ E4).
  4: exact RC.
  5: reflexivity.
  4: reflexivity.
  all: solve_keeps.
Qed.

(* ---- updates that keep the shape (nesting, level) of every token --------------------------- *)

Definition shape (x y : token) : Prop := tnesting x = tnesting y /\ tlevel x = tlevel y.
Definition shape_from (k : nat) (a b : list token) : Prop := firstn k a = firstn k b /\ Forall2 shape a b.

Lemma Forall2_shape_refl l : Forall2 shape l l.
Proof. induction l; constructor; [split; reflexivity | assumption]. Qed.
Lemma shape_from_refl k l : shape_from k l l.
Proof. split; [reflexivity | apply Forall2_shape_refl]. Qed.
Lemma Forall2_shape_trans a : forall b c, Forall2 shape a b -> Forall2 shape b c -> Forall2 shape a c.
Proof.
  induction a as [|x a IH]; intros b c H1 H2; inversion H1; subst; inversion H2; subst; constructor.
  - match goal with A : shape x ?y, B : shape ?y ?z |- _ => destruct A, B; split; congruence end.
  - eapply IH; eassumption.
Qed.
Lemma shape_from_trans k a b c : shape_from k a b -> shape_from k b c -> shape_from k a c.
Proof. intros [A1 A2] [B1 B2]. split; [congruence | eapply Forall2_shape_trans; eassumption]. Qed.

Lemma bal_shape d a : bal d a -> forall b, Forall2 shape a b -> bal d b.
Proof.
  induction 1 as [d | d t rest Hn Hl _ IH | d o inner c rest Ho Hol _ II Hc Hcl _ IR]; intros b F.
  - inversion F. constructor.
  - inversion F as [|? y ? b' [S1 S2] F']; subst. apply bal_leaf; [congruence | congruence | apply IH, F'].
  - inversion F as [|? o' ? b1 [S1 S2] F1]; subst.
    apply Forall2_app_inv_l in F1. destruct F1 as (i' & r1 & Fi & Fr & ->).
    inversion Fr as [|? c' ? rest' [S3 S4] Frest]; subst.
    apply bal_pair; try congruence; [apply II, Fi | apply IR, Frest].
Qed.

Lemma update_nth_shape (f : token -> token) (K : keeps f) : forall n k l, (k <= n)%nat ->
  shape_from k l (update_nth_tok n f l).
Proof.
  unfold update_nth_tok. induction n as [|n IH]; intros k l Hk.
  - assert (k = O) by lia. subst k. destruct l as [|x l]; [apply shape_from_refl|].
    split; [reflexivity|]. constructor; [destruct (K x); split; congruence | apply Forall2_shape_refl].
  - destruct l as [|x l]; [apply shape_from_refl|].
    destruct k as [|k].
    + destruct (IH O l ltac:(lia)) as [_ F]. split; [reflexivity|]. constructor; [split; reflexivity | exact F].
    + destruct (IH k l ltac:(lia)) as [P F]. split; [cbn [firstn]; f_equal; exact P|].
      constructor; [split; reflexivity | exact F].
Qed.

Lemma mark_tight_shape k : forall fuel tokens i length level, (k <= Z.to_nat i)%nat -> 0 <= i ->
  shape_from k tokens (mark_tight fuel tokens i length level).
Proof.
  induction fuel as [|f IH]; intros tokens i length level Hk Hi; cbn [mark_tight]; [apply shape_from_refl|].
  destruct (negb (i <? length)); [apply shape_from_refl|].
  destruct (nth_error tokens (Z.to_nat i)) as [t|]; [|apply shape_from_refl].
  destruct ((tlevel t =? level) && str_eqb (ttype t) [112; 97; 114; 97; 103; 114; 97; 112; 104; 95; 111; 112; 101; 110]).
  - eapply shape_from_trans; [|apply IH; lia].
    eapply shape_from_trans; apply update_nth_shape; try lia; intros x; split; reflexivity.
  - apply IH; lia.
Qed.

Lemma Forall2_len {A B} (R : A -> B -> Prop) (a : list A) : forall b, Forall2 R a b -> length a = length b.
Proof. induction a as [|x a IH]; intros b H; inversion H; subst; cbn [length]; [reflexivity | f_equal; apply IH; assumption]. Qed.

Lemma ext_reshape st s X :
  ext st s -> b_level X = b_level s -> shape_from (length (b_tokens st)) (b_tokens s) (b_tokens X) -> ext st X.
Proof.
  intros [L (seg & T & B)] LX [P F]. split; [congruence|].
  rewrite T in P, F. apply Forall2_app_inv_l in F. destruct F as (b1 & seg' & F1 & F2 & EX).
  assert (Hb : b1 = b_tokens st).
  { rewrite EX in P. rewrite firstn_app, Nat.sub_diag, firstn_all in P. cbn [firstn] in P. rewrite app_nil_r in P.
    assert (Hl : length b1 = length (b_tokens st)) by (symmetry; eapply Forall2_len; exact F1).
    rewrite firstn_app, <- Hl, Nat.sub_diag, firstn_all in P. cbn [firstn] in P. rewrite app_nil_r in P. symmetry. exact P. }
  subst b1. exists seg'. split; [exact EX | eapply bal_shape; eassumption].
Qed.

(* ---- list ------------------------------------------------------------------------------------ *)

Lemma list_items_ext rec term (R : rec_ok rec) (T : term_ok term) :
  forall fuel st ord mc sl nl el pam start tight pee r t st',
    list_items cfg fuel rec term st ord mc sl nl el pam start tight pee = Ok (r, t, st') -> ext st st'.
Proof.
  induction fuel as [|f IH]; intros st ord mc sl nl el pam start tight pee r t st' H; [discriminate H|].
  cbn [list_items] in H.
  destruct (negb (nl <? el)); [rfinish H; apply ext_refl|].
  do 4 rstep H. rstep H. destruct x3 as [contentStart offset].
  do 5 rstep H.
  (* the nested part: empty item or recursive tokenize *)
  match type of H with bind ?m _ = _ => destruct m as [st3|?|] eqn:INNER end; cbn [bind] in H; try discriminate H.
  do 3 rstep H.
  match type of H with context [bpush ?s4 s_list_item_close s_li (-1) ?f'] =>
    match type of INNER with context [bpush st s_list_item_open s_li 1 ?fo] =>
      assert (E6 : ext st ((bpush s4 s_list_item_close s_li (-1) f')
                             <| b_tokens := set_map_at (b_tokens (bpush s4 s_list_item_close s_li (-1) f')) (length (b_tokens st))
                                              (fun _ => Some (sl, b_line (bpush s4 s_list_item_close s_li (-1) f'))) |>))
    end
  end.
  { match goal with |- ext _ (?X0 <| b_tokens := _ |>) =>
      match X0 with bpush ?s4 _ _ _ ?f' =>
        match type of INNER with context [bpush st s_list_item_open s_li 1 ?fo] =>
          eapply (ext_wrap_upd st st s_list_item_open s_li fo s4 s_list_item_close s_li f' _ _ (ext_refl st))
        end
      end
    end.
    5: reflexivity.
    5: reflexivity.
    4: { (* the inner part is a balanced extension of the state after the open token *)
         match type of INNER with bind ?m _ = _ => destruct m as [e|?|] end; cbn [bind] in INNER; try discriminate INNER.
         destruct e.
         - rfinish INNER. eapply ext_same_r; [apply ext_refl | same_tl_tac].
         - apply R in INNER. eapply ext_same_r; [eapply ext_same_l; [|exact INNER]; same_tl_tac | same_tl_tac]. }
    all: solve_keeps. }
  match type of H with (if ?c then _ else _) = _ => destruct c end; [rfinish H; exact E6|].
  rstep H. rstep H; [rfinish H; exact E6|].
  rstep H. rstep H; [rfinish H; exact E6|].
  match type of H with bind (term ?a ?b ?c ?d) _ = _ => destruct (term a b c d) as [[tt st7]|?|] eqn:TE end;
    cbn [bind] in H; try discriminate H.
  pose proof (T _ _ _ _ _ _ TE) as E7.
  assert (E67 : ext st st7) by (eapply ext_trans; [exact E6 | exact E7]).
  destruct tt; [rfinish H; exact E67|].
  rstep H. rstep H; [rfinish H; exact E67|].
  do 2 rstep H. rstep H; [rfinish H; exact E67|].
  eapply ext_trans; [exact E67 | eapply IH; exact H].
Qed.

Lemma set_map_at_shape k tokens idx g : (k <= idx)%nat -> shape_from k tokens (set_map_at tokens idx g).
Proof. intros Hk. unfold set_map_at. apply update_nth_shape; [intros t; split; reflexivity | exact Hk]. Qed.

Opaque mark_tight set_map_at.
Lemma r_list_ext rec term (R : rec_ok rec) (T : term_ok term) st sl el silent b st' :
  r_list cfg rec term st sl el silent = Ok (b, st') -> ext st st'.
Proof.
  unfold r_list. intros H.
  rstep H. rstep H; [rfinish H; apply ext_refl|].
  rstep H. rstep H; [rfinish H; apply ext_refl|].
  do 2 rstep H.
  match type of H with bind ?m _ = _ => destruct m as [sel|?|] end; cbn [bind] in H; try discriminate H.
  destruct sel as [[[ord pam] mv]|]; [|rfinish H; apply ext_refl].
  rstep H. rstep H; [rfinish H; apply ext_refl|].
  rstep H. destruct silent; [rfinish H; apply ext_refl|].
  match type of H with bind ?m _ = _ => destruct m as [[[nl tight] st3]|?|] eqn:LI end; cbn [bind] in H; try discriminate H.
  apply (list_items_ext rec term R T) in LI.
  rfinish H.
  destruct ord.
  - (* ordered *)
    match type of LI with ext (st_parent (bpush st ?ty ?tag 1 ?fo) _) _ =>
      match goal with |- context [bpush st3 ?ty' ?tag' (-1) ?fc] =>
        assert (E4 : ext st (bpush st3 ty' tag' (-1) fc))
          by (apply (ext_wrap st ty tag fo st3 ty' tag' fc); [solve_keeps | solve_keeps |
                eapply ext_same_l; [|exact LI]; same_tl_tac])
      end
    end.
    destruct tight.
    + eapply ext_reshape; [exact E4 | reflexivity|].
      unfold st_parent, st_line. cbn -[mark_tight set_map_at bpush]. match goal with |- shape_from _ ?a (mark_tight _ ?mid _ _ _) => apply (shape_from_trans _ a mid) end; [apply set_map_at_shape; lia|].
      apply mark_tight_shape; lia.
    + eapply ext_reshape; [exact E4 | reflexivity|]. unfold st_parent, st_line. cbn -[mark_tight set_map_at bpush]. apply set_map_at_shape; lia.
  - match type of LI with ext (st_parent (bpush st ?ty ?tag 1 ?fo) _) _ =>
      match goal with |- context [bpush st3 ?ty' ?tag' (-1) ?fc] =>
        assert (E4 : ext st (bpush st3 ty' tag' (-1) fc))
          by (apply (ext_wrap st ty tag fo st3 ty' tag' fc); [solve_keeps | solve_keeps |
                eapply ext_same_l; [|exact LI]; same_tl_tac])
      end
    end.
    destruct tight.
    + eapply ext_reshape; [exact E4 | reflexivity|].
      unfold st_parent, st_line. cbn -[mark_tight set_map_at bpush]. match goal with |- shape_from _ ?a (mark_tight _ ?mid _ _ _) => apply (shape_from_trans _ a mid) end; [apply set_map_at_shape; lia|].
      apply mark_tight_shape; lia.
    + eapply ext_reshape; [exact E4 | reflexivity|]. unfold st_parent, st_line. cbn -[mark_tight set_map_at bpush]. apply set_map_at_shape; lia.
Qed.
Transparent mark_tight set_map_at.


(* ---- table ----------------------------------------------------------------------------------- *)

Lemma push_cells_ext : forall aligns st oty cty tag cols a b sne,
  ext st (push_cells st oty cty tag aligns cols a b sne).
Proof.
  induction aligns as [|al aligns IH]; intros st oty cty tag cols a b sne; cbn [push_cells]; [apply ext_refl|].
  eapply ext_trans; [|apply IH].
  match goal with |- ext _ (bpush (push_inline (bpush _ ?ty ?tg 1 ?f) ?c ?x ?y) ?ty' ?tg' (-1) ?f') =>
    apply (ext_wrap st ty tg f _ ty' tg' f'); [|solve_keeps|apply push_inline_ext]
  end.
  unfold cell_attrs. solve_keeps.
Qed.

(* one body row: tr_open, cells, tr_close *)
Lemma row_ext st aligns cols a b :
  ext st (bpush (push_cells (bpush st s_tr_open s_tr 1 (map_tok a b))
                            [116; 100; 95; 111; 112; 101; 110] [116; 100; 95; 99; 108; 111; 115; 101] [116; 100] aligns cols a b true)
                s_tr_close s_tr (-1) (fun t => t)).
Proof. apply (ext_wrap st s_tr_open s_tr (map_tok a b)); [solve_keeps | solve_keeps | apply push_cells_ext]. Qed.

(* rows after the first body row: the tbody index does not change and the rows are balanced *)
Lemma table_rows_later term (T : term_ok term) : forall fuel st aligns sl nl el tbody r tb' st',
  nl <> sl + 2 -> sl + 2 <= nl ->
  table_rows cfg fuel term st aligns sl nl el tbody = Ok (r, tb', st') -> ext st st' /\ tb' = tbody.
Proof.
  induction fuel as [|f IH]; intros st aligns sl nl el tbody r tb' st' N G H; [discriminate H|].
  cbn [table_rows] in H.
  destruct (negb (nl <? el)); [rfinish H; split; [apply ext_refl | reflexivity]|].
  rstep H. rstep H; [rfinish H; split; [apply ext_refl | reflexivity]|].
  destruct (term nm_blockquote st nl el) as [[t st1]|?|] eqn:TE; cbn [bind] in H; try discriminate H.
  pose proof (T _ _ _ _ _ _ TE) as E1.
  destruct t; [rfinish H; split; [exact E1 | reflexivity]|].
  rstep H. destruct (py_strip x0) as [|c0 lt] eqn:LT; [rfinish H; split; [exact E1 | reflexivity]|].
  rstep H. rstep H; [rfinish H; split; [exact E1 | reflexivity]|].
  assert (Ne : (nl =? sl + 2) = false) by lia. rewrite Ne in H.
  apply IH in H; [|lia|lia]. destruct H as [E2 ->]. split; [|reflexivity].
  eapply ext_trans; [exact E1|]. eapply ext_trans; [apply row_ext | exact E2].
Qed.

Definition s_tbody_open : str := [116; 98; 111; 100; 121; 95; 111; 112; 101; 110].
Definition s_tbody : str := [116; 98; 111; 100; 121].

(* the loop entered at the first body line *)
Lemma table_rows_first term (T : term_ok term) fuel st aligns sl el r tb' st' :
  table_rows cfg fuel term st aligns sl (sl + 2) el None = Ok (r, tb', st') ->
  (tb' = None /\ ext st st')
  \/ (exists s1, ext st s1 /\ tb' = Some (length (b_tokens s1))
                 /\ ext (bpush s1 s_tbody_open s_tbody 1 (map_tok (sl + 2) 0)) st').
Proof.
  destruct fuel as [|f]; intros H; [discriminate H|].
  cbn [table_rows] in H.
  destruct (negb (sl + 2 <? el)); [rfinish H; left; split; [reflexivity | apply ext_refl]|].
  rstep H. rstep H; [rfinish H; left; split; [reflexivity | apply ext_refl]|].
  destruct (term nm_blockquote st (sl + 2) el) as [[t st1]|?|] eqn:TE; cbn [bind] in H; try discriminate H.
  pose proof (T _ _ _ _ _ _ TE) as E1.
  destruct t; [rfinish H; left; split; [reflexivity | exact E1]|].
  rstep H. destruct (py_strip x0) as [|c0 lt] eqn:LT; [rfinish H; left; split; [reflexivity | exact E1]|].
  rstep H. rstep H; [rfinish H; left; split; [reflexivity | exact E1]|].
  assert (Ne : (sl + 2 =? sl + 2) = true) by lia. rewrite Ne in H.
  apply (table_rows_later term T) in H; [|lia|lia]. destruct H as [E2 ->].
  right. exists st1. split; [exact E1|]. split; [reflexivity|].
  eapply ext_trans; [apply row_ext | exact E2].
Qed.

Lemma thead_ext s hty htag hf rty rtag rwf oty cty ctag aligns cols a b sne rty' rtag' rwf' hty' htag' hf' :
  keeps hf -> keeps rwf -> keeps rwf' -> keeps hf' ->
  ext s (bpush (bpush (push_cells (bpush (bpush s hty htag 1 hf) rty rtag 1 rwf) oty cty ctag aligns cols a b sne)
                      rty' rtag' (-1) rwf') hty' htag' (-1) hf').
Proof.
  intros K1 K2 K3 K4.
  apply (ext_wrap s hty htag hf _ hty' htag' hf'); [exact K1 | exact K4|].
  apply (ext_wrap (bpush s hty htag 1 hf) rty rtag rwf _ rty' rtag' rwf'); [exact K2 | exact K3 | apply push_cells_ext].
Qed.

Opaque set_map_at.
Lemma r_table_ext term (T : term_ok term) st sl el silent b st' :
  r_table cfg term st sl el silent = Ok (b, st') -> ext st st'.
Proof.
  unfold r_table. intros H.
  rstep H; [rfinish H; apply ext_refl|].
  rstep H. rstep H; [rfinish H; apply ext_refl|].
  rstep H. rstep H; [rfinish H; apply ext_refl|].
  do 2 rstep H. rstep H; [rfinish H; apply ext_refl|].
  rstep H. rstep H; [rfinish H; apply ext_refl|].
  rstep H; [rfinish H; apply ext_refl|].
  rstep H. rstep H; [rfinish H; apply ext_refl|].
  rstep H; [rfinish H; apply ext_refl|].
  rstep H. rstep H; [rfinish H; apply ext_refl|].
  rstep H. rstep H; [|rfinish H; apply ext_refl].
  rstep H. rstep H; [rfinish H; apply ext_refl|].
  rstep H. rstep H; [rfinish H; apply ext_refl|].
  rstep H; [rfinish H; apply ext_refl|].
  destruct silent; [rfinish H; apply ext_refl|].
  match type of H with bind ?m _ = _ => destruct m as [[[nl tbody] st7]|?|] eqn:TR end; cbn [bind] in H; try discriminate H.
  rfinish H.
  (* the head: thead_open tr_open cells tr_close thead_close, after table_open *)
  match type of TR with table_rows _ _ _ ?s6 _ _ _ _ _ = _ =>
    match s6 with
    | bpush (bpush (push_cells (bpush (bpush ?s1 ?hty ?htag 1 ?hf) _ _ 1 _) _ _ _ _ _ _ _ _) _ _ (-1) _) ?hty' ?htag' (-1) ?hf' =>
        assert (EH : ext s1 s6) by (apply thead_ext; solve_keeps)
    end
  end.
  apply (table_rows_first term T) in TR.
  destruct TR as [[-> E7] | (s1 & E1 & -> & E7)].
  - (* no body rows *)
    match goal with |- ext _ (st_line (st_parent (?s9 <| b_tokens := set_map_at _ ?idx ?g |>) _) _) =>
      apply (ext_reshape st s9); [|reflexivity|]
    end.
    + match goal with |- ext _ (bpush ?s8 ?ty' ?tg' (-1) ?f') =>
        match type of EH with ext (bpush ?s0 ?ty ?tg 1 ?f) _ =>
          apply (ext_same_l _ s0); [same_tl_tac|];
          apply (ext_wrap s0 ty tg f s8 ty' tg' f'); [solve_keeps | solve_keeps | eapply ext_trans; [exact EH | exact E7]]
        end
      end.
    + unfold st_line, st_parent. cbn. apply set_map_at_shape. cbn. lia.
  - (* body rows inside tbody *)
    match goal with |- ext _ (st_line (st_parent (?s9 <| b_tokens := set_map_at _ ?idx ?g |>) _) _) =>
      apply (ext_reshape st s9); [|reflexivity|]
    end.
    + match goal with |- ext _ (bpush ?s8 ?ty' ?tg' (-1) ?f') =>
        match type of EH with ext (bpush ?s0 ?ty ?tg 1 ?f) ?s6 =>
          apply (ext_same_l _ s0); [same_tl_tac|];
          apply (ext_wrap s0 ty tg f s8 ty' tg' f'); [solve_keeps | solve_keeps |];
          eapply ext_trans; [exact EH|]
        end
      end.
      match goal with |- ext ?s6 (?sb <| b_tokens := set_map_at _ _ ?g |>) =>
        match sb with bpush ?s7 ?ty' ?tg' (-1) ?f' =>
          eapply (ext_wrap_upd s6 s1 s_tbody_open s_tbody (map_tok (sl + 2) 0) s7 ty' tg' f' _ _ E1)
        end
      end.
      4: exact E7.
      4: reflexivity.
      Transparent set_map_at.
      4: reflexivity.
      Opaque set_map_at.
      all: solve_keeps.
    + unfold st_line, st_parent. cbn. apply set_map_at_shape. cbn. lia.
Qed.
Transparent set_map_at.

(* ---- dispatch, terminator chains, the block loop ------------------------------------------- *)

Lemma apply_rule_ext rec term (R : rec_ok rec) (T : term_ok term) name st sl el silent b st' :
  apply_rule cfg rf cf rec term name st sl el silent = Ok (b, st') -> ext st st'.
Proof.
  unfold apply_rule. intros H.
  destruct (str_eqb name nm_table); [eapply r_table_ext; eassumption|].
  destruct (str_eqb name nm_code); [eapply r_code_ext; eassumption|].
  destruct (str_eqb name nm_fence); [eapply r_fence_ext; eassumption|].
  destruct (str_eqb name nm_blockquote); [eapply r_blockquote_ext; eassumption|].
  destruct (str_eqb name nm_hr); [eapply r_hr_ext; eassumption|].
  destruct (str_eqb name nm_list); [eapply r_list_ext; eassumption|].
  destruct (str_eqb name nm_reference); [eapply r_reference_ext; eassumption|].
  destruct (str_eqb name nm_html_block); [eapply r_html_block_ext; eassumption|].
  destruct (str_eqb name nm_heading); [eapply r_heading_ext; eassumption|].
  destruct (str_eqb name nm_lheading); [eapply r_lheading_ext; eassumption|].
  destruct (str_eqb name nm_paragraph); [eapply r_paragraph_ext; eassumption|].
  rfinish H. apply ext_refl.
Qed.

Lemma run_chain_ext : forall names st l el b st',
  run_chain cfg rf cf names st l el = Ok (b, st') -> ext st st'.
Proof.
  induction names as [|n names IH]; intros st l el b st' H; cbn [run_chain] in H; [rfinish H; apply ext_refl|].
  destruct (apply_rule cfg rf cf no_rec no_term n st l el true) as [[r s1]|?|] eqn:AR; cbn [bind] in H; try discriminate H.
  apply (apply_rule_ext no_rec no_term no_rec_ok no_term_ok) in AR.
  destruct r; [rfinish H; exact AR|]. eapply ext_trans; [exact AR | eapply IH; exact H].
Qed.

Lemma terminated_ok : term_ok (terminated cfg rf cf).
Proof. intros ch s a b r s' H. unfold terminated in H. eapply run_chain_ext; exact H. Qed.

Lemma try_rules_ext rec (R : rec_ok rec) : forall names st l el st',
  try_rules cfg rf cf rec names st l el = Ok st' -> ext st st'.
Proof.
  induction names as [|n names IH]; intros st l el st' H; cbn [try_rules] in H; [rfinish H; apply ext_refl|].
  destruct (apply_rule cfg rf cf rec (terminated cfg rf cf) n st l el false) as [[r s1]|?|] eqn:AR; cbn [bind] in H; try discriminate H.
  apply (apply_rule_ext rec _ R terminated_ok) in AR.
  destruct r; [rfinish H; exact AR|]. eapply ext_trans; [exact AR | eapply IH; exact H].
Qed.

Lemma tok_loop_ext rec (R : rec_ok rec) : forall fuel st line el hel st',
  tok_loop cfg rf cf fuel rec st line el hel = Ok st' -> ext st st'.
Proof.
  induction fuel as [|f IH]; intros st line el hel st' H; [discriminate H|].
  cbn [tok_loop] in H.
  destruct (negb (line <? el)); [rfinish H; apply ext_refl|].
  match type of H with (if ?c then _ else _) = _ => destruct c end;
    [rfinish H; apply same_tl_ext; same_tl_tac|].
  rstep H. rstep H; [rfinish H; apply same_tl_ext; same_tl_tac|].
  rstep H; [rfinish H; apply same_tl_ext; same_tl_tac|].
  match type of H with bind ?m _ = _ => destruct m as [st2|?|] eqn:TR end; cbn [bind] in H; try discriminate H.
  apply (try_rules_ext rec R) in TR.
  assert (E2 : ext st st2) by (eapply ext_same_l; [|exact TR]; same_tl_tac).
  do 2 rstep H.
  rstep H.
  - eapply ext_trans; [|eapply IH; exact H]. eapply ext_same_r; [exact E2 | same_tl_tac].
  - eapply ext_trans; [|eapply IH; exact H]. eapply ext_same_r; [exact E2 | same_tl_tac].
Qed.

Lemma tokenize_ok : forall depth, rec_ok (tokenize cfg rf cf depth).
Proof.
  induction depth as [|d IH]; intros s a b s' H; [discriminate H|].
  cbn [tokenize] in H. eapply tok_loop_ext; [exact IH | exact H].
Qed.

(* ParserBlock.parse: for EVERY source, env and configuration, what the block parser appends to the
   token list is a balanced segment at depth 0 -- every level is the running depth, nesting sums to
   zero, openers and closers pair up *)
Theorem block_parse_balanced src env toks st :
  block_parse cfg rf cf src env toks = Ok st ->
  exists seg, b_tokens st = toks ++ seg /\ bal 0 seg /\ levels_ok seg 0 /\ nest_sum seg = 0 /\ b_level st = 0.
Proof.
  unfold block_parse. intros H.
  assert (E : ext (state_init src env toks) st).
  { destruct src as [|c src']; [rfinish H; apply ext_refl|]. eapply tokenize_ok; exact H. }
  destruct E as [L (seg & Tk & B)]. change (b_level (state_init src env toks)) with 0 in *.
  change (b_tokens (state_init src env toks)) with toks in Tk.
  exists seg. repeat split; [exact Tk | exact B | apply bal_levels_ok, B | eapply bal_nest_sum, B | exact L].
Qed.

End RuleContracts.
