(* C16: labels match with internal whitespace collapsed.  The regular expression  \s+  that
   normalizeReference substitutes by one space, run by the backtracking matcher of Base/Regex.v,
   computes a simple function: every maximal run of white space becomes one space.  Hence two
   spellings of a label that differ only in how a run of white space is written normalise alike. *)
From MD Require Import Base.Py Base.Str Base.Regex Base.Opt Model.Utils Gen.Regexes.
From Coq Require Import Lia.

Local Arguments Z.eqb : simpl never.

Definition ws_items : list cls_item :=
  [CRange 9 13; CRange 28 32; CChar 133; CChar 160; CChar 5760; CRange 8192 8202; CRange 8232 8233; CChar 8239; CChar 8287; CChar 12288].
Definition wsb (c : Z) : bool := in_cls c ws_items.
Definition ws_re : re := RRep 1%nat None true (RIn false ws_items).
Lemma ws_re_is : re_utils_inline0 = ws_re. Proof. reflexivity. Qed.

(* the direct definition *)
Fixpoint collapse_aux (inws : bool) (l : str) : str :=
  match l with
  | [] => []
  | c :: r => if wsb c then (if inws then collapse_aux true r else 32 :: collapse_aux true r) else c :: collapse_aux false r
  end.
Definition collapse (s : str) : str := collapse_aux false s.

(* the state after consuming the characters ws, with rest left *)
Definition eat (st : mstate) (ws rest : list Z) : mstate :=
  mkM (rev ws ++ m_before st) rest (m_pos st + Z.of_nat (length ws)) (m_groups st).

(* the repeat loop of the matcher, for this expression and the final continuation of match_at *)
Fixpoint ws_loop (fuel count : nat) (st : mstate) : option mstate :=
  match fuel with
  | O => None
  | S fuel' =>
      match mt (RIn false ws_items) st (fun st' =>
              if (m_pos st' =? m_pos st) && Nat.leb 1 (S count) then Some st' else ws_loop fuel' (S count) st') with
      | Some x => Some x
      | None => if Nat.leb 1 count then Some st else None
      end
  end.

Lemma match_at_ws st : match_at ws_re st = ws_loop (S (length (m_after st)) + 1) 0 st.
Proof. reflexivity. Qed.

(* the loop consumes a maximal run of white space and stops there *)
Lemma ws_loop_run : forall ws fuel count st rest,
  m_after st = ws ++ rest -> forallb wsb ws = true ->
  (match rest with [] => true | c :: _ => negb (wsb c) end) = true ->
  (length ws < fuel)%nat -> (1 <= count + length ws)%nat ->
  ws_loop fuel count st = Some (eat st ws rest).
Proof.
  induction ws as [|c ws IH]; intros fuel count st rest HA HW HR HF HC.
  - destruct fuel as [|f]; [lia|]. cbn [ws_loop mt]. cbn [app] in HA.
    assert (NONE : (match advance st with
                    | Some (c, st') => if xorb false (in_cls c ws_items) then
                         (if (m_pos st' =? m_pos st) && Nat.leb 1 (S count) then Some st' else ws_loop f (S count) st') else None
                    | None => None end) = None).
    { unfold advance. rewrite HA. destruct rest as [|r0 rest']; [reflexivity|]. cbn [xorb]. fold (wsb r0).
      apply Bool.negb_true_iff in HR. rewrite HR. reflexivity. }
    rewrite NONE. cbn in HC. assert (E : Nat.leb 1 count = true) by (apply Nat.leb_le; lia). rewrite E.
    f_equal. unfold eat. cbn [rev app length]. destruct st as [b a p g]. cbn in *. subst a. f_equal. lia.
  - destruct fuel as [|f]; [cbn in HF; lia|]. cbn [ws_loop mt].
    cbn [forallb] in HW. apply Bool.andb_true_iff in HW. destruct HW as [Hc HW].
    unfold advance at 1. rewrite HA. cbn [app]. cbn [xorb]. fold (wsb c). rewrite Hc.
    set (st1 := mkM (c :: m_before st) (ws ++ rest) (m_pos st + 1) (m_groups st)).
    assert (PN : (m_pos st1 =? m_pos st) = false) by (unfold st1; cbn [m_pos]; apply Z.eqb_neq; lia).
    rewrite PN. cbn [andb].
    rewrite (IH f (S count) st1 rest eq_refl HW HR ltac:(cbn in HF; lia) ltac:(lia)).
    f_equal. unfold eat, st1. cbn [m_before m_pos m_groups rev length]. rewrite <- app_assoc. cbn [app]. f_equal. lia.
Qed.

(* ... and fails on anything that does not start with white space *)
Lemma ws_loop_none fuel st : (match m_after st with [] => true | c :: _ => negb (wsb c) end) = true -> ws_loop fuel 0 st = None.
Proof.
  intros H. destruct fuel as [|f]; [reflexivity|]. cbn [ws_loop mt]. unfold advance.
  destruct (m_after st) as [|c r]; [reflexivity|]. cbn [xorb]. fold (wsb c). apply Bool.negb_true_iff in H. rewrite H. reflexivity.
Qed.

(* ---- the maximal run at the head of a string ---- *)
Fixpoint span_ws (l : str) : str * str :=
  match l with
  | [] => ([], [])
  | c :: r => if wsb c then (c :: fst (span_ws r), snd (span_ws r)) else ([], l)
  end.
Lemma span_ws_spec l : l = fst (span_ws l) ++ snd (span_ws l) /\ forallb wsb (fst (span_ws l)) = true
  /\ (match snd (span_ws l) with [] => true | c :: _ => negb (wsb c) end) = true.
Proof.
  induction l as [|c r (A & B & C)]; [repeat split|]. cbn [span_ws]. destruct (wsb c) eqn:E; cbn [fst snd].
  - split; [cbn [app]; f_equal; exact A|]. split; [cbn [forallb]; rewrite E, B; reflexivity | exact C].
  - split; [reflexivity|]. split; [reflexivity|]. rewrite E. reflexivity.
Qed.
Lemma span_ws_len l : (length (snd (span_ws l)) <= length l)%nat.
Proof. destruct (span_ws_spec l) as (A & _ & _). rewrite A at 2. rewrite app_length. lia. Qed.

Lemma collapse_true_head rest : (match rest with [] => true | c :: _ => negb (wsb c) end) = true ->
  collapse_aux true rest = collapse_aux false rest.
Proof. destruct rest as [|c r]; [reflexivity|]. intros H. cbn [collapse_aux]. apply Bool.negb_true_iff in H. rewrite H. reflexivity. Qed.
Lemma collapse_true_run : forall ws rest, forallb wsb ws = true -> collapse_aux true (ws ++ rest) = collapse_aux true rest.
Proof.
  induction ws as [|c ws IH]; intros rest H; [reflexivity|]. cbn [forallb] in H. apply Bool.andb_true_iff in H. destruct H as [Hc H].
  cbn [app collapse_aux]. rewrite Hc. apply IH, H.
Qed.
Lemma collapse_run c ws rest : wsb c = true -> forallb wsb ws = true ->
  (match rest with [] => true | x :: _ => negb (wsb x) end) = true ->
  collapse_aux false ((c :: ws) ++ rest) = 32 :: collapse_aux false rest.
Proof.
  intros Hc HW HR. cbn [app collapse_aux]. rewrite Hc. f_equal. rewrite collapse_true_run by exact HW. apply collapse_true_head, HR.
Qed.

(* ---- re.sub(r"\s+", " ", s) computes collapse ---- *)
Lemma sub_ws_loop (s : str) : forall n after fuel before pos g acc,
  (length after <= n)%nat -> (length after < fuel)%nat ->
  sub_loop fuel ws_re (expand s [TLit [32]]) s (mkM before after pos g) acc = acc ++ collapse_aux false after.
Proof.
  induction n as [|n IH]; intros after fuel before pos g acc Hn Hf.
  - destruct after; [|cbn in Hn; lia]. destruct fuel as [|f]; [lia|]. cbn [sub_loop m_before m_after m_pos].
    rewrite match_at_ws. rewrite ws_loop_none by reflexivity. cbn [advance m_after]. rewrite app_nil_r. reflexivity.
  - destruct fuel as [|f]; [lia|]. cbn [sub_loop m_before m_after m_pos]. rewrite match_at_ws. cbn [m_after].
    destruct after as [|c r]; [rewrite ws_loop_none by reflexivity; cbn [advance m_after]; rewrite app_nil_r; reflexivity|].
    destruct (wsb c) eqn:Hc.
    + (* a run of white space: one space *)
      destruct (span_ws_spec r) as (A & B & C). set (ws := fst (span_ws r)) in *. set (rest := snd (span_ws r)) in *.
      rewrite (ws_loop_run (c :: ws) _ 0 (mkM before (c :: r) pos []) rest).
      * cbn [eat m_before m_after m_pos m_groups]. 
        assert (PN : (pos + Z.of_nat (length (c :: ws)) =? pos) = false) by (apply Z.eqb_neq; cbn [length]; lia). rewrite PN.
        rewrite IH; [| |].
        -- change (expand s [TLit [32]] (slice s pos (pos + Z.of_nat (length (c :: ws)))) (mkM (rev (c :: ws) ++ before) rest (pos + Z.of_nat (length (c :: ws))) [])) with [32].
           rewrite <- app_assoc. f_equal. rewrite A. symmetry. apply (collapse_run c ws rest Hc B C).
        -- pose proof (span_ws_len r). fold rest in H. cbn in Hn. lia.
        -- pose proof (span_ws_len r). fold rest in H. cbn in Hf. lia.
      * cbn [m_after app]. f_equal. exact A.
      * cbn [forallb]. rewrite Hc, B. reflexivity.
      * exact C.
      * cbn [m_after length]. rewrite A. rewrite app_length. lia.
      * cbn [length]. lia.
    + (* an ordinary character is copied *)
      rewrite ws_loop_none by (cbn [m_after]; rewrite Hc; reflexivity). cbn [advance m_after m_before m_pos m_groups].
      rewrite IH by (cbn in Hn, Hf; lia). rewrite <- app_assoc. cbn [app collapse_aux]. rewrite Hc. reflexivity.
Qed.

Theorem collapse_ws_is_collapse s : collapse_ws s = collapse s.
Proof.
  unfold collapse_ws, sub_tpl, sub, init_state, collapse. rewrite ws_re_is.
  rewrite (sub_ws_loop s (length s)) by lia. reflexivity.
Qed.

(* internal white space: however a run is spelled, the label normalises alike *)
Theorem collapse_respelling a w1 w2 b : w1 <> [] -> w2 <> [] -> forallb wsb w1 = true -> forallb wsb w2 = true ->
  collapse_ws (a ++ w1 ++ b) = collapse_ws (a ++ w2 ++ b).
Proof.
  intros N1 N2 H1 H2. rewrite !collapse_ws_is_collapse. unfold collapse.
  assert (G : forall i w, w <> [] -> forallb wsb w = true -> collapse_aux i (w ++ b) = (if i then [] else [32]) ++ collapse_aux true b).
  { intros i w Nw Hw. destruct w as [|c w]; [contradiction Nw; reflexivity|]. cbn [forallb] in Hw. apply Bool.andb_true_iff in Hw. destruct Hw as [Hc Hw].
    cbn [app collapse_aux]. rewrite Hc. rewrite collapse_true_run by exact Hw. destruct i; reflexivity. }
  generalize false. induction a as [|c a IH]; intros i; cbn [app].
  - rewrite (G i w1 N1 H1), (G i w2 N2 H2). reflexivity.
  - cbn [collapse_aux]. destruct (wsb c); [destruct i|]; rewrite ?IH; reflexivity.
Qed.

(* ---- at the level of normalizeReference: strip, collapse, fold case ---- *)
Lemma strip_fixed p c m d : p c = false -> p d = false -> strip_by p (c :: m ++ [d]) = c :: m ++ [d].
Proof.
  intros Hc Hd. unfold strip_by, rstrip_by. cbn [lstrip_by]. rewrite Hc.
  change (c :: m ++ [d]) with ((c :: m) ++ [d]). rewrite rev_app_distr. cbn [rev app lstrip_by]. rewrite Hd.
  cbn [rev]. rewrite rev_app_distr, rev_involutive. reflexivity.
Qed.

Theorem normalize_reference_respelling casefold c a w1 w2 b d :
  is_py_space c = false -> is_py_space d = false ->
  w1 <> [] -> w2 <> [] -> forallb wsb w1 = true -> forallb wsb w2 = true ->
  normalize_reference casefold (c :: a ++ w1 ++ b ++ [d]) = normalize_reference casefold (c :: a ++ w2 ++ b ++ [d]).
Proof.
  intros Hc Hd N1 N2 H1 H2. unfold normalize_reference, py_strip. f_equal.
  replace (c :: a ++ w1 ++ b ++ [d]) with (c :: (a ++ w1 ++ b) ++ [d]) by (rewrite <- !app_assoc; reflexivity).
  replace (c :: a ++ w2 ++ b ++ [d]) with (c :: (a ++ w2 ++ b) ++ [d]) by (rewrite <- !app_assoc; reflexivity).
  rewrite !strip_fixed by assumption.
  change (c :: (a ++ w1 ++ b) ++ [d]) with ((c :: a) ++ w1 ++ b ++ [d]) || idtac.
  rewrite <- !app_assoc.
  apply (collapse_respelling (c :: a) w1 w2 (b ++ [d]) N1 N2 H1 H2).
Qed.

(* leading and trailing white space is dropped before anything else *)
Theorem normalize_reference_outer casefold l s r :
  forallb is_py_space l = true -> forallb is_py_space r = true ->
  (match s with [] => true | c :: _ => negb (is_py_space c) end) = true ->
  (match rev s with [] => true | c :: _ => negb (is_py_space c) end) = true ->
  normalize_reference casefold (l ++ s ++ r) = normalize_reference casefold s.
Proof.
  intros Hl Hr Hs He. unfold normalize_reference, py_strip. do 2 f_equal.
  assert (L : forall p x y, forallb p x = true -> lstrip_by p (x ++ y) = lstrip_by p y).
  { intros p x y. induction x as [|c x IH]; intros H; [reflexivity|]. cbn [forallb] in H. apply Bool.andb_true_iff in H. destruct H as [Hc H].
    cbn [app lstrip_by]. rewrite Hc. apply IH, H. }
  assert (F : forall p x, (match x with [] => true | c :: _ => negb (p c) end) = true -> lstrip_by p x = x).
  { intros p x H. destruct x as [|c x]; [reflexivity|]. cbn [lstrip_by]. apply Bool.negb_true_iff in H. rewrite H. reflexivity. }
  unfold strip_by, rstrip_by. rewrite L by exact Hl.
  destruct s as [|c s'].
  - cbn [app]. cbn [lstrip_by rev]. 
    assert (A : lstrip_by is_py_space r = []).
    { rewrite <- (app_nil_r r) at 1. rewrite L by exact Hr. reflexivity. }
    rewrite A. reflexivity.
  - rewrite (F _ ((c :: s') ++ r)) by exact Hs. rewrite (F _ (c :: s')) by exact Hs.
    rewrite rev_app_distr. rewrite L by (rewrite forallb_forall in *; intros x Hx; apply Hr, in_rev, Hx).
    reflexivity.
Qed.
