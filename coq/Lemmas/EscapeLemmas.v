(* escapeHtml: the four replace passes equal the character-wise function, and
   its output can never open a tag, close an attribute value or start an entity
   of its own (C04). *)
From MD Require Import Base.Py Base.Str Model.Utils.

Lemma replace_char_app c new a b : replace_char c new (a ++ b) = replace_char c new a ++ replace_char c new b.
Proof. unfold replace_char. apply flat_map_app. Qed.

Lemma replace_char_absent c new s : mem_z c s = false -> replace_char c new s = s.
Proof.
  unfold replace_char, mem_z. induction s as [|x s IH]; simpl; intros H; [reflexivity|].
  apply Bool.orb_false_iff in H. destruct H as [H1 H2]. rewrite Z.eqb_sym in H1. rewrite H1. simpl.
  rewrite IH; [reflexivity | exact H2].
Qed.

(* the passes, as written in the source, compute [escape_html] *)
Theorem escape_html_passes_eq s : escape_html_passes s = escape_html s.
Proof.
  unfold escape_html_passes, escape_html. induction s as [|c s IH]; [reflexivity|].
  change (c :: s) with ([c] ++ s). rewrite !replace_char_app, flat_map_app. rewrite IH. f_equal.
  unfold esc_char, replace_char, amp, lt, gt, quot, s_amp, s_lt, s_gt, s_quot. simpl.
  destruct (Z.eqb_spec c 38) as [->|N1]; [reflexivity|]. simpl.
  destruct (Z.eqb_spec c 60) as [->|N2]; [reflexivity|]. simpl.
  destruct (Z.eqb_spec c 62) as [->|N3]; [reflexivity|]. simpl.
  destruct (Z.eqb_spec c 34) as [->|N4]; reflexivity.
Qed.

(* characters that are dangerous in text and in double-quoted attribute values *)
Definition dangerous (c : Z) : bool := (c =? lt) || (c =? gt) || (c =? quot).

(* every & in [s] begins one of the four entities the escaper writes *)
Fixpoint amp_ok (s : str) : bool :=
  match s with
  | [] => true
  | c :: s' =>
      (if c =? amp
       then starts_with s_amp s || starts_with s_lt s || starts_with s_gt s || starts_with s_quot s
       else true) && amp_ok s'
  end.

Definition safe (s : str) : Prop := forallb (fun c => negb (dangerous c)) s = true /\ amp_ok s = true.

Lemma esc_char_no_danger c : forallb (fun x => negb (dangerous x)) (esc_char c) = true.
Proof.
  unfold esc_char, dangerous, amp, lt, gt, quot, s_amp, s_lt, s_gt, s_quot.
  destruct (Z.eqb_spec c 38); [reflexivity|].
  destruct (Z.eqb_spec c 60); [reflexivity|].
  destruct (Z.eqb_spec c 62); [reflexivity|].
  destruct (Z.eqb_spec c 34); [reflexivity|]. simpl.
  destruct (Z.eqb_spec c 60); [contradiction|]. destruct (Z.eqb_spec c 62); [contradiction|].
  destruct (Z.eqb_spec c 34); [contradiction|]. reflexivity.
Qed.

Lemma amp_ok_app_esc c rest : amp_ok rest = true -> amp_ok (esc_char c ++ rest) = true.
Proof.
  intros H. unfold esc_char, amp, lt, gt, quot, s_amp, s_lt, s_gt, s_quot.
  destruct (Z.eqb_spec c 38); [simpl; exact H|].
  destruct (Z.eqb_spec c 60); [simpl; exact H|].
  destruct (Z.eqb_spec c 62); [simpl; exact H|].
  destruct (Z.eqb_spec c 34); [simpl; exact H|].
  cbn [app amp_ok]. unfold amp. destruct (Z.eqb_spec c 38); [contradiction|]. exact H.
Qed.

(* C04, core fact: for EVERY string, the escaped form contains no <, > or double quote, and
   every & in it starts &amp; &lt; &gt; or &quot; *)
Theorem escape_safe s : safe (escape_html s).
Proof.
  unfold safe, escape_html. induction s as [|c s [IH1 IH2]]; [split; reflexivity|]. simpl. split.
  - rewrite forallb_app, esc_char_no_danger. exact IH1.
  - apply amp_ok_app_esc, IH2.
Qed.

