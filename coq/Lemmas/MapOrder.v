(* C03: sibling order.  What one call of the block line loop (ParserBlock.tokenize, at the top level
   or nested in a block quote / list item) appends is a sequence of segments, one per successful
   rule call, whose line ranges [a, b) are non-empty, increase and do not overlap; every map of a
   segment lies inside its range.  So no block starts before the end of the block before it. *)
From RecordUpdate Require Import RecordUpdate.
From MD Require Import Base.Py Base.Str Base.Regex Base.Opt Model.Token Model.Utils Model.StateBlock Model.Helpers
     Model.Url Model.Render Model.Block Lemmas.StrLemmas Lemmas.StrLemmas2 Lemmas.BlockLemmas Lemmas.BlockWF Lemmas.MapLemmas
     Lemmas.ScanLemmas Lemmas.MapWhole.
From Coq Require Import ZifyBool.

Local Arguments Z.eqb : simpl never.
Local Arguments Z.ltb : simpl never.
Local Arguments Z.leb : simpl never.
Local Arguments str_eqb : simpl never.

Inductive oseg : Z -> Z -> list token -> Prop :=
| oseg_nil lo hi : lo <= hi -> oseg lo hi []
| oseg_cons lo hi a b seg rest : lo <= a -> a < b -> Forall (map_in a b) seg -> oseg b hi rest -> oseg lo hi (seg ++ rest).

Lemma oseg_le lo hi s : oseg lo hi s -> lo <= hi.
Proof. induction 1; lia. Qed.
Lemma oseg_lo lo lo' hi s : lo' <= lo -> oseg lo hi s -> oseg lo' hi s.
Proof. intros L H. destruct H as [lo hi H0 | lo hi a b seg rest H1 H2 H3 H4]; [apply oseg_nil; lia | apply (oseg_cons lo' hi a b); [lia | exact H2 | exact H3 | exact H4]]. Qed.
(* ordered segments are in range as a whole *)
Lemma oseg_in lo hi s : oseg lo hi s -> Forall (map_in lo hi) s.
Proof.
  induction 1 as [|lo hi a b seg rest L1 L2 F O IH]; [constructor|]. pose proof (oseg_le _ _ _ O).
  apply Forall_app. split; (eapply Forall_impl; [|eassumption]); intros t Ht; eapply map_in_weaken; try exact Ht; lia.
Qed.

Section Loop.
Context (cfg : bcfg) (rf cf : str -> str).

Lemma tok_loop_oseg rec (R : rec_c rec) (ST : silent_terms cfg) (PA : mem_str nm_paragraph (c_rules cfg) = true) :
  forall fuel st line el hel st',
  tok_loop cfg rf cf fuel rec st line el hel = Ok st' ->
  0 <= line -> line <= b_lineMax st -> el <= b_lineMax st -> TI st -> (line < el \/ b_line st = line) ->
  exists seg, b_tokens st' = b_tokens st ++ seg /\ oseg line (b_line st') seg.
Proof.
  induction fuel as [|f IH]; intros st line el hel st' H L0 L1 L2 HT LB; [discriminate H|].
  pose proof (tok_loop_m cfg rf cf rec R ST PA _ _ _ _ _ _ H L0 L1 L2 HT LB) as (_ & _ & _ & BND & _ & _).
  cbn [tok_loop] in H.
  assert (NIL : b_tokens st' = b_tokens st -> exists seg, b_tokens st' = b_tokens st ++ seg /\ oseg line (b_line st') seg).
  { intros E. exists []. rewrite app_nil_r. split; [exact E | apply oseg_nil; lia]. }
  destruct (negb (line <? el)) eqn:NE; [rfinish H; apply NIL; reflexivity|].
  cbv zeta in H.
  set (line1 := skip_empty_lines (S (Z.to_nat (b_lineMax st))) st line) in *.
  destruct (skip_empty_spec (S (Z.to_nat (b_lineMax st))) st line) as [E1 E2]. specialize (E2 L1). fold line1 in E1, E2.
  destruct (el <=? line1) eqn:EL; [rfinish H; apply NIL; reflexivity|].
  change (b_sCount (st_line st line1)) with (b_sCount st) in H.
  destruct (tb (b_sCount st) line1) as [sc|?|] eqn:Esc; cbn [bind] in H; try discriminate H.
  change (b_blkIndent (st_line st line1)) with (b_blkIndent st) in H.
  destruct (sc <? b_blkIndent st) eqn:SB; [rfinish H; apply NIL; reflexivity|].
  destruct (c_maxNesting cfg <=? b_level (st_line st line1)); [rfinish H; apply NIL; reflexivity|].
  destruct (try_rules cfg rf cf rec (c_rules cfg) (st_line st line1) line1 el) as [st2|?|] eqn:TR; cbn [bind] in H; try discriminate H.
  apply (try_rules_m cfg rf cf rec R ST) in TR; [| |exact PA].
  2: { split; [lia|]. split; [lia|]. split; [exact L2|]. split; [reflexivity | exact HT]. }
  destruct TR as (A1 & A2 & A3 & A4 & A5). cbn [b_lineMax st_line set] in A1, A2.
  set (st3 := st2 <| b_tight := negb hel |>) in *.
  change (b_line st3) with (b_line st2) in H.
  rstep H.
  match type of H with bind ?m _ = _ => destruct m as [e2|?|] eqn:E2' end; cbn [bind] in H; try discriminate H.
  destruct A3 as (sg & ES & FS). change (b_tokens (st_line st line1)) with (b_tokens st) in ES.
  destruct e2.
  - assert (LT2 : b_line st2 < el) by (destruct (b_line st2 <? el) eqn:X; [lia | discriminate E2']).
    apply IH in H; try lia.
    + destruct H as (seg & ET & OS). cbn [b_tokens st_line set] in ET. change (b_tokens st3) with (b_tokens st2) in ET.
      exists (sg ++ seg). split; [rewrite ET, ES, app_assoc; reflexivity|].
      apply (oseg_cons line _ line1 (b_line st2)); [exact E1 | lia | exact FS | eapply oseg_lo; [|exact OS]; cbn; lia].
    + cbn. change (b_lineMax st3) with (b_lineMax st2). lia.
    + cbn. change (b_lineMax st3) with (b_lineMax st2). lia.
    + exact A4.
    + right. reflexivity.
  - apply IH in H; try lia.
    + destruct H as (seg & ET & OS). change (b_tokens st3) with (b_tokens st2) in ET.
      exists (sg ++ seg). split; [rewrite ET, ES, app_assoc; reflexivity|].
      apply (oseg_cons line _ line1 (b_line st2)); [exact E1 | lia | exact FS | exact OS].
    + change (b_lineMax st3) with (b_lineMax st2). lia.
    + change (b_lineMax st3) with (b_lineMax st2). lia.
    + exact A4.
    + right. reflexivity.
Qed.

(* the nested tokenize of a block quote / list item, at any depth *)
Theorem tokenize_ordered (ST : silent_terms cfg) (PA : mem_str nm_paragraph (c_rules cfg) = true) d st a b st' :
  tokenize cfg rf cf d st a b = Ok st' -> 0 <= a -> a < b -> b <= b_lineMax st -> TI st ->
  exists seg, b_tokens st' = b_tokens st ++ seg /\ oseg a (b_line st') seg.
Proof.
  destruct d as [|d]; intros H A0 AB BL HT; [discriminate H|]. cbn [tokenize] in H.
  eapply (tok_loop_oseg _ (tokenize_rec_c cfg rf cf ST PA d) ST PA); try eassumption; lia.
Qed.

(* the whole document *)
Theorem block_parse_ordered (ST : silent_terms cfg) (PA : mem_str nm_paragraph (c_rules cfg) = true) src env toks st' :
  block_parse cfg rf cf src env toks = Ok st' ->
  exists seg, b_tokens st' = toks ++ seg /\ oseg 0 (b_line st') seg.
Proof.
  unfold block_parse. intros H.
  pose proof (state_init_TI src env toks) as HT.
  destruct (state_init_tables src env toks) as (_ & _ & _ & _ & _ & LM & _). cbv zeta in LM.
  assert (B0 : b_line (state_init src env toks) = 0) by reflexivity.
  assert (T0 : b_tokens (state_init src env toks) = toks) by reflexivity.
  destruct src as [|c src0]; [injection H as <-; exists []; rewrite app_nil_r; split; [exact T0 | apply oseg_nil; rewrite B0; lia]|].
  set (st0 := state_init (c :: src0) env toks) in *. rewrite B0 in H.
  destruct (Z.eq_dec (b_lineMax st0) 0) as [Z0|NZ].
  - rewrite Z0 in H. cbn [tokenize Z.to_nat Z.sub tok_loop] in H. change (negb (0 <? 0)) with true in H. cbv iota in H. injection H as <-.
    exists []. rewrite app_nil_r. split; [exact T0 | apply oseg_nil; rewrite B0; lia].
  - destruct (tokenize_ordered ST PA _ _ _ _ _ H ltac:(lia) ltac:(lia) ltac:(lia) HT) as (seg & ET & OS).
    exists seg. rewrite T0 in ET. split; [exact ET | exact OS].
Qed.

End Loop.
