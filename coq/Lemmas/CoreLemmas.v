(* C19: the typographic rules never change the shape of a token stream: same length,
   same tokens, only the content of tokens of type text may differ; text_join's merge
   pattern depends on types only.  All statements are for EVERY token list. *)
From MD Require Import Base.Py Base.Str Base.Opt Base.Regex Model.Token Model.Utils Model.Render Model.Core.

Local Arguments str_eqb : simpl never.
Local Arguments Z.eqb : simpl never.

(* a token with the content of a text token blanked out; everything else, including all
   fields of non-text tokens and the children of images, is kept *)
Definition erase_text (t : token) : token := if str_eqb (ttype t) s_text then set_content t [] else t.

Lemma erase_text_set_content t c :
  str_eqb (ttype t) s_text = true -> erase_text (set_content t c) = erase_text t.
Proof. intros H. unfold erase_text. change (ttype (set_content t c)) with (ttype t). rewrite H. reflexivity. Qed.

(* ---- replacements ---- *)

Lemma replace_walk_shape g f : forall l k, map erase_text (replace_walk g f l k) = map erase_text l.
Proof.
  induction l as [|t l IH]; intros k; [reflexivity|]. cbn [replace_walk map]. rewrite IH. f_equal.
  destruct (str_eqb (ttype t) s_text) eqn:E; [|reflexivity]. cbn [andb].
  destruct ((k =? 0) && g (tcontent t)); [|reflexivity]. apply erase_text_set_content, E.
Qed.

Lemma replace_walk_length g f l k : length (replace_walk g f l k) = length l.
Proof. revert k; induction l as [|t l IH]; intros k; [reflexivity|]. cbn [replace_walk length]. rewrite IH. reflexivity. Qed.

(* block-level view: an inline token keeps everything but (possibly) the text contents of its children *)
Definition erase_inline (t : token) : token :=
  match tchildren t with
  | Some ch => set_children t (Some (map erase_text ch))
  | None => t
  end.

Theorem replacements_shape b ts : map erase_inline (replacements b ts) = map erase_inline ts.
Proof.
  unfold replacements. destruct b; [|reflexivity]. rewrite map_map. apply map_ext. intros t.
  unfold replace_inline. destruct (negb (str_eqb (ttype t) s_inline)); [reflexivity|].
  destruct (tchildren t) as [ch|] eqn:EC; [|reflexivity].
  unfold erase_inline. change (tchildren (set_children t (Some _))) with
    (Some (if test Gen.Regexes.re_replacements_RARE_RE (tcontent t)
           then replace_walk (test Gen.Regexes.re_replacements_RARE_RE) replace_rare_text
                  (if test Gen.Regexes.re_replacements_SCOPED_ABBR_RE (tcontent t)
                   then replace_walk (fun _ => true) replace_scoped_text ch 0 else ch) 0
           else if test Gen.Regexes.re_replacements_SCOPED_ABBR_RE (tcontent t)
                then replace_walk (fun _ => true) replace_scoped_text ch 0 else ch)).
  rewrite EC.
  destruct (test Gen.Regexes.re_replacements_RARE_RE (tcontent t)),
           (test Gen.Regexes.re_replacements_SCOPED_ABBR_RE (tcontent t));
    rewrite ?replace_walk_shape; reflexivity.
Qed.

(* ---- smartquotes ---- *)

Definition is_text_at (tokens : list token) (i : nat) : Prop :=
  match nth_error tokens i with Some t => str_eqb (ttype t) s_text = true | None => True end.

Lemma update_nth_map {A B} (f : A -> B) (g : A -> A) : forall (l : list A) i,
  (forall x, nth_error l i = Some x -> f (g x) = f x) -> map f (update_nth i g l) = map f l.
Proof.
  unfold update_nth. induction l as [|x l IH]; intros [|i] H; cbn; try reflexivity.
  - rewrite (H x eq_refl). reflexivity.
  - f_equal. apply IH. intros y Hy. apply H. exact Hy.
Qed.

Lemma set_content_at_shape tokens i c :
  is_text_at tokens i -> map erase_text (set_content_at tokens i c) = map erase_text tokens.
Proof.
  intros H. unfold set_content_at. apply update_nth_map. intros x Hx.
  unfold is_text_at in H. rewrite Hx in H. apply erase_text_set_content, H.
Qed.

Lemma nth_error_update_nth {A} (g : A -> A) : forall (l : list A) i j,
  nth_error (update_nth i g l) j = if Nat.eqb i j then option_map g (nth_error l j) else nth_error l j.
Proof.
  unfold update_nth. induction l as [|x l IH]; intros [|i] [|j]; cbn; try reflexivity.
  - destruct (Nat.eqb i j); reflexivity.
  - apply IH.
Qed.

Lemma is_text_at_set tokens i c j : is_text_at tokens j -> is_text_at (set_content_at tokens i c) j.
Proof.
  unfold is_text_at, set_content_at. rewrite nth_error_update_nth.
  destruct (Nat.eqb i j); [|auto]. destruct (nth_error tokens j); cbn; auto.
Qed.

Definition StackOK (tokens : list token) (stack : list sq_item) : Prop :=
  Forall (fun it => is_text_at tokens (sq_token it)) stack.

Lemma stackok_set tokens i c stack : StackOK tokens stack -> StackOK (set_content_at tokens i c) stack.
Proof. unfold StackOK. intros H. eapply Forall_impl; [|exact H]. intros it. apply is_text_at_set. Qed.

Lemma truncate_ok tokens stack lvl : StackOK tokens stack -> StackOK tokens (truncate_stack stack lvl).
Proof.
  unfold StackOK. induction stack as [|it rest IH]; intros H; cbn; [constructor|].
  destruct (sq_level it <=? lvl); [exact H|]. inversion H; subst. apply IH. assumption.
Qed.

Lemma find_opener_ok tokens stack lvl single it below :
  StackOK tokens stack -> find_opener stack lvl single = Some (it, below) ->
  is_text_at tokens (sq_token it) /\ StackOK tokens below.
Proof.
  unfold StackOK. induction stack as [|x rest IH]; intros H F; cbn in F; [discriminate|].
  inversion H; subst.
  destruct (sq_level x <? lvl); [discriminate|].
  destruct (Bool.eqb (sq_single x) single && (sq_level x =? lvl)).
  - injection F as <- <-. split; assumption.
  - apply IH; assumption.
Qed.

Lemma sq_while_shape quotes i lvl : forall fuel tokens stack text pos tokens' stack',
  is_text_at tokens i -> StackOK tokens stack ->
  sq_while fuel quotes i lvl tokens stack text pos = (tokens', stack') ->
  map erase_text tokens' = map erase_text tokens /\ StackOK tokens' stack' /\ is_text_at tokens' i.
Proof.
  induction fuel as [|fuel IH]; intros tokens stack text pos tokens' stack' Hi Hs H; cbn [sq_while] in H.
  { injection H as <- <-. auto. }
  destruct (negb (pos <? len text)); [injection H as <- <-; auto|].
  destruct (find_quote text pos) as [q|]; [|injection H as <- <-; auto].
  (* name the decisions, their values do not matter for the shape *)
  set (isSingle := match char_at text q with Some 39 => true | _ => false end) in H.
  match type of H with context [if negb ?co && negb ?cc then _ else _] => set (canOpen := co) in H; set (canClose := cc) in H end.
  destruct (negb canOpen && negb canClose).
  { destruct isSingle.
    - apply IH in H; [|apply is_text_at_set, Hi|apply stackok_set, Hs].
      destruct H as [A [B C]]. rewrite A. rewrite set_content_at_shape by exact Hi. auto.
    - apply IH in H; auto. }
  destruct (if canClose then find_opener stack lvl isSingle else None) as [[it below]|] eqn:FO.
  - destruct canClose; [|discriminate].
    destruct (find_opener_ok tokens stack lvl isSingle it below Hs FO) as [Hit Hb].
    apply IH in H.
    + destruct H as [A [B C]]. rewrite A.
      rewrite set_content_at_shape by (apply is_text_at_set, Hit).
      rewrite set_content_at_shape by exact Hi. auto.
    + apply is_text_at_set, is_text_at_set, Hi.
    + apply stackok_set, stackok_set, Hb.
  - destruct canOpen.
    + apply IH in H; auto. constructor; [exact Hi | exact Hs].
    + destruct (canClose && isSingle).
      * apply IH in H; [|apply is_text_at_set, Hi|apply stackok_set, Hs].
        destruct H as [A [B C]]. rewrite A. rewrite set_content_at_shape by exact Hi. auto.
      * apply IH in H; auto.
Qed.

Lemma sq_tokens_shape quotes : forall n i tokens stack inside,
  StackOK tokens stack -> map erase_text (sq_tokens n quotes i tokens stack inside) = map erase_text tokens.
Proof.
  induction n as [|n IH]; intros i tokens stack inside Hs; cbn [sq_tokens]; [reflexivity|].
  destruct (nth_error tokens i) as [t|] eqn:N; [|reflexivity].
  match goal with |- context [if negb (str_eqb (ttype t) s_text) || negb (?k =? 0) then _ else _] => set (ins := k) end.
  destruct (negb (str_eqb (ttype t) s_text)) eqn:ET; cbn [orb].
  - apply IH, truncate_ok, Hs.
  - destruct (negb (ins =? 0)).
    + apply IH, truncate_ok, Hs.
    + destruct (sq_while (S (length (tcontent t))) quotes i (tlevel t) tokens (truncate_stack stack (tlevel t)) (tcontent t) 0)
        as [tokens' stack'] eqn:W.
      assert (Hi : is_text_at tokens i).
      { unfold is_text_at. rewrite N. apply Bool.negb_false_iff in ET. exact ET. }
      destruct (sq_while_shape quotes i (tlevel t) _ _ _ _ _ _ _ Hi (truncate_ok _ _ _ Hs) W) as [A [B _]].
      rewrite IH by exact B. exact A.
Qed.

Theorem process_inlines_shape quotes tokens :
  map erase_text (process_inlines quotes tokens) = map erase_text tokens.
Proof. unfold process_inlines. apply sq_tokens_shape. constructor. Qed.

Lemma update_nth_length {A} (g : A -> A) l i : length (update_nth i g l) = length l.
Proof. unfold update_nth. revert i; induction l as [|x l IH]; intros [|i]; cbn; auto. Qed.

Theorem smartquotes_shape b quotes ts : map erase_inline (smartquotes b quotes ts) = map erase_inline ts.
Proof.
  unfold smartquotes. destruct b; [|reflexivity]. rewrite map_map. apply map_ext. intros t.
  unfold smartquotes_inline.
  destruct (negb (str_eqb (ttype t) s_inline) || negb (test Gen.Regexes.re_smartquotes_QUOTE_RE (tcontent t))); [reflexivity|].
  destruct (tchildren t) as [ch|] eqn:EC; [|reflexivity].
  unfold erase_inline. change (tchildren (set_children t (Some (process_inlines quotes ch)))) with (Some (process_inlines quotes ch)).
  rewrite EC. rewrite process_inlines_shape. reflexivity.
Qed.

(* in particular: escapes and entities (text_special) and every other non-text token are
   byte-identical after both rules *)
Corollary typographer_keeps_non_text quotes ch t i :
  nth_error ch i = Some t -> str_eqb (ttype t) s_text = false ->
  nth_error (process_inlines quotes (replace_walk (fun _ => true) replace_scoped_text ch 0)) i = Some t.
Proof.
  intros N E.
  pose proof (process_inlines_shape quotes (replace_walk (fun _ => true) replace_scoped_text ch 0)) as S1.
  rewrite replace_walk_shape in S1.
  assert (M : nth_error (map erase_text ch) i = Some (erase_text t)) by (rewrite nth_error_map, N; reflexivity).
  rewrite <- S1 in M. rewrite nth_error_map in M.
  destruct (nth_error (process_inlines quotes (replace_walk (fun _ : str => true) replace_scoped_text ch 0)) i) as [t'|];
    [|discriminate]. cbn in M. injection M as M. f_equal.
  unfold erase_text in M. rewrite E in M.
  destruct (str_eqb (ttype t') s_text) eqn:E'; [|exact M].
  (* t' a text token whose erasure equals the non-text t: impossible *)
  exfalso. assert (ttype t = ttype t') by (rewrite <- M; reflexivity). congruence.
Qed.

(* ---- text_join: the merge pattern depends on types only ---- *)

Lemma erase_type t : ttype (erase_text t) = ttype t.
Proof. unfold erase_text. destruct (str_eqb (ttype t) s_text); reflexivity. Qed.

Lemma erase_eq_type a b : erase_text a = erase_text b -> ttype a = ttype b.
Proof. intros H. rewrite <- (erase_type a), <- (erase_type b), H. reflexivity. Qed.

Lemma join_push_shape accx accy x y :
  map erase_text accx = map erase_text accy -> erase_text x = erase_text y ->
  map erase_text (join_push accx x) = map erase_text (join_push accy y).
Proof.
  intros HA HX. pose proof (erase_eq_type _ _ HX) as TX.
  destruct accx as [|px ax], accy as [|py ay]; cbn [map] in HA; try discriminate.
  - cbn. rewrite HX. reflexivity.
  - injection HA as HP HR. pose proof (erase_eq_type _ _ HP) as TP.
    unfold join_push. rewrite TX, TP.
    destruct (str_eqb (ttype y) s_text && str_eqb (ttype py) s_text) eqn:E.
    + cbn [map]. f_equal; [|exact HR].
      apply Bool.andb_true_iff in E. destruct E as [_ E2].
      rewrite !erase_text_set_content by (rewrite ?TP; exact E2). exact HP.
    + cbn [map]. rewrite HX, HP, HR. reflexivity.
Qed.

(* join_tok: a text_special becomes text, images are joined inside; the erased result
   depends only on the erased argument when the argument is not an image (the
   typographic rules never touch images or their children) *)
Lemma join_tok_erase x y :
  erase_text x = erase_text y -> erase_text (join_tok x) = erase_text (join_tok y).
Proof.
  intros H. unfold erase_text in H.
  destruct (str_eqb (ttype x) s_text) eqn:Ex, (str_eqb (ttype y) s_text) eqn:Ey.
  - (* both text: join_tok only re-types text_special, and text is not text_special or image *)
    apply str_eqb_eq in Ex. apply str_eqb_eq in Ey.
    assert (Fx : forall t, ttype t = s_text -> join_tok t = t).
    { intros t Ht. destruct t as [ty tag nst ats mp lv ch co mk inf me bl hd]. cbn in Ht. subst ty.
      cbn [join_tok ttype tchildren ttag tnesting tattrs tmap tlevel tcontent tmarkup tinfo tmeta tblock thidden].
      change (str_eqb s_text s_text_special) with false. cbn iota.
      change (str_eqb s_text s_image) with false. destruct ch as [[|c l]|]; reflexivity. }
    rewrite (Fx x Ex), (Fx y Ey). unfold erase_text. rewrite Ex, Ey, !str_eqb_refl. exact H.
  - exfalso. assert (ttype x = ttype y) by (rewrite <- H; reflexivity). congruence.
  - exfalso. assert (ttype x = ttype y) by (rewrite H; reflexivity). congruence.
  - subst y. reflexivity.
Qed.

Lemma join_fold_shape : forall lx ly accx accy,
  map erase_text lx = map erase_text ly -> map erase_text accx = map erase_text accy ->
  map erase_text (fold_left (fun acc y => join_push acc (join_tok y)) lx accx)
  = map erase_text (fold_left (fun acc y => join_push acc (join_tok y)) ly accy).
Proof.
  induction lx as [|x lx IH]; intros [|y ly] accx accy HL HA; cbn [map] in HL; try discriminate.
  - exact HA.
  - injection HL as HX HR. cbn [fold_left]. apply IH; [exact HR|].
    apply join_push_shape; [exact HA | apply join_tok_erase, HX].
Qed.

Theorem join_children_shape lx ly :
  map erase_text lx = map erase_text ly ->
  map erase_text (join_children lx) = map erase_text (join_children ly).
Proof.
  intros H. unfold join_children. rewrite !map_rev. f_equal. apply join_fold_shape; [exact H | reflexivity].
Qed.
