(* C15: Token.from_dict (Token.as_dict t) = t, for both attribute formats, with and
   without converting children, for every token whose attrs dict has unique keys
   (a fact about every Python dict), recursively. *)
From MD Require Import Base.Py Base.Str Base.Opt Model.Token.

Local Arguments str_eqb : simpl never.

Fixpoint nodup_keys {V} (m : list (str * V)) : bool :=
  match m with
  | [] => true
  | (k, _) :: m' => negb (mem_str k (map fst m')) && nodup_keys m'
  end.

Fixpoint attrs_okb (t : token) : bool :=
  nodup_keys (tattrs t)
  && match tchildren t with
     | None => true
     | Some l => (fix go (l : list token) : bool := match l with [] => true | x :: l' => attrs_okb x && go l' end) l
     end.

Lemma alookup_absent {V} k (m : list (str * V)) : mem_str k (map fst m) = false -> alookup k m = None.
Proof.
  induction m as [|[k' v] m IH]; simpl; intros H; [reflexivity|].
  apply Bool.orb_false_iff in H. destruct H as [H1 H2]. rewrite H1. apply IH, H2.
Qed.

Lemma aset_absent {V} k (v : V) m : mem_str k (map fst m) = false -> aset k v m = m ++ [(k, v)].
Proof.
  induction m as [|[k' v'] m IH]; simpl; intros H; [reflexivity|].
  apply Bool.orb_false_iff in H. destruct H as [H1 H2]. rewrite H1. rewrite IH by exact H2. reflexivity.
Qed.

Lemma mem_str_app k a b : mem_str k (a ++ b) = mem_str k a || mem_str k b.
Proof. unfold mem_str. apply existsb_app. Qed.

(* folding the pairs back with dict semantics rebuilds the same association list *)
Lemma pairs_roundtrip (ats : list (str * aval)) : forall acc,
  nodup_keys ats = true ->
  (forall k, mem_str k (map fst ats) = true -> mem_str k (map fst acc) = false) ->
  pairs_to_attrs (map (fun kv => DList [DStr (fst kv); dval_of_aval (snd kv)]) ats) acc = Some (acc ++ ats).
Proof.
  induction ats as [|[k v] ats IH]; intros acc ND Dis; simpl.
  - rewrite app_nil_r. reflexivity.
  - simpl in ND. apply Bool.andb_true_iff in ND. destruct ND as [N1 N2]. apply Bool.negb_true_iff in N1.
    assert (A : aval_of_dval (dval_of_aval v) = Some v) by (destruct v; reflexivity). rewrite A.
    assert (Hk : mem_str k (map fst acc) = false).
    { apply Dis. simpl. rewrite str_eqb_refl. reflexivity. }
    rewrite aset_absent by exact Hk. rewrite IH.
    + rewrite <- app_assoc. reflexivity.
    + exact N2.
    + intros k' Hk'. rewrite map_app, mem_str_app. simpl.
      rewrite (Dis k') by (simpl; rewrite Hk'; apply Bool.orb_true_r). simpl.
      destruct (str_eqb_spec k' k) as [->|N]; [congruence | reflexivity].
Qed.

Lemma dict_roundtrip_attrs (ats : list (str * aval)) : forall acc,
  nodup_keys ats = true ->
  (forall k, mem_str k (map fst ats) = true -> mem_str k (map fst acc) = false) ->
  dict_to_attrs (map (fun kv => (fst kv, dval_of_aval (snd kv))) ats) acc = Some (acc ++ ats).
Proof.
  induction ats as [|[k v] ats IH]; intros acc ND Dis; simpl.
  - rewrite app_nil_r. reflexivity.
  - simpl in ND. apply Bool.andb_true_iff in ND. destruct ND as [N1 N2]. apply Bool.negb_true_iff in N1.
    assert (A : aval_of_dval (dval_of_aval v) = Some v) by (destruct v; reflexivity). rewrite A.
    assert (Hk : mem_str k (map fst acc) = false).
    { apply Dis. simpl. rewrite str_eqb_refl. reflexivity. }
    rewrite aset_absent by exact Hk. rewrite IH.
    + rewrite <- app_assoc. reflexivity.
    + exact N2.
    + intros k' Hk'. rewrite map_app, mem_str_app. simpl.
      rewrite (Dis k') by (simpl; rewrite Hk'; apply Bool.orb_true_r). simpl.
      destruct (str_eqb_spec k' k) as [->|N]; [congruence | reflexivity].
Qed.

Lemma convert_attrs_roundtrip up ats :
  nodup_keys ats = true -> convert_attrs (attrs_to_dval up ats) = Some ats.
Proof.
  intros ND. unfold attrs_to_dval. destruct up.
  - destruct ats as [|kv ats]; [reflexivity|].
    unfold convert_attrs. cbn [map].
    change (DList [DStr (fst kv); dval_of_aval (snd kv)] :: map (fun kv0 => DList [DStr (fst kv0); dval_of_aval (snd kv0)]) ats)
      with (map (fun kv0 => DList [DStr (fst kv0); dval_of_aval (snd kv0)]) (kv :: ats)).
    rewrite (pairs_roundtrip (kv :: ats) [] ND); [reflexivity|]. intros; reflexivity.
  - unfold convert_attrs. rewrite (dict_roundtrip_attrs ats [] ND); [reflexivity|]. intros; reflexivity.
Qed.

Lemma meta_roundtrip me : dict_to_meta (map (fun kv => (fst kv, DStr (snd kv))) me) = Some me.
Proof. induction me as [|[k v] me IH]; simpl; [reflexivity|]. rewrite IH. reflexivity. Qed.

Definition RT (t : token) : Prop :=
  forall n c u, attrs_okb t = true -> (depth t <= n)%nat -> from_dict n (as_dict c u t) = Some t.

Lemma max_le_l a b n : (Nat.max a b <= n -> a <= n)%nat. Proof. lia. Qed.
Lemma max_le_r a b n : (Nat.max a b <= n -> b <= n)%nat. Proof. lia. Qed.

(* the thirteen lookups on the dictionary as_dict builds *)
Section Lookups.
Context (c u : bool) (t : token).
Let m := as_dict c u t.
Lemma lk_type : get_str s_type m = Some (ttype t). Proof. destruct t; reflexivity. Qed.
Lemma lk_tag : get_str s_tag m = Some (ttag t). Proof. destruct t; reflexivity. Qed.
Lemma lk_nesting : get_int s_nesting m = Some (tnesting t). Proof. destruct t; reflexivity. Qed.
Lemma lk_level : get_int s_level m = Some (tlevel t). Proof. destruct t; reflexivity. Qed.
Lemma lk_content : get_str s_content m = Some (tcontent t). Proof. destruct t; reflexivity. Qed.
Lemma lk_markup : get_str s_markup m = Some (tmarkup t). Proof. destruct t; reflexivity. Qed.
Lemma lk_info : get_str s_info m = Some (tinfo t). Proof. destruct t; reflexivity. Qed.
Lemma lk_block : get_bool s_block m = Some (tblock t). Proof. destruct t; reflexivity. Qed.
Lemma lk_hidden : get_bool s_hidden m = Some (thidden t). Proof. destruct t; reflexivity. Qed.
Lemma lk_attrs : alookup s_attrs m = Some (attrs_to_dval u (tattrs t)). Proof. destruct t; reflexivity. Qed.
Lemma lk_map : alookup s_map m = Some (match tmap t with None => DNone | Some (a, b) => DList [DInt a; DInt b] end).
Proof. destruct t; reflexivity. Qed.
Lemma lk_meta : alookup s_meta m = Some (DDict (map (fun kv => (fst kv, DStr (snd kv))) (tmeta t))).
Proof. destruct t; reflexivity. Qed.
End Lookups.

Definition children_dval (c u : bool) (ch : option (list token)) : dval :=
  match ch with
  | None => DNone
  | Some [] => DList []
  | Some l => if c then DList (map (fun x => DDict (as_dict c u x)) l) else DList (map DToken l)
  end.

Lemma lk_children c u t : alookup s_children (as_dict c u t) = Some (children_dval c u (tchildren t)).
Proof.
  destruct t as [ty tag nst ats mp lv ch co mk inf me bl hd]. cbn [tchildren children_dval].
  destruct ch as [[|x l]|]; reflexivity.
Qed.

Definition conv_children (n : nat) (d : dval) : option (option (list token)) :=
  match d with
  | DNone => Some None
  | DList l =>
      (fix go (l : list dval) : option (option (list token)) :=
         match l with
         | [] => Some (Some [])
         | d :: l' =>
             match (match d with
                    | DToken t => Some t
                    | DDict m' => from_dict n m'
                    | _ => None end), go l' with
             | Some t, Some (Some r) => Some (Some (t :: r))
             | _, _ => None
             end
         end) l
  | _ => None
  end.

(* from_dict, one level, in terms of the lookups *)
Lemma from_dict_S n m :
  from_dict (S n) m =
  match get_str s_type m, get_str s_tag m, get_int s_nesting m, get_int s_level m,
        get_str s_content m, get_str s_markup m, get_str s_info m, get_bool s_block m, get_bool s_hidden m with
  | Some ty, Some tag, Some nst, Some lv, Some co, Some mk, Some inf, Some bl, Some hd =>
    match alookup s_attrs m with
    | None => None
    | Some da =>
      match convert_attrs da with
      | None => None
      | Some ats =>
        match (match alookup s_map m with
               | Some (DList [DInt a; DInt b]) => Some (Some (a, b))
               | Some DNone => Some None
               | _ => None end),
              (match alookup s_meta m with Some (DDict l) => dict_to_meta l | _ => None end),
              (match alookup s_children m with Some d => conv_children n d | None => None end) with
        | Some mp, Some me, Some ch => Some (Tok ty tag nst ats mp lv ch co mk inf me bl hd)
        | _, _, _ => None
        end
      end
    end
  | _, _, _, _, _, _, _, _, _ => None
  end.
Proof.
  cbn [from_dict]. unfold conv_children.
  destruct (get_str s_type m), (get_str s_tag m), (get_int s_nesting m), (get_int s_level m),
    (get_str s_content m), (get_str s_markup m), (get_str s_info m), (get_bool s_block m), (get_bool s_hidden m);
    reflexivity.
Qed.

Lemma conv_children_roundtrip n c u (l : list token) :
  Forall (fun x => from_dict n (as_dict c u x) = Some x) l ->
  conv_children n (children_dval c u (Some l)) = Some (Some l).
Proof.
  intros HF. destruct l as [|x l]; [reflexivity|]. unfold children_dval.
  set (L := x :: l) in *. clearbody L. clear x l.
  destruct c; unfold conv_children.
  - induction HF as [|y l Hy Hl IH]; [reflexivity|]. cbn [map]. rewrite Hy, IH. reflexivity.
  - clear HF. induction L as [|y l IH]; [reflexivity|]. cbn [map]. rewrite IH. reflexivity.
Qed.

Theorem dict_roundtrip t : RT t.
Proof.
  induction t as [ty tag nst ats mp lv ch co mk inf me bl hd IH] using token_ind'.
  intros n c u OK Hd. destruct n as [|n]; [simpl in Hd; lia|].
  cbn [attrs_okb tattrs tchildren] in OK. apply Bool.andb_true_iff in OK. destruct OK as [OKa OKc].
  cbn [depth tchildren] in Hd. apply le_S_n in Hd.
  rewrite from_dict_S.
  rewrite lk_type, lk_tag, lk_nesting, lk_level, lk_content, lk_markup, lk_info, lk_block, lk_hidden,
          lk_attrs, lk_map, lk_meta, lk_children.
  cbn [ttype ttag tnesting tattrs tmap tlevel tchildren tcontent tmarkup tinfo tmeta tblock thidden].
  rewrite (convert_attrs_roundtrip u ats OKa), meta_roundtrip.
  assert (Hmp : match Some (match mp with None => DNone | Some (a, b) => DList [DInt a; DInt b] end) with
                | Some (DList [DInt a; DInt b]) => Some (Some (a, b))
                | Some DNone => Some None
                | _ => None end = Some mp).
  { destruct mp as [[a b]|]; reflexivity. }
  rewrite Hmp.
  destruct ch as [l|]; [|reflexivity].
  rewrite conv_children_roundtrip; [reflexivity|].
  cbn [Forall_opt] in IH.
  (* every child round-trips at fuel n *)
  revert OKc Hd. induction IH as [|y l0 Hy Hl IHl]; intros OKc Hd; constructor.
  - apply Bool.andb_true_iff in OKc. destruct OKc as [O1 _]. apply Hy; [exact O1|].
    eapply max_le_l. exact Hd.
  - apply IHl.
    + apply Bool.andb_true_iff in OKc. destruct OKc as [_ O2]. exact O2.
    + eapply max_le_r. exact Hd.
Qed.

(* statement in the form of the property: every flag combination *)
Corollary dict_roundtrip_all t :
  attrs_okb t = true ->
  forall children upstream, from_dict (depth t) (as_dict children upstream t) = Some t.
Proof. intros H c u. apply dict_roundtrip; [exact H | lia]. Qed.
