(* C06 / C18, the block quote context on a one-line document.  For EVERY line s that starts with a letter,
   has no blank at its end and no line-end character, and every configuration whose block chain tries the
   block quote rule before anything that could claim the line:  parse("> " s LF)  is
   blockquote_open, paragraph_open, inline, paragraph_close, blockquote_close  where the three inner tokens
   are exactly those of  parse(s LF)  one level deeper - same content, same map - and the children of the
   inline token are exactly what parseInline(s) produces.  First part: the block rules on a line that
   starts at an offset inside the source (what the nested block loop sees after the marker is stripped). *)
From RecordUpdate Require Import RecordUpdate.
From MD Require Import Base.Py Base.Str Base.Regex Base.Opt Model.Token Model.Utils Model.StateBlock Model.Helpers
     Model.Url Model.Render Model.Core Model.Block Model.Inline Model.Pipeline
     Lemmas.StrLemmas Lemmas.StrLemmas2 Lemmas.BlockLemmas Lemmas.QuoteLemmas Lemmas.BlockWF Lemmas.ParaLine.
From Coq Require Import ZifyBool.

Local Arguments Z.eqb : simpl never.
Local Arguments Z.ltb : simpl never.
Local Arguments Z.leb : simpl never.
Local Arguments str_eqb : simpl never.

(* the state of the block loop on the line s that begins len(pre) characters into  pre s LF *)
(* pre1: what the containers have moved bMarks past; pre2: what they have masked through tShift (a list marker
   and its blanks, tab-free), counted in sCount and blkIndent *)
Definition off_line (st : bstate) (pre1 pre2 s : str) (bs li lv : Z) : Prop :=
  b_src st = pre1 ++ pre2 ++ s ++ [10]
  /\ b_bMarks st = [len pre1; len pre1 + len pre2 + len s + 1] /\ b_eMarks st = [len pre1 + len pre2 + len s; len pre1 + len pre2 + len s + 1]
  /\ b_tShift st = [len pre2; 0] /\ b_sCount st = [len pre2; 0] /\ b_bsCount st = [bs; 0]
  /\ b_blkIndent st = len pre2 /\ b_lineMax st = 1 /\ b_listIndent st = li /\ b_level st = lv.

Section OffLine.
Context (cfg : bcfg) (rf cf : str -> str).
Context (pre1 pre2 s : str) (bs li lv : Z) (Hs : line_ok s).
Context (Hp2 : forall x, In x pre2 -> x <> 9).
Notation off := (len pre1 + len pre2).

Definition same_off (st st' : bstate) : Prop :=
  off_line st' pre1 pre2 s bs li lv /\ b_tokens st' = b_tokens st /\ b_env st' = b_env st /\ b_line st' = b_line st /\ b_tight st' = b_tight st.

Lemma same_off_refl st : off_line st pre1 pre2 s bs li lv -> same_off st st.
Proof. intros H. repeat split; try reflexivity; apply H. Qed.

Ltac ol H := destruct H as (?Hsrc & ?HbM & ?HeM & ?HtS & ?HsC & ?HbS & ?HbI & ?HlM & ?HlI & ?Hlv).

Lemma head_facts : exists c0 body, s = c0 :: body /\ letter c0 /\ 0 < len s.
Proof.
  destruct Hs as [(c0 & body & E & L & _) _]. exists c0, body. repeat split; try assumption.
  rewrite E, len_cons. pose proof (len_nonneg body). lia.
Qed.

Lemma src_head st : off_line st pre1 pre2 s bs li lv ->
  exists c0, letter c0 /\ char_at (b_src st) off = Some c0 /\ py_idx (b_src st) off = Ok c0.
Proof.
  intros H. ol H. destruct head_facts as (c0 & body & E & L & _). exists c0. rewrite Hsrc, E. split; [exact L|].
  pose proof (len_nonneg pre1). pose proof (len_nonneg pre2). cbn [app].
  rewrite app_assoc. rewrite <- len_app.
  assert (C : char_at ((pre1 ++ pre2) ++ c0 :: body ++ [10]) (len (pre1 ++ pre2)) = Some c0).
  { unfold char_at, get. pose proof (len_nonneg (pre1 ++ pre2)). assert (B : (len (pre1 ++ pre2) <? 0) = false) by lia. cbv zeta. rewrite !B. unfold len. rewrite Nat2Z.id.
    apply nth_error_app_mid. }
  split; [exact C | apply py_idx_app].
Qed.

Lemma ls0 st : off_line st pre1 pre2 s bs li lv -> line_start st 0 = Ok off.
Proof. intros H. ol H. unfold line_start. rewrite HbM, HtS. reflexivity. Qed.
Lemma em0 st : off_line st pre1 pre2 s bs li lv -> tb (b_eMarks st) 0 = Ok (off + len s).
Proof. intros H. ol H. rewrite HeM. reflexivity. Qed.
Lemma sc0 st : off_line st pre1 pre2 s bs li lv -> tb (b_sCount st) 0 = Ok (len pre2).
Proof. intros H. ol H. rewrite HsC. reflexivity. Qed.
Lemma cb0 st : off_line st pre1 pre2 s bs li lv -> code_block_at cfg st 0 = Ok false.
Proof.
  intros H. unfold code_block_at, is_code_block. rewrite (sc0 st H). cbn [bind]. ol H. rewrite HbI.
  rewrite Z.sub_diag. change (4 <=? 0) with false. rewrite Bool.andb_false_r. reflexivity.
Qed.

Lemma r_table_fail term st : off_line st pre1 pre2 s bs li lv -> r_table cfg term st 0 1 false = Ok (false, st).
Proof. intros _. unfold r_table. change (1 <? 0 + 2) with true. reflexivity. Qed.

Lemma r_code_fail st : off_line st pre1 pre2 s bs li lv -> r_code cfg st 0 1 false = Ok (false, st).
Proof. intros H. unfold r_code. rewrite (cb0 st H). reflexivity. Qed.

Lemma r_fence_fail st : off_line st pre1 pre2 s bs li lv -> r_fence cfg st 0 1 false = Ok (false, st).
Proof.
  intros H. unfold r_fence. rewrite (ls0 st H), (em0 st H), (cb0 st H). cbn [bind]. cbv iota.
  match goal with |- (if ?c then _ else _) = _ => destruct c end; [reflexivity|].
  destruct (src_head st H) as (c0 & L & _ & P). rewrite P. cbn [bind].
  assert (E : negb ((c0 =? 126) || (c0 =? 96)) = true) by (unfold letter in L; lia). rewrite E. reflexivity.
Qed.

Lemma r_blockquote_fail rec term st : off_line st pre1 pre2 s bs li lv -> r_blockquote cfg rec term st 0 1 false = Ok (false, st).
Proof.
  intros H. unfold r_blockquote. rewrite (ls0 st H), (em0 st H), (cb0 st H). cbn [bind]. cbv iota.
  rewrite match_some_62. destruct (src_head st H) as (c0 & L & C & _). rewrite C.
  assert (E : (c0 =? 62) = false) by (unfold letter in L; lia). rewrite E. reflexivity.
Qed.

Lemma r_hr_fail st : off_line st pre1 pre2 s bs li lv -> r_hr cfg st 0 1 false = Ok (false, st).
Proof.
  intros H. unfold r_hr. rewrite (ls0 st H), (em0 st H), (cb0 st H). cbn [bind]. cbv iota.
  destruct (src_head st H) as (c0 & L & C & _). rewrite C.
  assert (E : negb ((c0 =? 42) || (c0 =? 45) || (c0 =? 95)) = true) by (unfold letter in L; lia). rewrite E. reflexivity.
Qed.

Lemma r_heading_fail st : off_line st pre1 pre2 s bs li lv -> r_heading cfg st 0 1 false = Ok (false, st).
Proof.
  intros H. unfold r_heading. rewrite (ls0 st H), (em0 st H), (cb0 st H). cbn [bind]. cbv iota.
  destruct head_facts as (_ & _ & _ & _ & Hl). assert (E0 : (off + len s <=? off) = false) by lia. rewrite E0.
  destruct (src_head st H) as (c0 & L & _ & P). rewrite P. cbn [bind].
  assert (E : negb (c0 =? 35) = true) by (unfold letter in L; lia). rewrite E. reflexivity.
Qed.

Lemma r_html_block_fail st : off_line st pre1 pre2 s bs li lv -> r_html_block cfg st 0 1 false = Ok (false, st).
Proof.
  intros H. unfold r_html_block. rewrite (ls0 st H), (em0 st H), (cb0 st H). cbn [bind]. cbv iota.
  destruct (negb (c_html cfg)); [reflexivity|].
  destruct head_facts as (_ & _ & _ & _ & Hl). assert (E0 : (off + len s <=? off) = false) by lia. rewrite E0.
  destruct (src_head st H) as (c0 & L & _ & P). rewrite P. cbn [bind].
  assert (E : negb (c0 =? 60) = true) by (unfold letter in L; lia). rewrite E. reflexivity.
Qed.

Lemma r_reference_fail term st : off_line st pre1 pre2 s bs li lv -> r_reference cfg rf cf term st 0 1 false = Ok (false, st).
Proof.
  intros H. unfold r_reference. rewrite (ls0 st H), (em0 st H), (cb0 st H). cbn [bind]. cbv iota.
  destruct (src_head st H) as (c0 & L & _ & P). rewrite P. cbn [bind].
  assert (E : negb (c0 =? 91) = true) by (unfold letter in L; lia). rewrite E. reflexivity.
Qed.

Lemma r_list_fail rec term st : off_line st pre1 pre2 s bs li lv -> r_list cfg rec term st 0 1 false = Ok (false, st).
Proof.
  intros H. unfold r_list. rewrite (cb0 st H), (sc0 st H). cbn [bind]. cbv iota.
  pose proof H as H'. ol H'. rewrite HbI, Z.ltb_irrefl, Bool.andb_false_r. cbv iota.
  destruct (src_head st H) as (c0 & L & C & P).
  assert (SO : skip_ordered st 0 = Ok (-1)).
  { unfold skip_ordered. rewrite (ls0 st H), (em0 st H). cbn [bind].
    match goal with |- (if ?c then _ else _) = _ => destruct c end; [reflexivity|].
    rewrite P. cbn [bind]. assert (E : negb (is_digit c0) = true) by (unfold is_digit, letter in *; lia). rewrite E. reflexivity. }
  rewrite SO, (ls0 st H). cbn [bind]. change (0 <=? -1) with false. cbv iota.
  assert (SB : skip_bullet st 0 = Ok (-1)).
  { unfold skip_bullet. rewrite (ls0 st H), (em0 st H). cbn [bind]. rewrite C.
    assert (E : negb ((c0 =? 42) || (c0 =? 45) || (c0 =? 43)) = true) by (unfold letter in L; lia). rewrite E. reflexivity. }
  rewrite SB. cbn [bind]. change (0 <=? -1) with false. cbv iota. reflexivity.
Qed.

Lemma empty0 st : off_line st pre1 pre2 s bs li lv -> is_empty st 0 = Ok false.
Proof.
  intros H. unfold is_empty. rewrite (ls0 st H), (em0 st H). cbn [bind].
  destruct head_facts as (_ & _ & _ & _ & Hl). assert (E : (off + len s <=? off) = false) by lia. rewrite E. reflexivity.
Qed.

Lemma r_lheading_fail term st : off_line st pre1 pre2 s bs li lv ->
  exists st', r_lheading cfg term st 0 1 false = Ok (false, st') /\ same_off st st'.
Proof.
  intros H. unfold r_lheading. rewrite (cb0 st H). cbn [bind]. cbv iota.
  change (Z.to_nat (1 - 0)) with 1%nat. rewrite para_scan_stop. cbn [bind].
  eexists. split; [reflexivity|]. unfold same_off, off_line, st_parent. cbn. repeat split; try reflexivity; apply H.
Qed.

(* getLines of the single line: the masked marker characters are skipped column by column, then the characters
   from the offset to the end mark are copied *)
Lemma gl_mask src lineStart indent ts bsv last : forall p2 A rest k fuel,
  src = A ++ p2 ++ rest -> (forall x, In x p2 -> x <> 9) ->
  len A - lineStart + len p2 <= ts -> k + len p2 <= indent -> len A + len p2 <= last -> (length p2 <= fuel)%nat ->
  gl_scan fuel src (len A) last lineStart k indent ts bsv
  = gl_scan (fuel - length p2) src (len A + len p2) last lineStart (k + len p2) indent ts bsv.
Proof.
  induction p2 as [|c p2 IH]; intros A rest k fuel E NT HT HK HL HF.
  - cbn [length]. rewrite Nat.sub_0_r. change (len (@nil Z)) with 0. rewrite !Z.add_0_r. reflexivity.
  - destruct fuel as [|f]; [cbn [length] in HF; lia|]. cbn [gl_scan].
    rewrite len_cons in *. pose proof (len_nonneg p2).
    assert (C1 : ((len A <? last) && (k <? indent)) = true) by lia. rewrite C1.
    assert (PI : py_idx src (len A) = Ok c) by (rewrite E; cbn [app]; apply py_idx_app). rewrite PI. cbn [bind].
    assert (N9 : (c =? 9) = false) by (pose proof (NT c (or_introl eq_refl)); lia). rewrite N9.
    assert (M : (len A - lineStart <? ts) = true) by lia. rewrite M.
    assert (SAME : (if is_space c then gl_scan f src (len A + 1) last lineStart (k + 1) indent ts bsv
                    else gl_scan f src (len A + 1) last lineStart (k + 1) indent ts bsv)
                   = gl_scan f src (len A + 1) last lineStart (k + 1) indent ts bsv) by (destruct (is_space c); reflexivity).
    rewrite SAME.
    replace (len A + 1) with (len (A ++ [c])) by (rewrite len_app; reflexivity).
    rewrite (IH (A ++ [c]) rest (k + 1) f).
    + cbn [length Nat.sub]. rewrite len_app. change (len [c]) with 1. f_equal; lia.
    + rewrite E, <- app_assoc. reflexivity.
    + intros x I. apply NT. right. exact I.
    + rewrite len_app. change (len [c]) with 1. lia.
    + lia.
    + rewrite len_app. change (len [c]) with 1. lia.
    + cbn [length] in HF. lia.
Qed.

Lemma get_lines0 st : off_line st pre1 pre2 s bs li lv -> get_lines st 0 1 (len pre2) false = Ok s.
Proof.
  intros H. ol H. unfold get_lines. change (1 <=? 0) with false. cbv iota.
  change (Z.to_nat (1 - 0)) with 1%nat. cbn [get_lines_loop]. change (negb (0 <? 1)) with false. cbv iota.
  rewrite HbM, HeM, HtS, HbS. cbn [tb bind].
  change (tb [len pre1; off + len s + 1] 0) with (Ok (len pre1) : res Z).
  change (tb [off + len s; off + len s + 1] 0) with (Ok (off + len s) : res Z).
  change (tb [len pre2; 0] 0) with (Ok (len pre2) : res Z). change (tb [bs; 0] 0) with (Ok bs : res Z). cbn [bind].
  change (0 + 1 <? 1) with false. cbn [orb]. cbv iota.
  pose proof (len_nonneg pre1). pose proof (len_nonneg pre2). pose proof (len_nonneg s).
  rewrite (gl_mask (b_src st) (len pre1) (len pre2) (len pre2) bs (off + len s) pre2 pre1 (s ++ [10]) 0 (S (length (b_src st)))); try lia; try assumption.
  2:{ rewrite Hsrc, !app_length. lia. }
  replace (S (length (b_src st)) - length pre2)%nat with (S (length (b_src st) - length pre2)) by (rewrite Hsrc, !app_length; lia).
  cbn [gl_scan]. rewrite Z.add_0_l, Z.ltb_irrefl, Bool.andb_false_r. cbn [bind]. rewrite Z.ltb_irrefl.
  cbn [get_lines_loop]. cbn [negb]. cbv iota. cbn [bind app].
  rewrite ?app_nil_r, Hsrc. rewrite app_assoc. rewrite <- len_app. rewrite (slice_app_mid (pre1 ++ pre2) s [10]). reflexivity.
Qed.

Lemma r_paragraph_line term st : off_line st pre1 pre2 s bs li lv ->
  exists st', r_paragraph term st 0 1 false = Ok (true, st')
    /\ off_line st' pre1 pre2 s bs li lv /\ b_tokens st' = b_tokens st ++ para_tokens s lv /\ b_env st' = b_env st /\ b_line st' = 1.
Proof.
  intros H. unfold r_paragraph. pose proof H as H'. ol H'. rewrite HlM.
  change (Z.to_nat (1 - 0)) with 1%nat. change (0 + 1) with 1. rewrite para_scan_stop. cbn [bind].
  assert (GL : get_lines (st_parent st nm_paragraph) 0 1 (b_blkIndent (st_parent st nm_paragraph)) false = Ok s).
  { change (b_blkIndent (st_parent st nm_paragraph)) with (b_blkIndent st). rewrite HbI. apply get_lines0.
    unfold off_line, st_parent. cbn. repeat split; assumption. }
  rewrite GL. cbn [bind]. destruct Hs as [_ ST]. rewrite ST.
  eexists. split; [reflexivity|].
  unfold off_line, st_parent, st_line, push_inline, para_tokens. cbn. rewrite Hlv. cbn.
  change (0 <? -1) with false. change (-1 <? 0) with true. change (0 <? 0) with false. change (0 <? 1) with true. change (1 <? 0) with false.
  cbv iota. replace (lv + 1 - 1) with lv by lia.
  repeat split; try assumption; try reflexivity. rewrite <- !app_assoc. reflexivity.
Qed.

(* ---- the chain ---- *)

Context (rpre rpost : list str).
Context (HR : c_rules cfg = rpre ++ nm_paragraph :: rpost).
Context (Hpre : Forall (fun n => str_eqb n nm_paragraph = false) rpre).
Context (Hnest : lv < c_maxNesting cfg).

Lemma apply_rule_fail rec term n st : str_eqb n nm_paragraph = false -> off_line st pre1 pre2 s bs li lv ->
  exists st', apply_rule cfg rf cf rec term n st 0 1 false = Ok (false, st') /\ same_off st st'.
Proof.
  intros Hn H. unfold apply_rule.
  destruct (str_eqb n nm_table); [exists st; split; [apply r_table_fail, H | apply same_off_refl, H]|].
  destruct (str_eqb n nm_code); [exists st; split; [apply r_code_fail, H | apply same_off_refl, H]|].
  destruct (str_eqb n nm_fence); [exists st; split; [apply r_fence_fail, H | apply same_off_refl, H]|].
  destruct (str_eqb n nm_blockquote); [exists st; split; [apply r_blockquote_fail, H | apply same_off_refl, H]|].
  destruct (str_eqb n nm_hr); [exists st; split; [apply r_hr_fail, H | apply same_off_refl, H]|].
  destruct (str_eqb n nm_list); [exists st; split; [apply r_list_fail, H | apply same_off_refl, H]|].
  destruct (str_eqb n nm_reference); [exists st; split; [apply r_reference_fail, H | apply same_off_refl, H]|].
  destruct (str_eqb n nm_html_block); [exists st; split; [apply r_html_block_fail, H | apply same_off_refl, H]|].
  destruct (str_eqb n nm_heading); [exists st; split; [apply r_heading_fail, H | apply same_off_refl, H]|].
  destruct (str_eqb n nm_lheading); [apply r_lheading_fail, H|].
  rewrite Hn. exists st. split; [reflexivity | apply same_off_refl, H].
Qed.

Lemma try_rules_line rec : forall l st, Forall (fun n => str_eqb n nm_paragraph = false) l -> off_line st pre1 pre2 s bs li lv ->
  exists st', try_rules cfg rf cf rec (l ++ nm_paragraph :: rpost) st 0 1 = Ok st'
    /\ off_line st' pre1 pre2 s bs li lv /\ b_tokens st' = b_tokens st ++ para_tokens s lv /\ b_env st' = b_env st /\ b_line st' = 1.
Proof.
  induction l as [|n l IH]; intros st Hl H; cbn [app try_rules].
  - unfold apply_rule.
    change (str_eqb nm_paragraph nm_table) with false. change (str_eqb nm_paragraph nm_code) with false.
    change (str_eqb nm_paragraph nm_fence) with false. change (str_eqb nm_paragraph nm_blockquote) with false.
    change (str_eqb nm_paragraph nm_hr) with false. change (str_eqb nm_paragraph nm_list) with false.
    change (str_eqb nm_paragraph nm_reference) with false. change (str_eqb nm_paragraph nm_html_block) with false.
    change (str_eqb nm_paragraph nm_heading) with false. change (str_eqb nm_paragraph nm_lheading) with false.
    change (str_eqb nm_paragraph nm_paragraph) with true. cbv iota.
    destruct (r_paragraph_line (terminated cfg rf cf) st H) as (st' & E & R). rewrite E. cbn [bind]. cbv iota.
    exists st'. split; [reflexivity | exact R].
  - inversion Hl as [|? ? Hn Hl']; subst.
    destruct (apply_rule_fail rec (terminated cfg rf cf) n st Hn H) as (st1 & E & (O1 & T1 & E1 & L1 & _)). rewrite E. cbn [bind]. cbv iota.
    destruct (IH st1 Hl' O1) as (st' & E' & O' & T' & Ev' & L'). exists st'. split; [exact E'|].
    split; [exact O'|]. split; [rewrite T', T1; reflexivity|]. split; [rewrite Ev', E1; reflexivity | exact L'].
Qed.

Lemma skip_empty0 st fuel : off_line st pre1 pre2 s bs li lv -> skip_empty_lines (S fuel) st 0 = 0.
Proof.
  intros H. cbn [skip_empty_lines]. pose proof H as H'. ol H'. rewrite HlM. change (negb (0 <? 1)) with false. cbv iota.
  rewrite (empty0 st H). reflexivity.
Qed.

(* the block loop on that line, at any depth: one paragraph, the cursor at line 1, everything else as found *)
Theorem tokenize_off_line d st : off_line st pre1 pre2 s bs li lv -> b_line st = 0 ->
  exists st', tokenize cfg rf cf (S d) st 0 1 = Ok st'
    /\ off_line st' pre1 pre2 s bs li lv /\ b_tokens st' = b_tokens st ++ para_tokens s lv /\ b_env st' = b_env st /\ b_line st' = 1
    /\ b_tight st' = true.
Proof.
  intros O0 L0. pose proof O0 as O0'. ol O0'.
  cbn [tokenize]. change (Z.to_nat (1 - 0)) with 1%nat. cbn [tok_loop].
  change (negb (0 <? 1)) with false. cbv iota.
  rewrite HlM. change (Z.to_nat 1) with 1%nat. rewrite (skip_empty0 st 1 O0).
  change (1 <=? 0) with false. cbv iota.
  assert (O1 : off_line (st_line st 0) pre1 pre2 s bs li lv) by (unfold off_line, st_line; cbn; repeat split; assumption).
  rewrite (sc0 (st_line st 0) O1). cbn [bind].
  change (b_blkIndent (st_line st 0)) with (b_blkIndent st). change (b_level (st_line st 0)) with (b_level st).
  rewrite HbI, Hlv. rewrite Z.ltb_irrefl. cbv iota.
  assert (E : (c_maxNesting cfg <=? lv) = false) by lia. rewrite E. rewrite HR.
  destruct (try_rules_line (tokenize cfg rf cf d) rpre (st_line st 0) Hpre O1) as (st2 & TR & O2 & T2 & E2 & L2).
  rewrite TR. cbn [bind].
  set (st3 := st2 <| b_tight := negb false |>).
  assert (O3 : off_line st3 pre1 pre2 s bs li lv) by (unfold off_line, st3; cbn; exact O2).
  change (b_line st3) with (b_line st2). rewrite L2.
  change (1 - 1 <? 1) with true. cbv iota. change (1 - 1) with 0. rewrite (empty0 st3 O3). cbn [bind orb].
  change (1 <? 1) with false. cbv iota. cbn [bind]. cbv iota.
  change (negb (1 <? 1)) with true. cbv iota.
  exists st3. split; [reflexivity|]. split; [exact O3|]. split; [exact T2|]. split; [exact E2|]. split; [exact L2|]. reflexivity.
Qed.

End OffLine.

(* ---- the block quote rule on  "> " s LF ---- *)

Lemma update_nth_tok_app f (a : list token) x rest : update_nth_tok (length a) f (a ++ x :: rest) = a ++ f x :: rest.
Proof. unfold update_nth_tok. induction a as [|y a IH]; cbn [length app]; [reflexivity | f_equal; exact IH]. Qed.

Local Arguments Z.add : simpl never.
Local Arguments Z.sub : simpl never.
Local Arguments len : simpl never.

Section Quote.
Context (cfg : bcfg) (rf cf : str -> str).
Context (s : str) (Hs : line_ok s).

Definition qpre : str := [62; 32].
Definition qline : str := 62 :: 32 :: s.

Lemma s_facts : exists c0 body, s = c0 :: body /\ letter c0 /\ (forall x, In x body -> x <> 10) /\ 0 < len s.
Proof.
  destruct Hs as [(c0 & body & E & L & B) _]. exists c0, body. repeat split; try assumption.
  rewrite E, len_cons. pose proof (len_nonneg body). lia.
Qed.

Lemma len_qline : len qline = len s + 2.
Proof. unfold qline. rewrite !len_cons. lia. Qed.

Lemma init_quote env toks : one_line (state_init (qline ++ [10]) env toks) qline /\ b_tokens (state_init (qline ++ [10]) env toks) = toks
  /\ b_env (state_init (qline ++ [10]) env toks) = env /\ b_line (state_init (qline ++ [10]) env toks) = 0.
Proof.
  destruct s_facts as (c0 & body & E & L & B & _). destruct (letter_not_space c0 L) as [_ Hn].
  unfold state_init. unfold qline. change ((62 :: 32 :: s) ++ [10]) with (62 :: (32 :: s) ++ [10]).
  assert (NB : forall x, In x (32 :: s) -> x <> 10).
  { intros x [<-|I]; [discriminate|]. rewrite E in I. destruct I as [<-|I]; [exact Hn | exact (B x I)]. }
  pose proof (scan_text_line 0 62 (32 :: s) (len (62 :: (32 :: s) ++ [10])) [] [] [] [] 0 0 eq_refl ltac:(discriminate) NB) as SC.
  cbn [repeat_z app] in SC.
  assert (HL : len (62 :: 32 :: s ++ [10]) = len s + 3) by (unfold len; cbn [length]; rewrite app_length; cbn [length]; lia).
  change ((32 :: s) ++ [10]) with (32 :: s ++ [10]) in *.
  rewrite SC by (rewrite HL, len_cons; lia).
  cbv zeta. cbn [sc_bM sc_eM sc_tS sc_sC rev app map].
  unfold one_line. cbn [b_src b_bMarks b_eMarks b_tShift b_sCount b_bsCount b_blkIndent b_lineMax b_listIndent b_level b_tokens b_env b_line].
  rewrite HL, !len_cons. repeat split; try reflexivity; try (f_equal; try lia; f_equal; lia).
Qed.

(* what the marker scan computes for this line: content starts 2 characters in, 2 columns in, no blanks after *)
Lemma bq_strip_quote : bq_strip (qline ++ [10]) 0 (len qline) 0 0 = Ok (mkBq 2 0 0 2 false).
Proof.
  destruct s_facts as (c0 & body & E & L & B & Hl). destruct (letter_not_space c0 L) as [Hsp _].
  unfold bq_strip. change (0 + 1) with 1. unfold qline. rewrite E.
  change (char_at ((62 :: 32 :: c0 :: body) ++ [10]) 1) with (Some 32). cbv iota beta.
  cbn [bq_blanks].
  assert (HL : len (62 :: 32 :: c0 :: body) = len body + 3) by (rewrite !len_cons; lia).
  rewrite HL. pose proof (len_nonneg body).
  assert (LT : negb (1 + 1 <? len body + 3) = false) by lia. rewrite LT.
  change (py_idx ((62 :: 32 :: c0 :: body) ++ [10]) (1 + 1)) with (Ok c0 : res Z). cbn [bind]. rewrite Hsp. cbn [bind].
  assert (E2 : (len body + 3 <=? 1 + 1) = false) by lia. rewrite E2. reflexivity.
Qed.

Definition bq_open_tok : token :=
  map_tok 0 1 (set_markup (set_level (set_block (new_token [98; 108; 111; 99; 107; 113; 117; 111; 116; 101; 95; 111; 112; 101; 110] nm_blockquote 1) true) 0) [62]).
Definition bq_close_tok : token :=
  set_markup (set_level (set_block (new_token [98; 108; 111; 99; 107; 113; 117; 111; 116; 101; 95; 99; 108; 111; 115; 101] nm_blockquote (-1)) true) 0) [62].
Definition quote_tokens : list token := bq_open_tok :: para_tokens s 1 ++ [bq_close_tok].

Context (rpre rpost : list str).
Context (HR : c_rules cfg = rpre ++ nm_paragraph :: rpost).
Context (Hpre : Forall (fun n => str_eqb n nm_paragraph = false) rpre).
Context (Hnest : 1 < c_maxNesting cfg).

Lemma r_blockquote_line d term st : one_line st qline -> b_line st = 0 ->
  exists st', r_blockquote cfg (tokenize cfg rf cf (S d)) term st 0 1 false = Ok (true, st')
    /\ one_line st' qline /\ b_tokens st' = b_tokens st ++ quote_tokens /\ b_env st' = b_env st /\ b_line st' = 1.
Proof.
  intros H L0. pose proof H as H'. destruct H' as (Hsrc & HbM & HeM & HtS & HsC & HbS & HbI & HlM & HlI & Hlv).
  unfold r_blockquote.
  rewrite (ParaLine.ls0 qline st H), (ParaLine.em0 qline st H), (ParaLine.cb0 cfg qline st H). cbn [bind]. cbv iota.
  rewrite Hsrc. change (char_at (qline ++ [10]) 0) with (Some 62). cbv iota.
  rewrite HsC, HbS. change (tb [0; 0] 0) with (Ok 0 : res Z). cbn [bind].
  rewrite bq_strip_quote. cbn [bind].
  unfold save_line. rewrite HbM, HbS, HtS, HsC.
  change (tb [0; len qline + 1] 0) with (Ok 0 : res Z). change (tb [0; 0] 0) with (Ok 0 : res Z). cbn [bind o_b o_bs o_ts o_sc app].
  unfold apply_bq. rewrite HbM, HbS, HtS, HsC. cbn [q_bMark q_bsCount q_sCount q_tShift].
  change (tb_set [0; len qline + 1] 0 2) with (Ok [2; len qline + 1] : res (list Z)).
  change (tb_set [0; 0] 0 2) with (Ok [2; 0] : res (list Z)). change (tb_set [0; 0] 0 0) with (Ok [0; 0] : res (list Z)).
  cbn [bind].
  change (Z.to_nat (1 - 0)) with 1%nat. cbn [bq_loop]. change (negb (0 + 1 <? 1)) with true. cbv iota. cbn [bind].
  (* the state handed to the nested block loop *)
  match goal with |- context [tokenize cfg rf cf (S d) ?s5 0 (0 + 1)] => set (st5 := s5) end.
  change (0 + 1) with 1.
  assert (O5 : off_line st5 qpre [] s 2 (-1) 1).
  { unfold off_line, st5, bpush, st_parent, qpre. cbn. rewrite ?Hlv, ?HeM, ?HbI, ?HlM, ?HlI, ?Hsrc, ?len_qline. cbn.
    change (1 <? 0) with false. change (0 <? 1) with true. cbv iota.
    change (len [62; 32]) with 2. change (len (@nil Z)) with 0. cbn [app].
    repeat split; try reflexivity; try (f_equal; lia); try (f_equal; [lia | f_equal; lia]); try (f_equal; f_equal; lia). }
  assert (L5 : b_line st5 = 0) by exact L0.
  destruct (tokenize_off_line cfg rf cf qpre [] s 2 (-1) 1 Hs (fun x (H : In x []) => match H with end) rpre rpost HR Hpre Hnest d st5 O5 L5) as (st6 & TK & O6 & T6 & E6 & L6 & _).
  rewrite TK. cbn [bind].
  destruct O6 as (Hsrc6 & HbM6 & HeM6 & HtS6 & HsC6 & HbS6 & HbI6 & HlM6 & HlI6 & Hlv6).
  unfold restore_tables. cbn [o_b o_bs o_ts o_sc].
  cbn [b_bMarks b_tShift b_sCount b_bsCount bpush st_parent set b_tokens b_lineMax b_parentType b_blkIndent].
  rewrite HbM6, HtS6, HsC6, HbS6. unfold qpre. change (len [62; 32]) with 2. change (len (@nil Z)) with 0.
  change (tb_set [2; 2 + 0 + len s + 1] 0 0) with (Ok [0; 2 + 0 + len s + 1] : res (list Z)).
  change (tb_set [0; 0] 0 0) with (Ok [0; 0] : res (list Z)). change (tb_set [2; 0] 0 0) with (Ok [0; 0] : res (list Z)).
  cbn [bind].
  eexists. split; [reflexivity|].
  change (-1 <? 0) with true. change (0 <? -1) with false. cbv iota.
  split; [|split; [|split]].
  - unfold one_line. cbn. rewrite ?Hsrc6, ?HeM6, ?HlI6, ?Hlv6, ?HlM, ?HbI. unfold qpre. change (len [62; 32]) with 2. change (len (@nil Z)) with 0. rewrite ?len_qline. cbn [app].
    repeat split; try reflexivity; try (f_equal; lia); try (f_equal; [lia | f_equal; lia]); try (f_equal; f_equal; lia).
  - (* the tokens: the opener's map patched to (0, 1) *)
    cbn. rewrite T6, L6. unfold st5. cbn. rewrite Hlv6, Hlv.
    change (1 <? 0) with false. change (0 <? 1) with true. cbv iota.
    unfold set_map_at. rewrite <- !app_assoc. cbn [app]. rewrite update_nth_tok_app.
    unfold quote_tokens, bq_open_tok, bq_close_tok. reflexivity.
  - cbn. rewrite E6. reflexivity.
  - cbn. exact L6.
Qed.


(* ---- the top-level chain: nothing before the block quote rule claims the line ---- *)
Context (bpre bpost : list str).
Context (HB : c_rules cfg = bpre ++ nm_blockquote :: bpost).
Context (Hbpre : Forall (fun n => n = nm_table \/ n = nm_code \/ n = nm_fence) bpre).

Lemma q_fence_fail st : one_line st qline -> r_fence cfg st 0 1 false = Ok (false, st).
Proof.
  intros H. unfold r_fence. rewrite (ParaLine.ls0 qline st H), (ParaLine.em0 qline st H), (ParaLine.cb0 cfg qline st H). cbn [bind]. cbv iota.
  match goal with |- (if ?c then _ else _) = _ => destruct c end; [reflexivity|].
  destruct H as (Hsrc & _). rewrite Hsrc. change (py_idx (qline ++ [10]) 0) with (Ok 62 : res Z). cbn [bind].
  change (negb ((62 =? 126) || (62 =? 96))) with true. reflexivity.
Qed.

Lemma q_before_fail rec term n st : n = nm_table \/ n = nm_code \/ n = nm_fence -> one_line st qline ->
  apply_rule cfg rf cf rec term n st 0 1 false = Ok (false, st).
Proof.
  intros [->|[->| ->]] H; unfold apply_rule.
  - change (str_eqb nm_table nm_table) with true. cbv iota. unfold r_table. change (1 <? 0 + 2) with true. reflexivity.
  - change (str_eqb nm_code nm_table) with false. change (str_eqb nm_code nm_code) with true. cbv iota.
    unfold r_code. rewrite (ParaLine.cb0 cfg qline st H). reflexivity.
  - change (str_eqb nm_fence nm_table) with false. change (str_eqb nm_fence nm_code) with false. change (str_eqb nm_fence nm_fence) with true.
    cbv iota. apply q_fence_fail, H.
Qed.

Lemma try_rules_quote d : forall l st, Forall (fun n => n = nm_table \/ n = nm_code \/ n = nm_fence) l -> one_line st qline -> b_line st = 0 ->
  exists st', try_rules cfg rf cf (tokenize cfg rf cf (S d)) (l ++ nm_blockquote :: bpost) st 0 1 = Ok st'
    /\ one_line st' qline /\ b_tokens st' = b_tokens st ++ quote_tokens /\ b_env st' = b_env st /\ b_line st' = 1.
Proof.
  induction l as [|n l IH]; intros st Hl H L0; cbn [app try_rules].
  - unfold apply_rule.
    change (str_eqb nm_blockquote nm_table) with false. change (str_eqb nm_blockquote nm_code) with false.
    change (str_eqb nm_blockquote nm_fence) with false. change (str_eqb nm_blockquote nm_blockquote) with true. cbv iota.
    destruct (r_blockquote_line d (terminated cfg rf cf) st H L0) as (st' & E & R). rewrite E. cbn [bind]. cbv iota.
    exists st'. split; [reflexivity | exact R].
  - inversion Hl as [|? ? Hn Hl']; subst.
    rewrite (q_before_fail (tokenize cfg rf cf (S d)) (terminated cfg rf cf) n st Hn H). cbn [bind]. cbv iota.
    exact (IH st Hl' H L0).
Qed.

Lemma q_empty0 st : one_line st qline -> is_empty st 0 = Ok false.
Proof.
  intros H. unfold is_empty. rewrite (ParaLine.ls0 qline st H), (ParaLine.em0 qline st H). cbn [bind].
  pose proof len_qline. destruct s_facts as (_ & _ & _ & _ & _ & Hl). assert (E : (len qline <=? 0) = false) by lia. rewrite E. reflexivity.
Qed.

Theorem block_parse_quote env toks :
  exists st, block_parse cfg rf cf (qline ++ [10]) env toks = Ok st
    /\ b_tokens st = toks ++ quote_tokens /\ b_env st = env.
Proof.
  unfold block_parse.
  destruct (init_quote env toks) as (O0 & T0 & E0 & L0).
  set (st := state_init (qline ++ [10]) env toks) in *.
  change (qline ++ [10]) with (62 :: 32 :: s ++ [10]) at 1. cbv zeta. cbv iota.
  pose proof O0 as O0'. destruct O0' as (Hsrc & HbM & HeM & HtS & HsC & HbS & HbI & HlM & HlI & Hlv).
  rewrite L0, HlM.
  set (d := S (Z.to_nat (c_maxNesting cfg))). cbn [tokenize]. change (Z.to_nat (1 - 0)) with 1%nat. cbn [tok_loop].
  change (negb (0 <? 1)) with false. cbv iota.
  rewrite HlM. change (Z.to_nat 1) with 1%nat.
  assert (SK : skip_empty_lines 2 st 0 = 0).
  { cbn [skip_empty_lines]. rewrite HlM. change (negb (0 <? 1)) with false. cbv iota. rewrite (q_empty0 st O0). reflexivity. }
  rewrite SK. change (1 <=? 0) with false. cbv iota.
  assert (O1 : one_line (st_line st 0) qline) by (unfold one_line, st_line; cbn; repeat split; assumption).
  rewrite (ParaLine.sc0 qline (st_line st 0) O1). cbn [bind].
  change (b_blkIndent (st_line st 0)) with (b_blkIndent st). change (b_level (st_line st 0)) with (b_level st).
  rewrite HbI, Hlv. change (0 <? 0) with false. cbv iota.
  assert (E : (c_maxNesting cfg <=? 0) = false) by lia. rewrite E. rewrite HB.
  destruct (try_rules_quote (Z.to_nat (c_maxNesting cfg)) bpre (st_line st 0) Hbpre O1 eq_refl) as (st2 & TR & O2 & T2 & E2 & L2).
  change (tokenize cfg rf cf (S (Z.to_nat (c_maxNesting cfg)))) with (tokenize cfg rf cf d) in TR.
  rewrite TR. cbn [bind].
  set (st3 := st2 <| b_tight := negb false |>).
  assert (O3 : one_line st3 qline) by (unfold one_line, st3; cbn; exact O2).
  change (b_line st3) with (b_line st2). rewrite L2.
  change (1 - 1 <? 1) with true. cbv iota. change (1 - 1) with 0. rewrite (q_empty0 st3 O3). cbn [bind orb].
  change (1 <? 1) with false. cbv iota. cbn [bind]. cbv iota.
  change (negb (1 <? 1)) with true. cbv iota.
  exists st3. split; [reflexivity|]. split.
  - change (b_tokens st3) with (b_tokens st2). rewrite T2. change (b_tokens (st_line st 0)) with (b_tokens st). rewrite T0. reflexivity.
  - change (b_env st3) with (b_env st2). rewrite E2. exact E0.
Qed.

End Quote.

(* ---- the whole pipeline on the quoted one-line document ---- *)
From MD Require Import Lemmas.NormalizeLemmas.

Section QPipe.
Context (cfg : pcfg) (rf cf lt : str -> str).
Context (s : str) (Hs : line_ok s).
Context (H13 : mem_z CR s = false) (H0 : mem_z NUL s = false).
Context (rpre rpost : list str).
Context (HR : c_rules (p_block cfg) = rpre ++ nm_paragraph :: rpost).
Context (Hpre : Forall (fun n => str_eqb n nm_paragraph = false) rpre).
Context (bpre bpost : list str).
Context (HB : c_rules (p_block cfg) = bpre ++ nm_blockquote :: bpost).
Context (Hbpre : Forall (fun n => n = nm_table \/ n = nm_code \/ n = nm_fence) bpre).
Context (Hnest : 1 < c_maxNesting (p_block cfg)).
Context (Hcore : p_core cfg = [n_normalize; n_block; n_inline; n_text_join]).

(* one level deeper *)
Definition deeper (t : token) : token := set_level t (tlevel t + 1).

Lemma mem_quote_lf c : c <> 10 -> c <> 62 -> c <> 32 -> mem_z c s = false -> mem_z c (qline s ++ [10]) = false.
Proof.
  intros A B C H. unfold qline. cbn [app]. unfold mem_z in *. cbn [existsb].
  assert (E1 : (c =? 62) = false) by lia. assert (E2 : (c =? 32) = false) by lia. rewrite E1, E2. cbn [orb].
  rewrite existsb_app, H. cbn. assert (E : (c =? 10) = false) by lia. rewrite E. reflexivity.
Qed.

(* parse("> " s LF): the quote around the paragraph around the inline token whose children are the inline parse of s *)
Theorem parse_quote_line env :
  parse cfg rf cf lt (qline s ++ [10]) env
  = (do toks <- inline_parse (p_inline cfg) rf cf lt s env [];
     Ok (bq_open_tok :: map deeper [p_open; set_children (p_inl s) (Some (join_children toks)); p_close] ++ [bq_close_tok], env)).
Proof.
  unfold parse. rewrite Hcore. cbn [core_process].
  change (core_rule cfg rf cf lt n_normalize (mkC (qline s ++ [10]) env [] false))
    with (Ok (mkC (normalize (qline s ++ [10])) env [] false) : res cstate).
  cbn [bind]. rewrite (normalize_id (qline s ++ [10])) by (apply mem_quote_lf; try discriminate; assumption).
  change (core_rule cfg rf cf lt n_block (mkC (qline s ++ [10]) env [] false))
    with (do b <- block_parse (p_block cfg) rf cf (qline s ++ [10]) env []; Ok (mkC (qline s ++ [10]) (b_env b) (b_tokens b) false)).
  destruct (block_parse_quote (p_block cfg) rf cf s Hs rpre rpost HR Hpre Hnest bpre bpost HB Hbpre env []) as (st & BP & T & E).
  rewrite BP. cbn [bind]. rewrite T, E. cbn [app].
  change (core_rule cfg rf cf lt n_inline ?x) with (do ts <- inline_all cfg rf cf lt (c_tokens x) (c_env x); Ok (mkC (c_src x) (c_env x) ts (c_inlineMode x))).
  cbn [c_tokens c_env c_src c_inlineMode]. unfold quote_tokens, para_tokens. cbn [app inline_all].
  change (str_eqb (ttype (bq_open_tok)) s_inline) with false. change (str_eqb (ttype (bq_close_tok)) s_inline) with false.
  change (str_eqb (ttype (map_tok 0 1 (set_level (set_block (new_token [112; 97; 114; 97; 103; 114; 97; 112; 104; 95; 111; 112; 101; 110] [112] 1) true) 1))) s_inline) with false.
  change (str_eqb (ttype (set_level (set_block (new_token [112; 97; 114; 97; 103; 114; 97; 112; 104; 95; 99; 108; 111; 115; 101] [112] (-1)) true) 1)) s_inline) with false.
  match goal with |- context [str_eqb (ttype (set_children ?t (Some []))) s_inline] => change (str_eqb (ttype (set_children t (Some []))) s_inline) with true end.
  cbv iota. cbn [bind].
  match goal with |- context [tcontent (set_children ?t (Some []))] => change (tcontent (set_children t (Some []))) with s end.
  match goal with |- context [tchildren (set_children ?t (Some []))] => change (tchildren (set_children t (Some []))) with (Some (@nil token)) end.
  cbv iota.
  destruct (inline_parse (p_inline cfg) rf cf lt s env []) as [toks|e|]; cbn [bind]; try reflexivity.
Qed.

End QPipe.

(* C06 (block quote, basic case) and C18 on one-line paragraphs: quoting the document nests its blocks -
   exactly one block quote whose contents are the tokens of the unquoted document one level deeper, with the
   same maps, the same inline content and the same children *)
Theorem quote_nests_paragraph :
  forall cfg rf cf lt s, line_ok s -> mem_z 13 s = false -> mem_z 0 s = false ->
  forall rpre rpost, c_rules (p_block cfg) = rpre ++ nm_paragraph :: rpost ->
    Forall (fun n => str_eqb n nm_paragraph = false) rpre ->
  forall bpre bpost, c_rules (p_block cfg) = bpre ++ nm_blockquote :: bpost ->
    Forall (fun n => n = nm_table \/ n = nm_code \/ n = nm_fence) bpre ->
    1 < c_maxNesting (p_block cfg) ->
    p_core cfg = [n_normalize; n_block; n_inline; n_text_join] ->
  forall env,
    parse cfg rf cf lt (s ++ [10]) env
    = (do toks <- inline_parse (p_inline cfg) rf cf lt s env [];
       Ok ([p_open; set_children (p_inl s) (Some (join_children toks)); p_close], env))
    /\ parse cfg rf cf lt ([62; 32] ++ s ++ [10]) env
    = (do toks <- inline_parse (p_inline cfg) rf cf lt s env [];
       Ok (bq_open_tok :: map deeper [p_open; set_children (p_inl s) (Some (join_children toks)); p_close] ++ [bq_close_tok], env)).
Proof.
  intros cfg rf cf lt s Hs H13 H0 rpre rpost HR Hpre bpre bpost HB Hbpre Hn Hc env. split.
  - exact (parse_one_line cfg rf cf lt s Hs H13 H0 rpre rpost HR Hpre ltac:(lia) Hc env).
  - exact (parse_quote_line cfg rf cf lt s Hs H13 H0 rpre rpost HR Hpre bpre bpost HB Hbpre Hn Hc env).
Qed.

(* the hypotheses are met: the commonmark chain and a line *)
Example quote_line_example :
  line_ok [102; 111; 111; 32; 42; 98; 42]
  /\ [nm_table; nm_code; nm_fence; nm_blockquote; nm_hr; nm_list; nm_reference; nm_html_block; nm_heading; nm_lheading; nm_paragraph]
     = [nm_table; nm_code; nm_fence] ++ nm_blockquote :: [nm_hr; nm_list; nm_reference; nm_html_block; nm_heading; nm_lheading; nm_paragraph].
Proof.
  split; [|reflexivity]. constructor; [|reflexivity].
  exists 102, [111; 111; 32; 42; 98; 42]. split; [reflexivity|]. split; [left; lia|].
  intros x H. cbn in H. repeat (destruct H as [<-|H]; [discriminate|]). contradiction.
Qed.

(* ---- the list rule on  "- " s LF  (C06, list item form, one-line paragraph documents) ---- *)
Section Item.
Context (cfg : bcfg) (rf cf : str -> str).
Context (s : str) (Hs : line_ok s).

Definition ipre : str := [45; 32].
Definition iline : str := 45 :: 32 :: s.

Lemma len_iline : len iline = len s + 2.
Proof. unfold iline. rewrite !len_cons. lia. Qed.

Lemma init_item env toks : one_line (state_init (iline ++ [10]) env toks) iline /\ b_tokens (state_init (iline ++ [10]) env toks) = toks
  /\ b_env (state_init (iline ++ [10]) env toks) = env /\ b_line (state_init (iline ++ [10]) env toks) = 0.
Proof.
  destruct (s_facts s Hs) as (c0 & body & E & L & B & _). destruct (letter_not_space c0 L) as [_ Hn].
  unfold state_init. unfold iline. change ((45 :: 32 :: s) ++ [10]) with (45 :: (32 :: s) ++ [10]).
  assert (NB : forall x, In x (32 :: s) -> x <> 10).
  { intros x [<-|I]; [discriminate|]. rewrite E in I. destruct I as [<-|I]; [exact Hn | exact (B x I)]. }
  pose proof (scan_text_line 0 45 (32 :: s) (len (45 :: (32 :: s) ++ [10])) [] [] [] [] 0 0 eq_refl ltac:(discriminate) NB) as SC.
  cbn [repeat_z app] in SC.
  assert (HL : len (45 :: 32 :: s ++ [10]) = len s + 3) by (rewrite !len_cons, len_app; change (len [10]) with 1; lia).
  change ((32 :: s) ++ [10]) with (32 :: s ++ [10]) in *.
  rewrite SC by (rewrite HL, len_cons; lia).
  cbv zeta. cbn [sc_bM sc_eM sc_tS sc_sC rev app map].
  unfold one_line. cbn [b_src b_bMarks b_eMarks b_tShift b_sCount b_bsCount b_blkIndent b_lineMax b_listIndent b_level b_tokens b_env b_line].
  rewrite HL, !len_cons. repeat split; try reflexivity; try (f_equal; try lia; f_equal; lia).
Qed.

(* the marker scans on this line *)
Lemma skip_ordered_item st : one_line st iline -> skip_ordered st 0 = Ok (-1).
Proof.
  intros H. unfold skip_ordered. rewrite (ParaLine.ls0 iline st H), (ParaLine.em0 iline st H). cbn [bind].
  match goal with |- (if ?c then _ else _) = _ => destruct c end; [reflexivity|].
  destruct H as (Hsrc & _). rewrite Hsrc. change (py_idx (iline ++ [10]) 0) with (Ok 45 : res Z). cbn [bind].
  change (negb (is_digit 45)) with true. reflexivity.
Qed.

Lemma skip_bullet_item st : one_line st iline -> skip_bullet st 0 = Ok 1.
Proof.
  intros H. unfold skip_bullet. rewrite (ParaLine.ls0 iline st H), (ParaLine.em0 iline st H). cbn [bind].
  destruct H as (Hsrc & _). rewrite Hsrc. change (char_at (iline ++ [10]) 0) with (Some 45).
  change (negb ((45 =? 42) || (45 =? 45) || (45 =? 43))) with false. cbv iota.
  pose proof len_iline. destruct (s_facts s Hs) as (_ & _ & _ & _ & _ & Hl).
  assert (E : (0 + 1 <? len iline) = true) by lia. rewrite E.
  change (py_idx (iline ++ [10]) (0 + 1)) with (Ok 32 : res Z). cbn [bind]. reflexivity.
Qed.

Lemma list_blanks_item fuel : list_blanks (S (S fuel)) (iline ++ [10]) 1 (len iline) 1 0 = Ok (2, 2).
Proof.
  destruct (s_facts s Hs) as (c0 & body & E & L & B & Hl). destruct (letter_not_space c0 L) as [Hsp _].
  pose proof len_iline as LI. cbn [list_blanks].
  assert (E1 : negb (1 <? len iline) = false) by lia. rewrite E1.
  change (py_idx (iline ++ [10]) 1) with (Ok 32 : res Z). cbn [bind]. change (32 =? 9) with false. change (32 =? 32) with true. cbv iota.
  assert (E2 : negb (1 + 1 <? len iline) = false) by lia. rewrite E2.
  unfold iline. rewrite E. change (py_idx ((45 :: 32 :: c0 :: body) ++ [10]) (1 + 1)) with (Ok c0 : res Z). cbn [bind].
  assert (N9 : (c0 =? 9) = false) by (unfold letter in L; lia). assert (N32 : (c0 =? 32) = false) by (unfold letter in L; lia).
  rewrite N9, N32. reflexivity.
Qed.

Definition ul_open_tok : token :=
  map_tok 0 1 (set_markup (set_level (set_block (new_token [98; 117; 108; 108; 101; 116; 95; 108; 105; 115; 116; 95; 111; 112; 101; 110] [117; 108] 1) true) 0) [45]).
Definition ul_close_tok : token :=
  set_markup (set_level (set_block (new_token [98; 117; 108; 108; 101; 116; 95; 108; 105; 115; 116; 95; 99; 108; 111; 115; 101] [117; 108] (-1)) true) 0) [45].
Definition li_open_tok : token :=
  map_tok 0 1 (set_markup (set_level (set_block (new_token s_list_item_open s_li 1) true) 1) [45]).
Definition li_close_tok : token :=
  set_markup (set_level (set_block (new_token s_list_item_close s_li (-1)) true) 1) [45].
(* the paragraph of a tight list: open and close are hidden *)
Definition hide_para (l : list token) : list token :=
  match l with [o; i; c] => [set_hidden o true; i; set_hidden c true] | _ => l end.
Definition item_tokens : list token := ul_open_tok :: li_open_tok :: hide_para (para_tokens s 2) ++ [li_close_tok; ul_close_tok].

Context (rpre rpost : list str).
Context (HR : c_rules cfg = rpre ++ nm_paragraph :: rpost).
Context (Hpre : Forall (fun n => str_eqb n nm_paragraph = false) rpre).
Context (Hnest : 2 < c_maxNesting cfg).

(* the line tables of the document, whatever the level and the tokens *)
Definition tabs_line (st : bstate) : Prop :=
  b_src st = iline ++ [10]
  /\ b_bMarks st = [0; len iline + 1] /\ b_eMarks st = [len iline; len iline + 1]
  /\ b_tShift st = [0; 0] /\ b_sCount st = [0; 0] /\ b_bsCount st = [0; 0]
  /\ b_blkIndent st = 0 /\ b_lineMax st = 1 /\ b_listIndent st = -1.

(* one turn of the item loop: the item, its paragraph from the nested block loop, the tables put back *)
Lemma list_items_line f d term st2 : tabs_line st2 -> b_level st2 = 1 -> b_line st2 = 0 ->
  exists st6, list_items cfg (S f) (tokenize cfg rf cf (S d)) term st2 false 45 0 0 1 1 0 true false = Ok (1, true, st6)
    /\ tabs_line st6 /\ b_level st6 = 1
    /\ b_tokens st6 = b_tokens st2 ++ li_open_tok :: para_tokens s 2 ++ [li_close_tok]
    /\ b_env st6 = b_env st2 /\ b_line st6 = 1.
Proof.
  intros (Hsrc & HbM & HeM & HtS & HsC & HbS & HbI & HlM & HlI) Hlv L0.
  cbn [list_items]. change (negb (0 <? 1)) with false. cbv iota.
  unfold line_start.
  rewrite HeM, HsC, HbM, HtS, HbS, Hsrc.
  change (tb [len iline; len iline + 1] 0) with (Ok (len iline) : res Z).
  change (tb [0; 0] 0) with (Ok 0 : res Z). change (tb [0; len iline + 1] 0) with (Ok 0 : res Z). cbn [bind].
  change (0 + 0) with 0. change (0 + 1 - 0) with 1.
  change (length (iline ++ [10])) with (S (S (length (s ++ [10])))).
  rewrite list_blanks_item. cbn [bind].
  pose proof len_iline as LI. destruct (s_facts s Hs) as (_ & _ & _ & _ & _ & Hl).
  assert (EM : (len iline <=? 2) = false) by lia. rewrite !EM.
  change (2 - 1) with 1. change (4 <? 1) with false. cbv iota. change (1 + 1) with 2.
  cbn [bpush b_tShift b_sCount b_bMarks set]. rewrite HtS, HsC, HbM.
  change (tb [0; 0] 0) with (Ok 0 : res Z). change (tb [0; len iline + 1] 0) with (Ok 0 : res Z). cbn [bind].
  change (2 - 0) with 2. change (tb_set [0; 0] 0 2) with (Ok [2; 0] : res (list Z)). cbn [bind].
  match goal with |- context [tokenize cfg rf cf (S d) ?sN 0 1] => set (stN := sN) end.
  assert (ON : off_line stN [] ipre s 0 0 2).
  { unfold off_line, stN, bpush, ipre. cbn. rewrite ?Hlv, ?HeM, ?HbM, ?HbS, ?HbI, ?HlM, ?HlI, ?Hsrc, ?len_iline. cbn.
    change (1 <? 0) with false. change (0 <? 1) with true. cbv iota.
    change (len [45; 32]) with 2. change (len (@nil Z)) with 0. cbn [app].
    repeat split; try reflexivity; try (f_equal; lia); try (f_equal; [lia | f_equal; lia]); try (f_equal; f_equal; lia). }
  assert (LN : b_line stN = 0) by exact L0.
  assert (HP2 : forall x, In x ipre -> x <> 9) by (intros x [<-|[<-|[]]]; discriminate).
  destruct (tokenize_off_line cfg rf cf [] ipre s 0 0 2 Hs HP2 rpre rpost HR Hpre Hnest d stN ON LN) as (st3 & TK & O3 & T3 & E3 & L3 & TT3).
  rewrite TK. cbn [bind].
  destruct O3 as (Hsrc3 & HbM3 & HeM3 & HtS3 & HsC3 & HbS3 & HbI3 & HlM3 & HlI3 & Hlv3).
  rewrite L3. change (1 <? 1 - 0) with false. cbv iota. cbn [bind].
  rewrite HtS3, HsC3. unfold ipre. change (len [45; 32]) with 2.
  change (tb_set [2; 0] 0 0) with (Ok [0; 0] : res (list Z)). cbn [bind].
  cbn [bpush b_line set]. rewrite L3. change (1 <=? 1) with true. cbv iota.
  rewrite TT3. cbn [negb orb]. cbv iota.
  eexists. split; [reflexivity|].
  split; [|split; [|split; [|split]]].
  - unfold tabs_line. cbn. rewrite ?Hsrc3, ?HbM3, ?HeM3, ?HbS3, ?HlI3, ?HlM3, ?HlI. unfold ipre. change (len [45; 32]) with 2. change (len (@nil Z)) with 0. rewrite ?len_iline. cbn [app].
    repeat split; try reflexivity; try (f_equal; lia); try (f_equal; [lia | f_equal; lia]); try (f_equal; f_equal; lia).
  - cbn. rewrite Hlv3. reflexivity.
  - cbn. rewrite T3. unfold stN. cbn. rewrite Hlv3, Hlv.
    change (1 <? 0) with false. change (0 <? 1) with true. change (-1 <? 0) with true. change (0 <? -1) with false. cbv iota.
    unfold set_map_at. rewrite <- !app_assoc. cbn [app]. rewrite update_nth_tok_app.
    unfold li_open_tok, li_close_tok. reflexivity.
  - cbn. rewrite E3. reflexivity.
  - cbn. exact L3.
Qed.

Lemma r_list_line d term st : one_line st iline -> b_line st = 0 -> b_tokens st = [] ->
  exists st', r_list cfg (tokenize cfg rf cf (S d)) term st 0 1 false = Ok (true, st')
    /\ one_line st' iline /\ b_tokens st' = item_tokens /\ b_env st' = b_env st /\ b_line st' = 1.
Proof.
  intros H L0 T0. pose proof H as H'. destruct H' as (Hsrc & HbM & HeM & HtS & HsC & HbS & HbI & HlM & HlI & Hlv).
  unfold r_list.
  rewrite (ParaLine.cb0 cfg iline st H), (ParaLine.sc0 iline st H). cbn [bind]. cbv iota.
  rewrite HlI. change (0 <=? -1) with false. cbn [andb]. cbv iota.
  rewrite (skip_ordered_item st H), (ParaLine.ls0 iline st H). cbn [bind]. change (0 <=? -1) with false. cbv iota.
  rewrite (skip_bullet_item st H). cbn [bind]. change (0 <=? 1) with true. cbv iota. cbn [bind].
  rewrite (ParaLine.em0 iline st H). cbn [bind andb]. cbv iota.
  rewrite Hsrc. change (py_idx (iline ++ [10]) (1 - 1)) with (Ok 45 : res Z). cbn [bind]. cbv iota.
  change (Z.to_nat (1 - 0)) with 1%nat.
  match goal with |- context [list_items cfg 2 _ term ?s2 false 45 0 0 1 1 0 true false] => set (st2 := s2) end.
  assert (TL : tabs_line st2) by (unfold tabs_line, st2, st_parent, bpush; cbn; repeat split; assumption).
  assert (LV : b_level st2 = 1) by (unfold st2, st_parent, bpush; cbn; rewrite Hlv; reflexivity).
  assert (L2 : b_line st2 = 0) by exact L0.
  destruct (list_items_line 1 d term st2 TL LV L2) as (st6 & LI & TL6 & LV6 & T6 & E6 & L6).
  rewrite LI. cbn [bind]. cbv iota.
  destruct TL6 as (Hsrc6 & HbM6 & HeM6 & HtS6 & HsC6 & HbS6 & HbI6 & HlM6 & HlI6).
  eexists. split; [reflexivity|].
  split; [|split; [|split]].
  - unfold one_line. cbn. rewrite LV6. change (-1 <? 0) with true. change (0 <? -1) with false. cbv iota.
    repeat split; try assumption; reflexivity.
  - cbn. rewrite T6. unfold st2. cbn. rewrite T0, LV6, Hlv. lazy. reflexivity.
  - cbn. rewrite E6. reflexivity.
  - reflexivity.
Qed.

(* ---- the top-level chain: nothing before the list rule claims the line ---- *)
Context (bpre bpost : list str).
Context (HB : c_rules cfg = bpre ++ nm_list :: bpost).
Context (Hbpre : Forall (fun n => n = nm_table \/ n = nm_code \/ n = nm_fence \/ n = nm_blockquote \/ n = nm_hr) bpre).

Lemma i_fence_fail st : one_line st iline -> r_fence cfg st 0 1 false = Ok (false, st).
Proof.
  intros H. unfold r_fence. rewrite (ParaLine.ls0 iline st H), (ParaLine.em0 iline st H), (ParaLine.cb0 cfg iline st H). cbn [bind]. cbv iota.
  match goal with |- (if ?c then _ else _) = _ => destruct c end; [reflexivity|].
  destruct H as (Hsrc & _). rewrite Hsrc. change (py_idx (iline ++ [10]) 0) with (Ok 45 : res Z). cbn [bind].
  change (negb ((45 =? 126) || (45 =? 96))) with true. reflexivity.
Qed.

Lemma i_blockquote_fail rec term st : one_line st iline -> r_blockquote cfg rec term st 0 1 false = Ok (false, st).
Proof.
  intros H. unfold r_blockquote. rewrite (ParaLine.ls0 iline st H), (ParaLine.em0 iline st H), (ParaLine.cb0 cfg iline st H). cbn [bind]. cbv iota.
  destruct H as (Hsrc & _). rewrite Hsrc. change (char_at (iline ++ [10]) 0) with (Some 45). reflexivity.
Qed.

(* "- " then a letter is not a thematic break: the scan stops at the letter *)
Lemma i_hr_fail st : one_line st iline -> r_hr cfg st 0 1 false = Ok (false, st).
Proof.
  intros H. unfold r_hr. rewrite (ParaLine.ls0 iline st H), (ParaLine.em0 iline st H), (ParaLine.cb0 cfg iline st H). cbn [bind]. cbv iota.
  destruct H as (Hsrc & _). rewrite Hsrc. change (char_at (iline ++ [10]) 0) with (Some 45).
  change (negb ((45 =? 42) || (45 =? 45) || (45 =? 95))) with false. cbv iota.
  destruct (s_facts s Hs) as (c0 & body & E & L & B & Hl). destruct (letter_not_space c0 L) as [Hsp _].
  pose proof len_iline as LI.
  change (length (iline ++ [10])) with (S (S (length (s ++ [10])))). cbn [hr_scan].
  assert (E1 : negb (0 + 1 <? len iline) = false) by lia. rewrite E1.
  change (py_idx (iline ++ [10]) (0 + 1)) with (Ok 32 : res Z). cbn [bind].
  change (negb (32 =? 45) && negb (is_space 32)) with false. cbv iota.
  assert (E2 : negb (0 + 1 + 1 <? len iline) = false) by lia. rewrite E2.
  unfold iline at 1. rewrite E. change (py_idx ((45 :: 32 :: c0 :: body) ++ [10]) (0 + 1 + 1)) with (Ok c0 : res Z). cbn [bind].
  assert (N45 : (c0 =? 45) = false) by (unfold letter in L; lia). rewrite N45, Hsp. reflexivity.
Qed.

Lemma i_before_fail rec term n st : n = nm_table \/ n = nm_code \/ n = nm_fence \/ n = nm_blockquote \/ n = nm_hr -> one_line st iline ->
  apply_rule cfg rf cf rec term n st 0 1 false = Ok (false, st).
Proof.
  intros [->|[->|[->|[->| ->]]]] H; unfold apply_rule.
  - change (str_eqb nm_table nm_table) with true. cbv iota. unfold r_table. change (1 <? 0 + 2) with true. reflexivity.
  - change (str_eqb nm_code nm_table) with false. change (str_eqb nm_code nm_code) with true. cbv iota.
    unfold r_code. rewrite (ParaLine.cb0 cfg iline st H). reflexivity.
  - change (str_eqb nm_fence nm_table) with false. change (str_eqb nm_fence nm_code) with false. change (str_eqb nm_fence nm_fence) with true.
    cbv iota. apply i_fence_fail, H.
  - change (str_eqb nm_blockquote nm_table) with false. change (str_eqb nm_blockquote nm_code) with false.
    change (str_eqb nm_blockquote nm_fence) with false. change (str_eqb nm_blockquote nm_blockquote) with true.
    cbv iota. apply i_blockquote_fail, H.
  - change (str_eqb nm_hr nm_table) with false. change (str_eqb nm_hr nm_code) with false.
    change (str_eqb nm_hr nm_fence) with false. change (str_eqb nm_hr nm_blockquote) with false. change (str_eqb nm_hr nm_hr) with true.
    cbv iota. apply i_hr_fail, H.
Qed.

Lemma try_rules_item d : forall l st,
  Forall (fun n => n = nm_table \/ n = nm_code \/ n = nm_fence \/ n = nm_blockquote \/ n = nm_hr) l -> one_line st iline -> b_line st = 0 -> b_tokens st = [] ->
  exists st', try_rules cfg rf cf (tokenize cfg rf cf (S d)) (l ++ nm_list :: bpost) st 0 1 = Ok st'
    /\ one_line st' iline /\ b_tokens st' = item_tokens /\ b_env st' = b_env st /\ b_line st' = 1.
Proof.
  induction l as [|n l IH]; intros st Hl H L0 T0; cbn [app try_rules].
  - unfold apply_rule.
    change (str_eqb nm_list nm_table) with false. change (str_eqb nm_list nm_code) with false.
    change (str_eqb nm_list nm_fence) with false. change (str_eqb nm_list nm_blockquote) with false.
    change (str_eqb nm_list nm_hr) with false. change (str_eqb nm_list nm_list) with true. cbv iota.
    destruct (r_list_line d (terminated cfg rf cf) st H L0 T0) as (st' & E & R). rewrite E. cbn [bind]. cbv iota.
    exists st'. split; [reflexivity | exact R].
  - inversion Hl as [|? ? Hn Hl']; subst.
    rewrite (i_before_fail (tokenize cfg rf cf (S d)) (terminated cfg rf cf) n st Hn H). cbn [bind]. cbv iota.
    exact (IH st Hl' H L0 T0).
Qed.

Lemma i_empty0 st : one_line st iline -> is_empty st 0 = Ok false.
Proof.
  intros H. unfold is_empty. rewrite (ParaLine.ls0 iline st H), (ParaLine.em0 iline st H). cbn [bind].
  pose proof len_iline. destruct (s_facts s Hs) as (_ & _ & _ & _ & _ & Hl). assert (E : (len iline <=? 0) = false) by lia. rewrite E. reflexivity.
Qed.

Theorem block_parse_item env :
  exists st, block_parse cfg rf cf (iline ++ [10]) env [] = Ok st /\ b_tokens st = item_tokens /\ b_env st = env.
Proof.
  unfold block_parse.
  destruct (init_item env []) as (O0 & T0 & E0 & L0).
  set (st := state_init (iline ++ [10]) env []) in *.
  change (iline ++ [10]) with (45 :: 32 :: s ++ [10]) at 1. cbv zeta. cbv iota.
  pose proof O0 as O0'. destruct O0' as (Hsrc & HbM & HeM & HtS & HsC & HbS & HbI & HlM & HlI & Hlv).
  rewrite L0, HlM.
  set (d := S (Z.to_nat (c_maxNesting cfg))). cbn [tokenize]. change (Z.to_nat (1 - 0)) with 1%nat. cbn [tok_loop].
  change (negb (0 <? 1)) with false. cbv iota.
  rewrite HlM. change (Z.to_nat 1) with 1%nat.
  assert (SK : skip_empty_lines 2 st 0 = 0).
  { cbn [skip_empty_lines]. rewrite HlM. change (negb (0 <? 1)) with false. cbv iota. rewrite (i_empty0 st O0). reflexivity. }
  rewrite SK. change (1 <=? 0) with false. cbv iota.
  assert (O1 : one_line (st_line st 0) iline) by (unfold one_line, st_line; cbn; repeat split; assumption).
  rewrite (ParaLine.sc0 iline (st_line st 0) O1). cbn [bind].
  change (b_blkIndent (st_line st 0)) with (b_blkIndent st). change (b_level (st_line st 0)) with (b_level st).
  rewrite HbI, Hlv. change (0 <? 0) with false. cbv iota.
  assert (E : (c_maxNesting cfg <=? 0) = false) by lia. rewrite E. rewrite HB.
  destruct (try_rules_item (Z.to_nat (c_maxNesting cfg)) bpre (st_line st 0) Hbpre O1 eq_refl T0) as (st2 & TR & O2 & T2 & E2 & L2).
  change (tokenize cfg rf cf (S (Z.to_nat (c_maxNesting cfg)))) with (tokenize cfg rf cf d) in TR.
  rewrite TR. cbn [bind].
  set (st3 := st2 <| b_tight := negb false |>).
  assert (O3 : one_line st3 iline) by (unfold one_line, st3; cbn; exact O2).
  change (b_line st3) with (b_line st2). rewrite L2.
  change (1 - 1 <? 1) with true. cbv iota. change (1 - 1) with 0. rewrite (i_empty0 st3 O3). cbn [bind orb].
  change (1 <? 1) with false. cbv iota. cbn [bind]. cbv iota.
  change (negb (1 <? 1)) with true. cbv iota.
  exists st3. split; [reflexivity|]. split.
  - exact T2.
  - change (b_env st3) with (b_env st2). rewrite E2. exact E0.
Qed.

End Item.

(* ---- the whole pipeline on the one-item list ---- *)
Section IPipe.
Context (cfg : pcfg) (rf cf lt : str -> str).
Context (s : str) (Hs : line_ok s).
Context (H13 : mem_z CR s = false) (H0 : mem_z NUL s = false).
Context (rpre rpost : list str).
Context (HR : c_rules (p_block cfg) = rpre ++ nm_paragraph :: rpost).
Context (Hpre : Forall (fun n => str_eqb n nm_paragraph = false) rpre).
Context (bpre bpost : list str).
Context (HB : c_rules (p_block cfg) = bpre ++ nm_list :: bpost).
Context (Hbpre : Forall (fun n => n = nm_table \/ n = nm_code \/ n = nm_fence \/ n = nm_blockquote \/ n = nm_hr) bpre).
Context (Hnest : 2 < c_maxNesting (p_block cfg)).
Context (Hcore : p_core cfg = [n_normalize; n_block; n_inline; n_text_join]).

(* two levels deeper *)
Definition deeper2 (t : token) : token := set_level t (tlevel t + 2).

Lemma mem_item_lf c : c <> 10 -> c <> 45 -> c <> 32 -> mem_z c s = false -> mem_z c (iline s ++ [10]) = false.
Proof.
  intros A B C H. unfold iline. cbn [app]. unfold mem_z in *. cbn [existsb].
  assert (E1 : (c =? 45) = false) by lia. assert (E2 : (c =? 32) = false) by lia. rewrite E1, E2. cbn [orb].
  rewrite existsb_app, H. cbn. assert (E : (c =? 10) = false) by lia. rewrite E. reflexivity.
Qed.

(* parse("- " s LF): a tight one-item list around the (hidden) paragraph around the inline token of s *)
Theorem parse_item_line env :
  parse cfg rf cf lt (iline s ++ [10]) env
  = (do toks <- inline_parse (p_inline cfg) rf cf lt s env [];
     Ok (ul_open_tok :: li_open_tok
         :: hide_para (map deeper2 [p_open; set_children (p_inl s) (Some (join_children toks)); p_close])
         ++ [li_close_tok; ul_close_tok], env)).
Proof.
  unfold parse. rewrite Hcore. cbn [core_process].
  change (core_rule cfg rf cf lt n_normalize (mkC (iline s ++ [10]) env [] false))
    with (Ok (mkC (normalize (iline s ++ [10])) env [] false) : res cstate).
  cbn [bind]. rewrite (normalize_id (iline s ++ [10])) by (apply mem_item_lf; try discriminate; assumption).
  change (core_rule cfg rf cf lt n_block (mkC (iline s ++ [10]) env [] false))
    with (do b <- block_parse (p_block cfg) rf cf (iline s ++ [10]) env []; Ok (mkC (iline s ++ [10]) (b_env b) (b_tokens b) false)).
  destruct (block_parse_item (p_block cfg) rf cf s Hs rpre rpost HR Hpre Hnest bpre bpost HB Hbpre env) as (st & BP & T & E).
  rewrite BP. cbn [bind]. rewrite T, E.
  change (core_rule cfg rf cf lt n_inline ?x) with (do ts <- inline_all cfg rf cf lt (c_tokens x) (c_env x); Ok (mkC (c_src x) (c_env x) ts (c_inlineMode x))).
  cbn [c_tokens c_env c_src c_inlineMode]. unfold item_tokens, para_tokens, hide_para. cbn [app inline_all].
  change (str_eqb (ttype ul_open_tok) s_inline) with false. change (str_eqb (ttype ul_close_tok) s_inline) with false.
  change (str_eqb (ttype li_open_tok) s_inline) with false. change (str_eqb (ttype li_close_tok) s_inline) with false.
  match goal with |- context [str_eqb (ttype (set_hidden (map_tok 0 1 ?t) true)) s_inline] => change (str_eqb (ttype (set_hidden (map_tok 0 1 t) true)) s_inline) with false end.
  match goal with |- context [str_eqb (ttype (set_hidden (set_level ?t 2) true)) s_inline] => change (str_eqb (ttype (set_hidden (set_level t 2) true)) s_inline) with false end.
  match goal with |- context [str_eqb (ttype (set_children ?t (Some []))) s_inline] => change (str_eqb (ttype (set_children t (Some []))) s_inline) with true end.
  cbv iota. cbn [bind].
  match goal with |- context [tcontent (set_children ?t (Some []))] => change (tcontent (set_children t (Some []))) with s end.
  match goal with |- context [tchildren (set_children ?t (Some []))] => change (tchildren (set_children t (Some []))) with (Some (@nil token)) end.
  cbv iota.
  destruct (inline_parse (p_inline cfg) rf cf lt s env []) as [toks|e|]; cbn [bind]; try reflexivity.
Qed.

End IPipe.

(* C06 (list items, rule 1) on one-line paragraphs: prefixing the line with the marker "- " nests its blocks two
   levels deeper in a one-item tight list - same maps, same inline content, same children, the paragraph tokens hidden *)
Theorem item_nests_paragraph :
  forall cfg rf cf lt s, line_ok s -> mem_z 13 s = false -> mem_z 0 s = false ->
  forall rpre rpost, c_rules (p_block cfg) = rpre ++ nm_paragraph :: rpost ->
    Forall (fun n => str_eqb n nm_paragraph = false) rpre ->
  forall bpre bpost, c_rules (p_block cfg) = bpre ++ nm_list :: bpost ->
    Forall (fun n => n = nm_table \/ n = nm_code \/ n = nm_fence \/ n = nm_blockquote \/ n = nm_hr) bpre ->
    2 < c_maxNesting (p_block cfg) ->
    p_core cfg = [n_normalize; n_block; n_inline; n_text_join] ->
  forall env,
    parse cfg rf cf lt (s ++ [10]) env
    = (do toks <- inline_parse (p_inline cfg) rf cf lt s env [];
       Ok ([p_open; set_children (p_inl s) (Some (join_children toks)); p_close], env))
    /\ parse cfg rf cf lt ([45; 32] ++ s ++ [10]) env
    = (do toks <- inline_parse (p_inline cfg) rf cf lt s env [];
       Ok (ul_open_tok :: li_open_tok
           :: hide_para (map deeper2 [p_open; set_children (p_inl s) (Some (join_children toks)); p_close])
           ++ [li_close_tok; ul_close_tok], env)).
Proof.
  intros cfg rf cf lt s Hs H13 H0 rpre rpost HR Hpre bpre bpost HB Hbpre Hn Hc env. split.
  - exact (parse_one_line cfg rf cf lt s Hs H13 H0 rpre rpost HR Hpre ltac:(lia) Hc env).
  - exact (parse_item_line cfg rf cf lt s Hs H13 H0 rpre rpost HR Hpre bpre bpost HB Hbpre Hn Hc env).
Qed.
