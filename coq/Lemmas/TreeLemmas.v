(* C15: building a SyntaxTreeNode from a token stream and flattening it returns the
   identical token sequence; the walk follows stream order. *)
From MD Require Import Base.Py Base.Str Base.Opt Model.Token Model.Tree.

Local Arguments Z.eqb : simpl never.

Lemma go_flat ch :
  (fix go (l : list node) : list token := match l with [] => [] | x :: l' => to_tokens x ++ go l' end) ch
  = flat_map to_tokens ch.
Proof. induction ch as [|x l IH]; [reflexivity|]. cbn [flat_map]. rewrite <- IH. reflexivity. Qed.

Lemma to_tokens_root ch : to_tokens (NRoot ch) = flat_map to_tokens ch.
Proof. cbn [to_tokens]. apply go_flat. Qed.

Lemma to_tokens_nest op cl ch : to_tokens (NNest op cl ch) = op :: flat_map to_tokens ch ++ [cl].
Proof. cbn [to_tokens]. rewrite go_flat. reflexivity. Qed.

Lemma take_group_spec l : forall k acc g r,
  take_group l k acc = Some (g, r) -> g ++ r = rev acc ++ l.
Proof.
  induction l as [|t l IH]; intros k acc g r H; cbn [take_group] in H.
  - destruct (k =? 0); [|discriminate]. injection H as <- <-. reflexivity.
  - destruct (k =? 0).
    + injection H as <- <-. reflexivity.
    + apply IH in H. rewrite H. cbn [rev]. rewrite <- app_assoc. reflexivity.
Qed.

Lemma take_group_longer l : forall k acc g r,
  k <> 0 -> take_group l k acc = Some (g, r) -> (length acc < length g)%nat.
Proof.
  induction l as [|t l IH]; intros k acc g r Hk H; cbn [take_group] in H.
  - rewrite (proj2 (Z.eqb_neq k 0) Hk) in H. discriminate.
  - rewrite (proj2 (Z.eqb_neq k 0) Hk) in H.
    destruct (Z.eq_dec (k + tnesting t) 0) as [E|N].
    + destruct l as [|u l]; cbn [take_group] in H; rewrite E in H; change (0 =? 0) with true in H; cbn iota in H;
        injection H as <- <-; cbn [rev]; rewrite app_length, rev_length; simpl; lia.
    + apply IH in H; [simpl in H; lia | exact N].
Qed.

Lemma first_middle_last (t : token) (g' : list token) :
  g' <> [] -> t :: removelast g' ++ [last g' t] = t :: g'.
Proof. intros H. f_equal. symmetry. apply app_removelast_last. exact H. Qed.

Lemma last_cons_ne (t d : token) (g' : list token) : g' <> [] -> last (t :: g') d = last g' d.
Proof. destruct g'; [congruence | reflexivity]. Qed.

Lemma last_default_irrelevant (g' : list token) (a b : token) : g' <> [] -> last g' a = last g' b.
Proof.
  induction g' as [|x l IH]; [congruence|]. intros _. destruct l as [|y l]; [reflexivity|].
  cbn [last]. apply IH. discriminate.
Qed.

Theorem build_children_roundtrip fuel : forall ts kids,
  build_children fuel ts = Ok kids -> flat_map to_tokens kids = ts.
Proof.
  induction fuel as [|fuel IH]; intros ts kids H; [discriminate|]. cbn [build_children] in H.
  destruct ts as [|t rest]; [injection H as <-; reflexivity|].
  destruct (tnesting t =? 0) eqn:E0.
  - destruct (match tchildren t with Some (x :: l) => build_children fuel (x :: l) | _ => Ok [] end) as [k1|e|];
      cbn [bind] in H; try discriminate.
    destruct (build_children fuel rest) as [sibs|e|] eqn:BS; cbn [bind] in H; try discriminate.
    injection H as <-. cbn [flat_map to_tokens app]. f_equal. apply IH, BS.
  - destruct (tnesting t =? 1) eqn:E1; cbn [negb] in H; [|discriminate].
    destruct (take_group rest 1 [t]) as [[grp rest']|] eqn:TG; [|discriminate].
    destruct (build_children fuel (middle grp)) as [k1|e|] eqn:BK; cbn [bind] in H; try discriminate.
    destruct (build_children fuel rest') as [sibs|e|] eqn:BS; cbn [bind] in H; try discriminate.
    injection H as <-. cbn [flat_map]. rewrite to_tokens_nest. rewrite (IH _ _ BK), (IH _ _ BS).
    pose proof (take_group_spec _ _ _ _ _ TG) as SP. cbn [rev app] in SP.
    pose proof (take_group_longer rest 1 [t] grp rest' ltac:(lia) TG) as LN. cbn [length] in LN.
    destruct grp as [|g0 g']; [simpl in LN; lia|].
    assert (g0 = t) by (cbn [app] in SP; congruence). subst g0.
    assert (NE : g' <> []) by (destruct g'; [simpl in LN; lia | discriminate]).
    unfold middle. cbn [tl]. rewrite last_cons_ne by exact NE.
    cbn [app]. rewrite <- app_assoc. rewrite <- (app_comm_cons). 
    cbn [app]. f_equal. cbn [app] in SP. injection SP as SP. rewrite <- SP.
    transitivity ((removelast g' ++ [last g' t]) ++ rest');
      [rewrite <- app_assoc; reflexivity | rewrite <- (app_removelast_last t NE); reflexivity].
Qed.

(* C15: SyntaxTreeNode(tokens).to_tokens() == tokens, whenever the tree can be built *)
Theorem tree_roundtrip ts n : build ts = Ok n -> to_tokens n = ts.
Proof.
  unfold build. destruct (build_children (S (tsize_list ts)) ts) as [kids|e|] eqn:B; cbn [bind]; intros H; try discriminate.
  injection H as <-. rewrite to_tokens_root. eapply build_children_roundtrip, B.
Qed.
