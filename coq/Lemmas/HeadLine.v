(* C18, heading context: a one-line ATX heading.  For EVERY text t that starts with a letter, has no
   line end inside, no blank at either end and does not end in '#', and every configuration whose
   block chain reaches the heading rule before lheading / paragraph: parse("# " t LF) is heading_open,
   inline, heading_close; the inline token's content is t and its children are exactly the
   children parseInline(t) produces - the same inline text means the same tokens in a heading as
   in inline mode (and, by Lemmas/ParaLine.v, as in a paragraph). *)
From RecordUpdate Require Import RecordUpdate.
From MD Require Import Base.Py Base.Str Base.Regex Base.Opt Model.Token Model.Utils Model.StateBlock Model.Helpers
     Model.Url Model.Render Model.Core Model.Block Model.Inline Model.Pipeline
     Lemmas.StrLemmas Lemmas.StrLemmas2 Lemmas.BlockLemmas Lemmas.QuoteLemmas Lemmas.BlockWF Lemmas.ParaLine Lemmas.NormalizeLemmas.
From Coq Require Import ZifyBool.

Local Arguments Z.eqb : simpl never.
Local Arguments Z.ltb : simpl never.
Local Arguments Z.leb : simpl never.
Local Arguments str_eqb : simpl never.

(* the text of the heading *)
Record head_ok (t : str) : Prop := {
  ho_line : line_ok t;
  ho_strip : strip_by is_space t = t;
  ho_last : exists c, nth_error t (length t - 1) = Some c /\ is_space c = false /\ c <> 35
}.

Section Head.
Context (cfg : bcfg) (rf cf : str -> str).
Context (t : str) (Ht : head_ok t).
Let s : str := 35 :: 32 :: t.

Lemma t_facts : exists c0 body, t = c0 :: body /\ letter c0 /\ (forall x, In x body -> x <> 10) /\ 0 < len t.
Proof.
  destruct Ht as [[(c0 & body & E & L & B) _] _ _]. exists c0, body. repeat split; try assumption.
  rewrite E, len_cons. pose proof (len_nonneg body). lia.
Qed.

Lemma len_s : len s = len t + 2.
Proof. unfold s. rewrite !len_cons. lia. Qed.

Lemma init_head env toks : one_line (state_init (s ++ [10]) env toks) s /\ b_tokens (state_init (s ++ [10]) env toks) = toks
  /\ b_env (state_init (s ++ [10]) env toks) = env /\ b_line (state_init (s ++ [10]) env toks) = 0.
Proof.
  destruct t_facts as (c0 & body & E & L & B & _). destruct (letter_not_space c0 L) as [_ Hn].
  unfold state_init. unfold s. change ((35 :: 32 :: t) ++ [10]) with (35 :: (32 :: t) ++ [10]).
  assert (NB : forall x, In x (32 :: t) -> x <> 10).
  { intros x [<-|I]; [discriminate|]. rewrite E in I. destruct I as [<-|I]; [exact Hn | exact (B x I)]. }
  pose proof (scan_text_line 0 35 (32 :: t) (len (35 :: (32 :: t) ++ [10])) [] [] [] [] 0 0 eq_refl ltac:(discriminate) NB) as SC.
  cbn [repeat_z app] in SC.
  assert (HL : len (35 :: 32 :: t ++ [10]) = len t + 3) by (unfold len; cbn [length]; rewrite app_length; cbn [length]; lia).
  change ((32 :: t) ++ [10]) with (32 :: t ++ [10]) in *.
  rewrite SC by (rewrite HL, len_cons; lia).
  cbv zeta. cbn [sc_bM sc_eM sc_tS sc_sC rev app map].
  unfold one_line. cbn [b_src b_bMarks b_eMarks b_tShift b_sCount b_bsCount b_blkIndent b_lineMax b_listIndent b_level b_tokens b_env b_line].
  rewrite HL, !len_cons. repeat split; try reflexivity; try (f_equal; try lia; f_equal; lia).
Qed.

Ltac ol H := destruct H as (?Hsrc & ?HbM & ?HeM & ?HtS & ?HsC & ?HbS & ?HbI & ?HlM & ?HlI & ?Hlv).

Lemma hd0 st : one_line st s -> char_at (b_src st) 0 = Some 35 /\ py_idx (b_src st) 0 = Ok 35.
Proof. intros H. ol H. rewrite Hsrc. split; reflexivity. Qed.
Lemma ls0 st : one_line st s -> line_start st 0 = Ok 0.
Proof. intros H. ol H. unfold line_start. rewrite HbM, HtS. reflexivity. Qed.
Lemma em0 st : one_line st s -> tb (b_eMarks st) 0 = Ok (len s).
Proof. intros H. ol H. rewrite HeM. reflexivity. Qed.
Lemma sc0 st : one_line st s -> tb (b_sCount st) 0 = Ok 0.
Proof. intros H. ol H. rewrite HsC. reflexivity. Qed.
Lemma cb0 st : one_line st s -> code_block_at cfg st 0 = Ok false.
Proof.
  intros H. unfold code_block_at, is_code_block. rewrite (sc0 st H). cbn [bind]. ol H. rewrite HbI.
  change (4 <=? 0 - 0) with false. rewrite Bool.andb_false_r. reflexivity.
Qed.
Lemma len_s_pos : 3 <= len s.
Proof. rewrite len_s. destruct t_facts as (_ & _ & _ & _ & _ & L). lia. Qed.

(* every rule that may stand before heading fails on this line *)
Lemma r_table_fail term st : one_line st s -> r_table cfg term st 0 1 false = Ok (false, st).
Proof. intros _. unfold r_table. change (1 <? 0 + 2) with true. reflexivity. Qed.
Lemma r_code_fail st : one_line st s -> r_code cfg st 0 1 false = Ok (false, st).
Proof. intros H. unfold r_code. rewrite (cb0 st H). reflexivity. Qed.
Lemma r_fence_fail st : one_line st s -> r_fence cfg st 0 1 false = Ok (false, st).
Proof.
  intros H. unfold r_fence. rewrite (ls0 st H), (em0 st H), (cb0 st H). cbn [bind]. cbv iota.
  destruct (len s <? 0 + 3); [reflexivity|]. rewrite (proj2 (hd0 st H)). reflexivity.
Qed.
Lemma r_blockquote_fail rec term st : one_line st s -> r_blockquote cfg rec term st 0 1 false = Ok (false, st).
Proof.
  intros H. unfold r_blockquote. rewrite (ls0 st H), (em0 st H), (cb0 st H). cbn [bind]. cbv iota.
  rewrite match_some_62. rewrite (proj1 (hd0 st H)). reflexivity.
Qed.
Lemma r_hr_fail st : one_line st s -> r_hr cfg st 0 1 false = Ok (false, st).
Proof.
  intros H. unfold r_hr. rewrite (ls0 st H), (em0 st H), (cb0 st H). cbn [bind]. cbv iota.
  rewrite (proj1 (hd0 st H)). reflexivity.
Qed.
Lemma r_html_block_fail st : one_line st s -> r_html_block cfg st 0 1 false = Ok (false, st).
Proof.
  intros H. unfold r_html_block. rewrite (ls0 st H), (em0 st H), (cb0 st H). cbn [bind]. cbv iota.
  destruct (negb (c_html cfg)); [reflexivity|].
  pose proof len_s_pos. assert (E0 : (len s <=? 0) = false) by lia. rewrite E0.
  rewrite (proj2 (hd0 st H)). reflexivity.
Qed.
Lemma r_reference_fail term st : one_line st s -> r_reference cfg rf cf term st 0 1 false = Ok (false, st).
Proof.
  intros H. unfold r_reference. rewrite (ls0 st H), (em0 st H), (cb0 st H). cbn [bind]. cbv iota.
  rewrite (proj2 (hd0 st H)). reflexivity.
Qed.
Lemma r_list_fail rec term st : one_line st s -> r_list cfg rec term st 0 1 false = Ok (false, st).
Proof.
  intros H. unfold r_list. rewrite (cb0 st H), (sc0 st H). cbn [bind]. cbv iota.
  pose proof H as H'. ol H'. rewrite HlI. change (0 <=? -1) with false. cbn [andb]. cbv iota.
  destruct (hd0 st H) as [C P].
  assert (SO : skip_ordered st 0 = Ok (-1)).
  { unfold skip_ordered. rewrite (ls0 st H), (em0 st H). cbn [bind]. destruct (len s <=? 0 + 1); [reflexivity|].
    rewrite P. reflexivity. }
  rewrite SO, (ls0 st H). cbn [bind]. change (0 <=? -1) with false. cbv iota.
  assert (SB : skip_bullet st 0 = Ok (-1)).
  { unfold skip_bullet. rewrite (ls0 st H), (em0 st H). cbn [bind]. rewrite C. reflexivity. }
  rewrite SB. cbn [bind]. change (0 <=? -1) with false. cbv iota. reflexivity.
Qed.
Lemma empty0 st : one_line st s -> is_empty st 0 = Ok false.
Proof.
  intros H. unfold is_empty. rewrite (ls0 st H), (em0 st H). cbn [bind].
  pose proof len_s_pos. assert (E : (len s <=? 0) = false) by lia. rewrite E. reflexivity.
Qed.

(* the last character of the line, read through the source *)
Lemma last_read st : one_line st s -> exists c, py_idx (b_src st) (len s - 1) = Ok c /\ is_space c = false /\ c <> 35.
Proof.
  intros H. ol H. destruct Ht as [_ _ (c & N & Sp & N35)]. exists c. split; [|split; assumption].
  rewrite len_s, Hsrc. unfold s. change ((35 :: 32 :: t) ++ [10]) with (35 :: 32 :: t ++ [10]).
  apply py_idx_nth; [pose proof (len_nonneg t); lia|].
  destruct t_facts as (_ & _ & _ & _ & _ & LT).
  replace (Z.to_nat (len t + 2 - 1)) with (S (S (length t - 1))) by (unfold len in *; lia). cbn [nth_error].
  rewrite nth_error_app1 by (unfold len in LT; lia). exact N.
Qed.

Definition head_tokens (lvl : Z) : list token :=
  [map_tok 0 1 (set_markup (set_level (set_block (new_token [104; 101; 97; 100; 105; 110; 103; 95; 111; 112; 101; 110] (hN 1) 1) true) lvl) [35]);
   set_children (map_tok 0 1 (set_content (set_level (set_block (new_token s_inline [] 0) true) (lvl + 1)) t)) (Some []);
   set_markup (set_level (set_block (new_token [104; 101; 97; 100; 105; 110; 103; 95; 99; 108; 111; 115; 101] (hN 1) (-1)) true) lvl) [35]].

Lemma r_heading_line st : one_line st s ->
  exists st', r_heading cfg st 0 1 false = Ok (true, st')
    /\ one_line st' s /\ b_tokens st' = b_tokens st ++ head_tokens 0 /\ b_env st' = b_env st /\ b_line st' = 1.
Proof.
  intros H. unfold r_heading. rewrite (ls0 st H), (em0 st H), (cb0 st H). cbn [bind]. cbv iota.
  pose proof len_s_pos as LS. assert (E0 : (len s <=? 0) = false) by lia. rewrite E0.
  rewrite (proj2 (hd0 st H)). cbn [bind]. change (negb (35 =? 35)) with false. cbv iota.
  destruct (last_read st H) as (c & RC & Sp & N35).
  pose proof H as H'. ol H'.
  assert (HLv : heading_level 8 (b_src st) (0 + 1) (len s) 1 = (1, 1)) by (rewrite Hsrc; reflexivity).
  rewrite HLv. cbv iota beta.
  assert (SA : is_space_at (b_src st) 1 = true) by (rewrite Hsrc; reflexivity). rewrite SA.
  change (6 <? 1) with false. cbn [negb andb orb]. rewrite Bool.andb_false_r. cbv iota.
  assert (M1 : skip_spaces_back (b_src st) (len s) 1 = Ok (len s)).
  { unfold skip_spaces_back. cbn [skip_back]. assert (X : (len s <=? 1) = false) by lia. rewrite X. rewrite RC. cbn [bind]. rewrite Sp. reflexivity. }
  rewrite M1. cbn [bind].
  assert (M2 : skip_chars_back (b_src st) (len s) 35 1 = Ok (len s)).
  { unfold skip_chars_back. cbn [skip_back]. assert (X : (len s <=? 1) = false) by lia. rewrite X. rewrite RC. cbn [bind].
    assert (Y : (35 =? c) = false) by lia. rewrite Y. reflexivity. }
  rewrite M2. cbn [bind]. assert (X : (1 <? len s) = true) by lia. rewrite X. rewrite RC. cbn [bind].
  replace (if is_space c then len s else len s) with (len s) by (destruct (is_space c); reflexivity).
  assert (SL : slice (b_src st) 1 (len s) = 32 :: t).
  { rewrite Hsrc. unfold s. pose proof (slice_app_mid [35] (32 :: t) [10]) as Q. cbn [app] in Q.
    change (len [35]) with 1 in Q. rewrite len_cons in Q. rewrite !len_cons. replace (1 + (1 + len t)) with (1 + (1 + len t)) by lia. exact Q. }
  rewrite SL.
  assert (PS : strip_by is_space (32 :: t) = t).
  { destruct Ht as [_ ST _]. unfold strip_by in *. cbn [lstrip_by]. change (is_space 32) with true. cbv iota. exact ST. }
  rewrite PS.
  eexists. split; [reflexivity|].
  unfold one_line, st_line, head_tokens. cbn. rewrite Hlv. cbn.
  repeat split; try assumption; try reflexivity. rewrite <- !app_assoc. reflexivity.
Qed.

(* ---- the chain ---- *)
Context (pre post : list str).
Context (HR : c_rules cfg = pre ++ nm_heading :: post).
Context (Hpre : Forall (fun n => str_eqb n nm_heading = false /\ str_eqb n nm_paragraph = false /\ str_eqb n nm_lheading = false) pre).
Context (Hnest : 0 < c_maxNesting cfg).

Lemma apply_rule_fail rec term n st : str_eqb n nm_heading = false -> str_eqb n nm_paragraph = false -> str_eqb n nm_lheading = false ->
  one_line st s -> apply_rule cfg rf cf rec term n st 0 1 false = Ok (false, st).
Proof.
  intros N1 N2 N3 H. unfold apply_rule.
  destruct (str_eqb n nm_table); [apply r_table_fail, H|].
  destruct (str_eqb n nm_code); [apply r_code_fail, H|].
  destruct (str_eqb n nm_fence); [apply r_fence_fail, H|].
  destruct (str_eqb n nm_blockquote); [apply r_blockquote_fail, H|].
  destruct (str_eqb n nm_hr); [apply r_hr_fail, H|].
  destruct (str_eqb n nm_list); [apply r_list_fail, H|].
  destruct (str_eqb n nm_reference); [apply r_reference_fail, H|].
  destruct (str_eqb n nm_html_block); [apply r_html_block_fail, H|].
  rewrite N1, N3, N2. reflexivity.
Qed.

Lemma try_rules_line rec : forall l st,
  Forall (fun n => str_eqb n nm_heading = false /\ str_eqb n nm_paragraph = false /\ str_eqb n nm_lheading = false) l -> one_line st s ->
  exists st', try_rules cfg rf cf rec (l ++ nm_heading :: post) st 0 1 = Ok st'
    /\ one_line st' s /\ b_tokens st' = b_tokens st ++ head_tokens 0 /\ b_env st' = b_env st /\ b_line st' = 1.
Proof.
  induction l as [|n l IH]; intros st Hl H; cbn [app try_rules].
  - unfold apply_rule.
    change (str_eqb nm_heading nm_table) with false. change (str_eqb nm_heading nm_code) with false.
    change (str_eqb nm_heading nm_fence) with false. change (str_eqb nm_heading nm_blockquote) with false.
    change (str_eqb nm_heading nm_hr) with false. change (str_eqb nm_heading nm_list) with false.
    change (str_eqb nm_heading nm_reference) with false. change (str_eqb nm_heading nm_html_block) with false.
    change (str_eqb nm_heading nm_heading) with true. cbv iota.
    destruct (r_heading_line st H) as (st' & E & R). rewrite E. cbn [bind]. cbv iota.
    exists st'. split; [reflexivity | exact R].
  - inversion Hl as [|? ? (N1 & N2 & N3) Hl']; subst.
    rewrite (apply_rule_fail rec (terminated cfg rf cf) n st N1 N2 N3 H). cbn [bind]. cbv iota. exact (IH st Hl' H).
Qed.

Lemma skip_empty0 st fuel : one_line st s -> skip_empty_lines (S fuel) st 0 = 0.
Proof.
  intros H. cbn [skip_empty_lines]. pose proof H as H'. ol H'. rewrite HlM. change (negb (0 <? 1)) with false. cbv iota.
  rewrite (empty0 st H). reflexivity.
Qed.

Theorem block_parse_heading env toks :
  exists st, block_parse cfg rf cf (s ++ [10]) env toks = Ok st
    /\ b_tokens st = toks ++ head_tokens 0 /\ b_env st = env.
Proof.
  unfold block_parse.
  destruct (init_head env toks) as (O0 & T0 & E0 & L0).
  set (st := state_init (s ++ [10]) env toks) in *.
  unfold s at 1. cbn [app]. cbv zeta. fold s. change (35 :: 32 :: t ++ [10]) with (s ++ [10]). fold st.
  pose proof O0 as O0'. ol O0'. rewrite L0, HlM.
  set (d := S (Z.to_nat (c_maxNesting cfg))). cbn [tokenize]. change (Z.to_nat (1 - 0)) with 1%nat. cbn [tok_loop].
  change (negb (0 <? 1)) with false. cbv iota.
  rewrite HlM. change (Z.to_nat 1) with 1%nat. rewrite (skip_empty0 st 1 O0).
  change (1 <=? 0) with false. cbv iota.
  assert (O1 : one_line (st_line st 0) s) by (unfold one_line, st_line; cbn; repeat split; assumption).
  rewrite (sc0 (st_line st 0) O1). cbn [bind].
  change (b_blkIndent (st_line st 0)) with (b_blkIndent st). change (b_level (st_line st 0)) with (b_level st).
  rewrite HbI, Hlv. change (0 <? 0) with false. cbv iota.
  assert (E : (c_maxNesting cfg <=? 0) = false) by lia. rewrite E. rewrite HR.
  destruct (try_rules_line (tokenize cfg rf cf d) pre (st_line st 0) Hpre O1) as (st2 & TR & O2 & T2 & E2 & L2).
  rewrite TR. cbn [bind].
  set (st3 := st2 <| b_tight := negb false |>).
  assert (O3 : one_line st3 s) by (unfold one_line, st3; cbn; exact O2).
  change (b_line st3) with (b_line st2). rewrite L2.
  change (1 - 1 <? 1) with true. cbv iota. change (1 - 1) with 0. rewrite (empty0 st3 O3). cbn [bind orb].
  change (1 <? 1) with false. cbv iota. cbn [bind]. cbv iota.
  change (negb (1 <? 1)) with true. cbv iota.
  exists st3. split; [reflexivity|]. split.
  - change (b_tokens st3) with (b_tokens st2). rewrite T2. change (b_tokens (st_line st 0)) with (b_tokens st). rewrite T0. reflexivity.
  - change (b_env st3) with (b_env st2). rewrite E2. exact E0.
Qed.

End Head.

(* ---- the whole pipeline on the one-line heading ---- *)
Section Pipe.
Context (cfg : pcfg) (rf cf lt : str -> str).
Context (t : str) (Ht : head_ok t).
Context (H13 : mem_z CR t = false) (H0 : mem_z NUL t = false).
Context (pre post : list str).
Context (HR : c_rules (p_block cfg) = pre ++ nm_heading :: post).
Context (Hpre : Forall (fun n => str_eqb n nm_heading = false /\ str_eqb n nm_paragraph = false /\ str_eqb n nm_lheading = false) pre).
Context (Hnest : 0 < c_maxNesting (p_block cfg)).
Context (Hcore : p_core cfg = [n_normalize; n_block; n_inline; n_text_join]).

Definition h_open : token := map_tok 0 1 (set_markup (set_level (set_block (new_token [104; 101; 97; 100; 105; 110; 103; 95; 111; 112; 101; 110] (hN 1) 1) true) 0) [35]).
Definition h_inl : token := set_children (map_tok 0 1 (set_content (set_level (set_block (new_token s_inline [] 0) true) 1) t)) (Some []).
Definition h_close : token := set_markup (set_level (set_block (new_token [104; 101; 97; 100; 105; 110; 103; 95; 99; 108; 111; 115; 101] (hN 1) (-1)) true) 0) [35].

Lemma mem_head c : c <> 10 -> c <> 35 -> c <> 32 -> mem_z c t = false -> mem_z c ((35 :: 32 :: t) ++ [10]) = false.
Proof.
  intros A B C H. unfold mem_z in *. cbn [app existsb]. rewrite existsb_app, H. cbn.
  assert (E1 : (c =? 35) = false) by lia. assert (E2 : (c =? 32) = false) by lia. assert (E3 : (c =? 10) = false) by lia.
  rewrite E1, E2, E3. reflexivity.
Qed.

(* parse("# " t LF): the heading around an inline token whose children are the inline parse of t *)
Theorem parse_heading_line env :
  parse cfg rf cf lt ((35 :: 32 :: t) ++ [10]) env
  = (do toks <- inline_parse (p_inline cfg) rf cf lt t env [];
     Ok ([h_open; set_children h_inl (Some (join_children toks)); h_close], env)).
Proof.
  unfold parse. rewrite Hcore. cbn [core_process].
  set (s := 35 :: 32 :: t).
  change (core_rule cfg rf cf lt n_normalize (mkC (s ++ [10]) env [] false))
    with (Ok (mkC (normalize (s ++ [10])) env [] false) : res cstate).
  cbn [bind]. rewrite (normalize_id (s ++ [10])) by (apply mem_head; [discriminate | discriminate | discriminate | assumption]).
  change (core_rule cfg rf cf lt n_block (mkC (s ++ [10]) env [] false))
    with (do b <- block_parse (p_block cfg) rf cf (s ++ [10]) env []; Ok (mkC (s ++ [10]) (b_env b) (b_tokens b) false)).
  destruct (block_parse_heading (p_block cfg) rf cf t Ht pre post HR Hpre Hnest env []) as (st & BP & T & E).
  fold s in BP. rewrite BP. cbn [bind]. rewrite T, E. cbn [app].
  change (core_rule cfg rf cf lt n_inline ?x) with (do ts <- inline_all cfg rf cf lt (c_tokens x) (c_env x); Ok (mkC (c_src x) (c_env x) ts (c_inlineMode x))).
  cbn [c_tokens c_env c_src c_inlineMode]. unfold head_tokens. cbn [inline_all].
  match goal with |- context [str_eqb (ttype (map_tok 0 1 (set_markup ?x [35]))) s_inline] =>
    change (str_eqb (ttype (map_tok 0 1 (set_markup x [35]))) s_inline) with false end.
  match goal with |- context [str_eqb (ttype (set_markup (set_level ?x 0) [35])) s_inline] =>
    change (str_eqb (ttype (set_markup (set_level x 0) [35])) s_inline) with false end.
  match goal with |- context [str_eqb (ttype (set_children ?x (Some []))) s_inline] => change (str_eqb (ttype (set_children x (Some []))) s_inline) with true end.
  cbv iota. cbn [bind].
  match goal with |- context [tcontent (set_children ?x (Some []))] => change (tcontent (set_children x (Some []))) with t end.
  match goal with |- context [tchildren (set_children ?x (Some []))] => change (tchildren (set_children x (Some []))) with (Some (@nil token)) end.
  cbv iota.
  destruct (inline_parse (p_inline cfg) rf cf lt t env []) as [toks|e|]; cbn [bind]; try reflexivity.
Qed.

End Pipe.

(* the heading context and inline mode hand the inline parser the same string: same children *)
Theorem heading_is_parse_inline :
  forall cfg rf cf lt t, head_ok t -> mem_z 13 t = false -> mem_z 0 t = false ->
  forall pre post, c_rules (p_block cfg) = pre ++ nm_heading :: post ->
    Forall (fun n => str_eqb n nm_heading = false /\ str_eqb n nm_paragraph = false /\ str_eqb n nm_lheading = false) pre ->
    0 < c_maxNesting (p_block cfg) -> p_core cfg = [n_normalize; n_block; n_inline; n_text_join] ->
  forall env,
    parse cfg rf cf lt ((35 :: 32 :: t) ++ [10]) env
    = (do toks <- inline_parse (p_inline cfg) rf cf lt t env [];
       Ok ([h_open; set_children (h_inl t) (Some (join_children toks)); h_close], env))
    /\ parse_inline cfg rf cf lt t env
       = (do toks <- inline_parse (p_inline cfg) rf cf lt t env [];
          Ok ([set_children (i_inl t) (Some (join_children toks))], env)).
Proof.
  intros cfg rf cf lt t Ht H13 H0 pre post HR Hpre Hn Hc env.
  exact (conj (parse_heading_line cfg rf cf lt t Ht H13 H0 pre post HR Hpre Hn Hc env) (parse_inline_one_line cfg rf cf lt t H13 H0 Hc env)).
Qed.

(* the hypotheses are satisfiable *)
Example head_ok_example : head_ok [72; 105; 32; 42; 121; 111; 117; 42].     (* "Hi *you*" *)
Proof.
  split.
  - split; [exists 72, [105; 32; 42; 121; 111; 117; 42]; split; [reflexivity|]; split; [right; lia | intros x I; cbn in I; repeat (destruct I as [<-|I]; [discriminate|]); contradiction] | reflexivity].
  - reflexivity.
  - exists 42. split; [reflexivity|]. split; [reflexivity | discriminate].
Qed.

(* ---- C09 in the heading context ---- *)
From MD Require Import Lemmas.InlineEsc.

Section HeadEsc.
Context (cfg : pcfg) (rf cf lt : str -> str).
Context (segs : list seg) (Hwf : wf segs).
Context (Ht : head_ok (src_of segs)).
Context (H13 : mem_z CR (src_of segs) = false) (H0 : mem_z NUL (src_of segs) = false).
Context (bpre bpost : list str).
Context (HRb : c_rules (p_block cfg) = bpre ++ nm_heading :: bpost).
Context (Hbpre : Forall (fun n => str_eqb n nm_heading = false /\ str_eqb n nm_paragraph = false /\ str_eqb n nm_lheading = false) bpre).
Context (Hbnest : 0 < c_maxNesting (p_block cfg)).
Context (Hcore : p_core cfg = [n_normalize; n_block; n_inline; n_text_join]).
Context (ipre ipost : list str).
Context (HRi : ic_rules (p_inline cfg) = ipre ++ n_escape :: ipost).
Context (Hipre : Forall (fun n => n = n_text \/ n = n_linkify \/ n = n_newline) ipre).
Context (Hitext : In n_text ipre).
Context (Hlink : ic_linkify (p_inline cfg) = false).
Context (Hinest : 0 < ic_maxNesting (p_inline cfg)).

(* render("# " esc(t) LF) = <h1> escapeHtml(t) </h1> LF *)
Theorem render_heading_esc env :
  render_md cfg rf cf lt ((35 :: 32 :: src_of segs) ++ [10]) env
  = Ok ([60; 104; 49; 62] ++ escape_html (text_of segs) ++ [60; 47; 104; 49; 62; 10], env).
Proof.
  unfold render_md.
  rewrite (parse_heading_line cfg rf cf lt (src_of segs) Ht H13 H0 bpre bpost HRb Hbpre Hbnest Hcore env).
  unfold inline_parse.
  destruct (inline_parse_esc_with (p_inline cfg) rf cf lt (ifs (p_inline cfg) rf cf lt (inline_depth (p_inline cfg))) ipre ipost HRi Hipre Hitext Hlink Hinest segs env Hwf)
    as (toks & IP & CT & TL).
  rewrite IP. cbn [bind].
  destruct (join_children_textlike toks TL) as [(-> & ->) | (p & -> & Hp & Cp)].
  - exfalso. destruct Ht as [[(c0 & body & E & _) _] _ _]. unfold contents in CT. cbn in CT.
    destruct segs as [|[r|c] l]; [discriminate E| |].
    + destruct Hwf as (Hne & _). unfold text_of in CT. cbn in CT. destruct r; [contradiction Hne; reflexivity | discriminate CT].
    + unfold text_of in CT. cbn in CT. discriminate CT.
  - unfold render. cbn [render_list].
    change (str_eqb (ttype h_open) s_inline) with false. cbv iota.
    unfold render_one at 1. cbn [ttype h_open map_tok set_map set_markup set_level set_block new_token].
    repeat match goal with |- context [str_eqb ?a ?b] =>
      match a with [104; 101; 97; 100; 105; 110; 103; 95; 111; 112; 101; 110] => change (str_eqb a b) with false end end.
    cbv iota. cbn [bind].
    match goal with |- context [str_eqb (ttype (set_children ?t ?c)) s_inline] => change (str_eqb (ttype (set_children t c)) s_inline) with true end.
    cbv iota.
    match goal with |- context [tchildren (set_children ?t (Some ?c))] => change (tchildren (set_children t (Some c))) with (Some c) end.
    cbv iota. cbn [render_inline_list hd_error]. rewrite (render_text_token _ _ p None Hp). cbn [bind render_inline_list app].
    change (str_eqb (ttype h_close) s_inline) with false. cbv iota.
    unfold render_one at 1. cbn [ttype h_close set_markup set_level set_block new_token].
    repeat match goal with |- context [str_eqb ?a ?b] =>
      match a with [104; 101; 97; 100; 105; 110; 103; 95; 99; 108; 111; 115; 101] => change (str_eqb a b) with false end end.
    cbv iota. cbn [bind render_list app].
    rewrite Cp, CT. unfold render_token, h_open, h_close, map_tok. cbn. rewrite ?app_nil_r.
    destruct (o_xhtml (p_render cfg)); cbn; rewrite ?app_nil_r, <- ?app_assoc; reflexivity.
Qed.

End HeadEsc.
