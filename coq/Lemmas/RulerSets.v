(* C11: the reported set follows the obvious set semantics of the calls, and
   unknown names never change what is registered. *)
From MD Require Import Base.Py Model.Ruler.

Section Sets.
Context {F : Type}.
Notation rule := (rule F).
Notation ruler := (ruler F).

Definition known (all : list str) (n : str) : bool := mem_str n all.

(* names the loop gets to process before it returns or raises *)
Fixpoint takeknown (all names : list str) : list str :=
  match names with
  | [] => []
  | n :: ns => if known all n then n :: takeknown all ns else []
  end.

Definition processed (ign : bool) (all names : list str) : list str :=
  if ign then filter (known all) names else takeknown all names.

Definition raises (ign : bool) (all names : list str) : bool :=
  negb ign && negb (forallb (known all) names).

Definition mark (v : bool) (P : list str) (x : rule) : rule :=
  if mem_str (rname x) P then set_enabled v x else x.

Lemma find_from_None (rs : list rule) n i :
  find_from rs n i = None <-> mem_str n (map rname rs) = false.
Proof.
  revert i; induction rs as [|r rs IH]; simpl; intros i; [tauto|].
  destruct (str_eqb_spec (rname r) n) as [E|N].
  - subst. rewrite str_eqb_refl. simpl. split; discriminate.
  - destruct (str_eqb_spec n (rname r)) as [E'|_]; [congruence|]. simpl. apply IH.
Qed.

Lemma find_None (rs : list rule) n : find rs n = None <-> known (map rname rs) n = false.
Proof. apply find_from_None. Qed.

Lemma find_from_Some_upd (rs : list rule) n i k (f : rule -> rule) :
  NoDup (map rname rs) -> (forall x, rname (f x) = rname x) ->
  find_from rs n k = Some (k + i)%nat ->
  upd_nth i f rs = map (fun x => if str_eqb (rname x) n then f x else x) rs.
Proof.
  revert i k; induction rs as [|r rs IH]; simpl; intros i k ND Hf H; [discriminate|].
  inversion ND as [|? ? Hnotin ND']; subst.
  destruct (str_eqb_spec (rname r) n) as [E|N].
  - assert (i = 0)%nat by (injection H; lia). subst i. simpl. f_equal.
    transitivity (map (fun x : rule => x) rs); [symmetry; apply map_id|].
    apply map_ext_in. intros x Hx.
    destruct (str_eqb_spec (rname x) n) as [E'|_]; [|reflexivity].
    exfalso. apply Hnotin. rewrite E, <- E'. apply in_map, Hx.
  - destruct i as [|i].
    + exfalso. clear -H. replace (k + 0)%nat with k in H by lia.
      assert (G : forall (rs : list rule) j, find_from rs n j = Some k -> (j <= k)%nat).
      { clear. induction rs as [|r rs IH]; simpl; intros j H; [discriminate|].
        destruct (str_eqb (rname r) n); [injection H; lia|]. apply IH in H; lia. }
      apply G in H. lia.
    + simpl. f_equal. apply (IH i (S k)); [exact ND' | exact Hf |].
      rewrite H. f_equal. lia.
Qed.

Lemma find_Some_upd (rs : list rule) n i (f : rule -> rule) :
  NoDup (map rname rs) -> (forall x, rname (f x) = rname x) ->
  find rs n = Some i ->
  upd_nth i f rs = map (fun x => if str_eqb (rname x) n then f x else x) rs.
Proof. intros ND Hf H. apply (find_from_Some_upd rs n i 0 f ND Hf). exact H. Qed.

Lemma find_Some_known (rs : list rule) n i : find rs n = Some i -> known (map rname rs) n = true.
Proof.
  intros H. destruct (known (map rname rs) n) eqn:E; [reflexivity|].
  apply find_None in E. congruence.
Qed.

Lemma map_mark_names v P (rs : list rule) : map rname (map (mark v P) rs) = map rname rs.
Proof.
  rewrite map_map. apply map_ext. intros x. unfold mark. destruct (mem_str _ _); reflexivity.
Qed.

Lemma mark_step v n P (rs : list rule) :
  map (fun x => if str_eqb (rname x) n then set_enabled v x else x) (map (mark v P) rs)
  = map (mark v (P ++ [n])) rs.
Proof.
  rewrite map_map. apply map_ext. intros x. unfold mark, mem_str.
  rewrite existsb_app. simpl. rewrite orb_false_r.
  destruct (existsb (str_eqb (rname x)) P) eqn:E; simpl.
  - destruct (str_eqb (rname x) n); reflexivity.
  - reflexivity.
Qed.

Lemma mark_nil v (rs : list rule) : map (mark v []) rs = rs.
Proof. rewrite <- (map_id rs) at 2. apply map_ext. reflexivity. Qed.

(* generalised loop invariant: [acc] is what has been processed so far *)
Lemma toggle_loop_spec v ign names : forall (rs0 : list rule) acc,
  NoDup (map rname rs0) ->
  let all := map rname rs0 in
  toggle_loop v names ign (map (mark v acc) rs0) acc =
  (map (mark v (acc ++ processed ign all names)) rs0,
   if raises ign all names then Raise KeyError
   else Ok (acc ++ processed ign all names)).
Proof.
  induction names as [|n ns IH]; intros rs0 acc ND all; simpl.
  - unfold processed, raises; simpl. destruct ign; simpl; rewrite app_nil_r; reflexivity.
  - destruct (find (map (mark v acc) rs0) n) as [i|] eqn:Ef.
    + pose proof (find_Some_known _ _ _ Ef) as Kn. rewrite map_mark_names in Kn.
      rewrite (find_Some_upd _ n i (set_enabled v)); [| rewrite map_mark_names; exact ND | reflexivity | exact Ef].
      rewrite mark_step. rewrite (IH rs0 (acc ++ [n]) ND).
      fold all in Kn |- *. unfold processed, raises. simpl. rewrite Kn. simpl.
      destruct ign; simpl; rewrite <- !app_assoc; reflexivity.
    + apply find_None in Ef. rewrite map_mark_names in Ef. fold all in Ef.
      unfold processed, raises. simpl. rewrite Ef. simpl.
      destruct ign; simpl.
      * rewrite (IH rs0 acc ND). unfold processed, raises. simpl. reflexivity.
      * rewrite app_nil_r. reflexivity.
Qed.

Theorem toggle_sets v names ign (r : ruler) :
  NoDup (all_names r) ->
  let all := all_names r in
  let P := processed ign all names in
  toggle v names ign r =
  (mkRuler (map (mark v P) (rules r)) None,
   if raises ign all names then Raise KeyError else Ok (ONames P)).
Proof.
  intros ND all P. unfold toggle.
  pose proof (toggle_loop_spec v ign names (rules r) [] ND) as H.
  rewrite mark_nil in H. simpl in H. rewrite H.
  unfold P, all, all_names. destruct (raises ign (map rname (rules r)) names); reflexivity.
Qed.

(* --- In-form corollaries: the "obvious set semantics" -------------------- *)

Lemma in_processed ign all names n :
  raises ign all names = false ->
  (In n (processed ign all names) <-> In n names /\ In n all).
Proof.
  unfold raises, processed. destruct ign; simpl.
  - intros _. rewrite filter_In. unfold known. rewrite mem_str_In. tauto.
  - rewrite negb_false_iff. intros Hall. rewrite forallb_forall in Hall.
    assert (takeknown all names = names) as ->.
    { induction names as [|m ms IH]; simpl; [reflexivity|].
      rewrite (Hall m (or_introl eq_refl)). f_equal. apply IH. intros x Hx; apply Hall; right; exact Hx. }
    split; [intros H; split; [exact H | apply mem_str_In, Hall, H] | tauto].
Qed.

Lemma active_mark v P (rs : list rule) n :
  In n (map rname (filter renabled (map (mark v P) rs))) <->
  (exists x, In x rs /\ rname x = n /\ (if mem_str n P then v else renabled x) = true).
Proof.
  rewrite in_map_iff. split.
  - intros [y [Hn Hy]]. apply filter_In in Hy. destruct Hy as [Hy En].
    apply in_map_iff in Hy. destruct Hy as [x [Hx Hin]]. exists x. split; [exact Hin|].
    subst y. unfold mark in *. destruct (mem_str (rname x) P) eqn:E; simpl in *; subst n; rewrite E; auto.
  - intros [x [Hin [Hn Hv]]]. exists (mark v P x). split.
    + unfold mark. destruct (mem_str (rname x) P); simpl; exact Hn.
    + apply filter_In. split; [apply in_map, Hin|].
      unfold mark. subst n. destruct (mem_str (rname x) P); simpl; exact Hv.
Qed.

Lemma NoDup_name_unique (rs : list rule) x y :
  NoDup (map rname rs) -> In x rs -> In y rs -> rname x = rname y -> x = y.
Proof.
  induction rs as [|r rs IH]; simpl; intros ND Hx Hy E; [tauto|].
  inversion ND as [|? ? Hn ND']; subst.
  destruct Hx as [->|Hx], Hy as [->|Hy]; auto.
  - exfalso; apply Hn; rewrite E; apply in_map, Hy.
  - exfalso; apply Hn; rewrite <- E; apply in_map, Hx.
Qed.

Theorem enable_set names ign (r : ruler) n :
  NoDup (all_names r) -> raises ign (all_names r) names = false ->
  let r' := fst (step r (OpEnable names ign)) in
  (In n (active_names r') <-> In n (active_names r) \/ (In n names /\ In n (all_names r))).
Proof.
  intros ND NR r'. subst r'. simpl. rewrite (toggle_sets true names ign r ND). simpl.
  unfold active_names, active. simpl. rewrite active_mark.
  pose proof (in_processed ign (all_names r) names n NR) as HP.
  destruct (mem_str n (processed ign (all_names r) names)) eqn:E.
  - apply mem_str_In in E. apply HP in E. split; [intros _; right; exact E|].
    intros _. destruct E as [_ E]. unfold all_names in E. apply in_map_iff in E.
    destruct E as [x [Hn Hx]]. exists x; auto.
  - split.
    + intros [x [Hx [Hn He]]]. left. apply in_map_iff. exists x; split; [exact Hn|].
      apply filter_In; auto.
    + intros [H|H].
      * apply in_map_iff in H. destruct H as [x [Hn Hx]]. apply filter_In in Hx. exists x; tauto.
      * apply HP in H. apply mem_str_In in H. congruence.
Qed.

Theorem disable_set names ign (r : ruler) n :
  NoDup (all_names r) -> raises ign (all_names r) names = false ->
  let r' := fst (step r (OpDisable names ign)) in
  (In n (active_names r') <-> In n (active_names r) /\ ~ In n names).
Proof.
  intros ND NR r'. subst r'. simpl. rewrite (toggle_sets false names ign r ND). simpl.
  unfold active_names, active. simpl. rewrite active_mark.
  pose proof (in_processed ign (all_names r) names n NR) as HP.
  destruct (mem_str n (processed ign (all_names r) names)) eqn:E.
  - apply mem_str_In in E. apply HP in E. split; [intros [x [_ [_ H]]]; discriminate | tauto].
  - split.
    + intros [x [Hx [Hn He]]]. split.
      * apply in_map_iff. exists x; split; [exact Hn|]. apply filter_In; auto.
      * intros Hin. assert (In n (processed ign (all_names r) names)) as Hp.
        { apply HP. split; [exact Hin|]. subst n. apply in_map, Hx. }
        apply mem_str_In in Hp. congruence.
    + intros [H _]. apply in_map_iff in H. destruct H as [x [Hn Hx]].
      apply filter_In in Hx. exists x; tauto.
Qed.

Theorem enableOnly_set names ign (r : ruler) n :
  NoDup (all_names r) -> raises ign (all_names r) names = false ->
  let r' := fst (step r (OpEnableOnly names ign)) in
  (In n (active_names r') <-> In n names /\ In n (all_names r)).
Proof.
  intros ND NR r'. subst r'. simpl.
  set (r0 := mkRuler (map (set_enabled false) (rules r)) (cache r)).
  assert (A0 : all_names r0 = all_names r).
  { unfold all_names, r0; simpl. rewrite map_map. reflexivity. }
  rewrite (toggle_sets true names ign r0); [| rewrite A0; exact ND]. simpl.
  unfold active_names, active. simpl. rewrite active_mark. rewrite A0.
  pose proof (in_processed ign (all_names r) names n NR) as HP.
  destruct (mem_str n (processed ign (all_names r) names)) eqn:E.
  - apply mem_str_In in E. apply HP in E. split; [intros _; exact E|].
    intros _. destruct E as [_ E]. unfold all_names in E. apply in_map_iff in E.
    destruct E as [x [Hn Hx]]. exists (set_enabled false x). split; [apply in_map, Hx|]. auto.
  - split.
    + intros [x [Hx [_ He]]]. apply in_map_iff in Hx. destruct Hx as [y [<- _]]. discriminate.
    + intros H. apply HP in H. apply mem_str_In in H. congruence.
Qed.

(* Whatever the names, whether it raises or not: the three calls never add,
   remove, rename or re-target a registered rule (they only flip flags). *)
Theorem toggle_frame (r : ruler) (o : op F) :
  match o with OpEnable _ _ | OpEnableOnly _ _ | OpDisable _ _ => True | _ => False end ->
  let r' := fst (step r o) in
  map rname (rules r') = map rname (rules r) /\
  map rfn (rules r') = map rfn (rules r) /\
  map ralt (rules r') = map ralt (rules r).
Proof.
  assert (L : forall v ign names (rs : list rule) acc,
    let rs' := fst (toggle_loop v names ign rs acc) in
    map rname rs' = map rname rs /\ map rfn rs' = map rfn rs /\ map ralt rs' = map ralt rs).
  { assert (U : forall i v (rs : list rule),
      map rname (upd_nth i (set_enabled v) rs) = map rname rs /\
      map rfn (upd_nth i (set_enabled v) rs) = map rfn rs /\
      map ralt (upd_nth i (set_enabled v) rs) = map ralt rs).
    { induction i as [|i IH]; intros v [|x rs]; simpl; auto.
      destruct (IH v rs) as [A [B C]]. rewrite A, B, C. auto. }
    intros v ign names. induction names as [|n ns IH]; intros rs acc; simpl; [auto|].
    destruct (find rs n) as [i|].
    - specialize (IH (upd_nth i (set_enabled v) rs) (acc ++ [n])). simpl in IH.
      destruct IH as [A [B C]]. destruct (U i v rs) as [A' [B' C']].
      rewrite A, B, C. auto.
    - destruct ign; simpl; [apply IH | auto]. }
  intros Ho r'. subst r'. destruct o; try contradiction; simpl; unfold toggle.
  - pose proof (L true ignoreInvalid names (rules r) []) as H.
    destruct (toggle_loop true names ignoreInvalid (rules r) []); exact H.
  - pose proof (L true ignoreInvalid names (map (set_enabled false) (rules r)) []) as H.
    simpl. destruct (toggle_loop true names ignoreInvalid (map (set_enabled false) (rules r)) []).
    simpl in *. rewrite !map_map in H. simpl in H. exact H.
  - pose proof (L false ignoreInvalid names (rules r) []) as H.
    destruct (toggle_loop false names ignoreInvalid (rules r) []); exact H.
Qed.

(* A failing lookup by name (at/before/after with an unknown reference name)
   changes nothing at all. *)
Theorem unknown_ref_noop (r : ruler) (o : op F) :
  match o with
  | OpAt n _ _ | OpBefore n _ _ _ | OpAfter n _ _ _ => known (all_names r) n = false
  | _ => False
  end -> step r o = (r, Raise KeyError).
Proof.
  destruct o; try contradiction; simpl; intros H; apply find_None in H; rewrite H; reflexivity.
Qed.

End Sets.
