(* The inner scans of the inline model: above a bound computed from the arguments the answer does not
   depend on the fuel (companion of Lemmas/FuelAdequate.v for rules_inline and the post-processing). *)
From RecordUpdate Require Import RecordUpdate.
From MD Require Import Base.Py Base.Str Base.Regex Base.Opt Model.Token Model.Utils Model.StateBlock Model.Helpers
     Model.Url Model.Render Model.Core Model.Inline Lemmas.LfCount Lemmas.FuelAdequate Lemmas.InlineSafe.
From Coq Require Import ZifyBool.

Local Arguments Z.eqb : simpl never.
Local Arguments Z.ltb : simpl never.
Local Arguments Z.leb : simpl never.
Local Arguments str_eqb : simpl never.

Lemma run_len_fuel : forall f1 f2 src pos mx m,
  (Z.to_nat (mx - pos) < f1)%nat -> (Z.to_nat (mx - pos) < f2)%nat -> run_len f1 src pos mx m = run_len f2 src pos mx m.
Proof. fuel_ind f1 f2 IH. cbn [run_len]. fwalk IH. Qed.

Lemma skip_sp_fwd_fuel : forall f1 f2 src pos mx,
  (Z.to_nat (mx - pos) < f1)%nat -> (Z.to_nat (mx - pos) < f2)%nat -> skip_sp_fwd f1 src pos mx = skip_sp_fwd f2 src pos mx.
Proof. fuel_ind f1 f2 IH. cbn [skip_sp_fwd]. fwalk IH. Qed.

Lemma ws_tail_fuel : forall f1 f2 pending ws,
  (Z.to_nat ws < f1)%nat -> (Z.to_nat ws < f2)%nat -> ws_tail f1 pending ws = ws_tail f2 pending ws.
Proof. fuel_ind f1 f2 IH. cbn [ws_tail]. fwalk IH. Qed.

Lemma skip_ws_nl_i_fuel : forall f1 f2 src pos mx,
  (Z.to_nat (mx - pos) < f1)%nat -> (Z.to_nat (mx - pos) < f2)%nat -> skip_ws_nl_i f1 src pos mx = skip_ws_nl_i f2 src pos mx.
Proof. fuel_ind f1 f2 IH. cbn [skip_ws_nl_i]. fwalk IH. Qed.

Lemma autolink_end_fuel : forall f1 f2 src pos mx,
  (Z.to_nat (mx - pos) < f1)%nat -> (Z.to_nat (mx - pos) < f2)%nat -> autolink_end f1 src pos mx = autolink_end f2 src pos mx.
Proof. fuel_ind f1 f2 IH. cbn [autolink_end]. fwalk IH. Qed.

Lemma count_s_close_fuel : forall f1 f2 tokens j,
  (Z.to_nat (len tokens - j) < f1)%nat -> (Z.to_nat (len tokens - j) < f2)%nat -> count_s_close f1 tokens j = count_s_close f2 tokens j.
Proof. fuel_ind f1 f2 IH. cbn [count_s_close]. fwalk IH. Qed.

Lemma st_pass1_fuel : forall f1 f2 ds tokens i lone,
  (Z.to_nat (len ds - i) < f1)%nat -> (Z.to_nat (len ds - i) < f2)%nat -> st_pass1 f1 ds tokens i lone = st_pass1 f2 ds tokens i lone.
Proof. fuel_ind f1 f2 IH. cbn [st_pass1]. fwalk IH. Qed.

Lemma em_pass_fuel : forall f1 f2 ds tokens i,
  (Z.to_nat (i + 1) < f1)%nat -> (Z.to_nat (i + 1) < f2)%nat -> em_pass f1 ds tokens i = em_pass f2 ds tokens i.
Proof. fuel_ind f1 f2 IH. cbn [em_pass]. fwalk IH. Qed.

(* balance_pairs: the opener search walks down the jump table; with the table invariant of
   Lemmas/InlineSafe.v (0 <= jumps[i] <= i) it ends within openerIdx - minOpenerIdx steps *)
Lemma find_opener_d_fuel ds jumps closer c : JI jumps c -> c <= len ds ->
  forall f1 f2 o mn, o < c -> -1 <= mn ->
  (Z.to_nat (o - mn) < f1)%nat -> (Z.to_nat (o - mn) < f2)%nat ->
  find_opener_d f1 ds jumps closer o mn = find_opener_d f2 ds jumps closer o mn.
Proof.
  intros [JL JH] CL. induction f1 as [|f1 IH]; intros f2 o mn Ho Hm B1 B2; [lia|]. destruct f2 as [|f2]; [lia|].
  cbn [find_opener_d].
  destruct (negb (mn <? o)) eqn:NE; [reflexivity|].
  destruct (dget ds o) as [opener|e|]; cbn [bind]; try reflexivity.
  destruct (jget jumps o) as [j|e|] eqn:EJ; cbn [bind]; try reflexivity.
  assert (HJ : 0 <= j <= o).
  { pose proof (jget_safe jumps o ltac:(lia)) as S. rewrite EJ in S. cbn in S. apply JH in S. lia. }
  assert (R : find_opener_d f1 ds jumps closer (o - (j + 1)) mn = find_opener_d f2 ds jumps closer (o - (j + 1)) mn) by (apply IH; lia).
  destruct (negb (d_marker opener =? d_marker closer)); [exact R|].
  destruct (d_open opener && (d_end opener <? 0)); [|exact R]. cbv zeta.
  rewrite R. reflexivity.
Qed.

Lemma pd_loop_fuel : forall f1 f2 ds jumps ob c h lt,
  (Z.to_nat (len ds - c) < f1)%nat -> (Z.to_nat (len ds - c) < f2)%nat ->
  pd_loop f1 ds jumps ob c h lt = pd_loop f2 ds jumps ob c h lt.
Proof.
  induction f1 as [|f1 IH]; intros f2 ds jumps ob c h lt B1 B2; [lia|]. destruct f2 as [|f2]; [lia|].
  cbn [pd_loop].
  repeat (match goal with
          | |- bind ?m _ = bind ?m _ => destruct m eqn:?; cbn [bind]; [|reflexivity|reflexivity]
          | |- (if ?b then _ else _) = (if ?b then _ else _) => destruct b eqn:?
          | |- match ?x with _ => _ end = match ?x with _ => _ end => destruct x eqn:?
          | |- _ => reflexivity
          | |- pd_loop _ _ _ _ _ _ _ = pd_loop _ _ _ _ _ _ _ => apply IH; rewrite ?dupd_len; lia
          end; cbv zeta).
Qed.

(* the call sites *)
Lemma pd_loop_call ds : forall f, (length ds < f)%nat -> pd_loop f ds [] [] 0 0 (-2) = pd_loop (S (length ds)) ds [] [] 0 0 (-2).
Proof. intros f Hf. apply pd_loop_fuel; unfold len; lia. Qed.
Lemma em_pass_call ds tokens : forall f, (length ds < f)%nat -> em_pass f ds tokens (len ds - 1) = em_pass (S (length ds)) ds tokens (len ds - 1).
Proof. intros f Hf. apply em_pass_fuel; unfold len; lia. Qed.
Lemma st_pass1_call ds tokens : forall f, (length ds < f)%nat -> st_pass1 f ds tokens 0 [] = st_pass1 (S (length ds)) ds tokens 0 [].
Proof. intros f Hf. apply st_pass1_fuel; unfold len; lia. Qed.
