(* More index / slice facts on [str]: reading inside a concatenation. *)
From MD Require Import Base.Py Base.Str Lemmas.StrLemmas.
From Coq Require Import ZifyBool.
Local Arguments Z.eqb : simpl never.
Local Arguments Z.ltb : simpl never.
Local Arguments Z.leb : simpl never.

Lemma len_app {A} (a b : list A) : len (a ++ b) = len a + len b.
Proof. unfold len. rewrite app_length. lia. Qed.
Lemma len_cons {A} (x : A) l : len (x :: l) = 1 + len l.
Proof. unfold len. cbn [length]. lia. Qed.
Lemma len_nonneg {A} (l : list A) : 0 <= len l.
Proof. unfold len. lia. Qed.

Lemma nth_error_app_mid {A} (pre : list A) c rest : nth_error (pre ++ c :: rest) (length pre) = Some c.
Proof. induction pre as [|x pre IH]; cbn; [reflexivity | exact IH]. Qed.

Lemma py_idx_app (pre : str) c rest : py_idx (pre ++ c :: rest) (len pre) = Ok c.
Proof.
  unfold py_idx, get. pose proof (len_nonneg pre). assert (E : (len pre <? 0) = false) by lia. cbv zeta. rewrite !E.
  unfold len. rewrite Nat2Z.id, nth_error_app_mid. reflexivity.
Qed.

Lemma py_idx_app2 (pre : str) c d rest : py_idx (pre ++ c :: d :: rest) (len pre + 1) = Ok d.
Proof.
  replace (pre ++ c :: d :: rest) with ((pre ++ [c]) ++ d :: rest) by (rewrite <- app_assoc; reflexivity).
  replace (len pre + 1) with (len (pre ++ [c])) by (rewrite len_app; unfold len; cbn; lia).
  apply py_idx_app.
Qed.

Lemma skipn_app_len {A} (pre rest : list A) : skipn (length pre) (pre ++ rest) = rest.
Proof. induction pre as [|x pre IH]; cbn; [reflexivity | exact IH]. Qed.

Lemma firstn_app_len {A} (a b : list A) : firstn (length a) (a ++ b) = a.
Proof. induction a as [|x a IH]; cbn; [reflexivity | f_equal; exact IH]. Qed.

(* s[len pre : len pre + len r] = r  when  s = pre ++ r ++ rest *)
Lemma slice_app_mid {A} (pre r rest : list A) : slice (pre ++ r ++ rest) (len pre) (len pre + len r) = r.
Proof.
  pose proof (len_nonneg pre). pose proof (len_nonneg r). pose proof (len_nonneg rest).
  rewrite slice_nonneg by lia. rewrite !len_app.
  rewrite !Z.min_l by lia.
  destruct (len pre + len r <=? len pre) eqn:E.
  - assert (Hr : len r = 0) by lia. destruct r as [|x r]; [reflexivity|]. rewrite len_cons in Hr. pose proof (len_nonneg r). lia.
  - replace (Z.to_nat (len pre + len r - len pre)) with (length r) by (unfold len; lia).
    replace (Z.to_nat (len pre)) with (length pre) by (unfold len; lia).
    rewrite skipn_app_len. apply firstn_app_len.
Qed.
