(* C17, tab half behind a block quote marker: what the quote rule writes into sCount / bsCount for a
   quoted line depends on the blanks after '>' only through the column they reach, counted from the
   real column of the marker with tab stops every four columns.  So spelling those blanks with
   tabs or with the spaces up to the next tab stop is the same line for every later rule. *)
From RecordUpdate Require Import RecordUpdate.
From MD Require Import Base.Py Base.Str Base.Opt Model.Token Model.Utils Model.StateBlock Model.Block
     Lemmas.StrLemmas Lemmas.StrLemmas2 Lemmas.BlockLemmas Lemmas.QuoteLemmas Lemmas.TabCols.
From Coq Require Import ZifyBool.

Local Arguments Z.eqb : simpl never.
Local Arguments Z.ltb : simpl never.
Local Arguments Z.leb : simpl never.

Definition chars_at (src : str) (pos : Z) (ws : list Z) : Prop :=
  forall i c, nth_error ws i = Some c -> nth_error src (Z.to_nat pos + i) = Some c.

Lemma chars_at_cons src pos c ws : 0 <= pos -> chars_at src pos (c :: ws) ->
  nth_error src (Z.to_nat pos) = Some c /\ chars_at src (pos + 1) ws.
Proof.
  intros Hp H. split.
  - specialize (H O c eq_refl). rewrite Nat.add_0_r in H. exact H.
  - intros i x Hx. specialize (H (S i) x Hx). replace (Z.to_nat (pos + 1) + i)%nat with (Z.to_nat pos + S i)%nat by lia. exact H.
Qed.

Lemma blank_is_space c : blank c -> is_space c = true.
Proof. intros [->| ->]; reflexivity. Qed.

(* the blank scan of the quote rule: exactly the columns of the blanks, tab stops counted from
   offset + bs (+ 1 when the tab after the marker is being split) *)
Lemma bq_blanks_exact : forall ws fuel src pos mx offset bs adj,
  Forall blank ws -> chars_at src pos ws -> stop_at src (pos + len ws) mx ->
  (length ws < fuel)%nat -> 0 <= pos -> pos + len ws <= mx ->
  bq_blanks fuel src pos mx offset bs adj
  = Ok (pos + len ws, cols (offset + bs + (if adj then 1 else 0)) ws - (bs + (if adj then 1 else 0))).
Proof.
  induction ws as [|c ws IH]; intros fuel src pos mx offset bs adj F C S HF Hp Hm.
  - destruct fuel as [|f]; [cbn in HF; lia|]. cbn [bq_blanks cols]. unfold len in *. cbn [length] in *. rewrite Z.add_0_r in *.
    destruct (pos <? mx) eqn:E; cbn [negb]; [|f_equal; f_equal; lia].
    destruct S as [Hge | (x & Hx & Hns)]; [lia|].
    rewrite (py_idx_nth _ _ _ Hp Hx). cbn [bind]. rewrite Hns. f_equal. f_equal; lia.
  - destruct fuel as [|f]; [cbn in HF; lia|]. cbn [bq_blanks]. rewrite len_cons in *.
    assert (E : (pos <? mx) = true) by (pose proof (len_nonneg ws); lia). rewrite E. cbn [negb].
    inversion F as [|? ? Hc Hr]; subst. destruct (chars_at_cons _ _ _ _ Hp C) as [H0 C'].
    rewrite (py_idx_nth _ _ _ Hp H0). cbn [bind]. rewrite (blank_is_space c Hc). cbv iota.
    rewrite (IH f src (pos + 1) mx _ bs adj Hr C'); [| |cbn in HF; lia|lia|lia].
    + cbn [cols]. set (a := if adj then 1 else 0). set (X := offset + bs + a).
      replace (pos + 1 + len ws) with (pos + (1 + len ws)) by lia. f_equal. f_equal. f_equal.
      destruct (c =? 9); [replace (offset + (4 - X mod 4) + bs + a) with (X + (4 - X mod 4)) by (unfold X; lia) | replace (offset + 1 + bs + a) with (X + 1) by (unfold X; lia)]; reflexivity.
    + replace (pos + 1 + len ws) with (pos + (1 + len ws)) by lia. exact S.
Qed.

(* a tab measured from the column after the marker or from one column further reaches the same stop,
   unless it is one column wide *)
Lemma cols_tab_shift R r : 0 <= R -> (R + 1) mod 4 <> 3 -> cols (R + 2) (9 :: r) = cols (R + 1) (9 :: r).
Proof.
  intros H0 H. cbn [cols]. change (9 =? 9) with true. cbv iota. f_equal.
  pose proof (Z.mod_pos_bound (R + 1) 4 ltac:(lia)). pose proof (Z.mod_pos_bound (R + 2) 4 ltac:(lia)).
  pose proof (Z.div_mod (R + 1) 4 ltac:(lia)). pose proof (Z.div_mod (R + 2) 4 ltac:(lia)).
  assert ((R + 1) / 4 = (R + 2) / 4) by (apply Z.div_unique with (r := (R + 1) mod 4 + 1); lia). lia.
Qed.

(* the row the quote rule writes for  '>' ws (non-blank | end)  with ws a non-empty run of blanks:
   sCount = column reached by the blanks - (column of the marker + 2), bsCount = column of the marker + 2,
   where the marker sits in real column R = bs + sc *)
Theorem bq_strip_columns src pos0 mx sc bs ws :
  0 <= pos0 -> 0 <= bs + sc -> ws <> [] -> Forall blank ws -> chars_at src (pos0 + 1) ws ->
  stop_at src (pos0 + 1 + len ws) mx -> pos0 + 1 + len ws <= mx -> mx <= len src ->
  exists q, bq_strip src pos0 mx sc bs = Ok q
    /\ q_sCount q = cols (bs + sc + 1) ws - (bs + sc + 2)
    /\ q_bsCount q = bs + sc + 2
    /\ q_bMark q + q_tShift q = pos0 + 1 + len ws
    /\ q_empty q = (mx <=? pos0 + 1 + len ws).
Proof.
  intros Hp HR NE F C ST Hm Hl. destruct ws as [|c r]; [contradiction NE; reflexivity|].
  inversion F as [|? ? Hc Hr]; subst. assert (Hp1 : 0 <= pos0 + 1) by lia. destruct (chars_at_cons src (pos0 + 1) c r Hp1 C) as [H0 C'].
  rewrite len_cons in *. pose proof (len_nonneg r) as LR.
  unfold bq_strip. cbv zeta. rewrite (char_at_nth src (pos0 + 1) c ltac:(lia) H0).
  assert (FU : (length r < S (length src))%nat) by (unfold len in *; lia).
  destruct Hc as [->| ->].
  - (* a space after the marker *)
    cbv iota beta.
    rewrite (bq_blanks_exact r (S (length src)) src (pos0 + 1 + 1) mx (sc + 1 + 1) bs false Hr); try lia.
    + cbn [bind]. eexists. split; [reflexivity|]. cbn [q_sCount q_bsCount q_bMark q_tShift q_empty cols].
      change (32 =? 9) with false. cbv iota.
      replace (sc + 1 + 1 + bs + 0) with (bs + sc + 1 + 1) by lia.
      split; [lia|]. split; [lia|]. split; [lia|]. f_equal. lia.
    + replace (pos0 + 1 + 1) with (pos0 + 1 + 1) by lia. exact C'.
    + replace (pos0 + 1 + 1 + len r) with (pos0 + 1 + (1 + len r)) by lia. exact ST.
  - (* a tab after the marker *)
    cbv iota beta.
    destruct ((bs + (sc + 1)) mod 4 =? 3) eqn:W.
    + (* one column wide: like a space *)
      rewrite (bq_blanks_exact r (S (length src)) src (pos0 + 1 + 1) mx (sc + 1 + 1) bs false Hr); try lia.
      * cbn [bind]. eexists. split; [reflexivity|]. cbn [q_sCount q_bsCount q_bMark q_tShift q_empty cols].
        change (9 =? 9) with true. cbv iota.
        assert (X : bs + sc + 1 + (4 - (bs + sc + 1) mod 4) = sc + 1 + 1 + bs + 0).
        { replace (bs + sc + 1) with (bs + (sc + 1)) by lia. lia. }
        rewrite X. split; [lia|]. split; [lia|]. split; [lia|]. f_equal. lia.
      * exact C'.
      * replace (pos0 + 1 + 1 + len r) with (pos0 + 1 + (1 + len r)) by lia. exact ST.
    + (* wider: the tab is split, one column is the optional space *)
      rewrite (bq_blanks_exact (9 :: r) (S (length src)) src (pos0 + 1) mx (sc + 1) bs true F); try lia.
      * cbn [bind]. eexists. split; [reflexivity|]. cbn [q_sCount q_bsCount q_bMark q_tShift q_empty].
        replace (sc + 1 + bs + 1) with (bs + sc + 2) by lia.
        rewrite (cols_tab_shift (bs + sc) r HR) by (replace (bs + sc + 1) with (bs + (sc + 1)) by lia; lia).
        rewrite len_cons. split; [lia|]. split; [lia|]. split; [lia|]. f_equal; lia.
      * exact C.
      * rewrite len_cons. exact ST.
      * cbn [length]. unfold len in *. lia.
      * rewrite len_cons. lia.
Qed.

(* hence: two spellings of the blanks after the marker that reach the same column give the same
   sCount, bsCount and emptiness - in particular a run with tabs and its expansion to spaces *)
Theorem bq_strip_respelling src1 src2 p1 p2 mx1 mx2 sc bs ws1 ws2 q1 q2 :
  0 <= p1 -> 0 <= p2 -> 0 <= bs + sc -> ws1 <> [] -> ws2 <> [] -> Forall blank ws1 -> Forall blank ws2 ->
  chars_at src1 (p1 + 1) ws1 -> chars_at src2 (p2 + 1) ws2 ->
  stop_at src1 (p1 + 1 + len ws1) mx1 -> stop_at src2 (p2 + 1 + len ws2) mx2 ->
  p1 + 1 + len ws1 <= mx1 -> p2 + 1 + len ws2 <= mx2 -> mx1 <= len src1 -> mx2 <= len src2 ->
  cols (bs + sc + 1) ws1 = cols (bs + sc + 1) ws2 ->
  (mx1 <=? p1 + 1 + len ws1) = (mx2 <=? p2 + 1 + len ws2) ->
  bq_strip src1 p1 mx1 sc bs = Ok q1 -> bq_strip src2 p2 mx2 sc bs = Ok q2 ->
  q_sCount q1 = q_sCount q2 /\ q_bsCount q1 = q_bsCount q2 /\ q_empty q1 = q_empty q2.
Proof.
  intros A1 A2 HR N1 N2 F1 F2 C1 C2 S1 S2 M1 M2 L1 L2 EC EE E1 E2.
  destruct (bq_strip_columns src1 p1 mx1 sc bs ws1 A1 HR N1 F1 C1 S1 M1 L1) as (x1 & X1 & a1 & b1 & _ & e1).
  destruct (bq_strip_columns src2 p2 mx2 sc bs ws2 A2 HR N2 F2 C2 S2 M2 L2) as (x2 & X2 & a2 & b2 & _ & e2).
  rewrite X1 in E1. rewrite X2 in E2. injection E1 as <-. injection E2 as <-.
  split; [rewrite a1, a2, EC; reflexivity|]. split; [rewrite b1, b2; reflexivity | rewrite e1, e2; exact EE].
Qed.

(* ---- the blanks after a list marker ---- *)
(* the scan of the list rule: the columns of the blanks, tab stops counted from offset + bs, i.e. in
   real columns when bs is the line's bsCount *)
Lemma list_blanks_exact : forall ws fuel src pos mx offset bs,
  Forall blank ws -> chars_at src pos ws -> stop_at src (pos + len ws) mx ->
  (length ws < fuel)%nat -> 0 <= pos -> pos + len ws <= mx ->
  list_blanks fuel src pos mx offset bs = Ok (pos + len ws, cols (offset + bs) ws - bs).
Proof.
  induction ws as [|c ws IH]; intros fuel src pos mx offset bs F C ST HF Hp Hm.
  - destruct fuel as [|f]; [cbn in HF; lia|]. cbn [list_blanks cols]. unfold len in *. cbn [length] in *. rewrite Z.add_0_r in *.
    destruct (pos <? mx) eqn:E; cbn [negb]; [|f_equal; f_equal; lia].
    destruct ST as [Hge | (x & Hx & Hns)]; [lia|].
    rewrite (py_idx_nth _ _ _ Hp Hx). cbn [bind].
    assert (X9 : (x =? 9) = false) by (destruct (x =? 9) eqn:Q; [assert (x = 9) by lia; subst x; discriminate Hns | reflexivity]).
    assert (X32 : (x =? 32) = false) by (destruct (x =? 32) eqn:Q; [assert (x = 32) by lia; subst x; discriminate Hns | reflexivity]).
    rewrite X9, X32. f_equal. f_equal; lia.
  - destruct fuel as [|f]; [cbn in HF; lia|]. cbn [list_blanks]. rewrite len_cons in *.
    assert (E : (pos <? mx) = true) by (pose proof (len_nonneg ws); lia). rewrite E. cbn [negb].
    inversion F as [|? ? Hc Hr]; subst. destruct (chars_at_cons _ _ _ _ Hp C) as [H0 C'].
    rewrite (py_idx_nth _ _ _ Hp H0). cbn [bind].
    assert (ST' : stop_at src (pos + 1 + len ws) mx) by (replace (pos + 1 + len ws) with (pos + (1 + len ws)) by lia; exact ST).
    destruct Hc as [->| ->].
    + change (32 =? 9) with false. change (32 =? 32) with true. cbv iota.
      rewrite (IH f src (pos + 1) mx (offset + 1) bs Hr C' ST'); [|cbn in HF; lia|lia|lia].
      cbn [cols]. change (32 =? 9) with false. cbv iota. f_equal. f_equal; [lia|]. f_equal. f_equal. lia.
    + change (9 =? 9) with true. cbv iota.
      rewrite (IH f src (pos + 1) mx _ bs Hr C' ST'); [|cbn in HF; lia|lia|lia].
      cbn [cols]. change (9 =? 9) with true. cbv iota. f_equal. f_equal; [lia|]. f_equal. f_equal. lia.
Qed.

(* so the content column of a list item depends on the blanks after its marker only through the real
   column they reach: equal columns, equal scan result (up to the character count) *)
Theorem list_blanks_respelling src1 src2 p1 p2 mx1 mx2 offset bs ws1 ws2 :
  Forall blank ws1 -> Forall blank ws2 -> chars_at src1 p1 ws1 -> chars_at src2 p2 ws2 ->
  stop_at src1 (p1 + len ws1) mx1 -> stop_at src2 (p2 + len ws2) mx2 ->
  0 <= p1 -> 0 <= p2 -> p1 + len ws1 <= mx1 -> p2 + len ws2 <= mx2 -> mx1 <= len src1 -> mx2 <= len src2 ->
  cols (offset + bs) ws1 = cols (offset + bs) ws2 ->
  exists o, list_blanks (S (length src1)) src1 p1 mx1 offset bs = Ok (p1 + len ws1, o)
         /\ list_blanks (S (length src2)) src2 p2 mx2 offset bs = Ok (p2 + len ws2, o).
Proof.
  intros F1 F2 C1 C2 S1 S2 P1 P2 M1 M2 L1 L2 EC.
  exists (cols (offset + bs) ws1 - bs). split.
  - apply list_blanks_exact; try assumption. pose proof (len_nonneg ws1). unfold len in *. lia.
  - rewrite EC. apply list_blanks_exact; try assumption. pose proof (len_nonneg ws2). unfold len in *. lia.
Qed.
