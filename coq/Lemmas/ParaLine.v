(* C18 (and the paragraph context of C09): a one-line document.  For EVERY line s that starts with a
   letter, has no blank at its end and no line-end character, and every configuration whose block
   chain contains the paragraph rule: parse(s LF) is paragraph_open, inline, paragraph_close, the
   inline token's content is s and its children are exactly what parseInline(s) produces -- the
   block parser hands the inline parser the same string in the paragraph context as in inline mode. *)
From RecordUpdate Require Import RecordUpdate.
From MD Require Import Base.Py Base.Str Base.Regex Base.Opt Model.Token Model.Utils Model.StateBlock Model.Helpers
     Model.Url Model.Render Model.Core Model.Block Model.Inline Model.Pipeline
     Lemmas.StrLemmas Lemmas.StrLemmas2 Lemmas.BlockLemmas Lemmas.QuoteLemmas Lemmas.BlockWF.
From Coq Require Import ZifyBool.

Local Arguments Z.eqb : simpl never.
Local Arguments Z.ltb : simpl never.
Local Arguments Z.leb : simpl never.
Local Arguments str_eqb : simpl never.

Definition letter (c : Z) : Prop := (97 <= c <= 122) \/ (65 <= c <= 90).

(* the line: first character a letter, no LF inside, last character not a blank *)
Record line_ok (s : str) : Prop := {
  lo_head : exists c0 body, s = c0 :: body /\ letter c0 /\ (forall x, In x body -> x <> 10);
  lo_strip : strip_by is_space s = s
}.

(* the state of the block parser on the document  s LF : two table rows (the line, the sentinel) *)
Definition one_line (st : bstate) (s : str) : Prop :=
  b_src st = s ++ [10]
  /\ b_bMarks st = [0; len s + 1] /\ b_eMarks st = [len s; len s + 1]
  /\ b_tShift st = [0; 0] /\ b_sCount st = [0; 0] /\ b_bsCount st = [0; 0]
  /\ b_blkIndent st = 0 /\ b_lineMax st = 1 /\ b_listIndent st = -1 /\ b_level st = 0.

Lemma letter_not_space c : letter c -> is_space c = false /\ c <> 10.
Proof.
  unfold letter, is_space. intros [[A B]|[A B]]; (split; [|lia]);
    (assert (E1 : (c =? 9) = false) by lia); (assert (E2 : (c =? 32) = false) by lia); rewrite E1, E2; reflexivity.
Qed.

Lemma init_one_line s env toks : line_ok s -> one_line (state_init (s ++ [10]) env toks) s /\ b_tokens (state_init (s ++ [10]) env toks) = toks
  /\ b_env (state_init (s ++ [10]) env toks) = env /\ b_line (state_init (s ++ [10]) env toks) = 0.
Proof.
  intros [(c0 & body & -> & Hl & Hb) _]. destruct (letter_not_space c0 Hl) as [Hs Hn].
  unfold state_init. change ((c0 :: body) ++ [10]) with (c0 :: body ++ [10]).
  pose proof (scan_text_line 0 c0 body (len (c0 :: body ++ [10])) [] [] [] [] 0 0 Hs Hn Hb) as SC.
  cbn [repeat_z app] in SC.
  assert (HL : len (c0 :: body ++ [10]) = len body + 2) by (unfold len; cbn [length]; rewrite app_length; cbn [length]; lia).
  rewrite SC by (rewrite HL; lia).
  cbv zeta. cbn [sc_bM sc_eM sc_tS sc_sC rev app map].
  unfold one_line. cbn [b_src b_bMarks b_eMarks b_tShift b_sCount b_bsCount b_blkIndent b_lineMax b_listIndent b_level b_tokens b_env b_line].
  rewrite HL, len_cons. repeat split; try reflexivity; try (f_equal; try lia; f_equal; lia).
Qed.

Section OneLine.
Context (cfg : bcfg) (rf cf : str -> str).
Context (s : str) (Hs : line_ok s).

(* what may differ between two states of this document: nothing the rules look at *)
Definition same_doc (st st' : bstate) : Prop :=
  one_line st' s /\ b_tokens st' = b_tokens st /\ b_env st' = b_env st /\ b_line st' = b_line st /\ b_tight st' = b_tight st.

Lemma same_doc_refl st : one_line st s -> same_doc st st.
Proof. intros H. repeat split; try reflexivity; apply H. Qed.

Ltac ol H :=
  let A := fresh in
  destruct H as (?Hsrc & ?HbM & ?HeM & ?HtS & ?HsC & ?HbS & ?HbI & ?HlM & ?HlI & ?Hlv).

Lemma head_facts : exists c0 body, s = c0 :: body /\ letter c0 /\ 0 < len s.
Proof.
  destruct Hs as [(c0 & body & E & L & _) _]. exists c0, body. repeat split; try assumption.
  rewrite E, len_cons. pose proof (len_nonneg body). lia.
Qed.

Lemma src_head st : one_line st s -> exists c0, letter c0 /\ char_at (b_src st) 0 = Some c0 /\ py_idx (b_src st) 0 = Ok c0.
Proof.
  intros H. ol H. destruct head_facts as (c0 & body & E & L & _). exists c0. rewrite Hsrc, E. split; [exact L | split; reflexivity].
Qed.

(* reading the tables of line 0 *)
Lemma ls0 st : one_line st s -> line_start st 0 = Ok 0.
Proof. intros H. ol H. unfold line_start. rewrite HbM, HtS. reflexivity. Qed.
Lemma em0 st : one_line st s -> tb (b_eMarks st) 0 = Ok (len s).
Proof. intros H. ol H. rewrite HeM. reflexivity. Qed.
Lemma sc0 st : one_line st s -> tb (b_sCount st) 0 = Ok 0.
Proof. intros H. ol H. rewrite HsC. reflexivity. Qed.
Lemma cb0 st : one_line st s -> code_block_at cfg st 0 = Ok false.
Proof.
  intros H. unfold code_block_at, is_code_block. rewrite (sc0 st H). cbn [bind]. ol H. rewrite HbI.
  change (4 <=? 0 - 0) with false. rewrite Bool.andb_false_r. reflexivity.
Qed.

Lemma r_table_fail term st : one_line st s -> r_table cfg term st 0 1 false = Ok (false, st).
Proof. intros _. unfold r_table. change (1 <? 0 + 2) with true. reflexivity. Qed.

Lemma r_code_fail st : one_line st s -> r_code cfg st 0 1 false = Ok (false, st).
Proof. intros H. unfold r_code. rewrite (cb0 st H). reflexivity. Qed.

Lemma r_fence_fail st : one_line st s -> r_fence cfg st 0 1 false = Ok (false, st).
Proof.
  intros H. unfold r_fence. rewrite (ls0 st H), (em0 st H), (cb0 st H). cbn [bind]. cbv iota.
  destruct (len s <? 0 + 3); [reflexivity|].
  destruct (src_head st H) as (c0 & L & _ & P). rewrite P. cbn [bind].
  assert (E : negb ((c0 =? 126) || (c0 =? 96)) = true) by (unfold letter in L; lia). rewrite E. reflexivity.
Qed.

Lemma r_blockquote_fail rec term st : one_line st s -> r_blockquote cfg rec term st 0 1 false = Ok (false, st).
Proof.
  intros H. unfold r_blockquote. rewrite (ls0 st H), (em0 st H), (cb0 st H). cbn [bind]. cbv iota.
  rewrite match_some_62. destruct (src_head st H) as (c0 & L & C & _). rewrite C.
  assert (E : (c0 =? 62) = false) by (unfold letter in L; lia). rewrite E. reflexivity.
Qed.

Lemma r_hr_fail st : one_line st s -> r_hr cfg st 0 1 false = Ok (false, st).
Proof.
  intros H. unfold r_hr. rewrite (ls0 st H), (em0 st H), (cb0 st H). cbn [bind]. cbv iota.
  destruct (src_head st H) as (c0 & L & C & _). rewrite C.
  assert (E : negb ((c0 =? 42) || (c0 =? 45) || (c0 =? 95)) = true) by (unfold letter in L; lia). rewrite E. reflexivity.
Qed.

Lemma r_heading_fail st : one_line st s -> r_heading cfg st 0 1 false = Ok (false, st).
Proof.
  intros H. unfold r_heading. rewrite (ls0 st H), (em0 st H), (cb0 st H). cbn [bind]. cbv iota.
  destruct head_facts as (_ & _ & _ & _ & Hl). assert (E0 : (len s <=? 0) = false) by lia. rewrite E0.
  destruct (src_head st H) as (c0 & L & _ & P). rewrite P. cbn [bind].
  assert (E : negb (c0 =? 35) = true) by (unfold letter in L; lia). rewrite E. reflexivity.
Qed.

Lemma r_html_block_fail st : one_line st s -> r_html_block cfg st 0 1 false = Ok (false, st).
Proof.
  intros H. unfold r_html_block. rewrite (ls0 st H), (em0 st H), (cb0 st H). cbn [bind]. cbv iota.
  destruct (negb (c_html cfg)); [reflexivity|].
  destruct head_facts as (_ & _ & _ & _ & Hl). assert (E0 : (len s <=? 0) = false) by lia. rewrite E0.
  destruct (src_head st H) as (c0 & L & _ & P). rewrite P. cbn [bind].
  assert (E : negb (c0 =? 60) = true) by (unfold letter in L; lia). rewrite E. reflexivity.
Qed.

Lemma r_reference_fail term st : one_line st s -> r_reference cfg rf cf term st 0 1 false = Ok (false, st).
Proof.
  intros H. unfold r_reference. rewrite (ls0 st H), (em0 st H), (cb0 st H). cbn [bind]. cbv iota.
  destruct (src_head st H) as (c0 & L & _ & P). rewrite P. cbn [bind].
  assert (E : negb (c0 =? 91) = true) by (unfold letter in L; lia). rewrite E. reflexivity.
Qed.

Lemma r_list_fail rec term st : one_line st s -> r_list cfg rec term st 0 1 false = Ok (false, st).
Proof.
  intros H. unfold r_list. rewrite (cb0 st H), (sc0 st H). cbn [bind]. cbv iota.
  pose proof H as H'. ol H'. rewrite HlI. change (0 <=? -1) with false. cbn [andb]. cbv iota.
  destruct (src_head st H) as (c0 & L & C & P).
  assert (SO : skip_ordered st 0 = Ok (-1)).
  { unfold skip_ordered. rewrite (ls0 st H), (em0 st H). cbn [bind]. destruct (len s <=? 0 + 1); [reflexivity|].
    rewrite P. cbn [bind]. assert (E : negb (is_digit c0) = true) by (unfold is_digit, letter in *; lia). rewrite E. reflexivity. }
  rewrite SO, (ls0 st H). cbn [bind]. change (0 <=? -1) with false. cbv iota.
  assert (SB : skip_bullet st 0 = Ok (-1)).
  { unfold skip_bullet. rewrite (ls0 st H), (em0 st H). cbn [bind]. rewrite C.
    assert (E : negb ((c0 =? 42) || (c0 =? 45) || (c0 =? 43)) = true) by (unfold letter in L; lia). rewrite E. reflexivity. }
  rewrite SB. cbn [bind]. change (0 <=? -1) with false. cbv iota. reflexivity.
Qed.

(* is_empty on the two rows *)
Lemma empty0 st : one_line st s -> is_empty st 0 = Ok false.
Proof.
  intros H. unfold is_empty. rewrite (ls0 st H), (em0 st H). cbn [bind].
  destruct head_facts as (_ & _ & _ & _ & Hl). assert (E : (len s <=? 0) = false) by lia. rewrite E. reflexivity.
Qed.

(* the paragraph-like scan from line 1: there is no line 1 *)
Lemma para_scan_stop term fuel chain st cu : para_scan (S fuel) term chain st 1 1 cu = Ok (1, None, st).
Proof. reflexivity. Qed.

Lemma r_lheading_fail term st : one_line st s ->
  exists st', r_lheading cfg term st 0 1 false = Ok (false, st') /\ same_doc st st'.
Proof.
  intros H. unfold r_lheading. rewrite (cb0 st H). cbn [bind]. cbv iota.
  change (Z.to_nat (1 - 0)) with 1%nat. rewrite para_scan_stop. cbn [bind].
  eexists. split; [reflexivity|]. unfold same_doc, one_line, st_parent. cbn. repeat split; try reflexivity; apply H.
Qed.

(* getLines of the single line *)
Lemma get_lines0 st : one_line st s -> get_lines st 0 1 0 false = Ok s.
Proof.
  intros H. ol H. unfold get_lines. change (1 <=? 0) with false. cbv iota.
  change (Z.to_nat (1 - 0)) with 1%nat. cbn [get_lines_loop]. change (negb (0 <? 1)) with false. cbv iota.
  rewrite HbM, HeM, HtS, HbS. cbn [tb bind]. change (tb [0; len s + 1] 0) with (Ok 0 : res Z).
  change (tb [len s; len s + 1] 0) with (Ok (len s) : res Z). change (tb [0; 0] 0) with (Ok 0 : res Z). cbn [bind].
  change (0 + 1 <? 1) with false. cbn [orb]. cbv iota.
  cbn [gl_scan]. change (0 <? 0) with false. rewrite Bool.andb_false_r. cbn [bind]. change (0 <? 0) with false. cbv iota.
  cbn [get_lines_loop]. cbn [negb]. cbv iota. cbn [bind app].
  rewrite ?app_nil_r, Hsrc. pose proof (slice_app_mid [] s [10]) as SL. cbn [app] in SL. unfold len at 1 2 in SL. cbn in SL. rewrite SL. reflexivity.
Qed.

Definition para_tokens (lvl : Z) : list token :=
  [map_tok 0 1 (set_level (set_block (new_token [112; 97; 114; 97; 103; 114; 97; 112; 104; 95; 111; 112; 101; 110] [112] 1) true) lvl);
   set_children (map_tok 0 1 (set_content (set_level (set_block (new_token s_inline [] 0) true) (lvl + 1)) s)) (Some []);
   set_level (set_block (new_token [112; 97; 114; 97; 103; 114; 97; 112; 104; 95; 99; 108; 111; 115; 101] [112] (-1)) true) lvl].

Lemma r_paragraph_line term st : one_line st s ->
  exists st', r_paragraph term st 0 1 false = Ok (true, st')
    /\ one_line st' s /\ b_tokens st' = b_tokens st ++ para_tokens 0 /\ b_env st' = b_env st /\ b_line st' = 1.
Proof.
  intros H. unfold r_paragraph. pose proof H as H'. ol H'. rewrite HlM.
  change (Z.to_nat (1 - 0)) with 1%nat. change (0 + 1) with 1. rewrite para_scan_stop. cbn [bind].
  assert (GL : get_lines (st_parent st nm_paragraph) 0 1 (b_blkIndent (st_parent st nm_paragraph)) false = Ok s).
  { change (b_blkIndent (st_parent st nm_paragraph)) with (b_blkIndent st). rewrite HbI. apply get_lines0.
    unfold one_line, st_parent. cbn. repeat split; assumption. }
  rewrite GL. cbn [bind]. destruct Hs as [_ ST]. rewrite ST.
  eexists. split; [reflexivity|].
  unfold one_line, st_parent, st_line, push_inline, para_tokens. cbn. rewrite Hlv. cbn.
  repeat split; try assumption; try reflexivity. rewrite <- !app_assoc. reflexivity.
Qed.

(* ---- the chain ---- *)

Context (pre post : list str).
Context (HR : c_rules cfg = pre ++ nm_paragraph :: post).
Context (Hpre : Forall (fun n => str_eqb n nm_paragraph = false) pre).
Context (Hnest : 0 < c_maxNesting cfg).

Lemma apply_rule_fail rec term n st : str_eqb n nm_paragraph = false -> one_line st s ->
  exists st', apply_rule cfg rf cf rec term n st 0 1 false = Ok (false, st') /\ same_doc st st'.
Proof.
  intros Hn H. unfold apply_rule.
  destruct (str_eqb n nm_table); [exists st; split; [apply r_table_fail, H | apply same_doc_refl, H]|].
  destruct (str_eqb n nm_code); [exists st; split; [apply r_code_fail, H | apply same_doc_refl, H]|].
  destruct (str_eqb n nm_fence); [exists st; split; [apply r_fence_fail, H | apply same_doc_refl, H]|].
  destruct (str_eqb n nm_blockquote); [exists st; split; [apply r_blockquote_fail, H | apply same_doc_refl, H]|].
  destruct (str_eqb n nm_hr); [exists st; split; [apply r_hr_fail, H | apply same_doc_refl, H]|].
  destruct (str_eqb n nm_list); [exists st; split; [apply r_list_fail, H | apply same_doc_refl, H]|].
  destruct (str_eqb n nm_reference); [exists st; split; [apply r_reference_fail, H | apply same_doc_refl, H]|].
  destruct (str_eqb n nm_html_block); [exists st; split; [apply r_html_block_fail, H | apply same_doc_refl, H]|].
  destruct (str_eqb n nm_heading); [exists st; split; [apply r_heading_fail, H | apply same_doc_refl, H]|].
  destruct (str_eqb n nm_lheading); [apply r_lheading_fail, H|].
  rewrite Hn. exists st. split; [reflexivity | apply same_doc_refl, H].
Qed.

Lemma try_rules_line rec : forall l st, Forall (fun n => str_eqb n nm_paragraph = false) l -> one_line st s ->
  exists st', try_rules cfg rf cf rec (l ++ nm_paragraph :: post) st 0 1 = Ok st'
    /\ one_line st' s /\ b_tokens st' = b_tokens st ++ para_tokens 0 /\ b_env st' = b_env st /\ b_line st' = 1.
Proof.
  induction l as [|n l IH]; intros st Hl H; cbn [app try_rules].
  - unfold apply_rule.
    change (str_eqb nm_paragraph nm_table) with false. change (str_eqb nm_paragraph nm_code) with false.
    change (str_eqb nm_paragraph nm_fence) with false. change (str_eqb nm_paragraph nm_blockquote) with false.
    change (str_eqb nm_paragraph nm_hr) with false. change (str_eqb nm_paragraph nm_list) with false.
    change (str_eqb nm_paragraph nm_reference) with false. change (str_eqb nm_paragraph nm_html_block) with false.
    change (str_eqb nm_paragraph nm_heading) with false. change (str_eqb nm_paragraph nm_lheading) with false.
    change (str_eqb nm_paragraph nm_paragraph) with true. cbv iota.
    destruct (r_paragraph_line (terminated cfg rf cf) st H) as (st' & E & R). rewrite E. cbn [bind]. cbv iota.
    exists st'. split; [reflexivity | exact R].
  - inversion Hl as [|? ? Hn Hl']; subst.
    destruct (apply_rule_fail rec (terminated cfg rf cf) n st Hn H) as (st1 & E & (O1 & T1 & E1 & L1 & _)). rewrite E. cbn [bind]. cbv iota.
    destruct (IH st1 Hl' O1) as (st' & E' & O' & T' & Ev' & L'). exists st'. split; [exact E'|].
    split; [exact O'|]. split; [rewrite T', T1; reflexivity|]. split; [rewrite Ev', E1; reflexivity | exact L'].
Qed.

Lemma skip_empty0 st fuel : one_line st s -> skip_empty_lines (S fuel) st 0 = 0.
Proof.
  intros H. cbn [skip_empty_lines]. pose proof H as H'. ol H'. rewrite HlM. change (negb (0 <? 1)) with false. cbv iota.
  rewrite (empty0 st H). reflexivity.
Qed.

Theorem block_parse_line env toks :
  exists st, block_parse cfg rf cf (s ++ [10]) env toks = Ok st
    /\ b_tokens st = toks ++ para_tokens 0 /\ b_env st = env.
Proof.
  unfold block_parse.
  destruct (init_one_line s env toks Hs) as (O0 & T0 & E0 & L0).
  set (st := state_init (s ++ [10]) env toks) in *.
  destruct (s ++ [10]) as [|x l] eqn:SRC.
  { destruct head_facts as (c0 & body & ES & _). rewrite ES in SRC. discriminate SRC. }
  cbv zeta.
  pose proof O0 as O0'. ol O0'. rewrite L0, HlM.
  set (d := S (Z.to_nat (c_maxNesting cfg))). cbn [tokenize]. change (Z.to_nat (1 - 0)) with 1%nat. cbn [tok_loop].
  change (negb (0 <? 1)) with false. cbv iota.
  rewrite HlM. change (Z.to_nat 1) with 1%nat. rewrite (skip_empty0 st 1 O0).
  change (1 <=? 0) with false. cbv iota.
  assert (O1 : one_line (st_line st 0) s) by (unfold one_line, st_line; cbn; repeat split; assumption).
  rewrite (sc0 (st_line st 0) O1). cbn [bind].
  change (b_blkIndent (st_line st 0)) with (b_blkIndent st). change (b_level (st_line st 0)) with (b_level st).
  rewrite HbI, Hlv. change (0 <? 0) with false. cbv iota.
  assert (E : (c_maxNesting cfg <=? 0) = false) by lia. rewrite E. rewrite HR.
  destruct (try_rules_line (tokenize cfg rf cf d) pre (st_line st 0) Hpre O1) as (st2 & TR & O2 & T2 & E2 & L2).
  rewrite TR. cbn [bind].
  set (st3 := st2 <| b_tight := negb false |>).
  assert (O3 : one_line st3 s) by (unfold one_line, st3; cbn; exact O2).
  change (b_line st3) with (b_line st2). rewrite L2.
  change (1 - 1 <? 1) with true. cbv iota. change (1 - 1) with 0. rewrite (empty0 st3 O3). cbn [bind orb].
  change (1 <? 1) with false. cbv iota. cbn [bind]. cbv iota.
  change (negb (1 <? 1)) with true. cbv iota.
  exists st3. split; [reflexivity|]. split.
  - change (b_tokens st3) with (b_tokens st2). rewrite T2. change (b_tokens (st_line st 0)) with (b_tokens st). rewrite T0. reflexivity.
  - change (b_env st3) with (b_env st2). rewrite E2. exact E0.
Qed.

End OneLine.

(* ---- the whole pipeline on the one-line document ---- *)

From MD Require Import Lemmas.NormalizeLemmas.

Section Pipe.
Context (cfg : pcfg) (rf cf lt : str -> str).
Context (s : str) (Hs : line_ok s).
Context (H13 : mem_z CR s = false) (H0 : mem_z NUL s = false).
Context (pre post : list str).
Context (HR : c_rules (p_block cfg) = pre ++ nm_paragraph :: post).
Context (Hpre : Forall (fun n => str_eqb n nm_paragraph = false) pre).
Context (Hnest : 0 < c_maxNesting (p_block cfg)).
Context (Hcore : p_core cfg = [n_normalize; n_block; n_inline; n_text_join]).

Definition p_open : token := map_tok 0 1 (set_level (set_block (new_token [112; 97; 114; 97; 103; 114; 97; 112; 104; 95; 111; 112; 101; 110] [112] 1) true) 0).
Definition p_inl : token := set_children (map_tok 0 1 (set_content (set_level (set_block (new_token s_inline [] 0) true) 1) s)) (Some []).
Definition p_close : token := set_level (set_block (new_token [112; 97; 114; 97; 103; 114; 97; 112; 104; 95; 99; 108; 111; 115; 101] [112] (-1)) true) 0.
Definition i_inl : token := set_children (set_map (set_content (new_token s_inline [] 0) s) (Some (0, 1))) (Some []).

Lemma mem_app_lf c : c <> 10 -> mem_z c s = false -> mem_z c (s ++ [10]) = false.
Proof.
  intros Hc H. unfold mem_z in *. rewrite existsb_app, H. cbn. assert (E : (c =? 10) = false) by lia. rewrite E. reflexivity.
Qed.

(* parse(s LF): the paragraph around an inline token whose children are the inline parse of s *)
Theorem parse_one_line env :
  parse cfg rf cf lt (s ++ [10]) env
  = (do toks <- inline_parse (p_inline cfg) rf cf lt s env [];
     Ok ([p_open; set_children p_inl (Some (join_children toks)); p_close], env)).
Proof.
  unfold parse. rewrite Hcore. cbn [core_process].
  change (core_rule cfg rf cf lt n_normalize (mkC (s ++ [10]) env [] false))
    with (Ok (mkC (normalize (s ++ [10])) env [] false) : res cstate).
  cbn [bind]. rewrite (normalize_id (s ++ [10])) by (apply mem_app_lf; [discriminate | assumption]).
  change (core_rule cfg rf cf lt n_block (mkC (s ++ [10]) env [] false))
    with (do b <- block_parse (p_block cfg) rf cf (s ++ [10]) env []; Ok (mkC (s ++ [10]) (b_env b) (b_tokens b) false)).
  destruct (block_parse_line (p_block cfg) rf cf s Hs pre post HR Hpre Hnest env []) as (st & BP & T & E).
  rewrite BP. cbn [bind]. rewrite T, E. cbn [app].
  change (core_rule cfg rf cf lt n_inline ?x) with (do ts <- inline_all cfg rf cf lt (c_tokens x) (c_env x); Ok (mkC (c_src x) (c_env x) ts (c_inlineMode x))).
  cbn [c_tokens c_env c_src c_inlineMode]. unfold para_tokens. cbn [inline_all].
  change (str_eqb (ttype (map_tok 0 1 (set_level (set_block (new_token [112; 97; 114; 97; 103; 114; 97; 112; 104; 95; 111; 112; 101; 110] [112] 1) true) 0))) s_inline) with false.
  change (str_eqb (ttype (set_level (set_block (new_token [112; 97; 114; 97; 103; 114; 97; 112; 104; 95; 99; 108; 111; 115; 101] [112] (-1)) true) 0)) s_inline) with false.
  match goal with |- context [str_eqb (ttype (set_children ?t (Some []))) s_inline] => change (str_eqb (ttype (set_children t (Some []))) s_inline) with true end.
  cbv iota. cbn [bind].
  match goal with |- context [tcontent (set_children ?t (Some []))] => change (tcontent (set_children t (Some []))) with s end.
  match goal with |- context [tchildren (set_children ?t (Some []))] => change (tchildren (set_children t (Some []))) with (Some (@nil token)) end.
  cbv iota.
  destruct (inline_parse (p_inline cfg) rf cf lt s env []) as [toks|e|]; cbn [bind]; try reflexivity.
Qed.

(* parseInline(s): one inline token with the same content and the same children *)
Theorem parse_inline_one_line env :
  parse_inline cfg rf cf lt s env
  = (do toks <- inline_parse (p_inline cfg) rf cf lt s env [];
     Ok ([set_children i_inl (Some (join_children toks))], env)).
Proof.
  unfold parse_inline. rewrite Hcore. cbn [core_process].
  change (core_rule cfg rf cf lt n_normalize (mkC s env [] true)) with (Ok (mkC (normalize s) env [] true) : res cstate).
  cbn [bind]. rewrite (normalize_id s H13 H0).
  change (core_rule cfg rf cf lt n_block (mkC s env [] true)) with (Ok (mkC s env ([] ++ [i_inl]) true) : res cstate).
  cbn [bind app].
  change (core_rule cfg rf cf lt n_inline ?x) with (do ts <- inline_all cfg rf cf lt (c_tokens x) (c_env x); Ok (mkC (c_src x) (c_env x) ts (c_inlineMode x))).
  cbn [c_tokens c_env c_src c_inlineMode inline_all].
  change (str_eqb (ttype i_inl) s_inline) with true. cbv iota.
  change (tcontent i_inl) with s. change (tchildren i_inl) with (Some (@nil token)). cbv iota.
  destruct (inline_parse (p_inline cfg) rf cf lt s env []) as [toks|e|]; cbn [bind]; try reflexivity.
Qed.

End Pipe.

Theorem paragraph_is_parse_inline :
  forall cfg rf cf lt s, line_ok s -> mem_z 13 s = false -> mem_z 0 s = false ->
  forall pre post, c_rules (p_block cfg) = pre ++ nm_paragraph :: post ->
    Forall (fun n => str_eqb n nm_paragraph = false) pre -> 0 < c_maxNesting (p_block cfg) ->
    p_core cfg = [n_normalize; n_block; n_inline; n_text_join] ->
  forall env,
    parse cfg rf cf lt (s ++ [10]) env
    = (do toks <- inline_parse (p_inline cfg) rf cf lt s env [];
       Ok ([p_open; set_children (p_inl s) (Some (join_children toks)); p_close], env))
    /\ parse_inline cfg rf cf lt s env
       = (do toks <- inline_parse (p_inline cfg) rf cf lt s env [];
          Ok ([set_children (i_inl s) (Some (join_children toks))], env)).
Proof.
  intros cfg rf cf lt s Hs H13 H0 pre post HR Hpre Hn Hc env.
  exact (conj (parse_one_line cfg rf cf lt s Hs H13 H0 pre post HR Hpre Hn Hc env) (parse_inline_one_line cfg rf cf lt s H13 H0 Hc env)).
Qed.

(* ---- C09 in the paragraph context ---- *)

From MD Require Import Lemmas.InlineEsc.

Section ParaEsc.
Context (cfg : pcfg) (rf cf lt : str -> str).
Context (segs : list seg) (Hwf : wf segs).
Context (Hs : line_ok (src_of segs)).
Context (H13 : mem_z CR (src_of segs) = false) (H0 : mem_z NUL (src_of segs) = false).
Context (bpre bpost : list str).
Context (HRb : c_rules (p_block cfg) = bpre ++ nm_paragraph :: bpost).
Context (Hbpre : Forall (fun n => str_eqb n nm_paragraph = false) bpre).
Context (Hbnest : 0 < c_maxNesting (p_block cfg)).
Context (Hcore : p_core cfg = [n_normalize; n_block; n_inline; n_text_join]).
Context (ipre ipost : list str).
Context (HRi : ic_rules (p_inline cfg) = ipre ++ n_escape :: ipost).
Context (Hipre : Forall (fun n => n = n_text \/ n = n_linkify \/ n = n_newline) ipre).
Context (Hitext : In n_text ipre).
Context (Hlink : ic_linkify (p_inline cfg) = false).
Context (Hinest : 0 < ic_maxNesting (p_inline cfg)).

(* render(esc(t) LF) = <p> escapeHtml(t) </p> LF *)
Theorem render_para_esc env :
  render_md cfg rf cf lt (src_of segs ++ [10]) env
  = Ok ([60; 112; 62] ++ escape_html (text_of segs) ++ [60; 47; 112; 62; 10], env).
Proof.
  unfold render_md.
  rewrite (parse_one_line cfg rf cf lt (src_of segs) Hs H13 H0 bpre bpost HRb Hbpre Hbnest Hcore env).
  unfold inline_parse.
  destruct (inline_parse_esc_with (p_inline cfg) rf cf lt (ifs (p_inline cfg) rf cf lt (inline_depth (p_inline cfg))) ipre ipost HRi Hipre Hitext Hlink Hinest segs env Hwf)
    as (toks & IP & CT & TL).
  rewrite IP. cbn [bind].
  destruct (join_children_textlike toks TL) as [(-> & ->) | (p & -> & Hp & Cp)].
  - (* empty text cannot be a line that starts with a letter *)
    exfalso. destruct Hs as [(c0 & body & E & _) _]. unfold contents in CT. cbn in CT.
    destruct segs as [|[r|c] l]; [discriminate E| |].
    + destruct Hwf as (Hne & _). unfold text_of in CT. cbn in CT. destruct r; [contradiction Hne; reflexivity | discriminate CT].
    + unfold text_of in CT. cbn in CT. discriminate CT.
  - unfold render. cbn [render_list].
    change (str_eqb (ttype (p_open)) s_inline) with false. cbv iota.
    unfold render_one at 1. cbn [ttype p_open map_tok set_map set_level set_block new_token].
    repeat match goal with |- context [str_eqb ?a ?b] =>
      match a with [112; 97; 114; 97; 103; 114; 97; 112; 104; 95; 111; 112; 101; 110] => change (str_eqb a b) with false end end.
    cbv iota. cbn [bind].
    match goal with |- context [str_eqb (ttype (set_children ?t ?c)) s_inline] => change (str_eqb (ttype (set_children t c)) s_inline) with true end.
    cbv iota.
    match goal with |- context [tchildren (set_children ?t (Some ?c))] => change (tchildren (set_children t (Some c))) with (Some c) end.
    cbv iota. cbn [render_inline_list hd_error]. rewrite (render_text_token _ _ p None Hp). cbn [bind render_inline_list app].
    change (str_eqb (ttype p_close) s_inline) with false. cbv iota.
    unfold render_one at 1. cbn [ttype p_close set_level set_block new_token].
    repeat match goal with |- context [str_eqb ?a ?b] =>
      match a with [112; 97; 114; 97; 103; 114; 97; 112; 104; 95; 99; 108; 111; 115; 101] => change (str_eqb a b) with false end end.
    cbv iota. cbn [bind render_list app].
    rewrite Cp, CT. unfold render_token, p_open, p_close, map_tok. cbn. rewrite ?app_nil_r.
    destruct (o_xhtml (p_render cfg)); cbn; rewrite ?app_nil_r, <- ?app_assoc; reflexivity.
Qed.

End ParaEsc.
