(* C01, component theorems: what is already proved about totality. *)
From MD Require Import Base.Py Base.Str Base.Opt Model.Token Model.Utils Model.Render Model.Core Model.StateBlock
     Lemmas.RenderLemmas.
From Coq Require Import ZifyBool.

Local Arguments Z.eqb : simpl never.
Local Arguments Z.leb : simpl never.
Local Arguments Z.ltb : simpl never.
Local Arguments str_eqb : simpl never.

Lemma int_of_digits_nonneg s : Forall (fun c => 48 <= c) s -> 0 <= int_of_digits s.
Proof.
  unfold int_of_digits. intros H.
  assert (G : forall acc, 0 <= acc -> 0 <= fold_left (fun a c => a * 10 + (c - 48)) s acc).
  { induction H as [|c l Hc Hl IH]; intros acc Ha; [exact Ha|]. cbn [fold_left]. apply IH. lia. }
  apply G. lia.
Qed.

Lemma hex_val_nonneg c : 0 <= hex_val c.
Proof.
  unfold hex_val. destruct (is_digit c) eqn:E1; [unfold is_digit in E1; lia|].
  destruct ((97 <=? c) && (c <=? 102)) eqn:E2; [lia|].
  destruct ((65 <=? c) && (c <=? 70)) eqn:E3; lia.
Qed.

Lemma int_of_hex_nonneg s : 0 <= int_of_hex s.
Proof.
  unfold int_of_hex.
  assert (G : forall acc, 0 <= acc -> 0 <= fold_left (fun a c => a * 16 + hex_val c) s acc).
  { induction s as [|c l IH]; intros acc Ha; [exact Ha|]. cbn [fold_left]. apply IH. pose proof (hex_val_nonneg c). lia. }
  apply G. lia.
Qed.

Theorem entity_chr_safe c :
  0 <= c -> is_valid_entity_code c = true -> c <= 1114111 /\ ~ (55296 <= c <= 57343).
Proof.
  unfold is_valid_entity_code. intros P H.
  destruct ((55296 <=? c) && (c <=? 57343)) eqn:E1; [discriminate|].
  destruct ((64976 <=? c) && (c <=? 65007)) eqn:E2; [discriminate|].
  destruct ((Z.land c 65535 =? 65535) || (Z.land c 65535 =? 65534)) eqn:E3; [discriminate|].
  destruct ((0 <=? c) && (c <=? 8)) eqn:E4; [discriminate|].
  destruct (c =? 11) eqn:E5; [discriminate|].
  destruct ((14 <=? c) && (c <=? 31)) eqn:E6; [discriminate|].
  destruct ((127 <=? c) && (c <=? 159)) eqn:E7; [discriminate|].
  split; lia.
Qed.

(* ---- the renderer never raises on a stream whose fence tokens carry no non-string class ---- *)

Definition class_ok (t : token) : Prop :=
  match alookup s_class (tattrs t) with Some (AInt _) => False | _ => True end.

Lemma render_fence_total o t : class_ok t -> exists cs, render_fence o t = Ok cs.
Proof.
  intros H. unfold render_fence, render_fence_with, render_fence_core.
  destruct (match fence_highlighted o t (lang_name (fence_info t)) (lang_attrs (fence_info t)) with
            | [CRaw h] => starts_with s_pre h | _ => false end); [eexists; reflexivity|].
  destruct (fence_info t) as [|i0 info]; [eexists; reflexivity|].
  unfold attr_join, class_ok in *. cbn [tattrs set_attrs new_token].
  destruct (alookup s_class (tattrs t)) as [[v|z]|]; try contradiction; cbn [bind]; eexists; reflexivity.
Qed.

Lemma render_one_total o p t n : class_ok t -> exists r, render_one o p t n = Ok r.
Proof.
  intros H. unfold render_one.
  repeat match goal with |- context [if ?b then _ else _] => destruct b; try (eexists; reflexivity) end.
  destruct (render_fence_total o t H) as [cs E]. rewrite E. cbn [bind]. eexists; reflexivity.
Qed.

Lemma render_inline_list_total o : forall l p, Forall class_ok l -> exists r, render_inline_list o p l = Ok r.
Proof.
  induction l as [|t rest IH]; intros p H; cbn [render_inline_list]; [eexists; reflexivity|].
  inversion H as [|? ? Ht Hr]; subst.
  destruct (render_one_total o p t (hd_error rest) Ht) as [[cs t'] E]. rewrite E. cbn [bind].
  destruct (IH (Some t') Hr) as [[cs2 r2] E2]. rewrite E2. cbn [bind]. eexists; reflexivity.
Qed.

Definition class_ok_top (t : token) : Prop :=
  class_ok t /\ forall ch, tchildren t = Some ch -> Forall class_ok ch.

Theorem render_total o : forall l p, Forall class_ok_top l -> exists r, render_list o p l = Ok r.
Proof.
  induction l as [|t rest IH]; intros p H; cbn [render_list]; [eexists; reflexivity|].
  inversion H as [|? ? [Ht Hc] Hr]; subst.
  destruct (str_eqb (ttype t) s_inline).
  - destruct (tchildren t) as [[|x ch]|] eqn:EC; cbn [bind].
    + destruct (IH (Some t) Hr) as [[cs2 r2] E2]. rewrite E2. cbn [bind]. eexists; reflexivity.
    + destruct (render_inline_list_total o (x :: ch) None (Hc _ eq_refl)) as [[cs ch'] E]. rewrite E. cbn [bind].
      destruct (IH (Some (set_children t (Some ch'))) Hr) as [[cs2 r2] E2]. rewrite E2. cbn [bind]. eexists; reflexivity.
    + destruct (IH (Some t) Hr) as [[cs2 r2] E2]. rewrite E2. cbn [bind]. eexists; reflexivity.
  - destruct (render_one_total o p t (hd_error rest) Ht) as [[cs t'] E]. rewrite E. cbn [bind].
    destruct (IH (Some t') Hr) as [[cs2 r2] E2]. rewrite E2. cbn [bind]. eexists; reflexivity.
Qed.

(* getLines of an empty range and table reads inside the range never raise *)
Lemma tb_in_range l i : 0 <= i < len l -> exists v, tb l i = Ok v.
Proof.
  intros H. unfold tb, len in *. cbv zeta. assert (E : (i <? 0) = false) by lia. rewrite !E.
  destruct (nth_error l (Z.to_nat i)) eqn:N; [eexists; reflexivity|].
  apply nth_error_None in N. lia.
Qed.
