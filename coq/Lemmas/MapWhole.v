(* C03, whole block parser: every token that ParserBlock.parse appends carries a map [b, e) with
   0 <= b < e <= lineMax, every successful rule advances the line cursor (so the line loop makes
   progress), container maps are non-empty - for every source, env and every configuration whose
   chain contains the paragraph rule and whose terminator chains hold only silent-capable rules
   (true of every Ruler-compiled configuration of the generated rule table). *)
From RecordUpdate Require Import RecordUpdate.
From MD Require Import Base.Py Base.Str Base.Regex Base.Opt Model.Token Model.Utils Model.StateBlock Model.Helpers
     Model.Url Model.Render Model.Block Lemmas.StrLemmas Lemmas.StrLemmas2 Lemmas.BlockLemmas Lemmas.BlockWF Lemmas.MapLemmas Lemmas.LfCount.
From Coq Require Import ZifyBool.

Local Arguments Z.eqb : simpl never.
Local Arguments Z.ltb : simpl never.
Local Arguments Z.leb : simpl never.
Local Arguments str_eqb : simpl never.

(* ---- frames: a failing or silent rule returns the state it was given, except that lheading
   may leave parentType changed ---- *)
Definition fr (st st' : bstate) : Prop := st' = st_parent st (b_parentType st').

Lemma fr_refl st : fr st st.
Proof. unfold fr. destruct st; reflexivity. Qed.
Lemma fr_parent st p : fr st (st_parent st p).
Proof. unfold fr. destruct st; reflexivity. Qed.
Lemma fr_trans a b c : fr a b -> fr b c -> fr a c.
Proof. unfold fr. intros H1 H2. rewrite H2. rewrite H1 at 1. destruct a; reflexivity. Qed.
Lemma fr_parent_r st st' p : fr st st' -> fr st (st_parent st' p).
Proof. intros H. eapply fr_trans; [exact H | apply fr_parent]. Qed.
Lemma fr_parent_l st st' p : fr st st' -> fr (st_parent st p) st'.
Proof. unfold fr. intros H. rewrite H at 1. destruct st; reflexivity. Qed.

Ltac fr_fields H :=
  let E := fresh "E" in pose proof H as E; unfold fr in E.

Lemma fr_tokens st st' : fr st st' -> b_tokens st' = b_tokens st.
Proof. intros H. rewrite H. reflexivity. Qed.
Lemma fr_lineMax st st' : fr st st' -> b_lineMax st' = b_lineMax st.
Proof. intros H. rewrite H. reflexivity. Qed.
Lemma fr_line st st' : fr st st' -> b_line st' = b_line st.
Proof. intros H. rewrite H. reflexivity. Qed.
Lemma fr_sCount st st' : fr st st' -> b_sCount st' = b_sCount st.
Proof. intros H. rewrite H. reflexivity. Qed.
Lemma fr_blkIndent st st' : fr st st' -> b_blkIndent st' = b_blkIndent st.
Proof. intros H. rewrite H. reflexivity. Qed.

(* ---- what a successful non-silent rule does ---- *)
Definition gm (lo hi : Z) (st st' : bstate) : Prop :=
  exists seg, b_tokens st' = b_tokens st ++ seg /\ Forall (map_in lo hi) seg.

Lemma gm_refl lo hi st : gm lo hi st st.
Proof. exists []. rewrite app_nil_r. split; [reflexivity | constructor]. Qed.

Lemma map_in_weaken a b a' b' t : map_in a b t -> a' <= a -> b <= b' -> map_in a' b' t.
Proof. unfold map_in. destruct (tmap t) as [[x y]|]; [lia | trivial]. Qed.

Lemma gm_weaken a b a' b' st st' : gm a b st st' -> a' <= a -> b <= b' -> gm a' b' st st'.
Proof.
  intros (seg & E & F) H1 H2. exists seg. split; [exact E|]. eapply Forall_impl; [|exact F].
  intros t Ht. eapply map_in_weaken; eauto.
Qed.

Lemma gm_trans lo hi a b c : gm lo hi a b -> gm lo hi b c -> gm lo hi a c.
Proof.
  intros (s1 & E1 & F1) (s2 & E2 & F2). exists (s1 ++ s2). split; [rewrite E2, E1, app_assoc; reflexivity|].
  apply Forall_app. split; assumption.
Qed.

Lemma gm_same_tokens lo hi a b b' : gm lo hi a b -> b_tokens b' = b_tokens b -> gm lo hi a b'.
Proof. intros (s & E & F) H. exists s. split; [congruence | exact F]. Qed.
Lemma gm_same_tokens_l lo hi a a' b : gm lo hi a b -> b_tokens a' = b_tokens a -> gm lo hi a' b.
Proof. intros (s & E & F) H. exists s. split; [congruence | exact F]. Qed.

(* the table invariant: line starts and indents are non-negative and no line feed lies between
   a line's start mark and its end mark *)
Definition TIp (src : str) (bM eM tS : list Z) : Prop :=
  forall l b e t, 0 <= l -> tb bM l = Ok b -> tb eM l = Ok e -> tb tS l = Ok t ->
    0 <= b /\ 0 <= t /\ 0 <= e /\ forall p, b <= p < e -> py_idx src p <> Ok 10.
Definition TI (st : bstate) : Prop := TIp (b_src st) (b_bMarks st) (b_eMarks st) (b_tShift st).

Lemma fr_TI st st' : fr st st' -> TI st -> TI st'.
Proof. intros H. rewrite H. exact (fun x => x). Qed.

Definition pre (st : bstate) (sl el : Z) : Prop := 0 <= sl /\ sl < el /\ el <= b_lineMax st /\ b_line st = sl /\ TI st.

Definition step_ok (st : bstate) (sl : Z) (st' : bstate) : Prop :=
  b_lineMax st' = b_lineMax st /\ sl < b_line st' <= b_lineMax st /\ gm sl (b_line st') st st' /\ TI st'.

(* the contract of one rule call *)
Definition rule_c (st : bstate) (sl el : Z) (silent b : bool) (st' : bstate) : Prop :=
  if b && negb silent then pre st sl el -> step_ok st sl st' else fr st st'.

Lemma rule_c_fail st sl el silent st' : fr st st' -> rule_c st sl el silent false st'.
Proof. intros H. unfold rule_c. exact H. Qed.
Lemma rule_c_silent st sl el b st' : fr st st' -> rule_c st sl el true b st'.
Proof. intros H. unfold rule_c. rewrite Bool.andb_false_r. exact H. Qed.

(* one-token pushes *)
Lemma gm_push1 lo hi st st0 ty tag n f :
  b_tokens st0 = b_tokens st -> map_in lo hi (f (set_level (set_block (new_token ty tag n) true) (if n <? 0 then b_level st0 - 1 else b_level st0))) ->
  gm lo hi st (bpush st0 ty tag n f).
Proof.
  intros E M. eexists. split; [rewrite bpush_tokens, E; reflexivity|]. constructor; [exact M | constructor].
Qed.

(* ---- getLines over k lines has at most k line feeds (k - 1 without the last one) ---- *)
Lemma gl_scan_ge : forall fuel src first last b li indent ts bs f' li',
  gl_scan fuel src first last b li indent ts bs = Ok (f', li') -> first <= f'.
Proof.
  induction fuel as [|f IH]; intros src first last b li indent ts bs f' li' H; cbn [gl_scan] in H; [rfinish H; lia|].
  destruct ((first <? last) && (li <? indent)); [|rfinish H; lia].
  rstep H. rstep H; [apply IH in H; lia|]. rstep H; [apply IH in H; lia | rfinish H; lia].
Qed.

Lemma get_lines_loop_lf st (HT : TI st) : forall fuel line endl indent keep content,
  get_lines_loop fuel st line endl indent keep = Ok content -> 0 <= line ->
  c10 content <= Z.max 0 (endl - line - (if keep then 0 else 1)).
Proof.
  induction fuel as [|f IH]; intros line endl indent keep content H Hl; cbn [get_lines_loop] in H; [rfinish H; cbn; lia|].
  destruct (negb (line <? endl)) eqn:E; [rfinish H; cbn; lia|].
  destruct (tb (b_bMarks st) line) as [b|?|] eqn:Eb; cbn [bind] in H; try discriminate H.
  destruct (tb (b_eMarks st) line) as [e|?|] eqn:Ee; cbn [bind] in H; try discriminate H.
  destruct (tb (b_tShift st) line) as [ts|?|] eqn:Et; cbn [bind] in H; try discriminate H.
  destruct (tb (b_bsCount st) line) as [bs|?|] eqn:Ebs; cbn [bind] in H; try discriminate H.
  match type of H with bind ?m _ = _ => destruct m as [[first li]|?|] eqn:GS end; cbn [bind] in H; try discriminate H.
  match type of H with bind ?m _ = _ => destruct m as [rest|?|] eqn:GR end; cbn [bind] in H; try discriminate H.
  rfinish H. apply gl_scan_ge in GS. apply IH in GR; [|lia].
  destruct (HT line b e ts Hl Eb Ee Et) as (B0 & T0 & E0 & Free).
  destruct (c10_slice_free (b_src st) first e ltac:(lia) E0 ltac:(intros p Hp; apply Free; lia)) as [F0 F1].
  rewrite !c10_app.
  assert (R0 : c10 (rep 32 (li - indent)) = 0) by apply c10_rep32.
  assert (R1 : c10 (@nil Z) = 0) by reflexivity.
  destruct (indent <? li); [rewrite R0 | rewrite R1].
  all: destruct ((line + 1 <? endl) || keep) eqn:K.
  all: try (assert (keep = false) by (destruct keep; [rewrite Bool.orb_true_r in K; discriminate K | reflexivity]); subst keep; lia).
  all: destruct keep; [lia|]; assert (line + 1 < endl) by lia; lia.
Qed.

Lemma get_lines_lf st (HT : TI st) a b indent keep content :
  get_lines st a b indent keep = Ok content -> 0 <= a ->
  c10 content <= Z.max 0 (b - a - (if keep then 0 else 1)).
Proof.
  unfold get_lines. intros H Ha. destruct (b <=? a); [rfinish H; cbn; lia|].
  eapply get_lines_loop_lf; eassumption.
Qed.

(* same tables and bounds *)
Definition stb (st st' : bstate) : Prop :=
  b_src st' = b_src st /\ b_bMarks st' = b_bMarks st /\ b_eMarks st' = b_eMarks st /\ b_tShift st' = b_tShift st
  /\ b_lineMax st' = b_lineMax st.
Lemma stb_refl st : stb st st. Proof. repeat split. Qed.
Lemma stb_trans a b c : stb a b -> stb b c -> stb a c.
Proof. unfold stb. intros (A1 & A2 & A3 & A4 & A5) (B1 & B2 & B3 & B4 & B5). repeat split; congruence. Qed.
Lemma fr_stb st st' : fr st st' -> stb st st'.
Proof. intros H. rewrite H. repeat split. Qed.
Lemma stb_TI st st' : stb st st' -> TI st -> TI st'.
Proof. unfold stb, TI. intros (A1 & A2 & A3 & A4 & A5) H. rewrite A1, A2, A3, A4. exact H. Qed.
Lemma stb_bpush st ty tag n f : stb st (bpush st ty tag n f).
Proof. repeat split. Qed.

(* patching the placeholder map of the token pushed first *)
Lemma gm_patch lo hi (st st' : bstate) ph rest a b :
  b_tokens st' = b_tokens st ++ ph :: rest -> Forall (map_in lo hi) rest -> lo <= a -> a < b -> b <= hi ->
  exists seg, set_map_at (b_tokens st') (length (b_tokens st)) (fun _ => Some (a, b)) = b_tokens st ++ seg
              /\ Forall (map_in lo hi) seg.
Proof.
  intros E F H1 H2 H3. rewrite E. unfold set_map_at. rewrite update_nth_app.
  eexists. split; [reflexivity|]. constructor; [|exact F]. unfold map_in. cbn. lia.
Qed.

(* ---- table writes ---- *)
Lemma nth_error_firstn' {A} : forall (k n : nat) (l : list A), (n < k)%nat -> nth_error (firstn k l) n = nth_error l n.
Proof. induction k as [|k IH]; intros n l H; [lia|]. destruct l as [|x l]; [reflexivity|]. destruct n as [|n]; [reflexivity|]. cbn. apply IH. lia. Qed.
Lemma nth_error_skipn'' {A} : forall (k n : nat) (l : list A), nth_error (skipn k l) n = nth_error l (k + n).
Proof. induction k as [|k IH]; intros n l; [reflexivity|]. destruct l as [|x l]; [destruct n; reflexivity|]. cbn [skipn Nat.add nth_error]. apply IH. Qed.

Lemma tb_nonneg l i : 0 <= i -> tb l i = match nth_error l (Z.to_nat i) with Some v => Ok v | None => Raise IndexError end.
Proof. intros H. unfold tb. cbv zeta. assert (E : (i <? 0) = false) by lia. rewrite !E. reflexivity. Qed.

Lemma tb_set_spec l i v l' : tb_set l i v = Ok l' -> 0 <= i ->
  tb l' i = Ok v /\ (forall j, 0 <= j -> j <> i -> tb l' j = tb l j) /\ len l' = len l.
Proof.
  unfold tb_set. cbv zeta. intros H Hi. assert (E : (i <? 0) = false) by lia. rewrite !E in H.
  destruct (len l <=? i) eqn:X; cbn [orb] in H; [discriminate H|]. injection H as <-.
  assert (Li : (Z.to_nat i < length l)%nat) by (unfold len in X; lia).
  assert (Lf : length (firstn (Z.to_nat i) l) = Z.to_nat i) by (rewrite firstn_length; lia).
  split; [|split].
  - rewrite tb_nonneg by lia. rewrite nth_error_app2 by lia. rewrite Lf, Nat.sub_diag. reflexivity.
  - intros j Hj Nj. rewrite !tb_nonneg by lia.
    destruct (Z_lt_le_dec j i) as [Lt|Ge].
    + rewrite nth_error_app1 by lia. rewrite nth_error_firstn' by lia. reflexivity.
    + rewrite nth_error_app2 by lia. rewrite Lf.
      replace (Z.to_nat j - Z.to_nat i)%nat with (S (Z.to_nat j - S (Z.to_nat i))) by lia.
      change (match l with [] => [] | _ :: l0 => skipn (Z.to_nat i) l0 end) with (skipn (S (Z.to_nat i)) l).
      cbn [nth_error]. rewrite nth_error_skipn''. replace (S (Z.to_nat i) + (Z.to_nat j - S (Z.to_nat i)))%nat with (Z.to_nat j) by lia. reflexivity.
  - unfold len. rewrite app_length. change (match l with [] => [] | _ :: l0 => skipn (Z.to_nat i) l0 end) with (skipn (S (Z.to_nat i)) l).
    cbn [length]. rewrite Lf, skipn_length. lia.
Qed.

(* a start mark x and indent t are good for line l *)
Definition goodbt (src : str) (eM : list Z) (l x t : Z) : Prop :=
  forall e, tb eM l = Ok e -> 0 <= x /\ 0 <= t /\ 0 <= e /\ forall p, x <= p < e -> py_idx src p <> Ok 10.

Lemma TIp_good src bM eM tS l b t : TIp src bM eM tS -> 0 <= l -> tb bM l = Ok b -> tb tS l = Ok t -> goodbt src eM l b t.
Proof. intros H Hl Eb Et e Ee. exact (H l b e t Hl Eb Ee Et). Qed.

Lemma goodbt_mono src eM l x t x' t' : goodbt src eM l x t -> x <= x' -> 0 <= t' -> goodbt src eM l x' t'.
Proof. intros H Hx Ht e Ee. destruct (H e Ee) as (A & B & C & D). repeat split; try lia. intros p Hp. apply D. lia. Qed.

Lemma TIp_set src bM eM tS l x t bM' tS' :
  TIp src bM eM tS -> 0 <= l -> tb_set bM l x = Ok bM' -> tb_set tS l t = Ok tS' -> goodbt src eM l x t ->
  TIp src bM' eM tS'.
Proof.
  intros H Hl Sb St G l' b e t' Hl' Eb Ee Et.
  destruct (tb_set_spec _ _ _ _ Sb Hl) as (B1 & B2 & _). destruct (tb_set_spec _ _ _ _ St Hl) as (T1 & T2 & _).
  destruct (Z.eq_dec l' l) as [->|N].
  - rewrite B1 in Eb. rewrite T1 in Et. injection Eb as <-. injection Et as <-. exact (G e Ee).
  - rewrite B2 in Eb by lia. rewrite T2 in Et by lia. exact (H l' b e t' Hl' Eb Ee Et).
Qed.

Lemma TIp_set_ts src bM eM tS l t tS' :
  TIp src bM eM tS -> 0 <= l -> tb_set tS l t = Ok tS' -> 0 <= t -> TIp src bM eM tS'.
Proof.
  intros H Hl St Ht l' b e t' Hl' Eb Ee Et.
  destruct (tb_set_spec _ _ _ _ St Hl) as (T1 & T2 & L).
  destruct (Z.eq_dec l' l) as [->|N].
  - rewrite T1 in Et. injection Et as <-.
    destruct (tb tS l) as [t0|?|] eqn:E0.
    + destruct (H l b e t0 Hl Eb Ee E0) as (A & B & C & D). repeat split; try lia. exact D.
    + exfalso. rewrite tb_nonneg in E0, T1 by lia.
      destruct (nth_error tS (Z.to_nat l)) eqn:X; [discriminate E0|]. apply nth_error_None in X.
      destruct (nth_error tS' (Z.to_nat l)) eqn:Y; [|discriminate T1].
      assert (Z.to_nat l < length tS')%nat by (apply nth_error_Some; congruence). unfold len in L. lia.
    + unfold tb in E0. cbv zeta in E0. destruct (if (if l <? 0 then l + len tS else l) <? 0 then None else nth_error tS (Z.to_nat (if l <? 0 then l + len tS else l))); discriminate E0.
  - rewrite T2 in Et by lia. exact (H l' b e t' Hl' Eb Ee Et).
Qed.

(* ---- block quote arithmetic ---- *)
Lemma bq_blanks_mono : forall fuel src pos mx offset bs adj p2 o2,
  bq_blanks fuel src pos mx offset bs adj = Ok (p2, o2) -> pos <= p2 /\ offset <= o2.
Proof.
  induction fuel as [|f IH]; intros src pos mx offset bs adj p2 o2 H; cbn [bq_blanks] in H; [rfinish H; lia|].
  destruct (negb (pos <? mx)); [rfinish H; lia|].
  rstep H. destruct (is_space x); [|rfinish H; lia].
  apply IH in H. destruct (x =? 9); [|lia].
  assert (0 <= (offset + bs + (if adj then 1 else 0)) mod 4 < 4) by (apply Z.mod_pos_bound; lia). lia.
Qed.

Lemma bq_strip_spec src pos0 mx sc bs q : bq_strip src pos0 mx sc bs = Ok q ->
  pos0 + 1 <= q_bMark q /\ 0 <= q_tShift q /\ 0 <= q_sCount q.
Proof.
  unfold bq_strip. cbv zeta.
  set (tup := match char_at src (pos0 + 1) with
              | Some 32 => (pos0 + 1 + 1, sc + 1 + 1, sc + 1 + 1, false, true)
              | Some 9 => if (bs + (sc + 1)) mod 4 =? 3 then (pos0 + 1 + 1, sc + 1 + 1, sc + 1 + 1, false, true)
                          else (pos0 + 1, sc + 1, sc + 1, true, true)
              | _ => (pos0 + 1, sc + 1, sc + 1, false, false)
              end).
  assert (P : let '(pos1, initial, offset, _, _) := tup in pos0 + 1 <= pos1 /\ offset = initial).
  { unfold tup. destruct (char_at src (pos0 + 1)) as [[|p|p]|]; try (split; [lia | reflexivity]).
    do 6 (try destruct p as [p|p|]); try (split; [lia | reflexivity]).
    destruct ((bs + (sc + 1)) mod 4 =? 3); split; try lia; reflexivity. }
  destruct tup as [[[[pos1 initial] offset] adj] sa]. destruct P as [P1 ->].
  intros H. match type of H with bind ?m _ = _ => destruct m as [[p2 o2]|?|] eqn:BB end; cbn [bind] in H; try discriminate H.
  apply bq_blanks_mono in BB. rfinish H. cbn. lia.
Qed.

(* frame of the table-rewriting helpers: everything but the four rewritten tables and lineMax *)
Definition k5 (st st' : bstate) : Prop :=
  b_tokens st' = b_tokens st /\ b_line st' = b_line st /\ b_src st' = b_src st /\ b_eMarks st' = b_eMarks st
  /\ b_blkIndent st' = b_blkIndent st.
Lemma k5_refl st : k5 st st. Proof. repeat split. Qed.
Lemma k5_trans a b c : k5 a b -> k5 b c -> k5 a c.
Proof. unfold k5. intros (A1 & A2 & A3 & A4 & A5) (B1 & B2 & B3 & B4 & B5). repeat split; congruence. Qed.
Lemma fr_k5 st st' : fr st st' -> k5 st st'.
Proof. intros H. rewrite H. repeat split. Qed.

(* saved table entries are good for the lines they were taken from *)
Fixpoint sv_ok (src : str) (eM : list Z) (line : Z) (b ts : list Z) : Prop :=
  match b, ts with
  | x :: b', t :: ts' => goodbt src eM line x t /\ sv_ok src eM (line + 1) b' ts'
  | _, _ => True
  end.

Lemma sv_ok_snoc src eM : forall b ts line x t, sv_ok src eM line b ts -> length b = length ts ->
  goodbt src eM (line + len b) x t -> sv_ok src eM line (b ++ [x]) (ts ++ [t]).
Proof.
  induction b as [|y b IH]; intros ts line x t H L G.
  - destruct ts; [|discriminate L]. cbn. unfold len in G. cbn in G. rewrite Z.add_0_r in G. split; [exact G | trivial].
  - destruct ts as [|u ts]; [discriminate L|]. cbn [app sv_ok] in *. destruct H as [H1 H2]. split; [exact H1|].
    apply IH; [exact H2 | cbn in L; lia|]. replace (line + 1 + len b) with (line + len (y :: b)) by (unfold len; cbn [length]; lia). exact G.
Qed.

Lemma apply_bq_m st line q st' : apply_bq st line q = Ok st' -> 0 <= line -> TI st ->
  goodbt (b_src st) (b_eMarks st) line (q_bMark q) (q_tShift q) ->
  TI st' /\ k5 st st' /\ b_lineMax st' = b_lineMax st /\ tb (b_sCount st') line = Ok (q_sCount q)
  /\ (forall j, 0 <= j -> j <> line -> tb (b_sCount st') j = tb (b_sCount st) j).
Proof.
  unfold apply_bq. intros H Hl HT G.
  destruct (tb_set (b_bMarks st) line (q_bMark q)) as [bm|?|] eqn:E1; cbn [bind] in H; try discriminate H.
  destruct (tb_set (b_bsCount st) line (q_bsCount q)) as [bs|?|] eqn:E2; cbn [bind] in H; try discriminate H.
  destruct (tb_set (b_sCount st) line (q_sCount q)) as [sc|?|] eqn:E3; cbn [bind] in H; try discriminate H.
  destruct (tb_set (b_tShift st) line (q_tShift q)) as [ts|?|] eqn:E4; cbn [bind] in H; try discriminate H.
  rfinish H. destruct (tb_set_spec _ _ _ _ E3 Hl) as (S1 & S2 & _).
  split; [exact (TIp_set _ _ _ _ _ _ _ _ _ HT Hl E1 E4 G)|]. split; [repeat split|]. split; [reflexivity|].
  split; [exact S1 | exact S2].
Qed.

Lemma save_line_m sv st line sv' sl0 : save_line sv st line = Ok sv' -> 0 <= line -> TI st ->
  sv_ok (b_src st) (b_eMarks st) sl0 (o_b sv) (o_ts sv) -> len (o_b sv) = line - sl0 -> len (o_ts sv) = line - sl0 ->
  sv_ok (b_src st) (b_eMarks st) sl0 (o_b sv') (o_ts sv') /\ len (o_b sv') = line + 1 - sl0 /\ len (o_ts sv') = line + 1 - sl0.
Proof.
  unfold save_line. intros H Hl HT SO L1 L2.
  destruct (tb (b_bMarks st) line) as [b|?|] eqn:Eb; cbn [bind] in H; try discriminate H.
  rstep H. destruct (tb (b_tShift st) line) as [t|?|] eqn:Et; cbn [bind] in H; try discriminate H.
  rstep H. rfinish H. cbn [o_b o_ts]. split.
  - apply sv_ok_snoc; [exact SO | unfold len in *; lia|]. replace (sl0 + len (o_b sv)) with line by lia.
    exact (TIp_good _ _ _ _ _ _ _ HT Hl Eb Et).
  - rewrite !len_app. unfold len at 2 4. cbn [length]. lia.
Qed.

Lemma restore_tables_m : forall ts st line b bs sc st',
  restore_tables st line b bs ts sc = Ok st' -> 0 <= line -> TI st ->
  sv_ok (b_src st) (b_eMarks st) line b ts ->
  TI st' /\ k5 st st' /\ b_lineMax st' = b_lineMax st.
Proof.
  induction ts as [|t ts IH]; intros st line b bs sc st' H Hl HT SO.
  - destruct b, sc, bs; cbn [restore_tables] in H; rfinish H; (split; [exact HT|]; split; [apply k5_refl | reflexivity]).
  - destruct b as [|x b]; [discriminate H|]. destruct sc as [|s sc]; [discriminate H|]. destruct bs as [|y bs]; [discriminate H|].
    cbn [restore_tables] in H. cbn [sv_ok] in SO. destruct SO as [G SO].
    destruct (tb_set (b_bMarks st) line x) as [bm|?|] eqn:E1; cbn [bind] in H; try discriminate H.
    destruct (tb_set (b_tShift st) line t) as [tsl|?|] eqn:E2; cbn [bind] in H; try discriminate H.
    do 2 rstep H.
    apply IH in H; [|lia| |].
    + destruct H as (A & B & C). split; [exact A|]. split; [|exact C].
      eapply k5_trans; [|exact B]. repeat split.
    + exact (TIp_set _ _ _ _ _ _ _ _ _ HT Hl E1 E2 G).
    + exact SO.
Qed.

Section Rules.
Context (cfg : bcfg) (rf cf : str -> str).

Ltac leaf_fail := first [ apply rule_c_fail; apply fr_refl | apply rule_c_silent; apply fr_refl ].

(* ---- leaf rules ---- *)
Lemma r_hr_c st sl el silent b st' : r_hr cfg st sl el silent = Ok (b, st') -> rule_c st sl el silent b st'.
Proof.
  unfold r_hr. intros H. repeat rstep H; try discriminate H. all: rfinish H; try leaf_fail.
  unfold rule_c. cbn [andb negb]. intros (P0 & P1 & P2 & P3 & HTI).
  split; [reflexivity|]. split; [cbn; lia|]. split; [|exact HTI]. apply gm_push1; [reflexivity|]. unfold map_in. cbn. lia.
Qed.

Lemma r_code_c st sl el b st' : r_code cfg st sl el false = Ok (b, st') -> rule_c st sl el false b st'.
Proof.
  unfold r_code. intros H.
  rstep H. rstep H; [rfinish H; leaf_fail|].
  match type of H with bind ?m _ = _ => destruct m as [last|?|] eqn:CS end; cbn [bind] in H; try discriminate H.
  apply code_scan_bounds in CS; [|lia]. destruct CS as [C1 C2].
  rstep H. rfinish H. unfold rule_c. cbn [andb negb]. intros (P0 & P1 & P2 & P3 & HTI). specialize (C2 ltac:(lia)).
  split; [reflexivity|]. split; [cbn; lia|]. split; [|exact HTI]. apply gm_push1; [reflexivity|]. unfold map_in. cbn. lia.
Qed.

Lemma r_fence_c st sl el silent b st' : r_fence cfg st sl el silent = Ok (b, st') -> rule_c st sl el silent b st'.
Proof.
  unfold r_fence. intros H.
  do 3 rstep H. rstep H; [rfinish H; leaf_fail|]. rstep H; [rfinish H; leaf_fail|].
  rstep H. rstep H; [rfinish H; leaf_fail|]. rstep H; [rfinish H; leaf_fail|]. rstep H; [rfinish H; leaf_fail|].
  rstep H; [rfinish H; leaf_fail|].
  match type of H with bind ?m _ = _ => destruct m as [[nl have]|?|] eqn:FS end; cbn [bind] in H; try discriminate H.
  apply fence_scan_bounds in FS. destruct FS as (_ & F1 & F2 & F3). specialize (F1 ltac:(discriminate)).
  do 2 rstep H. rfinish H. unfold rule_c. cbn [andb negb]. intros (P0 & P1 & P2 & P3 & HTI).
  specialize (F2 P1). destruct have; [specialize (F3 eq_refl)|clear F3].
  all: split; [reflexivity|]; (split; [cbn; lia|]); (split; [|exact HTI]); (apply gm_push1; [reflexivity|]); unfold map_in; cbn; lia.
Qed.

Lemma r_heading_c st sl el silent b st' : r_heading cfg st sl el silent = Ok (b, st') -> rule_c st sl el silent b st'.
Proof.
  unfold r_heading. intros H. repeat rstep H; try discriminate H. all: rfinish H; try leaf_fail.
  all: unfold rule_c; cbn [andb negb]; intros (P0 & P1 & P2 & P3 & HTI).
  all: split; [reflexivity|]; (split; [cbn; lia|]); (split; [|exact HTI]).
  all: eexists; (split; [rewrite !bpush_tokens, <- !app_assoc; cbn [app]; reflexivity|]).
  all: repeat constructor; unfold map_in; cbn; lia.
Qed.

Lemma r_html_block_c st sl el silent b st' : r_html_block cfg st sl el silent = Ok (b, st') -> rule_c st sl el silent b st'.
Proof.
  unfold r_html_block. intros H.
  do 3 rstep H. rstep H; [rfinish H; leaf_fail|]. rstep H; [rfinish H; leaf_fail|]. rstep H; [rfinish H; leaf_fail|].
  rstep H. rstep H; [rfinish H; leaf_fail|].
  rstep H; [|rfinish H; leaf_fail]. destruct p as [[opener closer] can].
  rstep H; [rfinish H; leaf_fail|].
  match type of H with bind ?m _ = _ => destruct m as [nl|?|] eqn:NL end; cbn [bind] in H; try discriminate H.
  rstep H. rfinish H. unfold rule_c. cbn [andb negb]. intros (P0 & P1 & P2 & P3 & HTI).
  assert (B : sl + 1 <= nl /\ nl <= el).
  { destruct (test closer (slice (b_src st) x x0)); [rfinish NL; lia|]. apply html_scan_bounds in NL. lia. }
  split; [reflexivity|]. split; [cbn; lia|]. split; [|exact HTI]. apply gm_push1; [reflexivity|]. unfold map_in. cbn. lia.
Qed.

(* ---- the paragraph-like rules ---- *)
Definition term_fr (term : term_t) : Prop := forall ch s a b r s', term ch s a b = Ok (r, s') -> fr s s'.

Lemma para_scan_fr term (T : term_fr term) : forall fuel chain st nl el cu r u st',
  para_scan fuel term chain st nl el cu = Ok (r, u, st') -> fr st st'.
Proof.
  induction fuel as [|f IH]; intros chain st nl el cu r u st' H; [discriminate H|].
  cbn [para_scan] in H.
  destruct (negb (nl <? el)); [rfinish H; apply fr_refl|].
  destruct (is_empty st nl) as [e|?|]; cbn [bind] in H; try discriminate H.
  destruct e; [rfinish H; apply fr_refl|].
  destruct (tb (b_sCount st) nl) as [sc|?|]; cbn [bind] in H; try discriminate H.
  destruct (3 <? sc - b_blkIndent st); [eapply IH; exact H|].
  match type of H with bind ?m _ = _ => destruct m as [ul|?|] end; cbn [bind] in H; try discriminate H.
  destruct ul as [ml|]; [rfinish H; apply fr_refl|].
  destruct (sc <? 0); [eapply IH; exact H|].
  destruct (term chain st nl el) as [[t st1]|?|] eqn:TE; cbn [bind] in H; try discriminate H.
  pose proof (T _ _ _ _ _ _ TE) as E1.
  destruct t; [rfinish H; exact E1|]. apply IH in H. eapply fr_trans; eassumption.
Qed.

Lemma r_paragraph_c term (T : term_fr term) st sl el b st' :
  r_paragraph term st sl el false = Ok (b, st') -> b = true /\ (pre st sl el -> step_ok st sl st').
Proof.
  unfold r_paragraph. intros H.
  match type of H with bind ?m _ = _ => destruct m as [[[nl u] st1]|?|] eqn:PS end; cbn [bind] in H; try discriminate H.
  pose proof (para_scan_bounds _ _ _ _ _ _ _ _ _ _ PS) as (P1 & P2 & _). cbn [b_lineMax st_parent] in P2.
  apply (para_scan_fr term T) in PS. apply (fr_parent_l st _ nm_paragraph) in PS.
  rstep H. rfinish H. split; [reflexivity|]. intros (Q0 & Q1 & Q2 & Q3 & HTI).
  assert (P2' : nl <= b_lineMax st) by (apply P2; change (b_lineMax (st_parent st nm_paragraph)) with (b_lineMax st); lia).
  pose proof (fr_tokens _ _ PS) as ET. pose proof (fr_lineMax _ _ PS) as EL. pose proof (fr_TI _ _ PS HTI) as HT1.
  split; [cbn; exact EL|]. split; [cbn; lia|]. split; [|exact HT1].
  eexists. split; [unfold push_inline; change (b_tokens (st_parent ?x ?y)) with (b_tokens x); rewrite !bpush_tokens, <- !app_assoc; cbn [app]; change (b_tokens (st_line st1 ?l)) with (b_tokens st1); rewrite ET; reflexivity|].
  repeat constructor; unfold map_in; cbn; lia.
Qed.

Lemma r_lheading_c term (T : term_fr term) st sl el b st' :
  r_lheading cfg term st sl el false = Ok (b, st') -> rule_c st sl el false b st'.
Proof.
  unfold r_lheading. intros H. rstep H. rstep H; [rfinish H; leaf_fail|].
  match type of H with bind ?m _ = _ => destruct m as [[[nl u] st1]|?|] eqn:PS end; cbn [bind] in H; try discriminate H.
  pose proof (para_scan_bounds _ _ _ _ _ _ _ _ _ _ PS) as (P1 & P2 & P3).
  apply (para_scan_fr term T) in PS. apply (fr_parent_l st _ nm_paragraph) in PS.
  destruct u as [[marker level]|]; [|rfinish H; apply rule_c_fail; exact PS].
  assert (P3' : nl < el) by (apply P3; discriminate).
  rstep H. rfinish H. unfold rule_c. cbn [andb negb]. intros (Q0 & Q1 & Q2 & Q3 & HTI).
  pose proof (fr_tokens _ _ PS) as ET. pose proof (fr_lineMax _ _ PS) as EL. pose proof (fr_TI _ _ PS HTI) as HT1.
  split; [cbn; exact EL|]. split; [cbn; lia|]. split; [|exact HT1].
  eexists. split; [unfold push_inline; change (b_tokens (st_parent ?x ?y)) with (b_tokens x); rewrite !bpush_tokens, <- !app_assoc; cbn [app]; change (b_tokens (st_line st1 ?l)) with (b_tokens st1); rewrite ET; reflexivity|].
  repeat constructor; unfold map_in; cbn; lia.
Qed.

(* ---- reference ---- *)
Lemma r_reference_c term (T : term_fr term) st sl el silent b st' :
  r_reference cfg rf cf term st sl el silent = Ok (b, st') -> rule_c st sl el silent b st'.
Proof.
  unfold r_reference. intros H.
  do 3 rstep H. rstep H; [rfinish H; leaf_fail|].
  rstep H. rstep H; [rfinish H; leaf_fail|].
  rstep H. rstep H; [rfinish H; leaf_fail|].
  match type of H with bind ?m _ = _ => destruct m as [[[nl u] st1]|?|] eqn:PS end; cbn [bind] in H; try discriminate H.
  pose proof (para_scan_bounds _ _ _ _ _ _ _ _ _ _ PS) as (P1 & P2 & _). cbn [b_lineMax st_parent] in P2.
  apply (para_scan_fr term T) in PS. apply (fr_parent_l st _ nm_reference) in PS.
  match type of H with bind ?m _ = _ => destruct m as [raw|?|] eqn:GL end; cbn [bind] in H; try discriminate H.
  cbv zeta in H.
  set (s := py_strip raw) in *. set (mx := len s) in *. set (fuel := S (length s)) in *.
  destruct (ref_label fuel s 1 mx 0) as [[[labelEnd|] lines0]|] eqn:RL; try (rfinish H; apply rule_c_fail; exact PS).
  rstep H; [rfinish H; apply rule_c_fail; exact PS|].
  destruct (skip_ws_nl fuel s (labelEnd + 2) mx lines0) as [p1 lines1] eqn:W1.
  set (res := parse_link_destination s p1 mx) in *.
  destruct (negb (l_ok res)) eqn:RO; [rfinish H; apply rule_c_fail; exact PS|].
  rstep H; [rfinish H; apply rule_c_fail; exact PS|].
  destruct (skip_ws_nl fuel s (l_pos res) mx (lines1 + l_lines res)) as [p2 lines2] eqn:W2.
  set (tres := parse_link_title s p2 mx) in *.
  destruct ((p2 <? mx) && negb (l_pos res =? p2) && l_ok tres) eqn:TC.
  all: cbv beta iota zeta in H.
  all: match type of H with context [if ?c then ([], _, _) else _] => destruct c eqn:C4 end; cbv beta iota zeta in H.
  all: (rstep H; [rfinish H; apply rule_c_fail; exact PS|]).
  all: (rstep H; [rfinish H; apply rule_c_fail; exact PS|]).
  all: (rstep H; [rfinish H; apply rule_c_silent; exact PS|]).
  all: rfinish H; unfold rule_c; cbn [andb negb]; intros (Q0 & Q1 & Q2 & Q3 & HTI).
  all: pose proof (fr_tokens _ _ PS) as ET; pose proof (fr_lineMax _ _ PS) as EL; pose proof (fr_TI _ _ PS HTI) as HT1.
  all: assert (RO' : l_ok res = true) by (destruct (l_ok res); [reflexivity | discriminate RO]).
  all: destruct (ref_lines_bound _ _ _ _ _ _ _ _ _ RL W1 RO' W2) as [LB1 LB2]; fold res in LB1; fold tres in LB2.
  all: pose proof (c10_strip is_py_space raw) as X; fold (py_strip raw) in X; fold s in X.
  all: pose proof (get_lines_lf st1 HT1 _ _ _ false raw GL Q0) as LR; cbv iota in LR.
  all: specialize (P2 ltac:(change (b_lineMax (st_parent st nm_reference)) with (b_lineMax st); lia)).
  1,2: assert (TO : l_ok tres = true) by (destruct (l_ok tres); [reflexivity | rewrite Bool.andb_false_r in TC; discriminate TC]).
  1,2: specialize (LB2 TO).
  all: (split; [destruct (c_inline_defs cfg); cbn; exact EL|]).
  all: (split; [destruct (c_inline_defs cfg); cbn; lia|]).
  all: (split; [|destruct (c_inline_defs cfg); exact HT1]).
  all: destruct (c_inline_defs cfg).
  all: try (apply gm_push1; [cbn; exact ET|]; unfold map_in; cbn; lia).
  all: exists []; rewrite app_nil_r; (split; [cbn; exact ET | constructor]).
Qed.

(* ---- table ---- *)
Lemma push_cells_gm lo hi : forall aligns st oty cty tag cols a b sne, lo <= a -> a < b -> b <= hi ->
  gm lo hi st (push_cells st oty cty tag aligns cols a b sne) /\ stb st (push_cells st oty cty tag aligns cols a b sne).
Proof.
  induction aligns as [|al aligns IH]; intros st oty cty tag cols a b sne H1 H2 H3; cbn [push_cells]; [split; [apply gm_refl | apply stb_refl]|].
  match goal with |- gm _ _ _ (push_cells ?s _ _ _ _ _ _ _ _) /\ _ => destruct (IH s oty cty tag (match cols with _ :: r => r | [] => [] end) a b sne H1 H2 H3) as [G S] end.
  split; [|eapply stb_trans; [|exact S]; repeat split].
  eapply gm_trans; [|exact G].
  eexists. split; [unfold push_inline; rewrite !bpush_tokens, <- !app_assoc; cbn [app]; reflexivity|].
  unfold cell_attrs. repeat constructor; unfold map_in; destruct al; cbn; lia.
Qed.

Lemma row_gm lo hi st aligns cols a b : lo <= a -> a < b -> b <= hi ->
  let st' := bpush (push_cells (bpush st s_tr_open s_tr 1 (map_tok a b))
                            [116; 100; 95; 111; 112; 101; 110] [116; 100; 95; 99; 108; 111; 115; 101] [116; 100] aligns cols a b true)
                s_tr_close s_tr (-1) (fun t => t) in
  gm lo hi st st' /\ stb st st'.
Proof.
  intros H1 H2 H3. cbv zeta.
  match goal with |- gm _ _ _ (bpush (push_cells ?s ?o ?c ?t ?al ?co _ _ ?sn) _ _ _ _) /\ _ =>
    destruct (push_cells_gm lo hi al s o c t co a b sn H1 H2 H3) as [G S] end.
  split; [|eapply stb_trans; [|apply stb_bpush]; eapply stb_trans; [apply stb_bpush | exact S]].
  apply (gm_trans lo hi st (bpush st s_tr_open s_tr 1 (map_tok a b))); [apply gm_push1; [reflexivity|]; unfold map_in; cbn; lia|].
  eapply gm_trans; [exact G|]. apply gm_push1; [reflexivity|]. unfold map_in. cbn. trivial.
Qed.

(* rows after the first body row *)
Lemma table_rows_later_m term (T : term_fr term) : forall fuel st aligns sl nl el tbody r tb' st',
  nl <> sl + 2 -> sl + 2 <= nl -> nl <= el -> 0 <= sl ->
  table_rows cfg fuel term st aligns sl nl el tbody = Ok (r, tb', st') ->
  tb' = tbody /\ nl <= r <= el /\ gm sl r st st' /\ stb st st'.
Proof.
  induction fuel as [|f IH]; intros st aligns sl nl el tbody r tb' st' N G L0 S0 H; [discriminate H|].
  cbn [table_rows] in H.
  destruct (negb (nl <? el)) eqn:NE; [rfinish H; repeat split; try lia; [apply gm_refl]|].
  rstep H. rstep H; [rfinish H; repeat split; try lia; [apply gm_refl]|].
  destruct (term nm_blockquote st nl el) as [[t st1]|?|] eqn:TE; cbn [bind] in H; try discriminate H.
  pose proof (T _ _ _ _ _ _ TE) as E1.
  assert (F1 : forall hi, gm sl hi st st1) by (intros hi; exists []; rewrite app_nil_r; split; [apply fr_tokens, E1 | constructor]).
  destruct t; [rfinish H; split; [reflexivity|]; split; [lia|]; split; [apply F1 | apply fr_stb, E1]|].
  rstep H. destruct (py_strip x0) as [|c0 lt] eqn:LT; [rfinish H; split; [reflexivity|]; split; [lia|]; split; [apply F1 | apply fr_stb, E1]|].
  rstep H. rstep H; [rfinish H; split; [reflexivity|]; split; [lia|]; split; [apply F1 | apply fr_stb, E1]|].
  assert (Ne : (nl =? sl + 2) = false) by lia. rewrite Ne in H.
  assert (nl < el) by lia.
  apply IH in H; [|lia|lia|lia|lia]. destruct H as (-> & B & G2 & S2). split; [reflexivity|]. split; [lia|].
  destruct (row_gm sl r st1 aligns (trim_cols (escaped_split (c0 :: lt))) nl (nl + 1) ltac:(lia) ltac:(lia) ltac:(lia)) as [G1 S1].
  split; [eapply gm_trans; [apply F1|]; eapply gm_trans; [exact G1 | exact G2]|].
  eapply stb_trans; [apply fr_stb, E1|]. eapply stb_trans; [exact S1 | exact S2].
Qed.

(* the loop entered at the first body line *)
Lemma table_rows_first_m term (T : term_fr term) fuel st aligns sl el r tb' st' :
  sl + 2 <= el -> 0 <= sl ->
  table_rows cfg fuel term st aligns sl (sl + 2) el None = Ok (r, tb', st') ->
  sl + 2 <= r <= el /\ stb st st' /\
  ((tb' = None /\ b_tokens st' = b_tokens st)
   \/ (exists ph rest, tb' = Some (length (b_tokens st)) /\ b_tokens st' = b_tokens st ++ ph :: rest
                       /\ Forall (map_in sl r) rest /\ sl + 2 < r)).
Proof.
  destruct fuel as [|f]; intros L0 S0 H; [discriminate H|].
  cbn [table_rows] in H.
  destruct (negb (sl + 2 <? el)) eqn:NE; [rfinish H; split; [lia|]; split; [apply stb_refl|]; left; split; reflexivity|].
  rstep H. rstep H; [rfinish H; split; [lia|]; split; [apply stb_refl|]; left; split; reflexivity|].
  destruct (term nm_blockquote st (sl + 2) el) as [[t st1]|?|] eqn:TE; cbn [bind] in H; try discriminate H.
  pose proof (T _ _ _ _ _ _ TE) as E1. pose proof (fr_tokens _ _ E1) as ET.
  destruct t; [rfinish H; split; [lia|]; split; [apply fr_stb, E1|]; left; split; [reflexivity | exact ET]|].
  rstep H. destruct (py_strip x0) as [|c0 lt] eqn:LT; [rfinish H; split; [lia|]; split; [apply fr_stb, E1|]; left; split; [reflexivity | exact ET]|].
  rstep H. rstep H; [rfinish H; split; [lia|]; split; [apply fr_stb, E1|]; left; split; [reflexivity | exact ET]|].
  assert (Ne : (sl + 2 =? sl + 2) = true) by lia. rewrite Ne in H.
  apply (table_rows_later_m term T) in H; [|lia|lia|lia|lia]. destruct H as (-> & B & G2 & S2).
  split; [lia|].
  match type of G2 with gm _ _ (bpush (push_cells (bpush ?s0 _ _ _ _) _ _ _ ?al ?co _ _ _) _ _ _ _) _ =>
    destruct (row_gm sl r s0 al co (sl + 2) (sl + 2 + 1) ltac:(lia) ltac:(lia) ltac:(lia)) as [G1 S1] end.
  split.
  { eapply stb_trans; [apply fr_stb, E1|]. eapply stb_trans; [apply stb_bpush|]. eapply stb_trans; [exact S1 | exact S2]. }
  right. destruct (gm_trans _ _ _ _ _ G1 G2) as (seg & ES & FS).
  eexists. exists seg. split; [rewrite ET; reflexivity|].
  split; [rewrite ES, bpush_tokens, ET, <- app_assoc; reflexivity|]. split; [exact FS | lia].
Qed.

Lemma r_table_c term (T : term_fr term) st sl el silent b st' :
  r_table cfg term st sl el silent = Ok (b, st') -> rule_c st sl el silent b st'.
Proof.
  unfold r_table. intros H.
  destruct (el <? sl + 2) eqn:EL2; [rfinish H; leaf_fail|]. cbv zeta in H.
  rstep H. rstep H; [rfinish H; leaf_fail|]. rstep H. rstep H; [rfinish H; leaf_fail|].
  do 2 rstep H. rstep H; [rfinish H; leaf_fail|]. rstep H. rstep H; [rfinish H; leaf_fail|].
  rstep H; [rfinish H; leaf_fail|]. rstep H. rstep H; [rfinish H; leaf_fail|]. rstep H; [rfinish H; leaf_fail|].
  rstep H. rstep H; [rfinish H; leaf_fail|]. rstep H.
  match type of H with match ?o with Some _ => _ | None => _ end = _ => destruct o as [aligns|] end; [|rfinish H; leaf_fail].
  rstep H. rstep H; [rfinish H; leaf_fail|]. rstep H. rstep H; [rfinish H; leaf_fail|].
  rstep H; [rfinish H; leaf_fail|]. rstep H; [rfinish H; leaf_fail|].
  match type of H with bind ?m _ = _ => destruct m as [[[nl tbody] st7]|?|] eqn:TR end; cbn [bind] in H; try discriminate H.
  rfinish H. unfold rule_c. cbn [andb negb]. intros (Q0 & Q1 & Q2 & Q3 & HTI).
  match type of TR with table_rows _ _ _ ?s6 _ _ _ _ _ = _ => remember s6 as st6 eqn:E6 end.
  apply (table_rows_first_m term T) in TR; [|lia|lia]. destruct TR as (B & S & Cases).
  (* the header part *)
  assert (GH : exists tph hseg, b_tokens st6 = b_tokens st ++ tph :: hseg /\ Forall (map_in sl nl) hseg /\ stb st st6).
  { rewrite E6.
    match goal with |- context [push_cells ?s ?o ?c ?t ?al ?co ?a ?b0 ?sn] =>
      destruct (push_cells_gm sl nl al s o c t co a b0 sn ltac:(lia) ltac:(lia) ltac:(lia)) as [(cs & EC & FC) SC] end.
    eexists. eexists. split; [rewrite !bpush_tokens, EC, !bpush_tokens; change (b_tokens (st_parent st nm_table)) with (b_tokens st); rewrite <- !app_assoc; cbn [app]; reflexivity|].
    split.
    - constructor; [unfold map_in; cbn; lia|]. constructor; [unfold map_in; cbn; lia|].
      apply Forall_app. split; [exact FC|]. repeat constructor; unfold map_in; cbn; trivial.
    - eapply stb_trans; [|apply stb_bpush]. eapply stb_trans; [|apply stb_bpush]. eapply stb_trans; [|exact SC]. repeat split. }
  destruct GH as (tph & hseg & E6t & FH & S6). clear E6.
  pose proof (stb_trans _ _ _ S6 S) as S7. destruct S7 as (T1 & T2 & T3 & T4 & T5).
  assert (HT7 : TI st7) by (apply (stb_TI st); [repeat split; assumption | exact HTI]).
  destruct Cases as [[-> ET7]|(ph & rest & -> & ET7 & FR & LT)].
  - (* no body rows *)
    split; [cbn; exact T5|]. split; [cbn; lia|]. split; [|exact HT7].
    unfold gm, st_line, st_parent. cbn -[set_map_at map_in app]. rewrite ET7, E6t.
    rewrite <- app_assoc. cbn [app]. unfold set_map_at. rewrite update_nth_app.
    eexists. split; [reflexivity|]. constructor; [unfold map_in; cbn; lia|].
    apply Forall_app. split; [exact FH|]. repeat constructor; unfold map_in; cbn; trivial.
  - split; [cbn; exact T5|]. split; [cbn; lia|]. split; [|exact HT7].
    unfold gm, st_line, st_parent. cbn -[set_map_at map_in app]. rewrite ET7.
    rewrite <- !app_assoc. cbn [app]. unfold set_map_at at 2. rewrite update_nth_app.
    rewrite E6t. rewrite <- !app_assoc. cbn [app]. unfold set_map_at. rewrite update_nth_app.
    eexists. split; [reflexivity|]. constructor; [unfold map_in; cbn; lia|].
    apply Forall_app. split; [exact FH|]. constructor; [unfold map_in; cbn; lia|].
    repeat (apply Forall_app; split); try exact FR; repeat constructor; unfold map_in; cbn; trivial.
Qed.

(* ---- block quote ---- *)
Ltac split7 := refine (conj _ (conj _ (conj _ (conj _ (conj _ (conj _ _)))))).

Lemma bq_loop_m term (T : term_fr term) sl0 : forall fuel st sv nl el lle r sv' st',
  bq_loop fuel term st sv nl el lle = Ok (r, sv', st') ->
  0 <= sl0 -> sl0 < nl -> nl <= el -> el <= b_lineMax st -> TI st ->
  sv_ok (b_src st) (b_eMarks st) sl0 (o_b sv) (o_ts sv) -> len (o_b sv) = nl - sl0 -> len (o_ts sv) = nl - sl0 ->
  nl <= r <= el /\ r <= b_lineMax st' /\ b_lineMax st' <= b_lineMax st /\ TI st'
  /\ sv_ok (b_src st') (b_eMarks st') sl0 (o_b sv') (o_ts sv') /\ k5 st st'
  /\ (forall j, 0 <= j < nl -> tb (b_sCount st') j = tb (b_sCount st) j).
Proof.
  induction fuel as [|f IH]; intros st sv nl el lle r sv' st' H S0 S1 L0 L1 HT SO N1 N2; [discriminate H|].
  cbn [bq_loop] in H.
  destruct (negb (nl <? el)) eqn:NE; [injection H as <- <- <-; split7; first [lia | assumption | apply k5_refl | (intros; reflexivity)]|].
  destruct (tb (b_sCount st) nl) as [sc|?|] eqn:Esc; cbn [bind] in H; try discriminate H.
  destruct (line_start st nl) as [pos|?|] eqn:LS; cbn [bind] in H; try discriminate H.
  destruct (tb (b_eMarks st) nl) as [mx|?|] eqn:Ee; cbn [bind] in H; try discriminate H.
  destruct (mx <=? pos) eqn:MP; [injection H as <- <- <-; split7; first [lia | assumption | apply k5_refl | (intros; reflexivity)]|].
  rstep H. cbv zeta in H.
  destruct ((x =? 62) && negb (sc <? b_blkIndent st)) eqn:Q.
  - (* a quoted line *)
    rstep H.
    match type of H with bind ?m _ = _ => destruct m as [q|?|] eqn:BS end; cbn [bind] in H; try discriminate H.
    match type of H with bind ?m _ = _ => destruct m as [sv1|?|] eqn:SL end; cbn [bind] in H; try discriminate H.
    match type of H with bind ?m _ = _ => destruct m as [st1|?|] eqn:AB end; cbn [bind] in H; try discriminate H.
    apply bq_strip_spec in BS. destruct BS as (Q1 & Q2 & Q3).
    destruct (save_line_m _ _ _ _ sl0 SL ltac:(lia) HT SO N1 N2) as (SO1 & M1 & M2).
    assert (G : goodbt (b_src st) (b_eMarks st) nl (q_bMark q) (q_tShift q)).
    { unfold line_start in LS. destruct (tb (b_bMarks st) nl) as [b0|?|] eqn:Eb; cbn [bind] in LS; try discriminate LS.
      destruct (tb (b_tShift st) nl) as [t0|?|] eqn:Et; cbn [bind] in LS; try discriminate LS. rfinish LS.
      pose proof (TIp_good _ _ _ _ nl _ _ HT ltac:(lia) Eb Et) as G0.
      eapply goodbt_mono; [exact G0| |lia]. destruct (G0 mx Ee) as (A & B & _). lia. }
    destruct (apply_bq_m _ _ _ _ AB ltac:(lia) HT G) as (HT1 & K1 & LM1 & SC1 & SC2).
    destruct K1 as (K11 & K12 & K13 & K14 & K15).
    apply IH in H; try lia; try assumption.
    + destruct H as (A & B & C & D & E & F & G2). split7; try lia; try assumption.
      * eapply k5_trans; [|exact F]. repeat split; assumption.
      * intros j Hj. rewrite G2 by lia. apply SC2; lia.
    + rewrite K13, K14. exact SO1.
  - destruct lle; [injection H as <- <- <-; split7; first [lia | assumption | apply k5_refl | (intros; reflexivity)]|].
    destruct (term nm_blockquote st nl el) as [[t st1]|?|] eqn:TE; cbn [bind] in H; try discriminate H.
    pose proof (T _ _ _ _ _ _ TE) as E1. pose proof (fr_k5 _ _ E1) as (K11 & K12 & K13 & K14 & K15).
    pose proof (fr_TI _ _ E1 HT) as HT1. pose proof (fr_lineMax _ _ E1) as LM1. pose proof (fr_sCount _ _ E1) as SC1.
    destruct t.
    + (* a terminator stops the quote here *)
      cbv zeta in H. destruct (negb (b_blkIndent (st1 <| b_lineMax := nl |>) =? 0)).
      * match type of H with bind ?m _ = _ => destruct m as [sv1|?|] eqn:SL end; cbn [bind] in H; try discriminate H.
        match type of H with bind ?m _ = _ => destruct m as [scs|?|] eqn:TS end; cbn [bind] in H; try discriminate H.
        injection H as <- <- <-. destruct (tb_set_spec _ _ _ _ TS ltac:(lia)) as (_ & W2 & _).
        assert (HT2 : TI (st1 <| b_lineMax := nl |>)) by exact HT1.
        destruct (save_line_m _ _ _ _ sl0 SL ltac:(lia) HT2 ltac:(cbn; rewrite K13, K14; exact SO) N1 N2) as (SO1 & M1 & M2).
        cbn in SO1. split7; cbn; try lia; try assumption; try (repeat split; assumption).
        intros j Hj. rewrite W2 by lia. cbn. rewrite SC1. reflexivity.
      * injection H as <- <- <-. split7; cbn; try lia; try assumption; try (repeat split; assumption).
        -- rewrite K13, K14. exact SO.
        -- intros j Hj. rewrite SC1. reflexivity.
    + (* a lazy continuation line *)
      match type of H with bind ?m _ = _ => destruct m as [sv1|?|] eqn:SL end; cbn [bind] in H; try discriminate H.
      match type of H with bind ?m _ = _ => destruct m as [scs|?|] eqn:TS end; cbn [bind] in H; try discriminate H.
      destruct (tb_set_spec _ _ _ _ TS ltac:(lia)) as (_ & W2 & _).
      destruct (save_line_m _ _ _ _ sl0 SL ltac:(lia) HT1 ltac:(rewrite K13, K14; exact SO) N1 N2) as (SO1 & M1 & M2).
      apply IH in H; try lia; try assumption.
      * destruct H as (A & B & C & D & E & F & G2). split7; try lia; try assumption.
        -- cbn in C. lia.
        -- eapply k5_trans; [|exact F]. repeat split; assumption.
        -- intros j Hj. rewrite G2 by lia. cbn. rewrite W2 by lia. rewrite SC1. reflexivity.
      * cbn. lia.
Qed.

Definition first_ok (st : bstate) (a : Z) : Prop := forall sc, tb (b_sCount st) a = Ok sc -> b_blkIndent st <= sc.

(* the contract of the nested tokenize *)
Definition rec_c (rec : rec_t) : Prop := forall st a b st',
  rec st a b = Ok st' -> 0 <= a -> a < b -> b <= b_lineMax st -> TI st ->
  b_lineMax st' = b_lineMax st /\ a <= b_line st' <= b_lineMax st /\ gm a (b_line st') st st' /\ TI st'
  /\ b_src st' = b_src st /\ b_eMarks st' = b_eMarks st /\ (first_ok st a -> a < b_line st').

Lemma r_blockquote_c rec term (R : rec_c rec) (T : term_fr term) st sl el silent b st' :
  r_blockquote cfg rec term st sl el silent = Ok (b, st') -> rule_c st sl el silent b st'.
Proof.
  unfold r_blockquote. intros H.
  destruct (line_start st sl) as [pos|?|] eqn:LS; cbn [bind] in H; try discriminate H.
  destruct (tb (b_eMarks st) sl) as [mx|?|] eqn:Ee; cbn [bind] in H; try discriminate H.
  rstep H. rstep H; [rfinish H; leaf_fail|].
  rewrite match_some_62 in H.
  rstep H; [|rfinish H; leaf_fail].
  destruct silent; [rfinish H; leaf_fail|].
  destruct (tb (b_sCount st) sl) as [sc|?|] eqn:Esc; cbn [bind] in H; try discriminate H.
  rstep H.
  match type of H with bind ?m _ = _ => destruct m as [q|?|] eqn:BS end; cbn [bind] in H; try discriminate H.
  match type of H with bind ?m _ = _ => destruct m as [sv0|?|] eqn:SL end; cbn [bind] in H; try discriminate H.
  match type of H with bind (apply_bq ?a ?b ?c) _ = _ => destruct (apply_bq a b c) as [st1|?|] eqn:AB end;
    cbn [bind] in H; try discriminate H.
  match type of H with bind ?m _ = _ => destruct m as [[[nl sv] st3]|?|] eqn:BL end; cbn [bind] in H; try discriminate H.
  match type of H with bind (rec ?a ?b ?c) _ = _ => destruct (rec a b c) as [st6|?|] eqn:RC end;
    cbn [bind] in H; try discriminate H.
  match type of H with bind ?m _ = _ => destruct m as [st10|?|] eqn:RT end; cbn [bind] in H; try discriminate H.
  injection H as <- <-. unfold rule_c. cbn [andb negb]. intros (Q0 & Q1 & Q2 & Q3 & HTI).
  (* the first line *)
  apply bq_strip_spec in BS. destruct BS as (B1 & B2 & B3).
  assert (G : goodbt (b_src st) (b_eMarks st) sl (q_bMark q) (q_tShift q)).
  { unfold line_start in LS. destruct (tb (b_bMarks st) sl) as [b0|?|] eqn:Eb; cbn [bind] in LS; try discriminate LS.
    destruct (tb (b_tShift st) sl) as [t0|?|] eqn:Et; cbn [bind] in LS; try discriminate LS. injection LS as <-.
    pose proof (TIp_good _ _ _ _ sl _ _ HTI ltac:(lia) Eb Et) as G0.
    eapply goodbt_mono; [exact G0| |lia]. destruct (G0 mx Ee) as (A & B & _). lia. }
  assert (SO0 : sv_ok (b_src st) (b_eMarks st) sl [] []) by exact I.
  destruct (save_line_m (mkSaved [] [] [] []) st sl sv0 sl SL Q0 HTI SO0 ltac:(cbn; lia) ltac:(cbn; lia)) as (SO1 & M1 & M2).
  destruct (apply_bq_m _ _ _ _ AB Q0 HTI G) as (HT1 & K1 & LM1 & SC1 & SC2).
  destruct K1 as (K11 & K12 & K13 & K14 & K15).
  apply (bq_loop_m term T sl) in BL; try lia.
  2: cbn; lia.
  2: exact HT1.
  2: cbn; rewrite K13, K14; exact SO1.
  destruct BL as (L1 & L2 & L3 & HT3 & SO3 & K3 & SC3). destruct K3 as (K31 & K32 & K33 & K34 & K35).
  cbn in L3, K31, K32, K33, K34, K35.
  (* the nested block loop *)
  destruct (R _ _ _ _ RC Q0 ltac:(lia) ltac:(cbn; lia) HT3) as (C1 & C2 & C3 & HT6 & C5 & C6 & C7). cbn in C1, C2, C5, C6.
  assert (FO : first_ok (bpush (st3 <| b_blkIndent := 0 |>) [98; 108; 111; 99; 107; 113; 117; 111; 116; 101; 95; 111; 112; 101; 110] nm_blockquote 1
                              (fun t => map_tok sl 0 (set_markup t [62]))) sl).
  { intros s0 E0. cbn in E0. rewrite SC3 in E0 by lia. cbn in E0. rewrite SC1 in E0. injection E0 as <-. cbn. lia. }
  specialize (C7 FO).
  (* restoring the tables *)
  apply restore_tables_m in RT; [|exact Q0| |].
  2: { cbn. exact HT6. }
  2: { cbn. rewrite C5, C6. cbn. exact SO3. }
  destruct RT as (HT10 & K10 & LM10). destruct K10 as (K101 & K102 & K103 & K104 & K105).
  cbn in LM10, K102. unfold st_parent in K101. cbn -[set_map_at bpush app] in K101.
  split; [cbn; exact LM10|].
  split; [cbn; rewrite K102; lia|].
  split; [|exact HT10].
  cbn [b_line set]. rewrite K102. unfold gm. cbn [b_tokens set]. rewrite K101.
  destruct C3 as (seg & ES & FS).
  rewrite bpush_tokens, ES, bpush_tokens.
  change (b_tokens (st3 <| b_blkIndent := 0 |>)) with (b_tokens st3). rewrite K31, K11.
  rewrite <- !app_assoc. cbn [app]. unfold set_map_at. rewrite update_nth_app.
  eexists. split; [reflexivity|]. constructor; [unfold map_in; cbn; lia|].
  apply Forall_app. split; [exact FS|]. repeat constructor; unfold map_in; cbn; trivial.
Qed.

End Rules.
