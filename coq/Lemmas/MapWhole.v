(* C03, whole block parser: every token that ParserBlock.parse appends carries a map [b, e) with
   0 <= b < e <= lineMax, every successful rule advances the line cursor (so the line loop makes
   progress), container maps are non-empty - for every source, env and every configuration whose
   chain contains the paragraph rule and whose terminator chains hold only silent-capable rules
   (true of every Ruler-compiled configuration of the generated rule table). *)
From RecordUpdate Require Import RecordUpdate.
From MD Require Import Base.Py Base.Str Base.Regex Base.Opt Model.Token Model.Utils Model.StateBlock Model.Helpers
     Model.Url Model.Render Model.Block Lemmas.StrLemmas Lemmas.StrLemmas2 Lemmas.BlockLemmas Lemmas.BlockWF Lemmas.MapLemmas Lemmas.LfCount Lemmas.ScanLemmas.
From Coq Require Import ZifyBool.

Local Arguments Z.eqb : simpl never.
Local Arguments Z.ltb : simpl never.
Local Arguments Z.leb : simpl never.
Local Arguments str_eqb : simpl never.

(* ---- frames: a failing or silent rule returns the state it was given, except that lheading
   may leave parentType changed ---- *)
Definition fr (st st' : bstate) : Prop := st' = st_parent st (b_parentType st').

Lemma fr_refl st : fr st st.
Proof. unfold fr. destruct st; reflexivity. Qed.
Lemma fr_parent st p : fr st (st_parent st p).
Proof. unfold fr. destruct st; reflexivity. Qed.
Lemma fr_trans a b c : fr a b -> fr b c -> fr a c.
Proof. unfold fr. intros H1 H2. rewrite H2. rewrite H1 at 1. destruct a; reflexivity. Qed.
Lemma fr_parent_r st st' p : fr st st' -> fr st (st_parent st' p).
Proof. intros H. eapply fr_trans; [exact H | apply fr_parent]. Qed.
Lemma fr_parent_l st st' p : fr st st' -> fr (st_parent st p) st'.
Proof. unfold fr. intros H. rewrite H at 1. destruct st; reflexivity. Qed.

Ltac fr_fields H :=
  let E := fresh "E" in pose proof H as E; unfold fr in E.

Lemma fr_tokens st st' : fr st st' -> b_tokens st' = b_tokens st.
Proof. intros H. rewrite H. reflexivity. Qed.
Lemma fr_lineMax st st' : fr st st' -> b_lineMax st' = b_lineMax st.
Proof. intros H. rewrite H. reflexivity. Qed.
Lemma fr_line st st' : fr st st' -> b_line st' = b_line st.
Proof. intros H. rewrite H. reflexivity. Qed.
Lemma fr_sCount st st' : fr st st' -> b_sCount st' = b_sCount st.
Proof. intros H. rewrite H. reflexivity. Qed.
Lemma fr_blkIndent st st' : fr st st' -> b_blkIndent st' = b_blkIndent st.
Proof. intros H. rewrite H. reflexivity. Qed.

(* ---- what a successful non-silent rule does ---- *)
Definition gm (lo hi : Z) (st st' : bstate) : Prop :=
  exists seg, b_tokens st' = b_tokens st ++ seg /\ Forall (map_in lo hi) seg.

Lemma gm_refl lo hi st : gm lo hi st st.
Proof. exists []. rewrite app_nil_r. split; [reflexivity | constructor]. Qed.

Lemma map_in_weaken a b a' b' t : map_in a b t -> a' <= a -> b <= b' -> map_in a' b' t.
Proof. unfold map_in. destruct (tmap t) as [[x y]|]; [lia | trivial]. Qed.

Lemma gm_weaken a b a' b' st st' : gm a b st st' -> a' <= a -> b <= b' -> gm a' b' st st'.
Proof.
  intros (seg & E & F) H1 H2. exists seg. split; [exact E|]. eapply Forall_impl; [|exact F].
  intros t Ht. eapply map_in_weaken; eauto.
Qed.

Lemma gm_trans lo hi a b c : gm lo hi a b -> gm lo hi b c -> gm lo hi a c.
Proof.
  intros (s1 & E1 & F1) (s2 & E2 & F2). exists (s1 ++ s2). split; [rewrite E2, E1, app_assoc; reflexivity|].
  apply Forall_app. split; assumption.
Qed.

Lemma gm_same_tokens lo hi a b b' : gm lo hi a b -> b_tokens b' = b_tokens b -> gm lo hi a b'.
Proof. intros (s & E & F) H. exists s. split; [congruence | exact F]. Qed.
Lemma gm_same_tokens_l lo hi a a' b : gm lo hi a b -> b_tokens a' = b_tokens a -> gm lo hi a' b.
Proof. intros (s & E & F) H. exists s. split; [congruence | exact F]. Qed.

(* the table invariant: line starts and indents are non-negative and no line feed lies between
   a line's start mark and its end mark *)
Definition TIp (src : str) (bM eM tS : list Z) : Prop :=
  forall l b e t, 0 <= l -> tb bM l = Ok b -> tb eM l = Ok e -> tb tS l = Ok t ->
    0 <= b /\ 0 <= t /\ 0 <= e /\ forall p, b <= p < e -> py_idx src p <> Ok 10.
Definition TI (st : bstate) : Prop := TIp (b_src st) (b_bMarks st) (b_eMarks st) (b_tShift st).

Lemma fr_TI st st' : fr st st' -> TI st -> TI st'.
Proof. intros H. rewrite H. exact (fun x => x). Qed.

Definition pre (st : bstate) (sl el : Z) : Prop := 0 <= sl /\ sl < el /\ el <= b_lineMax st /\ b_line st = sl /\ TI st.

Definition se (st st' : bstate) : Prop := b_src st' = b_src st /\ b_eMarks st' = b_eMarks st.
Lemma fr_se st st' : fr st st' -> se st st'.
Proof. intros H. rewrite H. split; reflexivity. Qed.
Lemma se_refl st : se st st. Proof. split; reflexivity. Qed.
Lemma se_trans a b c : se a b -> se b c -> se a c.
Proof. unfold se. intros [A1 A2] [B1 B2]. split; congruence. Qed.

Definition step_ok (st : bstate) (sl : Z) (st' : bstate) : Prop :=
  b_lineMax st' = b_lineMax st /\ sl < b_line st' <= b_lineMax st /\ gm sl (b_line st') st st' /\ TI st' /\ se st st'.

(* the contract of one rule call *)
Definition rule_c (st : bstate) (sl el : Z) (silent b : bool) (st' : bstate) : Prop :=
  if b && negb silent then pre st sl el -> step_ok st sl st' else fr st st'.

Lemma rule_c_fail st sl el silent st' : fr st st' -> rule_c st sl el silent false st'.
Proof. intros H. unfold rule_c. exact H. Qed.
Lemma rule_c_silent st sl el b st' : fr st st' -> rule_c st sl el true b st'.
Proof. intros H. unfold rule_c. rewrite Bool.andb_false_r. exact H. Qed.

(* one-token pushes *)
Lemma gm_push1 lo hi st st0 ty tag n f :
  b_tokens st0 = b_tokens st -> map_in lo hi (f (set_level (set_block (new_token ty tag n) true) (if n <? 0 then b_level st0 - 1 else b_level st0))) ->
  gm lo hi st (bpush st0 ty tag n f).
Proof.
  intros E M. eexists. split; [rewrite bpush_tokens, E; reflexivity|]. constructor; [exact M | constructor].
Qed.

(* ---- getLines over k lines has at most k line feeds (k - 1 without the last one) ---- *)
Lemma gl_scan_ge : forall fuel src first last b li indent ts bs f' li',
  gl_scan fuel src first last b li indent ts bs = Ok (f', li') -> first <= f'.
Proof.
  induction fuel as [|f IH]; intros src first last b li indent ts bs f' li' H; cbn [gl_scan] in H; [rfinish H; lia|].
  destruct ((first <? last) && (li <? indent)); [|rfinish H; lia].
  rstep H. rstep H; [apply IH in H; lia|]. rstep H; [apply IH in H; lia | rfinish H; lia].
Qed.

Lemma get_lines_loop_lf st (HT : TI st) : forall fuel line endl indent keep content,
  get_lines_loop fuel st line endl indent keep = Ok content -> 0 <= line ->
  c10 content <= Z.max 0 (endl - line - (if keep then 0 else 1)).
Proof.
  induction fuel as [|f IH]; intros line endl indent keep content H Hl; cbn [get_lines_loop] in H; [rfinish H; cbn; lia|].
  destruct (negb (line <? endl)) eqn:E; [rfinish H; cbn; lia|].
  destruct (tb (b_bMarks st) line) as [b|?|] eqn:Eb; cbn [bind] in H; try discriminate H.
  destruct (tb (b_eMarks st) line) as [e|?|] eqn:Ee; cbn [bind] in H; try discriminate H.
  destruct (tb (b_tShift st) line) as [ts|?|] eqn:Et; cbn [bind] in H; try discriminate H.
  destruct (tb (b_bsCount st) line) as [bs|?|] eqn:Ebs; cbn [bind] in H; try discriminate H.
  match type of H with bind ?m _ = _ => destruct m as [[first li]|?|] eqn:GS end; cbn [bind] in H; try discriminate H.
  match type of H with bind ?m _ = _ => destruct m as [rest|?|] eqn:GR end; cbn [bind] in H; try discriminate H.
  rfinish H. apply gl_scan_ge in GS. apply IH in GR; [|lia].
  destruct (HT line b e ts Hl Eb Ee Et) as (B0 & T0 & E0 & Free).
  destruct (c10_slice_free (b_src st) first e ltac:(lia) E0 ltac:(intros p Hp; apply Free; lia)) as [F0 F1].
  rewrite !c10_app.
  assert (R0 : c10 (rep 32 (li - indent)) = 0) by apply c10_rep32.
  assert (R1 : c10 (@nil Z) = 0) by reflexivity.
  destruct (indent <? li); [rewrite R0 | rewrite R1].
  all: destruct ((line + 1 <? endl) || keep) eqn:K.
  all: try (assert (keep = false) by (destruct keep; [rewrite Bool.orb_true_r in K; discriminate K | reflexivity]); subst keep; lia).
  all: destruct keep; [lia|]; assert (line + 1 < endl) by lia; lia.
Qed.

Lemma get_lines_lf st (HT : TI st) a b indent keep content :
  get_lines st a b indent keep = Ok content -> 0 <= a ->
  c10 content <= Z.max 0 (b - a - (if keep then 0 else 1)).
Proof.
  unfold get_lines. intros H Ha. destruct (b <=? a); [rfinish H; cbn; lia|].
  eapply get_lines_loop_lf; eassumption.
Qed.

(* same tables and bounds *)
Definition stb (st st' : bstate) : Prop :=
  b_src st' = b_src st /\ b_bMarks st' = b_bMarks st /\ b_eMarks st' = b_eMarks st /\ b_tShift st' = b_tShift st
  /\ b_lineMax st' = b_lineMax st.
Lemma stb_refl st : stb st st. Proof. repeat split. Qed.
Lemma stb_trans a b c : stb a b -> stb b c -> stb a c.
Proof. unfold stb. intros (A1 & A2 & A3 & A4 & A5) (B1 & B2 & B3 & B4 & B5). repeat split; congruence. Qed.
Lemma fr_stb st st' : fr st st' -> stb st st'.
Proof. intros H. rewrite H. repeat split. Qed.
Lemma stb_TI st st' : stb st st' -> TI st -> TI st'.
Proof. unfold stb, TI. intros (A1 & A2 & A3 & A4 & A5) H. rewrite A1, A2, A3, A4. exact H. Qed.
Lemma stb_bpush st ty tag n f : stb st (bpush st ty tag n f).
Proof. repeat split. Qed.

(* patching the placeholder map of the token pushed first *)
Lemma gm_patch lo hi (st st' : bstate) ph rest a b :
  b_tokens st' = b_tokens st ++ ph :: rest -> Forall (map_in lo hi) rest -> lo <= a -> a < b -> b <= hi ->
  exists seg, set_map_at (b_tokens st') (length (b_tokens st)) (fun _ => Some (a, b)) = b_tokens st ++ seg
              /\ Forall (map_in lo hi) seg.
Proof.
  intros E F H1 H2 H3. rewrite E. unfold set_map_at. rewrite update_nth_app.
  eexists. split; [reflexivity|]. constructor; [|exact F]. unfold map_in. cbn. lia.
Qed.

(* ---- table writes ---- *)
Lemma nth_error_firstn' {A} : forall (k n : nat) (l : list A), (n < k)%nat -> nth_error (firstn k l) n = nth_error l n.
Proof. induction k as [|k IH]; intros n l H; [lia|]. destruct l as [|x l]; [reflexivity|]. destruct n as [|n]; [reflexivity|]. cbn. apply IH. lia. Qed.
Lemma nth_error_skipn'' {A} : forall (k n : nat) (l : list A), nth_error (skipn k l) n = nth_error l (k + n).
Proof. induction k as [|k IH]; intros n l; [reflexivity|]. destruct l as [|x l]; [destruct n; reflexivity|]. cbn [skipn Nat.add nth_error]. apply IH. Qed.

Lemma tb_nonneg l i : 0 <= i -> tb l i = match nth_error l (Z.to_nat i) with Some v => Ok v | None => Raise IndexError end.
Proof. intros H. unfold tb. cbv zeta. assert (E : (i <? 0) = false) by lia. rewrite !E. reflexivity. Qed.

Lemma tb_set_spec l i v l' : tb_set l i v = Ok l' -> 0 <= i ->
  tb l' i = Ok v /\ (forall j, 0 <= j -> j <> i -> tb l' j = tb l j) /\ len l' = len l.
Proof.
  unfold tb_set. cbv zeta. intros H Hi. assert (E : (i <? 0) = false) by lia. rewrite !E in H.
  destruct (len l <=? i) eqn:X; cbn [orb] in H; [discriminate H|]. injection H as <-.
  assert (Li : (Z.to_nat i < length l)%nat) by (unfold len in X; lia).
  assert (Lf : length (firstn (Z.to_nat i) l) = Z.to_nat i) by (rewrite firstn_length; lia).
  split; [|split].
  - rewrite tb_nonneg by lia. rewrite nth_error_app2 by lia. rewrite Lf, Nat.sub_diag. reflexivity.
  - intros j Hj Nj. rewrite !tb_nonneg by lia.
    destruct (Z_lt_le_dec j i) as [Lt|Ge].
    + rewrite nth_error_app1 by lia. rewrite nth_error_firstn' by lia. reflexivity.
    + rewrite nth_error_app2 by lia. rewrite Lf.
      replace (Z.to_nat j - Z.to_nat i)%nat with (S (Z.to_nat j - S (Z.to_nat i))) by lia.
      change (match l with [] => [] | _ :: l0 => skipn (Z.to_nat i) l0 end) with (skipn (S (Z.to_nat i)) l).
      cbn [nth_error]. rewrite nth_error_skipn''. replace (S (Z.to_nat i) + (Z.to_nat j - S (Z.to_nat i)))%nat with (Z.to_nat j) by lia. reflexivity.
  - unfold len. rewrite app_length. change (match l with [] => [] | _ :: l0 => skipn (Z.to_nat i) l0 end) with (skipn (S (Z.to_nat i)) l).
    cbn [length]. rewrite Lf, skipn_length. lia.
Qed.

(* a start mark x and indent t are good for line l *)
Definition goodbt (src : str) (eM : list Z) (l x t : Z) : Prop :=
  forall e, tb eM l = Ok e -> 0 <= x /\ 0 <= t /\ 0 <= e /\ forall p, x <= p < e -> py_idx src p <> Ok 10.

Lemma TIp_good src bM eM tS l b t : TIp src bM eM tS -> 0 <= l -> tb bM l = Ok b -> tb tS l = Ok t -> goodbt src eM l b t.
Proof. intros H Hl Eb Et e Ee. exact (H l b e t Hl Eb Ee Et). Qed.

Lemma goodbt_mono src eM l x t x' t' : goodbt src eM l x t -> x <= x' -> 0 <= t' -> goodbt src eM l x' t'.
Proof. intros H Hx Ht e Ee. destruct (H e Ee) as (A & B & C & D). repeat split; try lia. intros p Hp. apply D. lia. Qed.

Lemma TIp_set src bM eM tS l x t bM' tS' :
  TIp src bM eM tS -> 0 <= l -> tb_set bM l x = Ok bM' -> tb_set tS l t = Ok tS' -> goodbt src eM l x t ->
  TIp src bM' eM tS'.
Proof.
  intros H Hl Sb St G l' b e t' Hl' Eb Ee Et.
  destruct (tb_set_spec _ _ _ _ Sb Hl) as (B1 & B2 & _). destruct (tb_set_spec _ _ _ _ St Hl) as (T1 & T2 & _).
  destruct (Z.eq_dec l' l) as [->|N].
  - rewrite B1 in Eb. rewrite T1 in Et. injection Eb as <-. injection Et as <-. exact (G e Ee).
  - rewrite B2 in Eb by lia. rewrite T2 in Et by lia. exact (H l' b e t' Hl' Eb Ee Et).
Qed.

Lemma TIp_set_ts src bM eM tS l t tS' :
  TIp src bM eM tS -> 0 <= l -> tb_set tS l t = Ok tS' -> 0 <= t -> TIp src bM eM tS'.
Proof.
  intros H Hl St Ht l' b e t' Hl' Eb Ee Et.
  destruct (tb_set_spec _ _ _ _ St Hl) as (T1 & T2 & L).
  destruct (Z.eq_dec l' l) as [->|N].
  - rewrite T1 in Et. injection Et as <-.
    destruct (tb tS l) as [t0|?|] eqn:E0.
    + destruct (H l b e t0 Hl Eb Ee E0) as (A & B & C & D). repeat split; try lia. exact D.
    + exfalso. rewrite tb_nonneg in E0, T1 by lia.
      destruct (nth_error tS (Z.to_nat l)) eqn:X; [discriminate E0|]. apply nth_error_None in X.
      destruct (nth_error tS' (Z.to_nat l)) eqn:Y; [|discriminate T1].
      assert (Z.to_nat l < length tS')%nat by (apply nth_error_Some; congruence). unfold len in L. lia.
    + unfold tb in E0. cbv zeta in E0. destruct (if (if l <? 0 then l + len tS else l) <? 0 then None else nth_error tS (Z.to_nat (if l <? 0 then l + len tS else l))); discriminate E0.
  - rewrite T2 in Et by lia. exact (H l' b e t' Hl' Eb Ee Et).
Qed.

(* ---- block quote arithmetic ---- *)
Lemma bq_blanks_mono : forall fuel src pos mx offset bs adj p2 o2,
  bq_blanks fuel src pos mx offset bs adj = Ok (p2, o2) -> pos <= p2 /\ offset <= o2.
Proof.
  induction fuel as [|f IH]; intros src pos mx offset bs adj p2 o2 H; cbn [bq_blanks] in H; [rfinish H; lia|].
  destruct (negb (pos <? mx)); [rfinish H; lia|].
  rstep H. destruct (is_space x); [|rfinish H; lia].
  apply IH in H. destruct (x =? 9); [|lia].
  assert (0 <= (offset + bs + (if adj then 1 else 0)) mod 4 < 4) by (apply Z.mod_pos_bound; lia). lia.
Qed.

Lemma bq_strip_spec src pos0 mx sc bs q : bq_strip src pos0 mx sc bs = Ok q ->
  pos0 + 1 <= q_bMark q /\ 0 <= q_tShift q /\ 0 <= q_sCount q.
Proof.
  unfold bq_strip. cbv zeta.
  set (tup := match char_at src (pos0 + 1) with
              | Some 32 => (pos0 + 1 + 1, sc + 1 + 1, sc + 1 + 1, false, true)
              | Some 9 => if (bs + (sc + 1)) mod 4 =? 3 then (pos0 + 1 + 1, sc + 1 + 1, sc + 1 + 1, false, true)
                          else (pos0 + 1, sc + 1, sc + 1, true, true)
              | _ => (pos0 + 1, sc + 1, sc + 1, false, false)
              end).
  assert (P : let '(pos1, initial, offset, _, _) := tup in pos0 + 1 <= pos1 /\ offset = initial).
  { unfold tup. destruct (char_at src (pos0 + 1)) as [[|p|p]|]; try (split; [lia | reflexivity]).
    do 6 (try destruct p as [p|p|]); try (split; [lia | reflexivity]).
    destruct ((bs + (sc + 1)) mod 4 =? 3); split; try lia; reflexivity. }
  destruct tup as [[[[pos1 initial] offset] adj] sa]. destruct P as [P1 ->].
  intros H. match type of H with bind ?m _ = _ => destruct m as [[p2 o2]|?|] eqn:BB end; cbn [bind] in H; try discriminate H.
  apply bq_blanks_mono in BB. rfinish H. cbn. lia.
Qed.

(* frame of the table-rewriting helpers: everything but the four rewritten tables and lineMax *)
Definition k5 (st st' : bstate) : Prop :=
  b_tokens st' = b_tokens st /\ b_line st' = b_line st /\ b_src st' = b_src st /\ b_eMarks st' = b_eMarks st
  /\ b_blkIndent st' = b_blkIndent st.
Lemma k5_refl st : k5 st st. Proof. repeat split. Qed.
Lemma k5_trans a b c : k5 a b -> k5 b c -> k5 a c.
Proof. unfold k5. intros (A1 & A2 & A3 & A4 & A5) (B1 & B2 & B3 & B4 & B5). repeat split; congruence. Qed.
Lemma fr_k5 st st' : fr st st' -> k5 st st'.
Proof. intros H. rewrite H. repeat split. Qed.

(* saved table entries are good for the lines they were taken from *)
Fixpoint sv_ok (src : str) (eM : list Z) (line : Z) (b ts : list Z) : Prop :=
  match b, ts with
  | x :: b', t :: ts' => goodbt src eM line x t /\ sv_ok src eM (line + 1) b' ts'
  | _, _ => True
  end.

Lemma sv_ok_snoc src eM : forall b ts line x t, sv_ok src eM line b ts -> length b = length ts ->
  goodbt src eM (line + len b) x t -> sv_ok src eM line (b ++ [x]) (ts ++ [t]).
Proof.
  induction b as [|y b IH]; intros ts line x t H L G.
  - destruct ts; [|discriminate L]. cbn. unfold len in G. cbn in G. rewrite Z.add_0_r in G. split; [exact G | trivial].
  - destruct ts as [|u ts]; [discriminate L|]. cbn [app sv_ok] in *. destruct H as [H1 H2]. split; [exact H1|].
    apply IH; [exact H2 | cbn in L; lia|]. replace (line + 1 + len b) with (line + len (y :: b)) by (unfold len; cbn [length]; lia). exact G.
Qed.

Lemma apply_bq_m st line q st' : apply_bq st line q = Ok st' -> 0 <= line -> TI st ->
  goodbt (b_src st) (b_eMarks st) line (q_bMark q) (q_tShift q) ->
  TI st' /\ k5 st st' /\ b_lineMax st' = b_lineMax st /\ tb (b_sCount st') line = Ok (q_sCount q)
  /\ (forall j, 0 <= j -> j <> line -> tb (b_sCount st') j = tb (b_sCount st) j).
Proof.
  unfold apply_bq. intros H Hl HT G.
  destruct (tb_set (b_bMarks st) line (q_bMark q)) as [bm|?|] eqn:E1; cbn [bind] in H; try discriminate H.
  destruct (tb_set (b_bsCount st) line (q_bsCount q)) as [bs|?|] eqn:E2; cbn [bind] in H; try discriminate H.
  destruct (tb_set (b_sCount st) line (q_sCount q)) as [sc|?|] eqn:E3; cbn [bind] in H; try discriminate H.
  destruct (tb_set (b_tShift st) line (q_tShift q)) as [ts|?|] eqn:E4; cbn [bind] in H; try discriminate H.
  rfinish H. destruct (tb_set_spec _ _ _ _ E3 Hl) as (S1 & S2 & _).
  split; [exact (TIp_set _ _ _ _ _ _ _ _ _ HT Hl E1 E4 G)|]. split; [repeat split|]. split; [reflexivity|].
  split; [exact S1 | exact S2].
Qed.

Lemma save_line_m sv st line sv' sl0 : save_line sv st line = Ok sv' -> 0 <= line -> TI st ->
  sv_ok (b_src st) (b_eMarks st) sl0 (o_b sv) (o_ts sv) -> len (o_b sv) = line - sl0 -> len (o_ts sv) = line - sl0 ->
  sv_ok (b_src st) (b_eMarks st) sl0 (o_b sv') (o_ts sv') /\ len (o_b sv') = line + 1 - sl0 /\ len (o_ts sv') = line + 1 - sl0.
Proof.
  unfold save_line. intros H Hl HT SO L1 L2.
  destruct (tb (b_bMarks st) line) as [b|?|] eqn:Eb; cbn [bind] in H; try discriminate H.
  rstep H. destruct (tb (b_tShift st) line) as [t|?|] eqn:Et; cbn [bind] in H; try discriminate H.
  rstep H. rfinish H. cbn [o_b o_ts]. split.
  - apply sv_ok_snoc; [exact SO | unfold len in *; lia|]. replace (sl0 + len (o_b sv)) with line by lia.
    exact (TIp_good _ _ _ _ _ _ _ HT Hl Eb Et).
  - rewrite !len_app. unfold len at 2 4. cbn [length]. lia.
Qed.

Lemma restore_tables_m : forall ts st line b bs sc st',
  restore_tables st line b bs ts sc = Ok st' -> 0 <= line -> TI st ->
  sv_ok (b_src st) (b_eMarks st) line b ts ->
  TI st' /\ k5 st st' /\ b_lineMax st' = b_lineMax st.
Proof.
  induction ts as [|t ts IH]; intros st line b bs sc st' H Hl HT SO.
  - destruct b, sc, bs; cbn [restore_tables] in H; rfinish H; (split; [exact HT|]; split; [apply k5_refl | reflexivity]).
  - destruct b as [|x b]; [discriminate H|]. destruct sc as [|s sc]; [discriminate H|]. destruct bs as [|y bs]; [discriminate H|].
    cbn [restore_tables] in H. cbn [sv_ok] in SO. destruct SO as [G SO].
    destruct (tb_set (b_bMarks st) line x) as [bm|?|] eqn:E1; cbn [bind] in H; try discriminate H.
    destruct (tb_set (b_tShift st) line t) as [tsl|?|] eqn:E2; cbn [bind] in H; try discriminate H.
    do 2 rstep H.
    apply IH in H; [|lia| |].
    + destruct H as (A & B & C). split; [exact A|]. split; [|exact C].
      eapply k5_trans; [|exact B]. repeat split.
    + exact (TIp_set _ _ _ _ _ _ _ _ _ HT Hl E1 E2 G).
    + exact SO.
Qed.

(* ---- list arithmetic ---- *)
Lemma list_blanks_mono : forall fuel src pos mx offset bs p2 o2,
  list_blanks fuel src pos mx offset bs = Ok (p2, o2) -> pos <= p2 /\ offset <= o2.
Proof.
  induction fuel as [|f IH]; intros src pos mx offset bs p2 o2 H; cbn [list_blanks] in H; [rfinish H; lia|].
  destruct (negb (pos <? mx)); [rfinish H; lia|].
  rstep H. destruct (x =? 9).
  - apply IH in H. assert (0 <= (offset + bs) mod 4 < 4) by (apply Z.mod_pos_bound; lia). lia.
  - destruct (x =? 32); [apply IH in H; lia | rfinish H; lia].
Qed.

Lemma ordered_digits_gt : forall fuel src start pos mx r,
  ordered_digits fuel src start pos mx = Ok r -> r = -1 \/ pos < r.
Proof.
  induction fuel as [|f IH]; intros src start pos mx r H; cbn [ordered_digits] in H; [rfinish H; left; reflexivity|].
  destruct (mx <=? pos); [rfinish H; left; reflexivity|].
  rstep H. cbv zeta in H. destruct (is_digit x).
  - destruct (10 <=? pos + 1 - start); [rfinish H; left; reflexivity|]. apply IH in H. lia.
  - destruct ((x =? 41) || (x =? 46)); [|rfinish H; left; reflexivity].
    destruct (pos + 1 <? mx); [|rfinish H; right; lia].
    rstep H. rfinish H. destruct (is_space x0); [right; lia | left; reflexivity].
Qed.

Lemma skip_ordered_gt st line r ls : skip_ordered st line = Ok r -> line_start st line = Ok ls -> r = -1 \/ ls < r.
Proof.
  unfold skip_ordered. intros H L. rewrite L in H. cbn [bind] in H.
  rstep H. destruct (x <=? ls + 1); [rfinish H; left; reflexivity|].
  rstep H. destruct (negb (is_digit x0)); [rfinish H; left; reflexivity|].
  apply ordered_digits_gt in H. lia.
Qed.

Lemma skip_bullet_gt st line r ls : skip_bullet st line = Ok r -> line_start st line = Ok ls -> r = -1 \/ ls < r.
Proof.
  unfold skip_bullet. intros H L. rewrite L in H. cbn [bind] in H.
  rstep H. destruct (char_at (b_src st) ls) as [m|]; [|rfinish H; left; reflexivity].
  destruct (negb ((m =? 42) || (m =? 45) || (m =? 43))); [rfinish H; left; reflexivity|].
  destruct (ls + 1 <? x); [|rfinish H; right; lia].
  rstep H. rfinish H. destruct (is_space x0); [right; lia | left; reflexivity].
Qed.

(* updates that keep every map and the first k tokens *)
Definition mapeq_from (k : nat) (a b : list token) : Prop := firstn k a = firstn k b /\ map tmap a = map tmap b.
Lemma mapeq_refl k l : mapeq_from k l l. Proof. split; reflexivity. Qed.
Lemma mapeq_trans k a b c : mapeq_from k a b -> mapeq_from k b c -> mapeq_from k a c.
Proof. intros [A1 A2] [B1 B2]. split; congruence. Qed.

Lemma update_nth_mapeq (f : token -> token) (K : forall t, tmap (f t) = tmap t) : forall n k l, (k <= n)%nat ->
  mapeq_from k l (update_nth_tok n f l).
Proof.
  unfold update_nth_tok. induction n as [|n IH]; intros k l Hk.
  - assert (k = O) by lia. subst k. destruct l as [|x l]; [apply mapeq_refl|].
    split; [reflexivity|]. cbn [map]. rewrite K. reflexivity.
  - destruct l as [|x l]; [apply mapeq_refl|].
    destruct k as [|k].
    + destruct (IH O l ltac:(lia)) as [_ F]. split; [reflexivity|]. cbn [map]. f_equal. exact F.
    + destruct (IH k l ltac:(lia)) as [P F]. split; [cbn [firstn]; f_equal; exact P|]. cbn [map]. f_equal. exact F.
Qed.

Lemma mark_tight_mapeq k : forall fuel tokens i length level, (k <= Z.to_nat i)%nat -> 0 <= i ->
  mapeq_from k tokens (mark_tight fuel tokens i length level).
Proof.
  induction fuel as [|f IH]; intros tokens i length level Hk Hi; cbn [mark_tight]; [apply mapeq_refl|].
  destruct (negb (i <? length)); [apply mapeq_refl|].
  destruct (nth_error tokens (Z.to_nat i)) as [t|]; [|apply mapeq_refl].
  destruct ((tlevel t =? level) && str_eqb (ttype t) [112; 97; 114; 97; 103; 114; 97; 112; 104; 95; 111; 112; 101; 110]).
  - eapply mapeq_trans; [|apply IH; lia].
    eapply mapeq_trans; apply update_nth_mapeq; try lia; intros x; reflexivity.
  - apply IH; lia.
Qed.

Lemma Forall_map_in_tmap lo hi : forall a b, map tmap a = map tmap b -> Forall (map_in lo hi) a -> Forall (map_in lo hi) b.
Proof.
  induction a as [|x a IH]; intros b E F; destruct b as [|y b]; try discriminate E; [constructor|].
  cbn [map] in E. injection E as E1 E2. inversion F; subst. constructor; [|apply IH; assumption].
  unfold map_in in *. rewrite <- E1. assumption.
Qed.

Lemma gm_reshape lo hi (pre seg X : list token) :
  Forall (map_in lo hi) seg -> mapeq_from (length pre) (pre ++ seg) X ->
  exists seg', X = pre ++ seg' /\ Forall (map_in lo hi) seg'.
Proof.
  intros F [P M]. rewrite firstn_app, Nat.sub_diag, firstn_all in P. cbn [firstn] in P. rewrite app_nil_r in P.
  exists (skipn (length pre) X). split.
  - rewrite <- (firstn_skipn (length pre) X) at 1. rewrite <- P. reflexivity.
  - apply (Forall_map_in_tmap lo hi seg); [|exact F].
    assert (E : map tmap (skipn (length pre) (pre ++ seg)) = map tmap (skipn (length pre) X)) by (rewrite <- !skipn_map, M; reflexivity).
    rewrite skipn_app, Nat.sub_diag, skipn_all in E. cbn [skipn app] in E. exact E.
Qed.

Section Rules.
Context (cfg : bcfg) (rf cf : str -> str).

Ltac leaf_fail := first [ apply rule_c_fail; apply fr_refl | apply rule_c_silent; apply fr_refl ].

(* ---- leaf rules ---- *)
Lemma r_hr_c st sl el silent b st' : r_hr cfg st sl el silent = Ok (b, st') -> rule_c st sl el silent b st'.
Proof.
  unfold r_hr. intros H. repeat rstep H; try discriminate H. all: rfinish H; try leaf_fail.
  unfold rule_c. cbn [andb negb]. intros (P0 & P1 & P2 & P3 & HTI).
  split; [reflexivity|]. split; [cbn; lia|]. split; [|exact (conj HTI (se_refl _))]. apply gm_push1; [reflexivity|]. unfold map_in. cbn. lia.
Qed.

Lemma r_code_c st sl el b st' : r_code cfg st sl el false = Ok (b, st') -> rule_c st sl el false b st'.
Proof.
  unfold r_code. intros H.
  rstep H. rstep H; [rfinish H; leaf_fail|].
  match type of H with bind ?m _ = _ => destruct m as [last|?|] eqn:CS end; cbn [bind] in H; try discriminate H.
  apply code_scan_bounds in CS; [|lia]. destruct CS as [C1 C2].
  rstep H. rfinish H. unfold rule_c. cbn [andb negb]. intros (P0 & P1 & P2 & P3 & HTI). specialize (C2 ltac:(lia)).
  split; [reflexivity|]. split; [cbn; lia|]. split; [|exact (conj HTI (se_refl _))]. apply gm_push1; [reflexivity|]. unfold map_in. cbn. lia.
Qed.

Lemma r_fence_c st sl el silent b st' : r_fence cfg st sl el silent = Ok (b, st') -> rule_c st sl el silent b st'.
Proof.
  unfold r_fence. intros H.
  do 3 rstep H. rstep H; [rfinish H; leaf_fail|]. rstep H; [rfinish H; leaf_fail|].
  rstep H. rstep H; [rfinish H; leaf_fail|]. rstep H; [rfinish H; leaf_fail|]. rstep H; [rfinish H; leaf_fail|].
  rstep H; [rfinish H; leaf_fail|].
  match type of H with bind ?m _ = _ => destruct m as [[nl have]|?|] eqn:FS end; cbn [bind] in H; try discriminate H.
  apply fence_scan_bounds in FS. destruct FS as (_ & F1 & F2 & F3). specialize (F1 ltac:(discriminate)).
  do 2 rstep H. rfinish H. unfold rule_c. cbn [andb negb]. intros (P0 & P1 & P2 & P3 & HTI).
  specialize (F2 P1). destruct have; [specialize (F3 eq_refl)|clear F3].
  all: split; [reflexivity|]; (split; [cbn; lia|]); (split; [|exact (conj HTI (se_refl _))]); (apply gm_push1; [reflexivity|]); unfold map_in; cbn; lia.
Qed.

Lemma r_heading_c st sl el silent b st' : r_heading cfg st sl el silent = Ok (b, st') -> rule_c st sl el silent b st'.
Proof.
  unfold r_heading. intros H. repeat rstep H; try discriminate H. all: rfinish H; try leaf_fail.
  all: unfold rule_c; cbn [andb negb]; intros (P0 & P1 & P2 & P3 & HTI).
  all: split; [reflexivity|]; (split; [cbn; lia|]); (split; [|exact (conj HTI (se_refl _))]).
  all: eexists; (split; [rewrite !bpush_tokens, <- !app_assoc; cbn [app]; reflexivity|]).
  all: repeat constructor; unfold map_in; cbn; lia.
Qed.

Lemma r_html_block_c st sl el silent b st' : r_html_block cfg st sl el silent = Ok (b, st') -> rule_c st sl el silent b st'.
Proof.
  unfold r_html_block. intros H.
  do 3 rstep H. rstep H; [rfinish H; leaf_fail|]. rstep H; [rfinish H; leaf_fail|]. rstep H; [rfinish H; leaf_fail|].
  rstep H. rstep H; [rfinish H; leaf_fail|].
  rstep H; [|rfinish H; leaf_fail]. destruct p as [[opener closer] can].
  rstep H; [rfinish H; leaf_fail|].
  match type of H with bind ?m _ = _ => destruct m as [nl|?|] eqn:NL end; cbn [bind] in H; try discriminate H.
  rstep H. rfinish H. unfold rule_c. cbn [andb negb]. intros (P0 & P1 & P2 & P3 & HTI).
  assert (B : sl + 1 <= nl /\ nl <= el).
  { destruct (test closer (slice (b_src st) x x0)); [rfinish NL; lia|]. apply html_scan_bounds in NL. lia. }
  split; [reflexivity|]. split; [cbn; lia|]. split; [|exact (conj HTI (se_refl _))]. apply gm_push1; [reflexivity|]. unfold map_in. cbn. lia.
Qed.

(* ---- the paragraph-like rules ---- *)
Definition term_fr (term : term_t) : Prop := forall ch s a b r s', ch <> [] -> term ch s a b = Ok (r, s') -> fr s s'.

Lemma para_scan_fr term (T : term_fr term) chain (CN : chain <> []) : forall fuel st nl el cu r u st',
  para_scan fuel term chain st nl el cu = Ok (r, u, st') -> fr st st'.
Proof.
  induction fuel as [|f IH]; intros st nl el cu r u st' H; [discriminate H|].
  cbn [para_scan] in H.
  destruct (negb (nl <? el)); [rfinish H; apply fr_refl|].
  destruct (is_empty st nl) as [e|?|]; cbn [bind] in H; try discriminate H.
  destruct e; [rfinish H; apply fr_refl|].
  destruct (tb (b_sCount st) nl) as [sc|?|]; cbn [bind] in H; try discriminate H.
  destruct (3 <? sc - b_blkIndent st); [eapply IH; exact H|].
  match type of H with bind ?m _ = _ => destruct m as [ul|?|] end; cbn [bind] in H; try discriminate H.
  destruct ul as [ml|]; [rfinish H; apply fr_refl|].
  destruct (sc <? 0); [eapply IH; exact H|].
  destruct (term chain st nl el) as [[t st1]|?|] eqn:TE; cbn [bind] in H; try discriminate H.
  pose proof (T _ _ _ _ _ _ CN TE) as E1.
  destruct t; [rfinish H; exact E1|]. apply IH in H. eapply fr_trans; eassumption.
Qed.

Lemma r_paragraph_c term (T : term_fr term) st sl el b st' :
  r_paragraph term st sl el false = Ok (b, st') -> b = true /\ (pre st sl el -> step_ok st sl st').
Proof.
  unfold r_paragraph. intros H.
  match type of H with bind ?m _ = _ => destruct m as [[[nl u] st1]|?|] eqn:PS end; cbn [bind] in H; try discriminate H.
  pose proof (para_scan_bounds _ _ _ _ _ _ _ _ _ _ PS) as (P1 & P2 & _). cbn [b_lineMax st_parent] in P2.
  apply (para_scan_fr term T nm_paragraph ltac:(discriminate)) in PS. apply (fr_parent_l st _ nm_paragraph) in PS.
  rstep H. rfinish H. split; [reflexivity|]. intros (Q0 & Q1 & Q2 & Q3 & HTI).
  assert (P2' : nl <= b_lineMax st) by (apply P2; change (b_lineMax (st_parent st nm_paragraph)) with (b_lineMax st); lia).
  pose proof (fr_tokens _ _ PS) as ET. pose proof (fr_lineMax _ _ PS) as EL. pose proof (fr_TI _ _ PS HTI) as HT1.
  split; [cbn; exact EL|]. split; [cbn; lia|]. split; [|exact (conj HT1 (fr_se _ _ PS))].
  eexists. split; [unfold push_inline; change (b_tokens (st_parent ?x ?y)) with (b_tokens x); rewrite !bpush_tokens, <- !app_assoc; cbn [app]; change (b_tokens (st_line st1 ?l)) with (b_tokens st1); rewrite ET; reflexivity|].
  repeat constructor; unfold map_in; cbn; lia.
Qed.

Lemma r_lheading_c term (T : term_fr term) st sl el b st' :
  r_lheading cfg term st sl el false = Ok (b, st') -> rule_c st sl el false b st'.
Proof.
  unfold r_lheading. intros H. rstep H. rstep H; [rfinish H; leaf_fail|].
  match type of H with bind ?m _ = _ => destruct m as [[[nl u] st1]|?|] eqn:PS end; cbn [bind] in H; try discriminate H.
  pose proof (para_scan_bounds _ _ _ _ _ _ _ _ _ _ PS) as (P1 & P2 & P3).
  apply (para_scan_fr term T nm_paragraph ltac:(discriminate)) in PS. apply (fr_parent_l st _ nm_paragraph) in PS.
  destruct u as [[marker level]|]; [|rfinish H; apply rule_c_fail; exact PS].
  assert (P3' : nl < el) by (apply P3; discriminate).
  rstep H. rfinish H. unfold rule_c. cbn [andb negb]. intros (Q0 & Q1 & Q2 & Q3 & HTI).
  pose proof (fr_tokens _ _ PS) as ET. pose proof (fr_lineMax _ _ PS) as EL. pose proof (fr_TI _ _ PS HTI) as HT1.
  split; [cbn; exact EL|]. split; [cbn; lia|]. split; [|exact (conj HT1 (fr_se _ _ PS))].
  eexists. split; [unfold push_inline; change (b_tokens (st_parent ?x ?y)) with (b_tokens x); rewrite !bpush_tokens, <- !app_assoc; cbn [app]; change (b_tokens (st_line st1 ?l)) with (b_tokens st1); rewrite ET; reflexivity|].
  repeat constructor; unfold map_in; cbn; lia.
Qed.

(* ---- reference ---- *)
Lemma r_reference_c term (T : term_fr term) st sl el silent b st' :
  r_reference cfg rf cf term st sl el silent = Ok (b, st') -> rule_c st sl el silent b st'.
Proof.
  unfold r_reference. intros H.
  do 3 rstep H. rstep H; [rfinish H; leaf_fail|].
  rstep H. rstep H; [rfinish H; leaf_fail|].
  rstep H. rstep H; [rfinish H; leaf_fail|].
  match type of H with bind ?m _ = _ => destruct m as [[[nl u] st1]|?|] eqn:PS end; cbn [bind] in H; try discriminate H.
  pose proof (para_scan_bounds _ _ _ _ _ _ _ _ _ _ PS) as (P1 & P2 & _). cbn [b_lineMax st_parent] in P2.
  apply (para_scan_fr term T nm_reference ltac:(discriminate)) in PS. apply (fr_parent_l st _ nm_reference) in PS.
  match type of H with bind ?m _ = _ => destruct m as [raw|?|] eqn:GL end; cbn [bind] in H; try discriminate H.
  cbv zeta in H.
  set (s := py_strip raw) in *. set (mx := len s) in *. set (fuel := S (length s)) in *.
  destruct (ref_label fuel s 1 mx 0) as [[[labelEnd|] lines0]|] eqn:RL; try (rfinish H; apply rule_c_fail; exact PS).
  rstep H; [rfinish H; apply rule_c_fail; exact PS|].
  destruct (skip_ws_nl fuel s (labelEnd + 2) mx lines0) as [p1 lines1] eqn:W1.
  set (res := parse_link_destination s p1 mx) in *.
  destruct (negb (l_ok res)) eqn:RO; [rfinish H; apply rule_c_fail; exact PS|].
  rstep H; [rfinish H; apply rule_c_fail; exact PS|].
  destruct (skip_ws_nl fuel s (l_pos res) mx (lines1 + l_lines res)) as [p2 lines2] eqn:W2.
  set (tres := parse_link_title s p2 mx) in *.
  destruct ((p2 <? mx) && negb (l_pos res =? p2) && l_ok tres) eqn:TC.
  all: cbv beta iota zeta in H.
  all: match type of H with context [if ?c then ([], _, _) else _] => destruct c eqn:C4 end; cbv beta iota zeta in H.
  all: (rstep H; [rfinish H; apply rule_c_fail; exact PS|]).
  all: (rstep H; [rfinish H; apply rule_c_fail; exact PS|]).
  all: (rstep H; [rfinish H; apply rule_c_silent; exact PS|]).
  all: rfinish H; unfold rule_c; cbn [andb negb]; intros (Q0 & Q1 & Q2 & Q3 & HTI).
  all: pose proof (fr_tokens _ _ PS) as ET; pose proof (fr_lineMax _ _ PS) as EL; pose proof (fr_TI _ _ PS HTI) as HT1.
  all: assert (RO' : l_ok res = true) by (destruct (l_ok res); [reflexivity | discriminate RO]).
  all: destruct (ref_lines_bound _ _ _ _ _ _ _ _ _ RL W1 RO' W2) as [LB1 LB2]; fold res in LB1; fold tres in LB2.
  all: pose proof (c10_strip is_py_space raw) as X; fold (py_strip raw) in X; fold s in X.
  all: pose proof (get_lines_lf st1 HT1 _ _ _ false raw GL Q0) as LR; cbv iota in LR.
  all: specialize (P2 ltac:(change (b_lineMax (st_parent st nm_reference)) with (b_lineMax st); lia)).
  1,2: assert (TO : l_ok tres = true) by (destruct (l_ok tres); [reflexivity | rewrite Bool.andb_false_r in TC; discriminate TC]).
  1,2: specialize (LB2 TO).
  all: (split; [destruct (c_inline_defs cfg); cbn; exact EL|]).
  all: (split; [destruct (c_inline_defs cfg); cbn; lia|]).
  all: (split; [|destruct (c_inline_defs cfg); exact (conj HT1 (fr_se _ _ PS))]).
  all: destruct (c_inline_defs cfg).
  all: try (apply gm_push1; [cbn; exact ET|]; unfold map_in; cbn; lia).
  all: exists []; rewrite app_nil_r; (split; [cbn; exact ET | constructor]).
Qed.

(* ---- table ---- *)
Lemma push_cells_gm lo hi : forall aligns st oty cty tag cols a b sne, lo <= a -> a < b -> b <= hi ->
  gm lo hi st (push_cells st oty cty tag aligns cols a b sne) /\ stb st (push_cells st oty cty tag aligns cols a b sne).
Proof.
  induction aligns as [|al aligns IH]; intros st oty cty tag cols a b sne H1 H2 H3; cbn [push_cells]; [split; [apply gm_refl | apply stb_refl]|].
  match goal with |- gm _ _ _ (push_cells ?s _ _ _ _ _ _ _ _) /\ _ => destruct (IH s oty cty tag (match cols with _ :: r => r | [] => [] end) a b sne H1 H2 H3) as [G S] end.
  split; [|eapply stb_trans; [|exact S]; repeat split].
  eapply gm_trans; [|exact G].
  eexists. split; [unfold push_inline; rewrite !bpush_tokens, <- !app_assoc; cbn [app]; reflexivity|].
  unfold cell_attrs. repeat constructor; unfold map_in; destruct al; cbn; lia.
Qed.

Lemma row_gm lo hi st aligns cols a b : lo <= a -> a < b -> b <= hi ->
  let st' := bpush (push_cells (bpush st s_tr_open s_tr 1 (map_tok a b))
                            [116; 100; 95; 111; 112; 101; 110] [116; 100; 95; 99; 108; 111; 115; 101] [116; 100] aligns cols a b true)
                s_tr_close s_tr (-1) (fun t => t) in
  gm lo hi st st' /\ stb st st'.
Proof.
  intros H1 H2 H3. cbv zeta.
  match goal with |- gm _ _ _ (bpush (push_cells ?s ?o ?c ?t ?al ?co _ _ ?sn) _ _ _ _) /\ _ =>
    destruct (push_cells_gm lo hi al s o c t co a b sn H1 H2 H3) as [G S] end.
  split; [|eapply stb_trans; [|apply stb_bpush]; eapply stb_trans; [apply stb_bpush | exact S]].
  apply (gm_trans lo hi st (bpush st s_tr_open s_tr 1 (map_tok a b))); [apply gm_push1; [reflexivity|]; unfold map_in; cbn; lia|].
  eapply gm_trans; [exact G|]. apply gm_push1; [reflexivity|]. unfold map_in. cbn. trivial.
Qed.

(* rows after the first body row *)
Lemma table_rows_later_m term (T : term_fr term) : forall fuel st aligns sl nl el tbody r tb' st',
  nl <> sl + 2 -> sl + 2 <= nl -> nl <= el -> 0 <= sl ->
  table_rows cfg fuel term st aligns sl nl el tbody = Ok (r, tb', st') ->
  tb' = tbody /\ nl <= r <= el /\ gm sl r st st' /\ stb st st'.
Proof.
  induction fuel as [|f IH]; intros st aligns sl nl el tbody r tb' st' N G L0 S0 H; [discriminate H|].
  cbn [table_rows] in H.
  destruct (negb (nl <? el)) eqn:NE; [rfinish H; repeat split; try lia; [apply gm_refl]|].
  rstep H. rstep H; [rfinish H; repeat split; try lia; [apply gm_refl]|].
  destruct (term nm_blockquote st nl el) as [[t st1]|?|] eqn:TE; cbn [bind] in H; try discriminate H.
  pose proof (T nm_blockquote _ _ _ _ _ ltac:(discriminate) TE) as E1.
  assert (F1 : forall hi, gm sl hi st st1) by (intros hi; exists []; rewrite app_nil_r; split; [apply fr_tokens, E1 | constructor]).
  destruct t; [rfinish H; split; [reflexivity|]; split; [lia|]; split; [apply F1 | apply fr_stb, E1]|].
  rstep H. destruct (py_strip x0) as [|c0 lt] eqn:LT; [rfinish H; split; [reflexivity|]; split; [lia|]; split; [apply F1 | apply fr_stb, E1]|].
  rstep H. rstep H; [rfinish H; split; [reflexivity|]; split; [lia|]; split; [apply F1 | apply fr_stb, E1]|].
  assert (Ne : (nl =? sl + 2) = false) by lia. rewrite Ne in H.
  assert (nl < el) by lia.
  apply IH in H; [|lia|lia|lia|lia]. destruct H as (-> & B & G2 & S2). split; [reflexivity|]. split; [lia|].
  destruct (row_gm sl r st1 aligns (trim_cols (escaped_split (c0 :: lt))) nl (nl + 1) ltac:(lia) ltac:(lia) ltac:(lia)) as [G1 S1].
  split; [eapply gm_trans; [apply F1|]; eapply gm_trans; [exact G1 | exact G2]|].
  eapply stb_trans; [apply fr_stb, E1|]. eapply stb_trans; [exact S1 | exact S2].
Qed.

(* the loop entered at the first body line *)
Lemma table_rows_first_m term (T : term_fr term) fuel st aligns sl el r tb' st' :
  sl + 2 <= el -> 0 <= sl ->
  table_rows cfg fuel term st aligns sl (sl + 2) el None = Ok (r, tb', st') ->
  sl + 2 <= r <= el /\ stb st st' /\
  ((tb' = None /\ b_tokens st' = b_tokens st)
   \/ (exists ph rest, tb' = Some (length (b_tokens st)) /\ b_tokens st' = b_tokens st ++ ph :: rest
                       /\ Forall (map_in sl r) rest /\ sl + 2 < r)).
Proof.
  destruct fuel as [|f]; intros L0 S0 H; [discriminate H|].
  cbn [table_rows] in H.
  destruct (negb (sl + 2 <? el)) eqn:NE; [rfinish H; split; [lia|]; split; [apply stb_refl|]; left; split; reflexivity|].
  rstep H. rstep H; [rfinish H; split; [lia|]; split; [apply stb_refl|]; left; split; reflexivity|].
  destruct (term nm_blockquote st (sl + 2) el) as [[t st1]|?|] eqn:TE; cbn [bind] in H; try discriminate H.
  pose proof (T nm_blockquote _ _ _ _ _ ltac:(discriminate) TE) as E1. pose proof (fr_tokens _ _ E1) as ET.
  destruct t; [rfinish H; split; [lia|]; split; [apply fr_stb, E1|]; left; split; [reflexivity | exact ET]|].
  rstep H. destruct (py_strip x0) as [|c0 lt] eqn:LT; [rfinish H; split; [lia|]; split; [apply fr_stb, E1|]; left; split; [reflexivity | exact ET]|].
  rstep H. rstep H; [rfinish H; split; [lia|]; split; [apply fr_stb, E1|]; left; split; [reflexivity | exact ET]|].
  assert (Ne : (sl + 2 =? sl + 2) = true) by lia. rewrite Ne in H.
  apply (table_rows_later_m term T) in H; [|lia|lia|lia|lia]. destruct H as (-> & B & G2 & S2).
  split; [lia|].
  match type of G2 with gm _ _ (bpush (push_cells (bpush ?s0 _ _ _ _) _ _ _ ?al ?co _ _ _) _ _ _ _) _ =>
    destruct (row_gm sl r s0 al co (sl + 2) (sl + 2 + 1) ltac:(lia) ltac:(lia) ltac:(lia)) as [G1 S1] end.
  split.
  { eapply stb_trans; [apply fr_stb, E1|]. eapply stb_trans; [apply stb_bpush|]. eapply stb_trans; [exact S1 | exact S2]. }
  right. destruct (gm_trans _ _ _ _ _ G1 G2) as (seg & ES & FS).
  eexists. exists seg. split; [rewrite ET; reflexivity|].
  split; [rewrite ES, bpush_tokens, ET, <- app_assoc; reflexivity|]. split; [exact FS | lia].
Qed.

Lemma r_table_c term (T : term_fr term) st sl el silent b st' :
  r_table cfg term st sl el silent = Ok (b, st') -> rule_c st sl el silent b st'.
Proof.
  unfold r_table. intros H.
  destruct (el <? sl + 2) eqn:EL2; [rfinish H; leaf_fail|]. cbv zeta in H.
  rstep H. rstep H; [rfinish H; leaf_fail|]. rstep H. rstep H; [rfinish H; leaf_fail|].
  do 2 rstep H. rstep H; [rfinish H; leaf_fail|]. rstep H. rstep H; [rfinish H; leaf_fail|].
  rstep H; [rfinish H; leaf_fail|]. rstep H. rstep H; [rfinish H; leaf_fail|]. rstep H; [rfinish H; leaf_fail|].
  rstep H. rstep H; [rfinish H; leaf_fail|]. rstep H.
  match type of H with match ?o with Some _ => _ | None => _ end = _ => destruct o as [aligns|] end; [|rfinish H; leaf_fail].
  rstep H. rstep H; [rfinish H; leaf_fail|]. rstep H. rstep H; [rfinish H; leaf_fail|].
  rstep H; [rfinish H; leaf_fail|]. rstep H; [rfinish H; leaf_fail|].
  match type of H with bind ?m _ = _ => destruct m as [[[nl tbody] st7]|?|] eqn:TR end; cbn [bind] in H; try discriminate H.
  rfinish H. unfold rule_c. cbn [andb negb]. intros (Q0 & Q1 & Q2 & Q3 & HTI).
  match type of TR with table_rows _ _ _ ?s6 _ _ _ _ _ = _ => remember s6 as st6 eqn:E6 end.
  apply (table_rows_first_m term T) in TR; [|lia|lia]. destruct TR as (B & S & Cases).
  (* the header part *)
  assert (GH : exists tph hseg, b_tokens st6 = b_tokens st ++ tph :: hseg /\ Forall (map_in sl nl) hseg /\ stb st st6).
  { rewrite E6.
    match goal with |- context [push_cells ?s ?o ?c ?t ?al ?co ?a ?b0 ?sn] =>
      destruct (push_cells_gm sl nl al s o c t co a b0 sn ltac:(lia) ltac:(lia) ltac:(lia)) as [(cs & EC & FC) SC] end.
    eexists. eexists. split; [rewrite !bpush_tokens, EC, !bpush_tokens; change (b_tokens (st_parent st nm_table)) with (b_tokens st); rewrite <- !app_assoc; cbn [app]; reflexivity|].
    split.
    - constructor; [unfold map_in; cbn; lia|]. constructor; [unfold map_in; cbn; lia|].
      apply Forall_app. split; [exact FC|]. repeat constructor; unfold map_in; cbn; trivial.
    - eapply stb_trans; [|apply stb_bpush]. eapply stb_trans; [|apply stb_bpush]. eapply stb_trans; [|exact SC]. repeat split. }
  destruct GH as (tph & hseg & E6t & FH & S6). clear E6.
  pose proof (stb_trans _ _ _ S6 S) as S7. destruct S7 as (T1 & T2 & T3 & T4 & T5).
  assert (HT7 : TI st7) by (apply (stb_TI st); [repeat split; assumption | exact HTI]).
  destruct Cases as [[-> ET7]|(ph & rest & -> & ET7 & FR & LT)].
  - (* no body rows *)
    split; [cbn; exact T5|]. split; [cbn; lia|]. split; [|exact (conj HT7 (conj T1 T3))].
    unfold gm, st_line, st_parent. cbn -[set_map_at map_in app]. rewrite ET7, E6t.
    rewrite <- app_assoc. cbn [app]. unfold set_map_at. rewrite update_nth_app.
    eexists. split; [reflexivity|]. constructor; [unfold map_in; cbn; lia|].
    apply Forall_app. split; [exact FH|]. repeat constructor; unfold map_in; cbn; trivial.
  - split; [cbn; exact T5|]. split; [cbn; lia|]. split; [|exact (conj HT7 (conj T1 T3))].
    unfold gm, st_line, st_parent. cbn -[set_map_at map_in app]. rewrite ET7.
    rewrite <- !app_assoc. cbn [app]. unfold set_map_at at 2. rewrite update_nth_app.
    rewrite E6t. rewrite <- !app_assoc. cbn [app]. unfold set_map_at. rewrite update_nth_app.
    eexists. split; [reflexivity|]. constructor; [unfold map_in; cbn; lia|].
    apply Forall_app. split; [exact FH|]. constructor; [unfold map_in; cbn; lia|].
    repeat (apply Forall_app; split); try exact FR; repeat constructor; unfold map_in; cbn; trivial.
Qed.

(* ---- block quote ---- *)
Ltac split7 := refine (conj _ (conj _ (conj _ (conj _ (conj _ (conj _ _)))))).

Lemma bq_loop_m term (T : term_fr term) sl0 : forall fuel st sv nl el lle r sv' st',
  bq_loop fuel term st sv nl el lle = Ok (r, sv', st') ->
  0 <= sl0 -> sl0 < nl -> nl <= el -> el <= b_lineMax st -> TI st ->
  sv_ok (b_src st) (b_eMarks st) sl0 (o_b sv) (o_ts sv) -> len (o_b sv) = nl - sl0 -> len (o_ts sv) = nl - sl0 ->
  nl <= r <= el /\ r <= b_lineMax st' /\ b_lineMax st' <= b_lineMax st /\ TI st'
  /\ sv_ok (b_src st') (b_eMarks st') sl0 (o_b sv') (o_ts sv') /\ k5 st st'
  /\ (forall j, 0 <= j < nl -> tb (b_sCount st') j = tb (b_sCount st) j).
Proof.
  induction fuel as [|f IH]; intros st sv nl el lle r sv' st' H S0 S1 L0 L1 HT SO N1 N2; [discriminate H|].
  cbn [bq_loop] in H.
  destruct (negb (nl <? el)) eqn:NE; [injection H as <- <- <-; split7; first [lia | assumption | apply k5_refl | (intros; reflexivity)]|].
  destruct (tb (b_sCount st) nl) as [sc|?|] eqn:Esc; cbn [bind] in H; try discriminate H.
  destruct (line_start st nl) as [pos|?|] eqn:LS; cbn [bind] in H; try discriminate H.
  destruct (tb (b_eMarks st) nl) as [mx|?|] eqn:Ee; cbn [bind] in H; try discriminate H.
  destruct (mx <=? pos) eqn:MP; [injection H as <- <- <-; split7; first [lia | assumption | apply k5_refl | (intros; reflexivity)]|].
  rstep H. cbv zeta in H.
  destruct ((x =? 62) && negb (sc <? b_blkIndent st)) eqn:Q.
  - (* a quoted line *)
    rstep H.
    match type of H with bind ?m _ = _ => destruct m as [q|?|] eqn:BS end; cbn [bind] in H; try discriminate H.
    match type of H with bind ?m _ = _ => destruct m as [sv1|?|] eqn:SL end; cbn [bind] in H; try discriminate H.
    match type of H with bind ?m _ = _ => destruct m as [st1|?|] eqn:AB end; cbn [bind] in H; try discriminate H.
    apply bq_strip_spec in BS. destruct BS as (Q1 & Q2 & Q3).
    destruct (save_line_m _ _ _ _ sl0 SL ltac:(lia) HT SO N1 N2) as (SO1 & M1 & M2).
    assert (G : goodbt (b_src st) (b_eMarks st) nl (q_bMark q) (q_tShift q)).
    { unfold line_start in LS. destruct (tb (b_bMarks st) nl) as [b0|?|] eqn:Eb; cbn [bind] in LS; try discriminate LS.
      destruct (tb (b_tShift st) nl) as [t0|?|] eqn:Et; cbn [bind] in LS; try discriminate LS. rfinish LS.
      pose proof (TIp_good _ _ _ _ nl _ _ HT ltac:(lia) Eb Et) as G0.
      eapply goodbt_mono; [exact G0| |lia]. destruct (G0 mx Ee) as (A & B & _). lia. }
    destruct (apply_bq_m _ _ _ _ AB ltac:(lia) HT G) as (HT1 & K1 & LM1 & SC1 & SC2).
    destruct K1 as (K11 & K12 & K13 & K14 & K15).
    apply IH in H; try lia; try assumption.
    + destruct H as (A & B & C & D & E & F & G2). split7; try lia; try assumption.
      * eapply k5_trans; [|exact F]. repeat split; assumption.
      * intros j Hj. rewrite G2 by lia. apply SC2; lia.
    + rewrite K13, K14. exact SO1.
  - destruct lle; [injection H as <- <- <-; split7; first [lia | assumption | apply k5_refl | (intros; reflexivity)]|].
    destruct (term nm_blockquote st nl el) as [[t st1]|?|] eqn:TE; cbn [bind] in H; try discriminate H.
    pose proof (T nm_blockquote _ _ _ _ _ ltac:(discriminate) TE) as E1. pose proof (fr_k5 _ _ E1) as (K11 & K12 & K13 & K14 & K15).
    pose proof (fr_TI _ _ E1 HT) as HT1. pose proof (fr_lineMax _ _ E1) as LM1. pose proof (fr_sCount _ _ E1) as SC1.
    destruct t.
    + (* a terminator stops the quote here *)
      cbv zeta in H. destruct (negb (b_blkIndent (st1 <| b_lineMax := nl |>) =? 0)).
      * match type of H with bind ?m _ = _ => destruct m as [sv1|?|] eqn:SL end; cbn [bind] in H; try discriminate H.
        match type of H with bind ?m _ = _ => destruct m as [scs|?|] eqn:TS end; cbn [bind] in H; try discriminate H.
        injection H as <- <- <-. destruct (tb_set_spec _ _ _ _ TS ltac:(lia)) as (_ & W2 & _).
        assert (HT2 : TI (st1 <| b_lineMax := nl |>)) by exact HT1.
        destruct (save_line_m _ _ _ _ sl0 SL ltac:(lia) HT2 ltac:(cbn; rewrite K13, K14; exact SO) N1 N2) as (SO1 & M1 & M2).
        cbn in SO1. split7; cbn; try lia; try assumption; try (repeat split; assumption).
        intros j Hj. rewrite W2 by lia. cbn. rewrite SC1. reflexivity.
      * injection H as <- <- <-. split7; cbn; try lia; try assumption; try (repeat split; assumption).
        -- rewrite K13, K14. exact SO.
        -- intros j Hj. rewrite SC1. reflexivity.
    + (* a lazy continuation line *)
      match type of H with bind ?m _ = _ => destruct m as [sv1|?|] eqn:SL end; cbn [bind] in H; try discriminate H.
      match type of H with bind ?m _ = _ => destruct m as [scs|?|] eqn:TS end; cbn [bind] in H; try discriminate H.
      destruct (tb_set_spec _ _ _ _ TS ltac:(lia)) as (_ & W2 & _).
      destruct (save_line_m _ _ _ _ sl0 SL ltac:(lia) HT1 ltac:(rewrite K13, K14; exact SO) N1 N2) as (SO1 & M1 & M2).
      apply IH in H; try lia; try assumption.
      * destruct H as (A & B & C & D & E & F & G2). split7; try lia; try assumption.
        -- cbn in C. lia.
        -- eapply k5_trans; [|exact F]. repeat split; assumption.
        -- intros j Hj. rewrite G2 by lia. cbn. rewrite W2 by lia. rewrite SC1. reflexivity.
      * cbn. lia.
Qed.

Definition first_ok (st : bstate) (a : Z) : Prop :=
  (exists p e, line_start st a = Ok p /\ tb (b_eMarks st) a = Ok e /\ e <= p /\ a < b_lineMax st)
  \/ (forall sc, tb (b_sCount st) a = Ok sc -> b_blkIndent st <= sc).

(* the contract of the nested tokenize *)
Definition rec_c (rec : rec_t) : Prop := forall st a b st',
  rec st a b = Ok st' -> 0 <= a -> a < b -> b <= b_lineMax st -> TI st ->
  b_lineMax st' = b_lineMax st /\ a <= b_line st' <= b_lineMax st /\ gm a (b_line st') st st' /\ TI st'
  /\ b_src st' = b_src st /\ b_eMarks st' = b_eMarks st /\ (first_ok st a -> a < b_line st').

Lemma r_blockquote_c rec term (R : rec_c rec) (T : term_fr term) st sl el silent b st' :
  r_blockquote cfg rec term st sl el silent = Ok (b, st') -> rule_c st sl el silent b st'.
Proof.
  unfold r_blockquote. intros H.
  destruct (line_start st sl) as [pos|?|] eqn:LS; cbn [bind] in H; try discriminate H.
  destruct (tb (b_eMarks st) sl) as [mx|?|] eqn:Ee; cbn [bind] in H; try discriminate H.
  rstep H. rstep H; [rfinish H; leaf_fail|].
  rewrite match_some_62 in H.
  rstep H; [|rfinish H; leaf_fail].
  destruct silent; [rfinish H; leaf_fail|].
  destruct (tb (b_sCount st) sl) as [sc|?|] eqn:Esc; cbn [bind] in H; try discriminate H.
  rstep H.
  match type of H with bind ?m _ = _ => destruct m as [q|?|] eqn:BS end; cbn [bind] in H; try discriminate H.
  match type of H with bind ?m _ = _ => destruct m as [sv0|?|] eqn:SL end; cbn [bind] in H; try discriminate H.
  match type of H with bind (apply_bq ?a ?b ?c) _ = _ => destruct (apply_bq a b c) as [st1|?|] eqn:AB end;
    cbn [bind] in H; try discriminate H.
  match type of H with bind ?m _ = _ => destruct m as [[[nl sv] st3]|?|] eqn:BL end; cbn [bind] in H; try discriminate H.
  match type of H with bind (rec ?a ?b ?c) _ = _ => destruct (rec a b c) as [st6|?|] eqn:RC end;
    cbn [bind] in H; try discriminate H.
  match type of H with bind ?m _ = _ => destruct m as [st10|?|] eqn:RT end; cbn [bind] in H; try discriminate H.
  injection H as <- <-. unfold rule_c. cbn [andb negb]. intros (Q0 & Q1 & Q2 & Q3 & HTI).
  (* the first line *)
  apply bq_strip_spec in BS. destruct BS as (B1 & B2 & B3).
  assert (G : goodbt (b_src st) (b_eMarks st) sl (q_bMark q) (q_tShift q)).
  { unfold line_start in LS. destruct (tb (b_bMarks st) sl) as [b0|?|] eqn:Eb; cbn [bind] in LS; try discriminate LS.
    destruct (tb (b_tShift st) sl) as [t0|?|] eqn:Et; cbn [bind] in LS; try discriminate LS. injection LS as <-.
    pose proof (TIp_good _ _ _ _ sl _ _ HTI ltac:(lia) Eb Et) as G0.
    eapply goodbt_mono; [exact G0| |lia]. destruct (G0 mx Ee) as (A & B & _). lia. }
  assert (SO0 : sv_ok (b_src st) (b_eMarks st) sl [] []) by exact I.
  destruct (save_line_m (mkSaved [] [] [] []) st sl sv0 sl SL Q0 HTI SO0 ltac:(cbn; lia) ltac:(cbn; lia)) as (SO1 & M1 & M2).
  destruct (apply_bq_m _ _ _ _ AB Q0 HTI G) as (HT1 & K1 & LM1 & SC1 & SC2).
  destruct K1 as (K11 & K12 & K13 & K14 & K15).
  apply (bq_loop_m term T sl) in BL; try lia.
  2: cbn; lia.
  2: exact HT1.
  2: cbn; rewrite K13, K14; exact SO1.
  destruct BL as (L1 & L2 & L3 & HT3 & SO3 & K3 & SC3). destruct K3 as (K31 & K32 & K33 & K34 & K35).
  cbn in L3, K31, K32, K33, K34, K35.
  (* the nested block loop *)
  destruct (R _ _ _ _ RC Q0 ltac:(lia) ltac:(cbn; lia) HT3) as (C1 & C2 & C3 & HT6 & C5 & C6 & C7). cbn in C1, C2, C5, C6.
  assert (FO : first_ok (bpush (st3 <| b_blkIndent := 0 |>) [98; 108; 111; 99; 107; 113; 117; 111; 116; 101; 95; 111; 112; 101; 110] nm_blockquote 1
                              (fun t => map_tok sl 0 (set_markup t [62]))) sl).
  { right. intros s0 E0. cbn in E0. rewrite SC3 in E0 by lia. cbn in E0. rewrite SC1 in E0. injection E0 as <-. cbn. lia. }
  specialize (C7 FO).
  (* restoring the tables *)
  apply restore_tables_m in RT; [|exact Q0| |].
  2: { cbn. exact HT6. }
  2: { cbn. rewrite C5, C6. cbn. exact SO3. }
  destruct RT as (HT10 & K10 & LM10). destruct K10 as (K101 & K102 & K103 & K104 & K105).
  cbn in LM10, K102. unfold st_parent in K101. cbn -[set_map_at bpush app] in K101.
  split; [cbn; exact LM10|].
  split; [cbn; rewrite K102; lia|].
  split; [|split; [exact HT10|]; split; cbn; [rewrite K103 | rewrite K104]; cbn; [rewrite C5 | rewrite C6]; cbn; [rewrite K33 | rewrite K34]; cbn; assumption].
  cbn [b_line set]. rewrite K102. unfold gm. cbn [b_tokens set]. rewrite K101.
  destruct C3 as (seg & ES & FS).
  rewrite bpush_tokens, ES, bpush_tokens.
  change (b_tokens (st3 <| b_blkIndent := 0 |>)) with (b_tokens st3). rewrite K31, K11.
  rewrite <- !app_assoc. cbn [app]. unfold set_map_at. rewrite update_nth_app.
  eexists. split; [reflexivity|]. constructor; [unfold map_in; cbn; lia|].
  apply Forall_app. split; [exact FS|]. repeat constructor; unfold map_in; cbn; trivial.
Qed.

(* C03, containment: the block quote token's own map is exactly the line range the rule consumed, and every token inside
   the quote has its map inside that range *)
Lemma r_blockquote_contains rec term (R : rec_c rec) (T : term_fr term) st sl el st' :
  r_blockquote cfg rec term st sl el false = Ok (true, st') -> pre st sl el ->
  exists op seg cl, b_tokens st' = b_tokens st ++ op :: seg ++ [cl]
    /\ tmap op = Some (sl, b_line st') /\ ttype op = [98; 108; 111; 99; 107; 113; 117; 111; 116; 101; 95; 111; 112; 101; 110]
    /\ Forall (map_in sl (b_line st')) seg /\ tmap cl = None.
Proof.
  unfold r_blockquote. intros H PRE.
  destruct (line_start st sl) as [pos|?|] eqn:LS; cbn [bind] in H; try discriminate H.
  destruct (tb (b_eMarks st) sl) as [mx|?|] eqn:Ee; cbn [bind] in H; try discriminate H.
  rstep H. rstep H; [discriminate H|].
  rewrite match_some_62 in H.
  rstep H; [|discriminate H].
  destruct (tb (b_sCount st) sl) as [sc|?|] eqn:Esc; cbn [bind] in H; try discriminate H.
  rstep H.
  match type of H with bind ?m _ = _ => destruct m as [q|?|] eqn:BS end; cbn [bind] in H; try discriminate H.
  match type of H with bind ?m _ = _ => destruct m as [sv0|?|] eqn:SL end; cbn [bind] in H; try discriminate H.
  match type of H with bind (apply_bq ?a ?b ?c) _ = _ => destruct (apply_bq a b c) as [st1|?|] eqn:AB end;
    cbn [bind] in H; try discriminate H.
  match type of H with bind ?m _ = _ => destruct m as [[[nl sv] st3]|?|] eqn:BL end; cbn [bind] in H; try discriminate H.
  match type of H with bind (rec ?a ?b ?c) _ = _ => destruct (rec a b c) as [st6|?|] eqn:RC end;
    cbn [bind] in H; try discriminate H.
  match type of H with bind ?m _ = _ => destruct m as [st10|?|] eqn:RT end; cbn [bind] in H; try discriminate H.
  injection H as <-. destruct PRE as (Q0 & Q1 & Q2 & Q3 & HTI).
  (* the first line *)
  apply bq_strip_spec in BS. destruct BS as (B1 & B2 & B3).
  assert (G : goodbt (b_src st) (b_eMarks st) sl (q_bMark q) (q_tShift q)).
  { unfold line_start in LS. destruct (tb (b_bMarks st) sl) as [b0|?|] eqn:Eb; cbn [bind] in LS; try discriminate LS.
    destruct (tb (b_tShift st) sl) as [t0|?|] eqn:Et; cbn [bind] in LS; try discriminate LS. injection LS as <-.
    pose proof (TIp_good _ _ _ _ sl _ _ HTI ltac:(lia) Eb Et) as G0.
    eapply goodbt_mono; [exact G0| |lia]. destruct (G0 mx Ee) as (A & B & _). lia. }
  assert (SO0 : sv_ok (b_src st) (b_eMarks st) sl [] []) by exact I.
  destruct (save_line_m (mkSaved [] [] [] []) st sl sv0 sl SL Q0 HTI SO0 ltac:(cbn; lia) ltac:(cbn; lia)) as (SO1 & M1 & M2).
  destruct (apply_bq_m _ _ _ _ AB Q0 HTI G) as (HT1 & K1 & LM1 & SC1 & SC2).
  destruct K1 as (K11 & K12 & K13 & K14 & K15).
  apply (bq_loop_m term T sl) in BL; try lia.
  2: cbn; lia.
  2: exact HT1.
  2: cbn; rewrite K13, K14; exact SO1.
  destruct BL as (L1 & L2 & L3 & HT3 & SO3 & K3 & SC3). destruct K3 as (K31 & K32 & K33 & K34 & K35).
  cbn in L3, K31, K32, K33, K34, K35.
  (* the nested block loop *)
  destruct (R _ _ _ _ RC Q0 ltac:(lia) ltac:(cbn; lia) HT3) as (C1 & C2 & C3 & HT6 & C5 & C6 & C7). cbn in C1, C2, C5, C6.
  assert (FO : first_ok (bpush (st3 <| b_blkIndent := 0 |>) [98; 108; 111; 99; 107; 113; 117; 111; 116; 101; 95; 111; 112; 101; 110] nm_blockquote 1
                              (fun t => map_tok sl 0 (set_markup t [62]))) sl).
  { right. intros s0 E0. cbn in E0. rewrite SC3 in E0 by lia. cbn in E0. rewrite SC1 in E0. injection E0 as <-. cbn. lia. }
  specialize (C7 FO).
  (* restoring the tables *)
  apply restore_tables_m in RT; [|exact Q0| |].
  2: { cbn. exact HT6. }
  2: { cbn. rewrite C5, C6. cbn. exact SO3. }
  destruct RT as (HT10 & K10 & LM10). destruct K10 as (K101 & K102 & K103 & K104 & K105).
  cbn in LM10, K102. unfold st_parent in K101. cbn -[set_map_at bpush app] in K101.
  cbn [b_line set]. rewrite K102. cbn [b_tokens set]. rewrite K101.
  destruct C3 as (seg & ES & FS).
  rewrite bpush_tokens, ES, bpush_tokens.
  change (b_tokens (st3 <| b_blkIndent := 0 |>)) with (b_tokens st3). rewrite K31, K11.
  rewrite <- !app_assoc. cbn [app]. unfold set_map_at. rewrite update_nth_app.
  eexists _, seg, _. split; [reflexivity|]. split; [reflexivity|]. split; [reflexivity|]. split; [exact FS | reflexivity].
Qed.

(* ---- list ---- *)
Lemma list_items_m rec term (R : rec_c rec) (T : term_fr term) : forall fuel st isOrd mc sl el pam start tight pee nl tight' st',
  list_items cfg fuel rec term st isOrd mc sl sl el pam start tight pee = Ok (nl, tight', st') ->
  0 <= sl -> sl < el -> el <= b_lineMax st -> TI st -> b_line st = sl ->
  (forall ls, line_start st sl = Ok ls -> ls < pam) ->
  sl < nl <= b_lineMax st /\ b_line st' = nl /\ b_lineMax st' = b_lineMax st /\ TI st' /\ se st st' /\ gm sl nl st st'.
Proof.
  induction fuel as [|f IH]; intros st isOrd mc sl el pam start tight pee nl tight' st' H S0 S1 S2 HT BL PM; [discriminate H|].
  cbn [list_items] in H.
  assert (NE : negb (sl <? el) = false) by lia. rewrite NE in H.
  destruct (tb (b_eMarks st) sl) as [mx|?|] eqn:Ee; cbn [bind] in H; try discriminate H.
  destruct (tb (b_sCount st) sl) as [scn|?|] eqn:Esc; cbn [bind] in H; try discriminate H.
  destruct (line_start st sl) as [ls|?|] eqn:LS; cbn [bind] in H; try discriminate H.
  rstep H.
  match type of H with bind ?m _ = _ => destruct m as [[contentStart offset]|?|] eqn:LB end; cbn [bind] in H; try discriminate H.
  apply list_blanks_mono in LB. destruct LB as [LB1 LB2].
  cbv zeta in H.
  set (initial := scn + pam - ls) in *.
  set (iam0 := if mx <=? contentStart then 1 else offset - initial) in *.
  set (iam := if 4 <? iam0 then 1 else iam0) in *.
  set (indent := initial + iam) in *.
  match type of H with context [bpush st s_list_item_open s_li 1 ?f] => set (st1 := bpush st s_list_item_open s_li 1 f) in * end.
  change (b_tShift st1) with (b_tShift st) in H. change (b_sCount st1) with (b_sCount st) in H.
  change (b_bMarks st1) with (b_bMarks st) in H.
  destruct (tb (b_tShift st) sl) as [oldTS|?|] eqn:Ets; cbn [bind] in H; try discriminate H.
  rewrite Esc in H. cbn [bind] in H.
  destruct (tb (b_bMarks st) sl) as [bms|?|] eqn:Ebm; cbn [bind] in H; try discriminate H.
  destruct (tb_set (b_tShift st) sl (contentStart - bms)) as [ts'|?|] eqn:S1'; cbn [bind] in H; try discriminate H.
  destruct (tb_set (b_sCount st) sl offset) as [sc'|?|] eqn:S2'; cbn [bind] in H; try discriminate H.
  specialize (PM ls eq_refl).
  assert (LSE : ls = bms + oldTS).
  { unfold line_start in LS. rewrite Ebm, Ets in LS. cbn [bind] in LS. injection LS as <-. reflexivity. }
  destruct (HT sl bms mx oldTS S0 Ebm Ee Ets) as (G1 & G2 & G3 & G4).
  match type of H with context [st1 <| b_listIndent := ?a |> <| b_blkIndent := ?b |> <| b_tight := ?c |> <| b_tShift := ?d |> <| b_sCount := ?e |>] =>
    set (st2 := st1 <| b_listIndent := a |> <| b_blkIndent := b |> <| b_tight := c |> <| b_tShift := d |> <| b_sCount := e |>) in * end.
  assert (HT2 : TI st2).
  { unfold TI, st2, st1. cbn. exact (TIp_set_ts _ _ _ _ _ _ _ HT S0 S1' ltac:(lia)). }
  assert (L2 : b_lineMax st2 = b_lineMax st) by reflexivity.
  assert (B2 : b_line st2 = sl) by exact BL.
  assert (T2 : b_tokens st2 = b_tokens st1) by reflexivity.
  destruct (tb_set_spec _ _ _ _ S1' S0) as (TS1 & _ & _). destruct (tb_set_spec _ _ _ _ S2' S0) as (SC1 & _ & _).
  (* the item body *)
  match type of H with bind ?m _ = _ => destruct m as [st3|?|] eqn:BODY end; cbn [bind] in H; try discriminate H.
  assert (B3 : sl < b_line st3 <= b_lineMax st /\ b_lineMax st3 = b_lineMax st /\ TI st3 /\ se st st3 /\ gm sl (b_line st3) st2 st3).
  { destruct (if mx <=? contentStart then is_empty st2 (sl + 1) else Ok false) as [e|?|] eqn:EE; cbn [bind] in BODY; try discriminate BODY.
    destruct e.
    - injection BODY as <-. change (b_line (st_line st2 (Z.min (b_line st + 2) el))) with (Z.min (b_line st + 2) el). rewrite BL.
      split; [lia|]. split; [reflexivity|]. split; [exact HT2|]. split; [split; reflexivity|].
      exists []. rewrite app_nil_r. split; [reflexivity | constructor].
    - destruct (R _ _ _ _ BODY S0 S1 ltac:(rewrite L2; lia) HT2) as (C1 & C2 & C3 & C4 & C5 & C6 & C7).
      assert (FO : first_ok st2 sl).
      { destruct (mx <=? contentStart) eqn:MC.
        - left. exists contentStart, mx. unfold line_start. unfold st2, st1. cbn. rewrite Ebm, TS1. cbn [bind].
          split; [f_equal; lia|]. split; [exact Ee|]. split; lia.
        - right. intros s0 E0. unfold st2, st1 in E0. cbn in E0. rewrite SC1 in E0. injection E0 as <-.
          unfold st2, st1. cbn. unfold indent, iam, iam0. destruct (4 <? offset - initial) eqn:X; lia. }
      specialize (C7 FO). rewrite L2 in *. split; [lia|]. split; [exact C1|]. split; [exact C4|]. split; [split; [exact C5 | exact C6]|]. exact C3. }
  destruct B3 as (B31 & B32 & HT3 & SE3 & G3m).
  rstep H.
  destruct (tb_set (b_tShift st3) sl oldTS) as [ts''|?|] eqn:S3'; cbn [bind] in H; try discriminate H.
  destruct (tb_set (b_sCount st3) sl scn) as [sc''|?|] eqn:S4'; cbn [bind] in H; try discriminate H.
  match type of H with context [bpush ?s4 s_list_item_close s_li (-1) ?f] => set (st5 := bpush s4 s_list_item_close s_li (-1) f) in * end.
  change (b_line st5) with (b_line st3) in H.
  match type of H with context [st5 <| b_tokens := ?v |>] => set (st6 := st5 <| b_tokens := v |>) in * end.
  assert (A6 : b_line st6 = b_line st3 /\ b_lineMax st6 = b_lineMax st /\ TI st6 /\ se st st6 /\ gm sl (b_line st3) st st6).
  { split; [reflexivity|]. split; [exact B32|]. split.
    { unfold TI, st6, st5. cbn. destruct SE3 as [E1 E2]. exact (TIp_set_ts _ _ _ _ _ _ _ HT3 S0 S3' G2). }
    split; [exact SE3|].
    destruct G3m as (seg3 & E3 & F3).
    unfold gm, st6, st5. cbn -[set_map_at app]. rewrite E3, T2. unfold st1. rewrite bpush_tokens.
    rewrite <- !app_assoc. cbn [app]. unfold set_map_at. rewrite update_nth_app.
    eexists. split; [reflexivity|]. constructor; [unfold map_in; destruct isOrd; cbn; lia|].
    apply Forall_app. split; [exact F3|]. repeat constructor; unfold map_in; cbn; trivial. }
  destruct A6 as (A61 & A62 & A63 & A64 & A65).
  assert (DONE6 : sl < b_line st3 <= b_lineMax st /\ b_line st6 = b_line st3 /\ b_lineMax st6 = b_lineMax st /\ TI st6 /\ se st st6 /\ gm sl (b_line st3) st st6)
    by (split; [exact B31|]; split; [exact A61|]; split; [exact A62|]; split; [exact A63|]; split; [exact A64 | exact A65]).
  destruct (el <=? b_line st3) eqn:EN; [injection H as <- <- <-; exact DONE6|].
  rstep H. rstep H; [injection H as <- <- <-; exact DONE6|].
  rstep H. rstep H; [injection H as <- <- <-; exact DONE6|].
  destruct (term nm_list st6 (b_line st3) el) as [[t st7]|?|] eqn:TE; cbn [bind] in H; try discriminate H.
  pose proof (T nm_list _ _ _ _ _ ltac:(discriminate) TE) as E7.
  assert (DONE7 : sl < b_line st3 <= b_lineMax st /\ b_line st7 = b_line st3 /\ b_lineMax st7 = b_lineMax st /\ TI st7 /\ se st st7 /\ gm sl (b_line st3) st st7).
  { split; [exact B31|]. split; [rewrite (fr_line _ _ E7); exact A61|]. split; [rewrite (fr_lineMax _ _ E7); exact A62|].
    split; [exact (fr_TI _ _ E7 A63)|]. split; [exact (se_trans _ _ _ A64 (fr_se _ _ E7))|].
    eapply gm_same_tokens; [exact A65 | exact (fr_tokens _ _ E7)]. }
  destruct t; [injection H as <- <- <-; exact DONE7|].
  match type of H with bind ?m _ = _ => destruct m as [pam'|?|] eqn:SK end; cbn [bind] in H; try discriminate H.
  destruct (pam' <? 0) eqn:PN; [injection H as <- <- <-; exact DONE7|].
  rstep H. rstep H. rstep H; [injection H as <- <- <-; exact DONE7|].
  destruct DONE7 as (D1 & D2 & D3 & D4 & D5 & D6).
  apply IH in H; try lia; try assumption.
  - destruct H as (I1 & I2 & I3 & I4 & I5 & I6). rewrite D3 in *.
    split; [lia|]. split; [exact I2|]. split; [exact I3|]. split; [exact I4|]. split; [exact (se_trans _ _ _ D5 I5)|].
    eapply gm_trans; [eapply gm_weaken; [exact D6 | lia | lia]|]. eapply gm_weaken; [exact I6 | lia | lia].
  - intros ls' LS'. destruct isOrd.
    + destruct (skip_ordered_gt _ _ _ _ SK LS'); lia.
    + destruct (skip_bullet_gt _ _ _ _ SK LS'); lia.
Qed.

(* C03, containment in list items: what the item loop appends is a sequence of items, each  list_item_open  with the map
   [a, b) of the lines of the item, the tokens of the item with maps inside [a, b), list_item_close; the items follow each
   other line range by line range *)
Inductive item_seq : Z -> Z -> list token -> Prop :=
| item_one a b op seg cl : tmap op = Some (a, b) -> Forall (map_in a b) seg -> tmap cl = None -> item_seq a b (op :: seg ++ [cl])
| item_more a b c op seg cl rest : tmap op = Some (a, b) -> Forall (map_in a b) seg -> tmap cl = None -> item_seq b c rest ->
    item_seq a c ((op :: seg ++ [cl]) ++ rest).

Lemma list_items_contains rec term (R : rec_c rec) (T : term_fr term) : forall fuel st isOrd mc sl el pam start tight pee nl tight' st',
  list_items cfg fuel rec term st isOrd mc sl sl el pam start tight pee = Ok (nl, tight', st') ->
  0 <= sl -> sl < el -> el <= b_lineMax st -> TI st -> b_line st = sl ->
  (forall ls, line_start st sl = Ok ls -> ls < pam) ->
  exists its, b_tokens st' = b_tokens st ++ its /\ item_seq sl nl its.
Proof.
  induction fuel as [|f IH]; intros st isOrd mc sl el pam start tight pee nl tight' st' H S0 S1 S2 HT BL PM; [discriminate H|].
  cbn [list_items] in H.
  assert (NE : negb (sl <? el) = false) by lia. rewrite NE in H.
  destruct (tb (b_eMarks st) sl) as [mx|?|] eqn:Ee; cbn [bind] in H; try discriminate H.
  destruct (tb (b_sCount st) sl) as [scn|?|] eqn:Esc; cbn [bind] in H; try discriminate H.
  destruct (line_start st sl) as [ls|?|] eqn:LS; cbn [bind] in H; try discriminate H.
  rstep H.
  match type of H with bind ?m _ = _ => destruct m as [[contentStart offset]|?|] eqn:LB end; cbn [bind] in H; try discriminate H.
  apply list_blanks_mono in LB. destruct LB as [LB1 LB2].
  cbv zeta in H.
  set (initial := scn + pam - ls) in *.
  set (iam0 := if mx <=? contentStart then 1 else offset - initial) in *.
  set (iam := if 4 <? iam0 then 1 else iam0) in *.
  set (indent := initial + iam) in *.
  match type of H with context [bpush st s_list_item_open s_li 1 ?f] => set (st1 := bpush st s_list_item_open s_li 1 f) in * end.
  change (b_tShift st1) with (b_tShift st) in H. change (b_sCount st1) with (b_sCount st) in H.
  change (b_bMarks st1) with (b_bMarks st) in H.
  destruct (tb (b_tShift st) sl) as [oldTS|?|] eqn:Ets; cbn [bind] in H; try discriminate H.
  rewrite Esc in H. cbn [bind] in H.
  destruct (tb (b_bMarks st) sl) as [bms|?|] eqn:Ebm; cbn [bind] in H; try discriminate H.
  destruct (tb_set (b_tShift st) sl (contentStart - bms)) as [ts'|?|] eqn:S1'; cbn [bind] in H; try discriminate H.
  destruct (tb_set (b_sCount st) sl offset) as [sc'|?|] eqn:S2'; cbn [bind] in H; try discriminate H.
  specialize (PM ls eq_refl).
  assert (LSE : ls = bms + oldTS).
  { unfold line_start in LS. rewrite Ebm, Ets in LS. cbn [bind] in LS. injection LS as <-. reflexivity. }
  destruct (HT sl bms mx oldTS S0 Ebm Ee Ets) as (G1 & G2 & G3 & G4).
  match type of H with context [st1 <| b_listIndent := ?a |> <| b_blkIndent := ?b |> <| b_tight := ?c |> <| b_tShift := ?d |> <| b_sCount := ?e |>] =>
    set (st2 := st1 <| b_listIndent := a |> <| b_blkIndent := b |> <| b_tight := c |> <| b_tShift := d |> <| b_sCount := e |>) in * end.
  assert (HT2 : TI st2).
  { unfold TI, st2, st1. cbn. exact (TIp_set_ts _ _ _ _ _ _ _ HT S0 S1' ltac:(lia)). }
  assert (L2 : b_lineMax st2 = b_lineMax st) by reflexivity.
  assert (B2 : b_line st2 = sl) by exact BL.
  assert (T2 : b_tokens st2 = b_tokens st1) by reflexivity.
  destruct (tb_set_spec _ _ _ _ S1' S0) as (TS1 & _ & _). destruct (tb_set_spec _ _ _ _ S2' S0) as (SC1 & _ & _).
  (* the item body *)
  match type of H with bind ?m _ = _ => destruct m as [st3|?|] eqn:BODY end; cbn [bind] in H; try discriminate H.
  assert (B3 : sl < b_line st3 <= b_lineMax st /\ b_lineMax st3 = b_lineMax st /\ TI st3 /\ se st st3 /\ gm sl (b_line st3) st2 st3).
  { destruct (if mx <=? contentStart then is_empty st2 (sl + 1) else Ok false) as [e|?|] eqn:EE; cbn [bind] in BODY; try discriminate BODY.
    destruct e.
    - injection BODY as <-. change (b_line (st_line st2 (Z.min (b_line st + 2) el))) with (Z.min (b_line st + 2) el). rewrite BL.
      split; [lia|]. split; [reflexivity|]. split; [exact HT2|]. split; [split; reflexivity|].
      exists []. rewrite app_nil_r. split; [reflexivity | constructor].
    - destruct (R _ _ _ _ BODY S0 S1 ltac:(rewrite L2; lia) HT2) as (C1 & C2 & C3 & C4 & C5 & C6 & C7).
      assert (FO : first_ok st2 sl).
      { destruct (mx <=? contentStart) eqn:MC.
        - left. exists contentStart, mx. unfold line_start. unfold st2, st1. cbn. rewrite Ebm, TS1. cbn [bind].
          split; [f_equal; lia|]. split; [exact Ee|]. split; lia.
        - right. intros s0 E0. unfold st2, st1 in E0. cbn in E0. rewrite SC1 in E0. injection E0 as <-.
          unfold st2, st1. cbn. unfold indent, iam, iam0. destruct (4 <? offset - initial) eqn:X; lia. }
      specialize (C7 FO). rewrite L2 in *. split; [lia|]. split; [exact C1|]. split; [exact C4|]. split; [split; [exact C5 | exact C6]|]. exact C3. }
  destruct B3 as (B31 & B32 & HT3 & SE3 & G3m).
  rstep H.
  destruct (tb_set (b_tShift st3) sl oldTS) as [ts''|?|] eqn:S3'; cbn [bind] in H; try discriminate H.
  destruct (tb_set (b_sCount st3) sl scn) as [sc''|?|] eqn:S4'; cbn [bind] in H; try discriminate H.
  match type of H with context [bpush ?s4 s_list_item_close s_li (-1) ?f] => set (st5 := bpush s4 s_list_item_close s_li (-1) f) in * end.
  change (b_line st5) with (b_line st3) in H.
  match type of H with context [st5 <| b_tokens := ?v |>] => set (st6 := st5 <| b_tokens := v |>) in * end.
  assert (A6 : b_line st6 = b_line st3 /\ b_lineMax st6 = b_lineMax st /\ TI st6 /\ se st st6
               /\ exists op seg3 cl, b_tokens st6 = b_tokens st ++ op :: seg3 ++ [cl] /\ tmap op = Some (sl, b_line st3)
                                       /\ Forall (map_in sl (b_line st3)) seg3 /\ tmap cl = None).
  { split; [reflexivity|]. split; [exact B32|]. split.
    { unfold TI, st6, st5. cbn. destruct SE3 as [E1 E2]. exact (TIp_set_ts _ _ _ _ _ _ _ HT3 S0 S3' G2). }
    split; [exact SE3|].
    destruct G3m as (seg3 & E3 & F3).
    unfold st6, st5. cbn -[set_map_at app]. rewrite E3, T2. unfold st1. rewrite bpush_tokens.
    rewrite <- !app_assoc. cbn [app]. unfold set_map_at. rewrite update_nth_app.
    eexists _, seg3, _. split; [reflexivity|]. split; [destruct isOrd; reflexivity|]. split; [exact F3 | reflexivity]. }
  destruct A6 as (A61 & A62 & A63 & A64 & (op & seg3 & cl & A65 & MO & FS & MC)).
  assert (DONE6 : exists its, b_tokens st6 = b_tokens st ++ its /\ item_seq sl (b_line st3) its)
    by (exists (op :: seg3 ++ [cl]); split; [exact A65 | apply item_one; assumption]).
  destruct (el <=? b_line st3) eqn:EN; [injection H as <- <- <-; exact DONE6|].
  rstep H. rstep H; [injection H as <- <- <-; exact DONE6|].
  rstep H. rstep H; [injection H as <- <- <-; exact DONE6|].
  destruct (term nm_list st6 (b_line st3) el) as [[t st7]|?|] eqn:TE; cbn [bind] in H; try discriminate H.
  pose proof (T nm_list _ _ _ _ _ ltac:(discriminate) TE) as E7.
  assert (TK7 : b_tokens st7 = b_tokens st6) by exact (fr_tokens _ _ E7).
  assert (DONE7 : exists its, b_tokens st7 = b_tokens st ++ its /\ item_seq sl (b_line st3) its)
    by (exists (op :: seg3 ++ [cl]); split; [rewrite TK7; exact A65 | apply item_one; assumption]).
  destruct t; [injection H as <- <- <-; exact DONE7|].
  match type of H with bind ?m _ = _ => destruct m as [pam'|?|] eqn:SK end; cbn [bind] in H; try discriminate H.
  destruct (pam' <? 0) eqn:PN; [injection H as <- <- <-; exact DONE7|].
  rstep H. rstep H. rstep H; [injection H as <- <- <-; exact DONE7|].
  assert (D2 : b_line st7 = b_line st3) by (rewrite (fr_line _ _ E7); exact A61).
  assert (D3 : b_lineMax st7 = b_lineMax st) by (rewrite (fr_lineMax _ _ E7); exact A62).
  assert (D4 : TI st7) by exact (fr_TI _ _ E7 A63).
  apply IH in H; try lia; try assumption.
  - destruct H as (its & ET & IS). exists ((op :: seg3 ++ [cl]) ++ its). split.
    + rewrite ET, TK7, A65. rewrite <- !app_assoc. reflexivity.
    + apply (item_more sl (b_line st3) nl); assumption.
  - intros ls' LS'. destruct isOrd.
    + destruct (skip_ordered_gt _ _ _ _ SK LS'); lia.
    + destruct (skip_bullet_gt _ _ _ _ SK LS'); lia.
Qed.

Lemma r_list_c rec term (R : rec_c rec) (T : term_fr term) st sl el silent b st' :
  r_list cfg rec term st sl el silent = Ok (b, st') -> rule_c st sl el silent b st'.
Proof.
  unfold r_list. intros H.
  rstep H. rstep H; [rfinish H; leaf_fail|].
  rstep H. rstep H; [rfinish H; leaf_fail|].
  cbv zeta in H.
  destruct (skip_ordered st sl) as [pamo|?|] eqn:SO; cbn [bind] in H; try discriminate H.
  destruct (line_start st sl) as [start|?|] eqn:LS; cbn [bind] in H; try discriminate H.
  match type of H with bind ?m _ = _ => destruct m as [sel|?|] eqn:SEL end; cbn [bind] in H; try discriminate H.
  destruct sel as [[[isOrd pam] mv]|]; [|rfinish H; leaf_fail].
  assert (PM : start < pam).
  { destruct (0 <=? pamo) eqn:P0.
    - match type of SEL with (if ?c then Ok None else _) = _ => destruct c end; [discriminate SEL|].
      injection SEL as <- <- <-. destruct (skip_ordered_gt _ _ _ _ SO LS); lia.
    - destruct (skip_bullet st sl) as [pamb|?|] eqn:SB; cbn [bind] in SEL; try discriminate SEL.
      destruct (0 <=? pamb) eqn:P1; [|discriminate SEL]. injection SEL as <- <- <-.
      destruct (skip_bullet_gt _ _ _ _ SB LS); lia. }
  rstep H. rstep H; [rfinish H; leaf_fail|].
  destruct (py_idx (b_src st) (pam - 1)) as [x2|?|] eqn:MC0; cbn [bind] in H; try discriminate H.
  destruct silent; [rfinish H; leaf_fail|].
  match type of H with bind ?m _ = _ => destruct m as [[[nextLine tight] st3]|?|] eqn:LI end; cbn [bind] in H; try discriminate H.
  injection H as <- <-. unfold rule_c. cbn [andb negb]. intros (Q0 & Q1 & Q2 & Q3 & HTI).
  match type of LI with list_items _ _ _ _ (st_parent ?s1 _) _ _ _ _ _ _ _ _ _ = _ => set (st1 := s1) in * end.
  assert (E1 : exists ph, b_tokens st1 = b_tokens st ++ [ph]).
  { unfold st1. destruct isOrd; rewrite bpush_tokens; eexists; reflexivity. }
  destruct E1 as (ph & E1).
  apply (list_items_m rec term R T) in LI; try assumption.
  2: { unfold st1. destruct isOrd; cbn; lia. }
  2: { unfold st1. destruct isOrd; exact HTI. }
  2: { unfold st1. destruct isOrd; exact Q3. }
  2: { intros ls LS'. assert (line_start st sl = Ok ls) by (unfold st1 in LS'; destruct isOrd; exact LS'). congruence. }
  destruct LI as (I1 & I2 & I3 & I4 & I5 & I6).
  assert (LM1 : b_lineMax (st_parent st1 nm_list) = b_lineMax st) by (unfold st1; destruct isOrd; reflexivity).
  assert (SE1 : se st (st_parent st1 nm_list)) by (unfold st1; destruct isOrd; split; reflexivity).
  rewrite LM1 in *.
  destruct I6 as (seg & ES & FS). change (b_tokens (st_parent st1 nm_list)) with (b_tokens st1) in ES. rewrite E1 in ES.
  match goal with |- step_ok st sl (if tight then ?A else ?B) => set (st5 := B); assert (G5 : step_ok st sl st5) end.
  { unfold st5. split; [cbn; destruct isOrd; cbn; exact I3|]. split; [cbn; lia|].
    split; [|split; [destruct isOrd; exact I4 | destruct isOrd; exact (se_trans _ _ _ SE1 I5)]].
    unfold gm. cbn -[set_map_at app].
    assert (ET : exists cl, b_tokens (if isOrd
        then bpush st3 [111; 114; 100; 101; 114; 101; 100; 95; 108; 105; 115; 116; 95; 99; 108; 111; 115; 101] [111; 108] (-1) (fun t => set_markup t [x2])
        else bpush st3 [98; 117; 108; 108; 101; 116; 95; 108; 105; 115; 116; 95; 99; 108; 111; 115; 101] [117; 108] (-1) (fun t => set_markup t [x2]))
        = b_tokens st3 ++ [cl] /\ tmap cl = None).
    { destruct isOrd; rewrite bpush_tokens; eexists; split; reflexivity. }
    destruct ET as (cl & ET & MC). rewrite ET, ES. rewrite <- !app_assoc. cbn [app].
    unfold set_map_at. rewrite update_nth_app.
    eexists. split; [reflexivity|]. constructor; [unfold map_in; cbn; lia|].
    apply Forall_app. split; [exact FS|]. constructor; [unfold map_in; rewrite MC; trivial | constructor]. }
  destruct tight; [|exact G5].
  destruct G5 as (G51 & G52 & (seg5 & E5 & F5) & G54 & G55).
  split; [exact G51|]. split; [exact G52|]. split; [|split; [exact G54 | exact G55]].
  unfold gm.
  pose proof (mark_tight_mapeq (length (b_tokens st)) (S (length (b_tokens st5))) (b_tokens st5) (Z.of_nat (length (b_tokens st)) + 2)
                (len (b_tokens st5) - 2) (b_level st5 + 2) ltac:(lia) ltac:(lia)) as ME.
  rewrite E5 in ME at 1.
  destruct (gm_reshape sl nextLine (b_tokens st) seg5 _ F5 ME) as (seg' & EX & FX).
  exists seg'. split; [exact EX | exact FX].
Qed.

(* the same structure read off the maps alone (markTightParagraphs only touches hidden flags) *)
Definition mp_in (a b : Z) (m : option (Z * Z)) : Prop := match m with Some (x, y) => a <= x /\ x < y /\ y <= b | None => True end.
Inductive mseq : Z -> Z -> list (option (Z * Z)) -> Prop :=
| mseq_one a b ms : Forall (mp_in a b) ms -> mseq a b (Some (a, b) :: ms ++ [None])
| mseq_more a b c ms rest : Forall (mp_in a b) ms -> mseq b c rest -> mseq a c ((Some (a, b) :: ms ++ [None]) ++ rest).

Lemma Forall_map_in_mp a b l : Forall (map_in a b) l -> Forall (mp_in a b) (map tmap l).
Proof. induction 1; cbn [map]; constructor; assumption. Qed.

Lemma item_seq_mseq a b l : item_seq a b l -> mseq a b (map tmap l).
Proof.
  induction 1 as [a b op seg cl MO FS MC | a b c op seg cl rest MO FS MC IS IH].
  - cbn [map]. rewrite map_app. cbn [map]. rewrite MO, MC. apply mseq_one. apply Forall_map_in_mp, FS.
  - rewrite map_app. cbn [map]. rewrite map_app. cbn [map]. rewrite MO, MC. apply mseq_more; [apply Forall_map_in_mp, FS | exact IH].
Qed.

(* C03, containment in lists: the list token's own map is the line range the rule consumed; between the list tokens the maps
   are those of a sequence of items, each item's tokens inside the item's own map, all inside the list's *)
Lemma r_list_contains rec term (R : rec_c rec) (T : term_fr term) st sl el st' :
  r_list cfg rec term st sl el false = Ok (true, st') -> pre st sl el ->
  exists lo its lc, b_tokens st' = b_tokens st ++ lo :: its ++ [lc]
    /\ tmap lo = Some (sl, b_line st') /\ tmap lc = None /\ mseq sl (b_line st') (map tmap its).
Proof.
  unfold r_list. intros H PRE.
  rstep H. rstep H; [discriminate H|].
  rstep H. rstep H; [discriminate H|].
  cbv zeta in H.
  destruct (skip_ordered st sl) as [pamo|?|] eqn:SO; cbn [bind] in H; try discriminate H.
  destruct (line_start st sl) as [start|?|] eqn:LS; cbn [bind] in H; try discriminate H.
  match type of H with bind ?m _ = _ => destruct m as [sel|?|] eqn:SEL end; cbn [bind] in H; try discriminate H.
  destruct sel as [[[isOrd pam] mv]|]; [|discriminate H].
  assert (PM : start < pam).
  { destruct (0 <=? pamo) eqn:P0.
    - match type of SEL with (if ?c then Ok None else _) = _ => destruct c end; [discriminate SEL|].
      injection SEL as <- <- <-. destruct (skip_ordered_gt _ _ _ _ SO LS); lia.
    - destruct (skip_bullet st sl) as [pamb|?|] eqn:SB; cbn [bind] in SEL; try discriminate SEL.
      destruct (0 <=? pamb) eqn:P1; [|discriminate SEL]. injection SEL as <- <- <-.
      destruct (skip_bullet_gt _ _ _ _ SB LS); lia. }
  rstep H. rstep H; [discriminate H|].
  destruct (py_idx (b_src st) (pam - 1)) as [x2|?|] eqn:MC0; cbn [bind] in H; try discriminate H.
  match type of H with bind ?m _ = _ => destruct m as [[[nextLine tight] st3]|?|] eqn:LI end; cbn [bind] in H; try discriminate H.
  injection H as <-. destruct PRE as (Q0 & Q1 & Q2 & Q3 & HTI).
  match type of LI with list_items _ _ _ _ (st_parent ?s1 _) _ _ _ _ _ _ _ _ _ = _ => set (st1 := s1) in * end.
  assert (E1 : exists ph, b_tokens st1 = b_tokens st ++ [ph]).
  { unfold st1. destruct isOrd; rewrite bpush_tokens; eexists; reflexivity. }
  destruct E1 as (ph & E1).
  pose proof LI as LIC.
  apply (list_items_contains rec term R T) in LIC; try assumption.
  2: { unfold st1. destruct isOrd; cbn; lia. }
  2: { unfold st1. destruct isOrd; exact HTI. }
  2: { unfold st1. destruct isOrd; exact Q3. }
  2: { intros ls LS'. assert (line_start st sl = Ok ls) by (unfold st1 in LS'; destruct isOrd; exact LS'). congruence. }
  apply (list_items_m rec term R T) in LI; try assumption.
  2: { unfold st1. destruct isOrd; cbn; lia. }
  2: { unfold st1. destruct isOrd; exact HTI. }
  2: { unfold st1. destruct isOrd; exact Q3. }
  2: { intros ls LS'. assert (line_start st sl = Ok ls) by (unfold st1 in LS'; destruct isOrd; exact LS'). congruence. }
  destruct LI as (I1 & I2 & I3 & I4 & I5 & I6).
  destruct LIC as (its & ES & IS). change (b_tokens (st_parent st1 nm_list)) with (b_tokens st1) in ES. rewrite E1 in ES.
  (* the tokens before markTightParagraphs *)
  match goal with |- exists _ _ _, b_tokens (if tight then ?A else ?B) = _ /\ _ => set (st5 := B) end.
  assert (ET : exists cl, b_tokens (if isOrd
        then bpush st3 [111; 114; 100; 101; 114; 101; 100; 95; 108; 105; 115; 116; 95; 99; 108; 111; 115; 101] [111; 108] (-1) (fun t => set_markup t [x2])
        else bpush st3 [98; 117; 108; 108; 101; 116; 95; 108; 105; 115; 116; 95; 99; 108; 111; 115; 101] [117; 108] (-1) (fun t => set_markup t [x2]))
        = b_tokens st3 ++ [cl] /\ tmap cl = None).
  { destruct isOrd; rewrite bpush_tokens; eexists; split; reflexivity. }
  destruct ET as (cl & ET & MC).
  assert (T5 : exists lo, b_tokens st5 = b_tokens st ++ lo :: its ++ [cl] /\ tmap lo = Some (sl, nextLine)).
  { unfold st5. cbn -[set_map_at app]. rewrite ET, ES. rewrite <- !app_assoc. cbn [app].
    unfold set_map_at. rewrite update_nth_app. eexists. split; [reflexivity | reflexivity]. }
  destruct T5 as (lo & T5 & MLO).
  assert (L5 : b_line st5 = nextLine) by reflexivity.
  destruct tight.
  - (* tight: hidden flags change, maps and the first tokens do not *)
    cbn [b_line set]. cbn [b_tokens set].
    pose proof (mark_tight_mapeq (length (b_tokens st)) (S (length (b_tokens st5))) (b_tokens st5) (Z.of_nat (length (b_tokens st)) + 2)
                  (len (b_tokens st5) - 2) (b_level st5 + 2) ltac:(lia) ltac:(lia)) as [MP MM].
    set (X := mark_tight (S (length (b_tokens st5))) (b_tokens st5) (Z.of_nat (length (b_tokens st)) + 2) (len (b_tokens st5) - 2) (b_level st5 + 2)) in *.
    rewrite T5 in MP, MM. rewrite firstn_app, Nat.sub_diag, firstn_all in MP. cbn [firstn] in MP. rewrite app_nil_r in MP.
    assert (XS : X = b_tokens st ++ skipn (length (b_tokens st)) X) by (rewrite <- (firstn_skipn (length (b_tokens st)) X) at 1; rewrite <- MP; reflexivity).
    assert (MS : map tmap (skipn (length (b_tokens st)) X) = Some (sl, nextLine) :: map tmap its ++ [None]).
    { rewrite <- skipn_map, <- MM, skipn_map, skipn_app, Nat.sub_diag, skipn_all. cbn [skipn app map]. rewrite map_app. cbn [map]. rewrite MLO, MC. reflexivity. }
    destruct (skipn (length (b_tokens st)) X) as [|lo' rest'] eqn:SK; [discriminate MS|].
    cbn [map] in MS. injection MS as ML MR.
    assert (RL : exists its' lc', rest' = its' ++ [lc'] /\ map tmap its' = map tmap its /\ tmap lc' = None).
    { destruct (@exists_last _ rest') as (its' & lc' & ->); [intros ->; destruct (map tmap its); discriminate MR|].
      rewrite map_app in MR. cbn [map] in MR. apply app_inj_tail in MR. destruct MR as [M1 M2]. exists its', lc'. repeat split; assumption. }
    destruct RL as (its' & lc' & -> & MI & MLc).
    exists lo', its', lc'. split; [exact XS|]. split; [exact ML|]. split; [exact MLc|]. rewrite MI. apply item_seq_mseq, IS.
  - exists lo, its, cl. split; [exact T5|]. split; [exact MLO|]. split; [exact MC|]. apply item_seq_mseq, IS.
Qed.

End Rules.

(* ---- the tables of a fresh StateBlock satisfy the invariant ---- *)
Definition P3 (src : str) (b e t : Z) : Prop := 0 <= b /\ 0 <= t /\ 0 <= e /\ forall p, b <= p < e -> py_idx src p <> Ok 10.

Definition rowsP (src : str) (bM eM tS : list Z) : Prop :=
  length eM = length bM /\ length tS = length bM
  /\ forall i b e t, nth_error (rev bM) i = Some b -> nth_error (rev eM) i = Some e -> nth_error (rev tS) i = Some t -> P3 src b e t.

Lemma nth_error_snoc {A} (l : list A) x i v : nth_error (l ++ [x]) i = Some v ->
  (i < length l /\ nth_error l i = Some v)%nat \/ (i = length l /\ v = x).
Proof.
  intros H. destruct (Nat.lt_ge_cases i (length l)) as [L|G].
  - left. rewrite nth_error_app1 in H by exact L. split; assumption.
  - right. rewrite nth_error_app2 in H by exact G. destruct (i - length l)%nat as [|k] eqn:E.
    + cbn in H. injection H as <-. split; [lia | reflexivity].
    + cbn in H. destruct k; discriminate H.
Qed.

Lemma rowsP_cons src bM eM tS b e t : rowsP src bM eM tS -> P3 src b e t -> rowsP src (b :: bM) (e :: eM) (t :: tS).
Proof.
  intros (L1 & L2 & H) P. split; [cbn [length]; lia|]. split; [cbn [length]; lia|].
  intros i b' e' t' Hb He Ht. cbn [rev] in Hb, He, Ht.
  apply nth_error_snoc in Hb. apply nth_error_snoc in He. apply nth_error_snoc in Ht. rewrite !rev_length in *.
  destruct Hb as [[Lb Hb]|[Lb ->]]; destruct He as [[Le He]|[Le ->]]; destruct Ht as [[Lt Ht]|[Lt ->]]; try lia.
  - exact (H i b' e' t' Hb He Ht).
  - exact P.
Qed.

Lemma is_space_not_lf c : is_space c = true -> c <> 10.
Proof. intros H ->. vm_compute in H. discriminate H. Qed.

Definition scanI (full : str) (r : scan) (pos : Z) : Prop :=
  rowsP full (sc_bM r) (sc_eM r) (sc_tS r) /\ 0 <= sc_start r /\ 0 <= sc_indent r
  /\ forall p, sc_start r <= p < pos -> py_idx full p <> Ok 10.

Lemma scan_step_I full r pos c : scanI full r pos -> 0 <= pos -> py_idx full pos = Ok c ->
  scanI full (scan_step (len full) r pos c) (pos + 1).
Proof.
  intros (R & S0 & I0 & F) Hp Ec. unfold scan_step.
  destruct (negb (sc_found r) && is_space c) eqn:E.
  - assert (Sp : is_space c = true) by (destruct (is_space c); [reflexivity | rewrite Bool.andb_false_r in E; discriminate E]).
    pose proof (is_space_not_lf c Sp) as Nl.
    split; [exact R|]. split; [exact S0|]. split; [cbn; lia|]. cbn [sc_start].
    intros p Hpp. destruct (Z.eq_dec p pos) as [->|N]; [rewrite Ec; congruence | apply F; lia].
  - destruct ((c =? 10) || (pos =? len full - 1)) eqn:E2.
    + cbv zeta. split.
      * cbn [sc_bM sc_eM sc_tS]. apply rowsP_cons; [exact R|].
        unfold P3. repeat split; try lia; [destruct (c =? 10); lia|].
        intros p Hpp. destruct (c =? 10) eqn:E3; [apply F; lia|].
        destruct (Z.eq_dec p pos) as [->|N]; [rewrite Ec; intros X; injection X as ->; discriminate E3 | apply F; lia].
      * cbn [sc_start sc_indent]. split; [destruct (c =? 10); lia|]. split; [lia|].
        intros p Hpp. destruct (c =? 10); lia.
    + assert (c <> 10) by lia.
      split; [exact R|]. split; [exact S0|]. split; [exact I0|]. cbn [sc_start].
      intros p Hpp. destruct (Z.eq_dec p pos) as [->|N]; [rewrite Ec; congruence | apply F; lia].
Qed.

Lemma scan_loop_I full : forall rest done r, full = done ++ rest -> scanI full r (len done) ->
  scanI full (scan_loop (len full) r (len done) rest) (len full).
Proof.
  induction rest as [|c rest IH]; intros done r E H; cbn [scan_loop].
  - rewrite E, app_nil_r. rewrite E, app_nil_r in H. exact H.
  - replace (len done + 1) with (len (done ++ [c])) by (rewrite len_app; unfold len; cbn; lia).
    apply IH; [rewrite <- app_assoc; exact E|].
    replace (len (done ++ [c])) with (len done + 1) by (rewrite len_app; unfold len; cbn; lia).
    apply scan_step_I; [exact H | apply len_nonneg|]. rewrite E. apply py_idx_app.
Qed.

Theorem state_init_TI src env toks : TI (state_init src env toks).
Proof.
  unfold TI, state_init. cbv zeta. cbn [b_src b_bMarks b_eMarks b_tShift].
  set (r := scan_loop (len src) (mkScan [] [] [] [] false 0 0 0) 0 src).
  assert (HI : scanI src r (len src)).
  { unfold r. apply (scan_loop_I src src [] _ eq_refl). unfold scanI. cbn.
    split; [split; [reflexivity|]; split; [reflexivity|]; intros i b e t Hb; destruct i; discriminate Hb|].
    split; [lia|]. split; [lia|]. intros p Hp. lia. }
  destruct HI as (R & S0 & I0 & F). pose proof (len_nonneg src) as Ln.
  assert (R' : rowsP src (len src :: sc_bM r) (len src :: sc_eM r) (0 :: sc_tS r)).
  { apply rowsP_cons; [exact R|]. unfold P3. repeat split; try lia. }
  destruct R' as (_ & _ & H).
  intros l b e t Hl Eb Ee Et. rewrite tb_nonneg in Eb, Ee, Et by lia.
  destruct (nth_error (rev (len src :: sc_bM r)) (Z.to_nat l)) eqn:X1; [|discriminate Eb].
  destruct (nth_error (rev (len src :: sc_eM r)) (Z.to_nat l)) eqn:X2; [|discriminate Ee].
  destruct (nth_error (rev (0 :: sc_tS r)) (Z.to_nat l)) eqn:X3; [|discriminate Et].
  injection Eb as <-. injection Ee as <-. injection Et as <-.
  exact (H _ _ _ _ X1 X2 X3).
Qed.

(* ---- dispatch, terminator chains, the rule loop, the line loop ---- *)
Section Loop.
Context (cfg : bcfg) (rf cf : str -> str).

(* the rules that may be called silently: code, lheading and paragraph have no silent mode (and
   no "alt" entry in the rule table, so the Ruler never puts them into a terminator chain) *)
Definition silent_capable (n : str) : Prop :=
  str_eqb n nm_code = false /\ str_eqb n nm_lheading = false /\ str_eqb n nm_paragraph = false.
Definition silent_terms : Prop := forall ch n, ch <> [] -> In n (c_term cfg ch) -> silent_capable n.

Lemma apply_rule_c rec term (R : rec_c rec) (T : term_fr term) n st sl el silent b st' :
  apply_rule cfg rf cf rec term n st sl el silent = Ok (b, st') ->
  (silent = true -> silent_capable n) ->
  rule_c st sl el silent b st' /\ (str_eqb n nm_paragraph = true -> silent = false -> b = true).
Proof.
  unfold apply_rule. intros H SC.
  destruct (str_eqb n nm_table) eqn:N1.
  { split; [eapply r_table_c; eassumption|]. intros X. apply str_eqb_eq in N1. subst n. discriminate X. }
  destruct (str_eqb n nm_code) eqn:N2.
  { destruct silent; [destruct (SC eq_refl) as (X & _); congruence|].
    split; [eapply r_code_c; eassumption|]. intros X. apply str_eqb_eq in N2. subst n. discriminate X. }
  destruct (str_eqb n nm_fence) eqn:N3.
  { split; [eapply r_fence_c; eassumption|]. intros X. apply str_eqb_eq in N3. subst n. discriminate X. }
  destruct (str_eqb n nm_blockquote) eqn:N4.
  { split; [eapply r_blockquote_c; eassumption|]. intros X. apply str_eqb_eq in N4. subst n. discriminate X. }
  destruct (str_eqb n nm_hr) eqn:N5.
  { split; [eapply r_hr_c; eassumption|]. intros X. apply str_eqb_eq in N5. subst n. discriminate X. }
  destruct (str_eqb n nm_list) eqn:N6.
  { split; [eapply r_list_c; eassumption|]. intros X. apply str_eqb_eq in N6. subst n. discriminate X. }
  destruct (str_eqb n nm_reference) eqn:N7.
  { split; [eapply r_reference_c; eassumption|]. intros X. apply str_eqb_eq in N7. subst n. discriminate X. }
  destruct (str_eqb n nm_html_block) eqn:N8.
  { split; [eapply r_html_block_c; eassumption|]. intros X. apply str_eqb_eq in N8. subst n. discriminate X. }
  destruct (str_eqb n nm_heading) eqn:N9.
  { split; [eapply r_heading_c; eassumption|]. intros X. apply str_eqb_eq in N9. subst n. discriminate X. }
  destruct (str_eqb n nm_lheading) eqn:N10.
  { destruct silent; [destruct (SC eq_refl) as (_ & X & _); congruence|].
    split; [eapply r_lheading_c; eassumption|]. intros X. apply str_eqb_eq in N10. subst n. discriminate X. }
  destruct (str_eqb n nm_paragraph) eqn:N11.
  { destruct silent; [destruct (SC eq_refl) as (_ & _ & X); congruence|].
    destruct (r_paragraph_c term T _ _ _ _ _ H) as [-> P]. split; [exact P | reflexivity]. }
  rfinish H. split; [apply rule_c_fail, fr_refl | discriminate].
Qed.

Lemma no_rec_c : rec_c no_rec.
Proof. intros st a b st' H. discriminate H. Qed.
Lemma no_term_fr : term_fr no_term.
Proof. intros ch s a b r s' _ H. discriminate H. Qed.

Lemma run_chain_fr : forall names st l el b st', (forall n, In n names -> silent_capable n) ->
  run_chain cfg rf cf names st l el = Ok (b, st') -> fr st st'.
Proof.
  induction names as [|n names IH]; intros st l el b st' SC H; cbn [run_chain] in H; [rfinish H; apply fr_refl|].
  destruct (apply_rule cfg rf cf no_rec no_term n st l el true) as [[r s1]|?|] eqn:AR; cbn [bind] in H; try discriminate H.
  destruct (apply_rule_c no_rec no_term no_rec_c no_term_fr _ _ _ _ _ _ _ AR (fun _ => SC n (or_introl eq_refl))) as [C _].
  unfold rule_c in C. rewrite Bool.andb_false_r in C.
  destruct r; [rfinish H; exact C|]. eapply fr_trans; [exact C|]. eapply IH; [|exact H]. intros m Hm. apply SC. right. exact Hm.
Qed.

Lemma terminated_fr (ST : silent_terms) : term_fr (terminated cfg rf cf).
Proof. intros ch s a b r s' CN H. unfold terminated in H. eapply run_chain_fr; [|exact H]. intros n Hn. exact (ST ch n CN Hn). Qed.

Lemma pre_fr st st1 sl el : fr st st1 -> pre st sl el -> pre st1 sl el.
Proof.
  intros F (P0 & P1 & P2 & P3 & HT). split; [exact P0|]. split; [exact P1|].
  split; [rewrite (fr_lineMax _ _ F); exact P2|]. split; [rewrite (fr_line _ _ F); exact P3|].
  exact (fr_TI _ _ F HT).
Qed.

Lemma step_ok_fr st st1 sl st' : fr st st1 -> step_ok st1 sl st' -> step_ok st sl st'.
Proof.
  intros F (A & B & C & D & E). rewrite (fr_lineMax _ _ F) in *.
  split; [exact A|]. split; [exact B|]. split; [eapply gm_same_tokens_l; [exact C | symmetry; apply fr_tokens, F]|].
  split; [exact D|]. exact (se_trans _ _ _ (fr_se _ _ F) E).
Qed.

Lemma try_rules_m rec (R : rec_c rec) (ST : silent_terms) : forall names st sl el st',
  try_rules cfg rf cf rec names st sl el = Ok st' -> pre st sl el -> mem_str nm_paragraph names = true ->
  step_ok st sl st'.
Proof.
  induction names as [|n names IH]; intros st sl el st' H P M; [discriminate M|].
  cbn [try_rules] in H.
  destruct (apply_rule cfg rf cf rec (terminated cfg rf cf) n st sl el false) as [[r s1]|?|] eqn:AR; cbn [bind] in H; try discriminate H.
  destruct (apply_rule_c rec _ R (terminated_fr ST) _ _ _ _ _ _ _ AR ltac:(discriminate)) as [C PB].
  destruct r.
  - rfinish H. unfold rule_c in C. cbn [andb negb] in C. exact (C P).
  - unfold rule_c in C. cbn [andb] in C.
    cbn [mem_str existsb] in M. destruct (str_eqb nm_paragraph n) eqn:E.
    + apply str_eqb_eq in E. subst n. specialize (PB (str_eqb_refl _) eq_refl). discriminate PB.
    + cbn [orb] in M. eapply step_ok_fr; [exact C|]. eapply IH; [exact H | eapply pre_fr; eassumption | exact M].
Qed.

Lemma skip_empty_spec : forall fuel st a, a <= skip_empty_lines fuel st a
  /\ (a <= b_lineMax st -> skip_empty_lines fuel st a <= b_lineMax st).
Proof.
  induction fuel as [|f IH]; intros st a; cbn [skip_empty_lines]; [lia|].
  destruct (negb (a <? b_lineMax st)) eqn:E; [lia|].
  destruct (IH st (a + 1)) as [A B].
  destruct (is_empty st a) as [[|]|?|]; lia.
Qed.

Lemma skip_empty_progress fuel st a p e : line_start st a = Ok p -> tb (b_eMarks st) a = Ok e -> e <= p -> a < b_lineMax st ->
  a < skip_empty_lines (S fuel) st a.
Proof.
  intros L E Le Lt. cbn [skip_empty_lines]. assert (X : negb (a <? b_lineMax st) = false) by lia. rewrite X.
  unfold is_empty. rewrite L, E. cbn [bind]. assert (Y : (e <=? p) = true) by lia. rewrite Y.
  destruct (skip_empty_spec fuel st (a + 1)) as [A _]. lia.
Qed.

Lemma tok_loop_m rec (R : rec_c rec) (ST : silent_terms) (PA : mem_str nm_paragraph (c_rules cfg) = true) :
  forall fuel st line el hel st',
  tok_loop cfg rf cf fuel rec st line el hel = Ok st' ->
  0 <= line -> line <= b_lineMax st -> el <= b_lineMax st -> TI st -> (line < el \/ b_line st = line) ->
  b_lineMax st' = b_lineMax st /\ TI st' /\ se st st' /\ line <= b_line st' <= b_lineMax st
  /\ gm line (b_line st') st st' /\ (line < el -> first_ok st line -> line < b_line st').
Proof.
  induction fuel as [|f IH]; intros st line el hel st' H L0 L1 L2 HT LB; [discriminate H|].
  cbn [tok_loop] in H.
  destruct (negb (line <? el)) eqn:NE.
  { rfinish H. assert (b_line st' = line) by (destruct LB; [lia | assumption]).
    split; [reflexivity|]. split; [exact HT|]. split; [apply se_refl|]. split; [lia|]. split; [apply gm_refl | lia]. }
  cbv zeta in H.
  set (line1 := skip_empty_lines (S (Z.to_nat (b_lineMax st))) st line) in *.
  destruct (skip_empty_spec (S (Z.to_nat (b_lineMax st))) st line) as [E1 E2]. specialize (E2 L1). fold line1 in E1, E2.
  assert (FOP : first_ok st line -> line < line1 \/ (line1 = line /\ forall sc, tb (b_sCount st) line = Ok sc -> b_blkIndent st <= sc)).
  { intros [(p & e & A & B & C & D)|F]; [left; unfold line1; eapply skip_empty_progress; eassumption|].
    destruct (Z.eq_dec line1 line); [right; split; assumption | left; lia]. }
  assert (GR : forall hi s, b_tokens s = b_tokens st -> gm line hi st s) by (intros hi s E; exists []; rewrite app_nil_r; split; [exact E | constructor]).
  destruct (el <=? line1) eqn:EL.
  { rfinish H. split; [reflexivity|]. split; [exact HT|]. split; [split; reflexivity|]. cbn [b_line st_line set].
    split; [lia|]. split; [apply GR; reflexivity | lia]. }
  change (b_sCount (st_line st line1)) with (b_sCount st) in H.
  destruct (tb (b_sCount st) line1) as [sc|?|] eqn:Esc; cbn [bind] in H; try discriminate H.
  change (b_blkIndent (st_line st line1)) with (b_blkIndent st) in H.
  destruct (sc <? b_blkIndent st) eqn:SB.
  { rfinish H. split; [reflexivity|]. split; [exact HT|]. split; [split; reflexivity|]. cbn [b_line st_line set].
    split; [lia|]. split; [apply GR; reflexivity|]. intros _ FO. destruct (FOP FO) as [X|[X Y]]; [exact X|].
    rewrite X in Esc. specialize (Y _ Esc). lia. }
  destruct (c_maxNesting cfg <=? b_level (st_line st line1)).
  { rfinish H. split; [reflexivity|]. split; [exact HT|]. split; [split; reflexivity|]. cbn [b_line st_line set].
    split; [lia|]. split; [apply GR; reflexivity | lia]. }
  destruct (try_rules cfg rf cf rec (c_rules cfg) (st_line st line1) line1 el) as [st2|?|] eqn:TR; cbn [bind] in H; try discriminate H.
  apply (try_rules_m rec R ST) in TR; [| |exact PA].
  2: { split; [lia|]. split; [lia|]. split; [exact L2|]. split; [reflexivity | exact HT]. }
  destruct TR as (A1 & A2 & A3 & A4 & A5). cbn [b_lineMax st_line set] in A1, A2.
  set (st3 := st2 <| b_tight := negb hel |>) in *.
  change (b_line st3) with (b_line st2) in H.
  rstep H.
  match type of H with bind ?m _ = _ => destruct m as [e2|?|] eqn:E2' end; cbn [bind] in H; try discriminate H.
  assert (G13 : gm line (b_line st2) st st3).
  { eapply gm_weaken; [|exact E1|apply Z.le_refl]. destruct A3 as (sg & ES & FS). exists sg. split; [exact ES | exact FS]. }
  destruct e2.
  - assert (LT2 : b_line st2 < el) by (destruct (b_line st2 <? el) eqn:X; [lia | discriminate E2']).
    apply IH in H; try lia.
    + destruct H as (I1 & I2 & I3 & I4 & I5 & I6). cbn [b_lineMax st_line set] in *. change (b_lineMax st3) with (b_lineMax st2) in *.
      rewrite A1 in *. split; [exact I1|]. split; [exact I2|]. split; [exact (se_trans _ _ _ A5 I3)|]. split; [lia|].
      split; [|lia].
      eapply gm_trans; [eapply gm_weaken; [exact G13 | lia | lia]|].
      eapply gm_weaken; [exact I5 | lia | lia].
    + cbn. change (b_lineMax st3) with (b_lineMax st2). lia.
    + cbn. change (b_lineMax st3) with (b_lineMax st2). lia.
    + exact A4.
    + right. reflexivity.
  - apply IH in H; try lia.
    + destruct H as (I1 & I2 & I3 & I4 & I5 & I6). change (b_lineMax st3) with (b_lineMax st2) in *.
      rewrite A1 in *. split; [exact I1|]. split; [exact I2|]. split; [exact (se_trans _ _ _ A5 I3)|]. split; [lia|].
      split; [|lia].
      eapply gm_trans; [eapply gm_weaken; [exact G13 | lia | lia]|].
      eapply gm_weaken; [exact I5 | lia | lia].
    + change (b_lineMax st3) with (b_lineMax st2). lia.
    + change (b_lineMax st3) with (b_lineMax st2). lia.
    + exact A4.
    + right. reflexivity.
Qed.

Lemma tokenize_rec_c (ST : silent_terms) (PA : mem_str nm_paragraph (c_rules cfg) = true) :
  forall d, rec_c (tokenize cfg rf cf d).
Proof.
  induction d as [|d IH]; intros st a b st' H A0 AB BL HT; [discriminate H|].
  cbn [tokenize] in H.
  apply (tok_loop_m _ IH ST PA) in H; try lia; try assumption.
  destruct H as (I1 & I2 & (I31 & I32) & I4 & I5 & I6).
  split; [exact I1|]. split; [exact I4|]. split; [exact I5|]. split; [exact I2|]. split; [exact I31|]. split; [exact I32|].
  intros FO. exact (I6 AB FO).
Qed.

(* the whole block parser: every appended token carries a map inside [0, lineMax), non-empty;
   the cursor ends within the line table; tables keep their invariant *)
Theorem block_parse_maps (ST : silent_terms) (PA : mem_str nm_paragraph (c_rules cfg) = true) src env toks st' :
  block_parse cfg rf cf src env toks = Ok st' ->
  let n := b_lineMax (state_init src env toks) in
  b_lineMax st' = n /\ 0 <= b_line st' <= n
  /\ exists seg, b_tokens st' = toks ++ seg /\ Forall (map_in 0 n) seg.
Proof.
  unfold block_parse. intros H. cbv zeta.
  pose proof (state_init_TI src env toks) as HT.
  destruct (state_init_tables src env toks) as (_ & _ & _ & _ & _ & LM & _). cbv zeta in LM.
  assert (B0 : b_line (state_init src env toks) = 0) by reflexivity.
  assert (T0 : b_tokens (state_init src env toks) = toks) by reflexivity.
  destruct src as [|c src0]; [injection H as <-; split; [reflexivity|]; split; [rewrite B0; lia|]; exists []; rewrite app_nil_r; split; [exact T0 | constructor]|].
  set (st0 := state_init (c :: src0) env toks) in *. rewrite B0 in H.
  destruct (Z.eq_dec (b_lineMax st0) 0) as [Z0|NZ].
  - (* no line recorded: the loop returns at once *)
    rewrite Z0 in H. cbn [tokenize Z.to_nat Z.sub tok_loop] in H. change (negb (0 <? 0)) with true in H. cbv iota in H. injection H as <-.
    split; [reflexivity|]. split; [rewrite B0; lia|]. exists []. rewrite app_nil_r. split; [exact T0 | constructor].
  - destruct (tokenize_rec_c ST PA _ _ _ _ _ H ltac:(lia) ltac:(lia) ltac:(lia) HT) as (C1 & C2 & C3 & _).
    split; [exact C1|]. split; [lia|]. destruct C3 as (seg & ES & FS). exists seg. rewrite T0 in ES. split; [exact ES|].
    eapply Forall_impl; [|exact FS]. intros t Ht. eapply map_in_weaken; [exact Ht | lia | lia].
Qed.

End Loop.

(* a configuration taken from a Ruler: a rule is in a named terminator chain only if the chain is in
   its alt list; code, lheading and paragraph have empty alt lists in the rule table *)
From MD Require Import Model.Ruler.
Definition no_silent_mode (n : str) : bool := str_eqb n nm_code || str_eqb n nm_lheading || str_eqb n nm_paragraph.
Definition alts_ok (rs : list (@rule str)) : bool :=
  forallb (fun r => if no_silent_mode (rfn r) then match ralt r with [] => true | _ => false end else true) rs.

Theorem ruler_cfg_silent_terms (rs : list (@rule str)) code mn html defs :
  alts_ok rs = true -> silent_terms (mkBCfg (compile_chain rs []) (compile_chain rs) code mn html defs).
Proof.
  intros A ch n CN H. cbn [c_term] in H. unfold compile_chain in H. apply in_map_iff in H.
  destruct H as (r & <- & I). apply filter_In in I. destruct I as [I C].
  apply Bool.andb_true_iff in C. destruct C as [_ C].
  unfold alts_ok in A. rewrite forallb_forall in A. specialize (A r I).
  unfold in_chain in C. destruct ch as [|c0 ch]; [contradiction CN; reflexivity|].
  unfold silent_capable. unfold no_silent_mode in A.
  destruct (str_eqb (rfn r) nm_code); [destruct (ralt r); [discriminate C | discriminate A]|].
  destruct (str_eqb (rfn r) nm_lheading); [destruct (ralt r); [discriminate C | discriminate A]|].
  destruct (str_eqb (rfn r) nm_paragraph); [destruct (ralt r); [discriminate C | discriminate A]|].
  repeat split.
Qed.

(* ---- the line loop runs at most once per line: its fuel never decides the result ---------- *)
Section Fuel.
Context (cfg : bcfg) (rf cf : str -> str).

Lemma tok_loop_fuel rec (R : rec_c rec) (ST : silent_terms cfg) (PA : mem_str nm_paragraph (c_rules cfg) = true) :
  forall f1 f2 st line el hel st',
  tok_loop cfg rf cf f1 rec st line el hel = Ok st' ->
  0 <= line -> line <= b_lineMax st -> el <= b_lineMax st -> TI st ->
  (Z.to_nat (el - line) < f2)%nat ->
  tok_loop cfg rf cf f2 rec st line el hel = Ok st'.
Proof.
  induction f1 as [|f1 IH]; intros f2 st line el hel st' H L0 L1 L2 HT FB; [discriminate H|].
  destruct f2 as [|f2]; [lia|].
  cbn [tok_loop] in H |- *.
  destruct (negb (line <? el)) eqn:NE; [exact H|].
  cbv zeta in H |- *.
  set (line1 := skip_empty_lines (S (Z.to_nat (b_lineMax st))) st line) in *.
  destruct (skip_empty_spec (S (Z.to_nat (b_lineMax st))) st line) as [E1 E2]. specialize (E2 L1). fold line1 in E1, E2.
  destruct (el <=? line1) eqn:EL; [exact H|].
  destruct (tb (b_sCount (st_line st line1)) line1) as [sc|?|]; cbn [bind] in H |- *; try discriminate H.
  destruct (sc <? b_blkIndent (st_line st line1)); [exact H|].
  destruct (c_maxNesting cfg <=? b_level (st_line st line1)); [exact H|].
  destruct (try_rules cfg rf cf rec (c_rules cfg) (st_line st line1) line1 el) as [st2|?|] eqn:TR; cbn [bind] in H |- *; try discriminate H.
  pose proof TR as TR'. apply (try_rules_m cfg rf cf rec R ST) in TR'; [| |exact PA].
  2: { split; [lia|]. split; [lia|]. split; [exact L2|]. split; [reflexivity | exact HT]. }
  destruct TR' as (A1 & A2 & A3 & A4 & A5). cbn [b_lineMax st_line set] in A1, A2.
  set (st3 := st2 <| b_tight := negb hel |>) in *.
  change (b_line st3) with (b_line st2) in H |- *.
  match type of H with bind ?m _ = _ => destruct m as [e1|?|] end; cbn [bind] in H |- *; try discriminate H.
  match type of H with bind ?m _ = _ => destruct m as [e2|?|] eqn:E2' end; cbn [bind] in H |- *; try discriminate H.
  destruct e2.
  - assert (LT2 : b_line st2 < el) by (destruct (b_line st2 <? el) eqn:X; [lia | discriminate E2']).
    eapply IH; [exact H | lia | | | exact A4 | lia].
    + cbn. change (b_lineMax st3) with (b_lineMax st2). lia.
    + cbn. change (b_lineMax st3) with (b_lineMax st2). lia.
  - eapply IH; [exact H | lia | | | exact A4 | lia].
    + change (b_lineMax st3) with (b_lineMax st2). lia.
    + change (b_lineMax st3) with (b_lineMax st2). lia.
Qed.

End Fuel.
