(* Renderer theorems:
   - C15: rendering is repeatable (the only write-back, the image alt, is idempotent)
   - C04: without html tokens and without a highlight callback no raw chunk is
          produced, and every literal chunk is renderer-made markup
   - C18: xhtmlOut / breaks / langPrefix change the output only in their place *)
From MD Require Import Base.Py Base.Str Base.Opt Model.Token Model.Utils Model.Render.

Local Arguments Z.eqb : simpl never.
Local Arguments str_eqb : simpl never.

(* what renderToken reads of its neighbours *)
Definition core (t : token) : str * str * Z * bool := (ttype t, ttag t, tnesting t, thidden t).
Definition ocore (t : option token) : option (str * str * Z * bool) :=
  match t with Some x => Some (core x) | None => None end.

Lemma render_token_neighbours o p p' t n n' :
  ocore p = ocore p' -> ocore n = ocore n' -> render_token o p t n = render_token o p' t n'.
Proof.
  intros Hp Hn. unfold render_token.
  assert (E1 : match p with Some x => thidden x | None => false end
               = match p' with Some x => thidden x | None => false end).
  { destruct p, p'; simpl in Hp; try discriminate; try reflexivity. unfold core in Hp. congruence. }
  rewrite E1.
  assert (E2 : match n with
               | Some x => if str_eqb (ttype x) s_inline || thidden x then false
                           else if (tnesting x =? -1) && str_eqb (ttag x) (ttag t) then false else true
               | None => true end
             = match n' with
               | Some x => if str_eqb (ttype x) s_inline || thidden x then false
                           else if (tnesting x =? -1) && str_eqb (ttag x) (ttag t) then false else true
               | None => true end).
  { destruct n as [x|], n' as [y|]; simpl in Hn; try discriminate; try reflexivity.
    unfold core in Hn. injection Hn as A B C D. rewrite A, B, C, D. reflexivity. }
  rewrite E2. reflexivity.
Qed.

Lemma aset_idem {V} k (v : V) m : aset k v (aset k v m) = aset k v m.
Proof.
  induction m as [|[k' v'] m IH]; simpl.
  - rewrite str_eqb_refl. reflexivity.
  - destruct (str_eqb k k') eqn:E; simpl.
    + rewrite str_eqb_refl. reflexivity.
    + rewrite E. rewrite IH. reflexivity.
Qed.

Lemma attr_set_idem t k v : attr_set (attr_set t k v) k v = attr_set t k v.
Proof. unfold attr_set, set_attrs. simpl. rewrite aset_idem. reflexivity. Qed.

Lemma core_attr_set t k v : core (attr_set t k v) = core t.
Proof. reflexivity. Qed.

(* one token: the result token has the same core, and rendering the result again
   (with neighbours of the same core) gives the same chunks and the same token *)
Lemma render_one_repeat o p p' t n n' cs t' :
  ocore p = ocore p' -> ocore n = ocore n' ->
  render_one o p t n = Ok (cs, t') ->
  core t' = core t /\ tchildren t' = tchildren t /\ render_one o p' t' n' = Ok (cs, t').
Proof.
  intros Hp Hn. unfold render_one.
  destruct (str_eqb (ttype t) s_code_inline) eqn:E1.
  { intros H; injection H as <- <-. rewrite E1. repeat split; reflexivity. }
  destruct (str_eqb (ttype t) s_code_block) eqn:E2.
  { intros H; injection H as <- <-. rewrite E1, E2. repeat split; reflexivity. }
  destruct (str_eqb (ttype t) s_fence) eqn:E3.
  { destruct (render_fence o t) as [c|e|] eqn:F; simpl; intros H; try discriminate.
    injection H as <- <-. rewrite E1, E2, E3, F. repeat split; reflexivity. }
  destruct (str_eqb (ttype t) s_image) eqn:E4.
  { intros H; injection H as <- <-.
    change (ttype (attr_set t s_alt _)) with (ttype t). rewrite E1, E2, E3, E4.
    change (tchildren (attr_set t s_alt _)) with (tchildren t).
    split; [reflexivity|]. split; [reflexivity|].
    rewrite attr_set_idem. rewrite (render_token_neighbours o p p' _ n n' Hp Hn). reflexivity. }
  destruct (str_eqb (ttype t) s_hardbreak) eqn:E5.
  { intros H; injection H as <- <-. rewrite E1, E2, E3, E4, E5. repeat split; reflexivity. }
  destruct (str_eqb (ttype t) s_softbreak) eqn:E6.
  { intros H; injection H as <- <-. rewrite E1, E2, E3, E4, E5, E6. repeat split; reflexivity. }
  destruct (str_eqb (ttype t) s_text) eqn:E7.
  { intros H; injection H as <- <-. rewrite E1, E2, E3, E4, E5, E6, E7. repeat split; reflexivity. }
  destruct (str_eqb (ttype t) s_tspecial) eqn:E7b.
  { intros H; injection H as <- <-. rewrite E1, E2, E3, E4, E5, E6, E7, E7b. repeat split; reflexivity. }
  destruct (str_eqb (ttype t) s_html_block) eqn:E8.
  { intros H; injection H as <- <-. rewrite E1, E2, E3, E4, E5, E6, E7, E7b, E8. repeat split; reflexivity. }
  destruct (str_eqb (ttype t) s_html_inline) eqn:E9.
  { intros H; injection H as <- <-. rewrite E1, E2, E3, E4, E5, E6, E7, E7b, E8, E9. repeat split; reflexivity. }
  destruct (str_eqb (ttype t) s_definition) eqn:E10.
  { intros H; injection H as <- <-. rewrite E1, E2, E3, E4, E5, E6, E7, E7b, E8, E9, E10. repeat split; reflexivity. }
  intros H; injection H as <- <-. rewrite E1, E2, E3, E4, E5, E6, E7, E7b, E8, E9, E10.
  repeat split; try reflexivity. rewrite (render_token_neighbours o p p' _ n n' Hp Hn). reflexivity.
Qed.

Lemma ocore_hd l l' : map core l = map core l' -> ocore (hd_error l) = ocore (hd_error l').
Proof.
  destruct l as [|a l], l' as [|b l']; cbn [map hd_error ocore]; intros H; try discriminate; [reflexivity|].
  assert (A : core a = core b) by (injection H; intros; unfold core; congruence).
  rewrite A. reflexivity.
Qed.

Ltac inv_ok H :=
  match type of H with
  | Ok (?a, ?b) = Ok (?c, ?d) =>
      let E := fresh "E" in
      assert (E : c = a /\ d = b) by (inversion H; split; reflexivity);
      destruct E; subst c; subst d; clear H
  end.

Lemma render_inline_list_repeat o : forall l p p' cs l',
  ocore p = ocore p' ->
  render_inline_list o p l = Ok (cs, l') ->
  map core l' = map core l /\ render_inline_list o p' l' = Ok (cs, l').
Proof.
  induction l as [|t rest IH]; intros p p' cs l' Hp H; simpl in H.
  - inv_ok H. split; reflexivity.
  - destruct (render_one o p t (hd_error rest)) as [[c1 t1]|e|] eqn:R1; cbn in H; try discriminate.
    destruct (render_inline_list o (Some t1) rest) as [[c2 r2]|e|] eqn:R2; cbn in H; try discriminate.
    inv_ok H.
    destruct (IH (Some t1) (Some t1) c2 r2 eq_refl R2) as [M2 Rep2].
    assert (Hn : ocore (hd_error rest) = ocore (hd_error r2)) by (apply ocore_hd; symmetry; exact M2).
    destruct (render_one_repeat o p p' t _ _ c1 t1 Hp Hn R1) as [C1 [_ Rep1]].
    split; [simpl; rewrite C1, M2; reflexivity|].
    simpl. rewrite Rep1. simpl. rewrite Rep2. reflexivity.
Qed.

Lemma render_list_repeat o : forall l p p' cs l',
  ocore p = ocore p' ->
  render_list o p l = Ok (cs, l') ->
  map core l' = map core l /\ render_list o p' l' = Ok (cs, l').
Proof.
  induction l as [|t rest IH]; intros p p' cs l' Hp H; cbn [render_list] in H.
  - inv_ok H. split; reflexivity.
  - destruct (str_eqb (ttype t) s_inline) eqn:EI.
    + (* inline container *)
      destruct (tchildren t) as [[|x ch]|] eqn:EC.
      * cbn [bind] in H. destruct (render_list o (Some t) rest) as [[c2 r2]|e|] eqn:R2; cbn in H; try discriminate.
        inv_ok H. destruct (IH (Some t) (Some t) c2 r2 eq_refl R2) as [M2 Rep2].
        split; [simpl; rewrite M2; reflexivity|]. simpl. rewrite EI, EC. simpl. rewrite Rep2. reflexivity.
      * destruct (render_inline_list o None (x :: ch)) as [[c1 ch1]|e|] eqn:R1; cbn in H; try discriminate.
        destruct (render_list o (Some (set_children t (Some ch1))) rest) as [[c2 r2]|e|] eqn:R2; cbn in H; try discriminate.
        inv_ok H.
        destruct (render_inline_list_repeat o (x :: ch) None None c1 ch1 eq_refl R1) as [M1 Rep1].
        destruct (IH _ (Some (set_children t (Some ch1))) c2 r2 eq_refl R2) as [M2 Rep2].
        split; [simpl; rewrite M2; reflexivity|].
        cbn [render_list]. change (ttype (set_children t (Some ch1))) with (ttype t). rewrite EI.
        change (tchildren (set_children t (Some ch1))) with (Some ch1).
        destruct ch1 as [|y ch1]; [simpl in M1; discriminate|].
        rewrite Rep1. cbn [bind].
        change (set_children (set_children t (Some (y :: ch1))) (Some (y :: ch1))) with (set_children t (Some (y :: ch1))).
        rewrite Rep2. reflexivity.
      * cbn [bind] in H. destruct (render_list o (Some t) rest) as [[c2 r2]|e|] eqn:R2; cbn in H; try discriminate.
        inv_ok H. destruct (IH (Some t) (Some t) c2 r2 eq_refl R2) as [M2 Rep2].
        split; [simpl; rewrite M2; reflexivity|]. simpl. rewrite EI, EC. simpl. rewrite Rep2. reflexivity.
    + destruct (render_one o p t (hd_error rest)) as [[c1 t1]|e|] eqn:R1; cbn in H; try discriminate.
      destruct (render_list o (Some t1) rest) as [[c2 r2]|e|] eqn:R2; cbn in H; try discriminate.
      inv_ok H.
      destruct (IH (Some t1) (Some t1) c2 r2 eq_refl R2) as [M2 Rep2].
      assert (Hn : ocore (hd_error rest) = ocore (hd_error r2)) by (apply ocore_hd; symmetry; exact M2).
      destruct (render_one_repeat o p p' t _ _ c1 t1 Hp Hn R1) as [C1 [_ Rep1]].
      split; [simpl; rewrite C1, M2; reflexivity|].
      simpl. assert (ET : ttype t1 = ttype t) by (unfold core in C1; congruence).
      rewrite ET, EI, Rep1. simpl. rewrite Rep2. reflexivity.
Qed.

(* C15: rendering a stream twice gives the same output, and the tokens left behind by
   the first render are a fixed point *)
Theorem render_repeatable o ts h ts' :
  render o ts = Ok (h, ts') -> render o ts' = Ok (h, ts').
Proof.
  unfold render. destruct (render_list o None ts) as [[cs l]|e|] eqn:R; simpl; intros H; try discriminate.
  inv_ok H. destruct (render_list_repeat o ts None None cs l eq_refl R) as [_ Rep].
  rewrite Rep. reflexivity.
Qed.

(* ---- C04: chunk discipline ---------------------------------------------------- *)

Definition fixed_lits : list str :=
  [ [32]; [61; 34]; [34]; [32; 47]; [62; 10]; [62]; [10];
    [60; 99; 111; 100; 101]; [60; 47; 99; 111; 100; 101; 62];
    s_pre; [62; 60; 99; 111; 100; 101; 62]; s_code_pre_end; s_pre_code;
    [60; 98; 114; 32; 47; 62; 10]; [60; 98; 114; 62; 10] ].

(* a literal chunk is renderer-made: one of the fixed strings, or "<" / "</" followed
   by the tag of a token of the stream; data goes through escapeHtml; nothing is raw *)
Definition chunk_ok (tags : list str) (c : chunk) : bool :=
  match c with
  | CEsc _ => true
  | CRaw _ => false
  | CLit s => mem_str s fixed_lits
              || existsb (fun tag => str_eqb s (60 :: tag) || str_eqb s (60 :: 47 :: tag)) tags
  end.

Definition not_html (t : token) : Prop :=
  str_eqb (ttype t) s_html_block = false /\ str_eqb (ttype t) s_html_inline = false.
(* token types whose render rule never writes the tag: text, text_special, definition *)
Definition silent_ty (ty : str) : bool := str_eqb ty s_text || str_eqb ty s_tspecial || str_eqb ty s_definition.
(* a token that goes through a render rule: its tag is in the vocabulary (the empty tag is not in it:
   no "<>" is ever written) or its rule does not use the tag; and it is not raw HTML *)
Definition ok_tok (tags : list str) (t : token) : Prop := (In (ttag t) tags \/ silent_ty (ttype t) = true) /\ not_html t.
(* a top-level token: as above, or of type inline (rendered through its children, its own tag unused) *)
Definition ok_blk (tags : list str) (t : token) : Prop := ok_tok tags t \/ (str_eqb (ttype t) s_inline = true /\ not_html t).
(* children are rendered for tokens of type inline only *)
Definition ok_top (tags : list str) (t : token) : Prop :=
  ok_blk tags t /\ (str_eqb (ttype t) s_inline = true -> forall ch, tchildren t = Some ch -> Forall (ok_tok tags) ch).

Lemma fixed_ok tags s : mem_str s fixed_lits = true -> chunk_ok tags (CLit s) = true.
Proof. intros H. cbn [chunk_ok]. rewrite H. reflexivity. Qed.

Lemma render_attrs_ok tags t : forallb (chunk_ok tags) (render_attrs t) = true.
Proof.
  unfold render_attrs. induction (tattrs t) as [|[k v] l IH]; [reflexivity|].
  cbn [flat_map]. rewrite forallb_app, IH. reflexivity.
Qed.

Lemma tag_lit_ok tags t : In (ttag t) tags ->
  chunk_ok tags (CLit ((if tnesting t =? -1 then [60; 47] else [60]) ++ ttag t)) = true.
Proof.
  intros H. cbn [chunk_ok]. apply Bool.orb_true_iff. right. apply existsb_exists.
  exists (ttag t). split; [exact H|]. destruct (tnesting t =? -1); simpl.
  - rewrite (str_eqb_refl (60 :: 47 :: ttag t)). apply Bool.orb_true_r.
  - rewrite (str_eqb_refl (60 :: ttag t)). reflexivity.
Qed.

Lemma render_token_ok tags o p t n : In (ttag t) tags -> forallb (chunk_ok tags) (render_token o p t n) = true.
Proof.
  intros H. unfold render_token. destruct (thidden t); [reflexivity|].
  rewrite !forallb_app. rewrite render_attrs_ok. cbn [forallb]. rewrite (tag_lit_ok tags t H).
  repeat match goal with |- context [if ?b then _ else _] => destruct b end; reflexivity.
Qed.

Lemma render_fence_ok tags o t cs :
  o_highlight o = None -> render_fence o t = Ok cs -> forallb (chunk_ok tags) cs = true.
Proof.
  intros Hh. unfold render_fence, render_fence_with, render_fence_core, fence_highlighted. rewrite Hh.
  generalize (fence_info t) as info. intros info. cbn iota.
  destruct info as [|i0 info].
  - intros H. injection H as <-. cbn [app forallb]. rewrite forallb_app, render_attrs_ok. reflexivity.
  - destruct (attr_join _ s_class _) as [tmp|e|]; cbn [bind]; intros H; try discriminate.
    injection H as <-. cbn [app forallb]. rewrite forallb_app, render_attrs_ok. reflexivity.
Qed.

Lemma render_one_ok tags o p t n cs t' :
  o_highlight o = None -> ok_tok tags t ->
  render_one o p t n = Ok (cs, t') -> forallb (chunk_ok tags) cs = true.
Proof.
  intros Hh [Htag [Hb Hi]]. unfold render_one.
  assert (TG : silent_ty (ttype t) = false -> In (ttag t) tags).
  { intros S0. destruct Htag as [I|S1]; [exact I | rewrite S0 in S1; discriminate S1]. }
  destruct (str_eqb (ttype t) s_code_inline).
  { intros H; inv_ok H. cbn [app forallb]. rewrite forallb_app, render_attrs_ok. reflexivity. }
  destruct (str_eqb (ttype t) s_code_block).
  { intros H; inv_ok H. cbn [app forallb]. rewrite forallb_app, render_attrs_ok. reflexivity. }
  destruct (str_eqb (ttype t) s_fence).
  { destruct (render_fence o t) as [c|e|] eqn:F; cbn [bind]; intros H; try discriminate.
    inv_ok H. eapply render_fence_ok; eassumption. }
  destruct (str_eqb (ttype t) s_image) eqn:EIm.
  { intros H; inv_ok H. apply render_token_ok. apply TG. apply str_eqb_eq in EIm. rewrite EIm. reflexivity. }
  destruct (str_eqb (ttype t) s_hardbreak).
  { intros H; inv_ok H. unfold br. destruct (o_xhtml o); reflexivity. }
  destruct (str_eqb (ttype t) s_softbreak).
  { intros H; inv_ok H. unfold br. destruct (o_breaks o), (o_xhtml o); reflexivity. }
  destruct (str_eqb (ttype t) s_text) eqn:ET.
  { intros H; inv_ok H. reflexivity. }
  destruct (str_eqb (ttype t) s_tspecial) eqn:ES.
  { intros H; inv_ok H. reflexivity. }
  rewrite Hb, Hi.
  destruct (str_eqb (ttype t) s_definition) eqn:ED.
  { intros H; inv_ok H. reflexivity. }
  intros H; inv_ok H. apply render_token_ok. apply TG. unfold silent_ty. rewrite ET, ES, ED. reflexivity.
Qed.

Lemma render_inline_list_ok tags o : forall l p cs l',
  o_highlight o = None -> Forall (ok_tok tags) l ->
  render_inline_list o p l = Ok (cs, l') -> forallb (chunk_ok tags) cs = true.
Proof.
  induction l as [|t rest IH]; intros p cs l' Hh Hf H; cbn [render_inline_list] in H.
  - inv_ok H. reflexivity.
  - inversion Hf as [|? ? Ht Hr]; subst.
    destruct (render_one o p t (hd_error rest)) as [[c1 t1]|e|] eqn:R1; cbn in H; try discriminate.
    destruct (render_inline_list o (Some t1) rest) as [[c2 r2]|e|] eqn:R2; cbn in H; try discriminate.
    inv_ok H. rewrite forallb_app. rewrite (render_one_ok tags o p t _ c1 t1 Hh Ht R1).
    rewrite (IH (Some t1) c2 r2 Hh Hr R2). reflexivity.
Qed.

(* C04 on the renderer: with no highlight callback and no html tokens in the stream
   (which is what options.html = false guarantees, see the parser-side theorem), the
   output consists of renderer-made literals and escaped data only *)
Theorem render_list_ok tags o : forall l p cs l',
  o_highlight o = None -> Forall (ok_top tags) l ->
  render_list o p l = Ok (cs, l') -> forallb (chunk_ok tags) cs = true.
Proof.
  induction l as [|t rest IH]; intros p cs l' Hh Hf H; cbn [render_list] in H.
  - inv_ok H. reflexivity.
  - inversion Hf as [|? ? [Ht Hch] Hr]; subst.
    destruct (str_eqb (ttype t) s_inline) eqn:EI.
    + destruct (tchildren t) as [[|x ch]|] eqn:EC.
      * cbn [bind] in H. destruct (render_list o (Some t) rest) as [[c2 r2]|e|] eqn:R2; cbn in H; try discriminate.
        inv_ok H. cbn [app]. eapply IH; eassumption.
      * destruct (render_inline_list o None (x :: ch)) as [[c1 ch1]|e|] eqn:R1; cbn in H; try discriminate.
        destruct (render_list o (Some (set_children t (Some ch1))) rest) as [[c2 r2]|e|] eqn:R2; cbn in H; try discriminate.
        inv_ok H. rewrite forallb_app.
        rewrite (render_inline_list_ok tags o (x :: ch) None c1 ch1 Hh (Hch eq_refl _ eq_refl) R1).
        rewrite (IH _ c2 r2 Hh Hr R2). reflexivity.
      * cbn [bind] in H. destruct (render_list o (Some t) rest) as [[c2 r2]|e|] eqn:R2; cbn in H; try discriminate.
        inv_ok H. cbn [app]. eapply IH; eassumption.
    + destruct (render_one o p t (hd_error rest)) as [[c1 t1]|e|] eqn:R1; cbn in H; try discriminate.
      destruct (render_list o (Some t1) rest) as [[c2 r2]|e|] eqn:R2; cbn in H; try discriminate.
      assert (Ht' : ok_tok tags t) by (destruct Ht as [Ht|[Ht _]]; [exact Ht | rewrite EI in Ht; discriminate Ht]).
      inv_ok H. rewrite forallb_app. rewrite (render_one_ok tags o p t _ c1 t1 Hh Ht' R1).
      rewrite (IH (Some t1) c2 r2 Hh Hr R2). reflexivity.
Qed.

(* consequence for the characters of the output: a chunk that passes [chunk_ok] renders
   to a fixed literal, a tag opener, or escaped data *)
Theorem chunk_html_shape tags c :
  chunk_ok tags c = true ->
  (exists s, c = CEsc s /\ chunk_html c = escape_html s)
  \/ (exists s, c = CLit s /\ chunk_html c = s /\
        (In s fixed_lits \/ exists tag, In tag tags /\ (s = 60 :: tag \/ s = 60 :: 47 :: tag))).
Proof.
  destruct c as [s|s|s]; cbn [chunk_ok]; intros H; try discriminate.
  - right. exists s. split; [reflexivity|]. split; [reflexivity|].
    apply Bool.orb_true_iff in H. destruct H as [H|H].
    + left. apply mem_str_In. exact H.
    + right. apply existsb_exists in H. destruct H as [tag [Hin Ht]]. exists tag. split; [exact Hin|].
      apply Bool.orb_true_iff in Ht. destruct Ht as [Ht|Ht]; apply str_eqb_eq in Ht; auto.
  - left. exists s. split; reflexivity.
Qed.

(* ---- C18: renderer-only options act only in their documented place ------------------ *)

Definition with_xhtml (o : ropts) (b : bool) : ropts := mkROpts b (o_breaks o) (o_langPrefix o) (o_highlight o).
Definition with_breaks (o : ropts) (b : bool) : ropts := mkROpts (o_xhtml o) b (o_langPrefix o) (o_highlight o).

(* erase exactly the two spellings xhtmlOut controls: the " /" of a void tag and <br /> vs <br> *)
Definition erase_void (c : chunk) : list chunk :=
  match c with
  | CLit s => if str_eqb s [32; 47] then []
              else if str_eqb s [60; 98; 114; 32; 47; 62; 10] then [CLit [60; 98; 114; 62; 10]]
              else [c]
  | _ => [c]
  end.

Lemma erase_void_attrs t : flat_map erase_void (render_attrs t) = render_attrs t.
Proof.
  unfold render_attrs. induction (tattrs t) as [|[k v] l IH]; [reflexivity|].
  cbn [flat_map]. rewrite !flat_map_app. rewrite IH. reflexivity.
Qed.

Lemma render_token_xhtml o p t n :
  flat_map erase_void (render_token (with_xhtml o true) p t n)
  = flat_map erase_void (render_token (with_xhtml o false) p t n).
Proof.
  unfold render_token. destruct (thidden t); [reflexivity|].
  cbn [o_xhtml with_xhtml]. rewrite !flat_map_app. f_equal. f_equal. f_equal.
  rewrite Bool.andb_true_r, Bool.andb_false_r. destruct (tnesting t =? 0); reflexivity.
Qed.

Lemma render_one_xhtml o p t n c1 t1 c2 t2 :
  render_one (with_xhtml o true) p t n = Ok (c1, t1) ->
  render_one (with_xhtml o false) p t n = Ok (c2, t2) ->
  t1 = t2 /\ flat_map erase_void c1 = flat_map erase_void c2.
Proof.
  unfold render_one.
  destruct (str_eqb (ttype t) s_code_inline). { intros A B; inv_ok A; inv_ok B. split; reflexivity. }
  destruct (str_eqb (ttype t) s_code_block). { intros A B; inv_ok A; inv_ok B. split; reflexivity. }
  destruct (str_eqb (ttype t) s_fence).
  { change (render_fence (with_xhtml o true) t) with (render_fence (with_xhtml o false) t).
    destruct (render_fence (with_xhtml o false) t); cbn [bind]; intros A B; try discriminate.
    inv_ok A; inv_ok B. split; reflexivity. }
  destruct (str_eqb (ttype t) s_image).
  { intros A B; inv_ok A; inv_ok B. split; [reflexivity | apply render_token_xhtml]. }
  destruct (str_eqb (ttype t) s_hardbreak). { intros A B; inv_ok A; inv_ok B. split; reflexivity. }
  destruct (str_eqb (ttype t) s_softbreak).
  { intros A B; inv_ok A; inv_ok B. split; [reflexivity|]. cbn [o_breaks with_xhtml]. destruct (o_breaks o); reflexivity. }
  destruct (str_eqb (ttype t) s_text). { intros A B; inv_ok A; inv_ok B. split; reflexivity. }
  destruct (str_eqb (ttype t) s_tspecial). { intros A B; inv_ok A; inv_ok B. split; reflexivity. }
  destruct (str_eqb (ttype t) s_html_block). { intros A B; inv_ok A; inv_ok B. split; reflexivity. }
  destruct (str_eqb (ttype t) s_html_inline). { intros A B; inv_ok A; inv_ok B. split; reflexivity. }
  destruct (str_eqb (ttype t) s_definition). { intros A B; inv_ok A; inv_ok B. split; reflexivity. }
  intros A B; inv_ok A; inv_ok B. split; [reflexivity | apply render_token_xhtml].
Qed.

Lemma render_inline_list_xhtml o : forall l p c1 l1 c2 l2,
  render_inline_list (with_xhtml o true) p l = Ok (c1, l1) ->
  render_inline_list (with_xhtml o false) p l = Ok (c2, l2) ->
  l1 = l2 /\ flat_map erase_void c1 = flat_map erase_void c2.
Proof.
  induction l as [|t rest IH]; intros p c1 l1 c2 l2 A B; cbn [render_inline_list] in A, B.
  - inv_ok A; inv_ok B. split; reflexivity.
  - destruct (render_one (with_xhtml o true) p t (hd_error rest)) as [[a1 t1]|e|] eqn:R1; cbn in A; try discriminate.
    destruct (render_one (with_xhtml o false) p t (hd_error rest)) as [[a2 t2]|e|] eqn:R2; cbn in B; try discriminate.
    destruct (render_one_xhtml o p t _ a1 t1 a2 t2 R1 R2) as [-> E].
    destruct (render_inline_list (with_xhtml o true) (Some t2) rest) as [[b1 r1]|e|] eqn:S1; cbn in A; try discriminate.
    destruct (render_inline_list (with_xhtml o false) (Some t2) rest) as [[b2 r2]|e|] eqn:S2; cbn in B; try discriminate.
    destruct (IH (Some t2) b1 r1 b2 r2 S1 S2) as [-> E2].
    inv_ok A; inv_ok B. split; [reflexivity|]. rewrite !flat_map_app, E, E2. reflexivity.
Qed.

(* xhtmlOut: same tokens left behind, and the two outputs coincide once the void-tag
   spellings are erased -- nothing else in the output depends on the option *)
Theorem render_list_xhtml o : forall l p c1 l1 c2 l2,
  render_list (with_xhtml o true) p l = Ok (c1, l1) ->
  render_list (with_xhtml o false) p l = Ok (c2, l2) ->
  l1 = l2 /\ flat_map erase_void c1 = flat_map erase_void c2.
Proof.
  induction l as [|t rest IH]; intros p c1 l1 c2 l2 A B; cbn [render_list] in A, B.
  - inv_ok A; inv_ok B. split; reflexivity.
  - destruct (str_eqb (ttype t) s_inline).
    + destruct (tchildren t) as [[|x ch]|] eqn:EC.
      * cbn [bind] in A, B.
        destruct (render_list (with_xhtml o true) (Some t) rest) as [[b1 r1]|e|] eqn:S1; cbn in A; try discriminate.
        destruct (render_list (with_xhtml o false) (Some t) rest) as [[b2 r2]|e|] eqn:S2; cbn in B; try discriminate.
        destruct (IH (Some t) b1 r1 b2 r2 S1 S2) as [-> E2]. inv_ok A; inv_ok B. split; [reflexivity | exact E2].
      * destruct (render_inline_list (with_xhtml o true) None (x :: ch)) as [[a1 k1]|e|] eqn:R1; cbn in A; try discriminate.
        destruct (render_inline_list (with_xhtml o false) None (x :: ch)) as [[a2 k2]|e|] eqn:R2; cbn in B; try discriminate.
        destruct (render_inline_list_xhtml o (x :: ch) None a1 k1 a2 k2 R1 R2) as [-> E].
        destruct (render_list (with_xhtml o true) (Some (set_children t (Some k2))) rest) as [[b1 r1]|e|] eqn:S1; cbn in A; try discriminate.
        destruct (render_list (with_xhtml o false) (Some (set_children t (Some k2))) rest) as [[b2 r2]|e|] eqn:S2; cbn in B; try discriminate.
        destruct (IH _ b1 r1 b2 r2 S1 S2) as [-> E2]. inv_ok A; inv_ok B.
        split; [reflexivity|]. rewrite !flat_map_app, E, E2. reflexivity.
      * cbn [bind] in A, B.
        destruct (render_list (with_xhtml o true) (Some t) rest) as [[b1 r1]|e|] eqn:S1; cbn in A; try discriminate.
        destruct (render_list (with_xhtml o false) (Some t) rest) as [[b2 r2]|e|] eqn:S2; cbn in B; try discriminate.
        destruct (IH (Some t) b1 r1 b2 r2 S1 S2) as [-> E2]. inv_ok A; inv_ok B. split; [reflexivity | exact E2].
    + destruct (render_one (with_xhtml o true) p t (hd_error rest)) as [[a1 t1]|e|] eqn:R1; cbn in A; try discriminate.
      destruct (render_one (with_xhtml o false) p t (hd_error rest)) as [[a2 t2]|e|] eqn:R2; cbn in B; try discriminate.
      destruct (render_one_xhtml o p t _ a1 t1 a2 t2 R1 R2) as [-> E].
      destruct (render_list (with_xhtml o true) (Some t2) rest) as [[b1 r1]|e|] eqn:S1; cbn in A; try discriminate.
      destruct (render_list (with_xhtml o false) (Some t2) rest) as [[b2 r2]|e|] eqn:S2; cbn in B; try discriminate.
      destruct (IH (Some t2) b1 r1 b2 r2 S1 S2) as [-> E2].
      inv_ok A; inv_ok B. split; [reflexivity|]. rewrite !flat_map_app, E, E2. reflexivity.
Qed.

(* breaks, langPrefix and highlight are read by no rule other than softbreak / fence:
   on a token that is neither, the result does not depend on them at all *)
Theorem render_one_option_frame o o' p t n :
  o_xhtml o = o_xhtml o' ->
  str_eqb (ttype t) s_softbreak = false -> str_eqb (ttype t) s_fence = false ->
  render_one o p t n = render_one o' p t n.
Proof.
  intros Hx Hs Hf. unfold render_one. rewrite Hs, Hf. unfold render_token, br. rewrite Hx. reflexivity.
Qed.

(* breaks: acts on softbreak tokens only, where it selects the hard-break spelling *)
Theorem render_one_breaks o p t n :
  render_one (with_breaks o true) p t n =
  if str_eqb (ttype t) s_softbreak && negb (str_eqb (ttype t) s_code_inline || str_eqb (ttype t) s_code_block
       || str_eqb (ttype t) s_fence || str_eqb (ttype t) s_image || str_eqb (ttype t) s_hardbreak)
  then Ok ([CLit (br o)], t)
  else render_one (with_breaks o false) p t n.
Proof.
  unfold render_one.
  destruct (str_eqb (ttype t) s_code_inline); [rewrite Bool.andb_false_r; reflexivity|].
  destruct (str_eqb (ttype t) s_code_block); [rewrite Bool.andb_false_r; reflexivity|].
  destruct (str_eqb (ttype t) s_fence); [rewrite Bool.andb_false_r; reflexivity|].
  destruct (str_eqb (ttype t) s_image); [rewrite Bool.andb_false_r; reflexivity|].
  destruct (str_eqb (ttype t) s_hardbreak); [rewrite Bool.andb_false_r; reflexivity|].
  destruct (str_eqb (ttype t) s_softbreak); reflexivity.
Qed.

(* langPrefix: only the escaped class value of a fence with an info string can differ *)
Definition same_but_data (a b : chunk) : Prop := a = b \/ exists x y, a = CEsc x /\ b = CEsc y.

Lemma sbd_refl c : same_but_data c c. Proof. left; reflexivity. Qed.
Lemma sbd_esc x y : same_but_data (CEsc x) (CEsc y). Proof. right; eauto. Qed.
Lemma sbd_list l : Forall2 same_but_data l l.
Proof. induction l; constructor; [apply sbd_refl | assumption]. Qed.

Ltac f2 := repeat (first [apply Forall2_nil | apply Forall2_cons; [first [apply sbd_refl | apply sbd_esc]|]]).

Lemma attrs_class_sbd v1 v2 (l : list (str * aval)) :
  Forall2 same_but_data
    (flat_map (fun kv => [CLit [32]; CEsc (fst kv); CLit [61; 34]; CEsc (str_of_aval (snd kv)); CLit [34]]) (aset s_class (AStr v1) l))
    (flat_map (fun kv => [CLit [32]; CEsc (fst kv); CLit [61; 34]; CEsc (str_of_aval (snd kv)); CLit [34]]) (aset s_class (AStr v2) l)).
Proof.
  induction l as [|[k v] l IH]; cbn [aset flat_map].
  - cbn [app fst snd str_of_aval]. f2.
  - destruct (str_eqb s_class k); cbn [flat_map app fst snd str_of_aval].
    + f2. apply sbd_list.
    + f2. exact IH.
Qed.

Theorem render_fence_langPrefix lp1 lp2 t info hl c1 c2 :
  render_fence_core lp1 t info hl = Ok c1 ->
  render_fence_core lp2 t info hl = Ok c2 ->
  Forall2 same_but_data c1 c2.
Proof.
  unfold render_fence_core.
  destruct (match hl with [CRaw h] => starts_with s_pre h | _ => false end).
  { intros A B. injection A as <-. injection B as <-. apply sbd_list. }
  destruct info as [|i0 info].
  { intros A B. injection A as <-. injection B as <-. apply sbd_list. }
  unfold attr_join. cbn [tattrs set_attrs new_token].
  destruct (alookup s_class (tattrs t)) as [[cur|z]|]; cbn [bind]; intros A B; try discriminate;
    injection A as <-; injection B as <-; cbn [app]; apply Forall2_cons; try apply sbd_refl;
    unfold attr_set, set_attrs, render_attrs; cbn [tattrs];
    (apply Forall2_app; [apply attrs_class_sbd | apply sbd_list]).
Qed.
