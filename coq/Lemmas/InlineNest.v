(* C02, inline half, tokenizer phase: every inline rule appends a segment in which link_open / link_close
   pairs are nested like brackets around nesting-0 tokens, and leaves level / delimiter-list
   bookkeeping where it was; hence so does ParserInline.tokenize at any nesting depth, and the
   parser's output when the emphasis / strikethrough post-rules are not in the chain. *)
From RecordUpdate Require Import RecordUpdate.
From MD Require Import Base.Py Base.Str Base.Regex Base.Opt Model.Token Model.Utils Model.StateBlock Model.Helpers
     Model.Url Model.Render Model.Core Model.Inline Lemmas.StrLemmas Lemmas.BlockWF Lemmas.BlockKinds.
From MD Require Import Gen.Regexes Gen.Tables.
From Coq Require Import ZifyBool.

Local Arguments Z.eqb : simpl never.
Local Arguments Z.ltb : simpl never.
Local Arguments Z.leb : simpl never.
Local Arguments str_eqb : simpl never.


(* link pairs nested like brackets; everything else has nesting 0 *)
Inductive ib : list token -> Prop :=
| ib_nil : ib []
| ib_leaf t rest : tnesting t = 0 -> ib rest -> ib (t :: rest)
| ib_link o inner c rest :
    tnesting o = 1 -> ttype o = s_link_open -> ib inner -> tnesting c = -1 -> ttype c = s_link_close -> ib rest ->
    ib (o :: inner ++ c :: rest).

Lemma ib_app a : ib a -> forall b, ib b -> ib (a ++ b).
Proof.
  induction 1 as [| t rest Hn _ IH | o inner c rest Ho To Hi _ Hc Tc _ IH]; intros b Hb.
  - exact Hb.
  - cbn [app]. apply ib_leaf; [exact Hn | apply IH; exact Hb].
  - cbn [app]. rewrite <- app_assoc. cbn [app]. apply ib_link; try assumption. apply IH; exact Hb.
Qed.
Lemma ib_one t : tnesting t = 0 -> ib [t].
Proof. intros H. apply ib_leaf; [exact H | constructor]. Qed.

Definition keepsn (f : token -> token) : Prop := forall t, tnesting (f t) = tnesting t /\ ttype (f t) = ttype t.
Ltac solve_keeps0 :=
  let t := fresh "t" in
  intros t;
  repeat match goal with |- context [if ?c then _ else _] => destruct c end;
  split; reflexivity.

Section IKinds.
Context (cfg : icfg).

(* the state st extends the base state b by a nested segment, bookkeeping unchanged *)
Definition IVb (b st : istate) : Prop :=
  i_level st = i_level b /\ i_prev st = i_prev b /\ i_cur st = i_cur b
  /\ exists seg, i_tokens st = i_tokens b ++ seg /\ ib seg.

Lemma IVb_refl b : IVb b b.
Proof. repeat split. exists []. rewrite app_nil_r. split; [reflexivity | constructor]. Qed.

Definition same4 (s s' : istate) : Prop :=
  i_tokens s' = i_tokens s /\ i_level s' = i_level s /\ i_prev s' = i_prev s /\ i_cur s' = i_cur s.

Lemma IVb_same b s s' : same4 s s' -> IVb b s -> IVb b s'.
Proof. intros (A & B & C & D) (L & P & Cu & seg & T & I). unfold IVb. rewrite A, B, C, D. repeat split; try assumption. exists seg. split; assumption. Qed.

Lemma IVb_trans b s s' : IVb b s -> IVb s s' -> IVb b s'.
Proof.
  intros (L & P & Cu & seg & T & I) (L' & P' & Cu' & seg' & T' & I'). unfold IVb.
  repeat split; try congruence. exists (seg ++ seg'). split; [rewrite T', T, app_assoc; reflexivity | apply ib_app; assumption].
Qed.

Lemma push_pending_ivb b st : IVb b st -> IVb b (push_pending st).
Proof.
  intros (L & P & Cu & seg & T & I). unfold IVb, push_pending. cbn. repeat split; try assumption.
  exists (seg ++ [set_level (set_content (new_token s_text [] 0) (i_pending st)) (i_pendingLevel st)]).
  split; [rewrite T, app_assoc; reflexivity|]. apply ib_app; [exact I | apply ib_one; reflexivity].
Qed.

Lemma ipush_ivb b st ty tag f st' :
  IVb b st -> keepsn f -> ipush st ty tag 0 f = Ok st' -> IVb b st'.
Proof.
  intros H K E. unfold ipush in E.
  set (st0 := match i_pending st with [] => st | _ => push_pending st end) in *.
  assert (H0 : IVb b st0) by (unfold st0; destruct (i_pending st); [exact H | apply push_pending_ivb, H]).
  change (0 <? 0) with false in E. cbv iota in E. cbn [bind] in E. injection E as <-.
  destruct H0 as (L & P & Cu & seg & T & I). unfold IVb. cbn. repeat split; try assumption.
  exists (seg ++ [f (set_level (new_token ty tag 0) (i_level st0))]). split; [rewrite T, app_assoc; reflexivity|].
  apply ib_app; [exact I|]. apply ib_one. destruct (K (set_level (new_token ty tag 0) (i_level st0))) as [A _]. rewrite A. reflexivity.
Qed.

(* what an opening / closing push does *)
Lemma ipush_open_spec st ty tag f s1 : keepsn f -> ipush st ty tag 1 f = Ok s1 ->
  exists fl t, i_tokens s1 = i_tokens st ++ fl ++ [t] /\ ib fl /\ tnesting t = 1 /\ ttype t = ty
               /\ i_level s1 = i_level st + 1 /\ i_prev s1 = i_cur st :: i_prev st.
Proof.
  intros K E. unfold ipush in E.
  set (st0 := match i_pending st with [] => st | _ => push_pending st end) in *.
  assert (H0 : IVb st st0) by (unfold st0; destruct (i_pending st); [apply IVb_refl | apply push_pending_ivb, IVb_refl]).
  change (1 <? 0) with false in E. change (0 <? 1) with true in E. cbv iota in E. cbn [bind] in E. injection E as <-.
  destruct H0 as (L & P & Cu & fl & T & I). cbn.
  exists fl. eexists. split; [rewrite T, <- app_assoc; reflexivity|]. split; [exact I|].
  destruct (K (set_level (new_token ty tag 1) (i_level st0))) as [A B]. rewrite A, B.
  split; [reflexivity|]. split; [reflexivity|]. split; [rewrite L; reflexivity|]. rewrite P, Cu. reflexivity.
Qed.

Lemma ipush_close_spec st ty tag f s3 p rest : keepsn f -> i_prev st = p :: rest -> ipush st ty tag (-1) f = Ok s3 ->
  exists fl t, i_tokens s3 = i_tokens st ++ fl ++ [t] /\ ib fl /\ tnesting t = -1 /\ ttype t = ty
               /\ i_level s3 = i_level st - 1 /\ i_prev s3 = rest /\ i_cur s3 = p.
Proof.
  intros K HP E. unfold ipush in E.
  set (st0 := match i_pending st with [] => st | _ => push_pending st end) in *.
  assert (H0 : IVb st st0) by (unfold st0; destruct (i_pending st); [apply IVb_refl | apply push_pending_ivb, IVb_refl]).
  destruct H0 as (L & P & Cu & fl & T & I).
  change (-1 <? 0) with true in E. cbv iota in E. rewrite P, HP in E. cbn [bind] in E.
  change (0 <? -1) with false in E. cbv iota in E. injection E as <-. cbn.
  exists fl. eexists. split; [rewrite T, <- app_assoc; reflexivity|]. split; [exact I|].
  match goal with |- tnesting (f ?x) = _ /\ _ => destruct (K x) as [A B] end. rewrite A, B.
  split; [reflexivity|]. split; [reflexivity|]. split; [rewrite L; reflexivity|]. split; reflexivity.
Qed.

(* open, a nested segment, close *)
Lemma link_wrap b s0 s1 s1' s2 s2' s3 tag tag' f f' :
  IVb b s0 -> keepsn f -> ipush s0 s_link_open tag 1 f = Ok s1 -> same4 s1 s1' -> IVb s1' s2 -> same4 s2 s2' ->
  keepsn f' -> ipush s2' s_link_close tag' (-1) f' = Ok s3 -> IVb b s3.
Proof.
  intros (L0 & P0 & C0 & seg0 & T0 & I0) K O (A1 & B1 & C1 & D1) (L2 & P2 & Cu2 & seg & T2 & I2) (A2 & B2 & C2 & D2) K' Cl.
  destruct (ipush_open_spec _ _ _ _ _ K O) as (fl & o & TO & IO & NO & TyO & LO & PO).
  assert (HP : i_prev s2' = i_cur s0 :: i_prev s0) by congruence.
  destruct (ipush_close_spec _ _ _ _ _ _ _ K' HP Cl) as (fl2 & c & TC & IC & NC & TyC & LC & PC & CC).
  unfold IVb. split; [rewrite LC, B2, L2, B1, LO; lia|]. split; [congruence|]. split; [congruence|].
  exists (seg0 ++ fl ++ o :: (seg ++ fl2) ++ [c]). split.
  - rewrite TC, A2, T2, A1, TO, T0. repeat rewrite <- app_assoc. cbn [app]. repeat rewrite <- app_assoc. reflexivity.
  - apply ib_app; [exact I0|]. apply ib_app; [exact IO|]. apply ib_link; try assumption; [apply ib_app; assumption | constructor].
Qed.

Definition FK (F : ifuncs) : Prop :=
  forall b, (forall s s', IVb b s -> f_tokenize F s = Ok s' -> IVb b s') /\ (forall s s', IVb b s -> f_skip F s = Ok s' -> IVb b s').

Section Base.
Context (bs : istate).
Definition IV (st : istate) : Prop := IVb bs st.

Lemma iv_same st st' : same4 st st' -> IV st -> IV st'.
Proof. apply IVb_same. Qed.

Lemma push_pending_iv st : IV st -> IV (push_pending st).
Proof. apply push_pending_ivb. Qed.

Lemma ipush_iv st ty tag f st' :
  IV st -> keepsn f -> ipush st ty tag 0 f = Ok st' -> IV st'.
Proof. apply ipush_ivb. Qed.

(* ---- symbolic execution ---- *)

Lemma bind_assoc {A B C} (m : res A) (k : A -> res B) (k' : B -> res C) :
  bind (bind m k) k' = bind m (fun x => bind (k x) k').
Proof. destruct m; reflexivity. Qed.


Ltac iv := first [ assumption
                 | match goal with H : IV ?s |- IV _ => exact H end
                 | match goal with H : IV ?s |- IV _ => apply (iv_same s); [repeat split; reflexivity | exact H] end ].

Ltac istep H :=
  match type of H with
  | bind (bind _ _) _ = Ok _ => rewrite bind_assoc in H
  | bind (ipush ?s ?ty ?tag 0 ?f) _ = Ok _ =>
      let s1 := fresh "s" in let IP := fresh "IP" in
      destruct (ipush s ty tag 0 f) as [s1|?|] eqn:IP; cbn [bind] in H; [|discriminate H|discriminate H];
      apply (ipush_iv s ty tag f s1) in IP; [| iv | solve_keeps0]
  | ipush ?s ?ty ?tag 0 ?f = Ok ?s1 =>
      apply (ipush_iv s ty tag f s1) in H; [| iv | solve_keeps0]
  | bind (Ok _) _ = Ok _ => cbn [bind] in H
  | bind (if ?c then _ else _) _ = Ok _ => destruct c
  | _ => rstep H
  end.

Ltac ifin H := rfinish H; iv.

(* ---- rules without callbacks ---- *)

Lemma r_text_iv st silent b st' : IV st -> r_text st silent = Ok (b, st') -> IV st'.
Proof. unfold r_text. intros HI H. repeat istep H; rfinish H; try iv. destruct silent; iv. Qed.

Lemma r_linkify_iv st silent b st' : IV st -> r_linkify cfg st silent = Ok (b, st') -> IV st'.
Proof. unfold r_linkify. intros HI H. repeat istep H; ifin H. Qed.

Lemma r_newline_iv st silent b st' : IV st -> r_newline st silent = Ok (b, st') -> IV st'.
Proof. unfold r_newline. intros HI H. repeat istep H; ifin H. Qed.

Lemma r_escape_iv st silent b st' : IV st -> r_escape st silent = Ok (b, st') -> IV st'.
Proof. unfold r_escape. intros HI H. repeat istep H; ifin H. Qed.

Lemma r_backticks_iv st silent b st' : IV st -> r_backticks st silent = Ok (b, st') -> IV st'.
Proof.
  unfold r_backticks. intros HI H.
  do 2 istep H; [rfinish H; iv|]. istep H. istep H.
  - rfinish H. destruct silent; iv.
  - istep H. destruct x1 as [found bts]. destruct found as [[ms me]|].
    + repeat istep H; ifin H.
    + rfinish H. destruct silent; iv.
Qed.

Lemma push_markers_iv : forall n st content marker length op cl st',
  IV st -> push_markers n st content marker length op cl = Ok st' -> IV st'.
Proof.
  induction n as [|n IH]; intros st content marker length op cl st' HI H; cbn [push_markers] in H; [rfinish H; iv|].
  istep H. eapply IH; [|exact H]. unfold add_delim. iv.
Qed.

Lemma r_strikethrough_iv st silent b st' : IV st -> r_strikethrough st silent = Ok (b, st') -> IV st'.
Proof.
  unfold r_strikethrough. intros HI H.
  istep H. istep H; [rfinish H; iv|]. istep H; [rfinish H; iv|].
  istep H. destruct x0 as [[op cl] n]. istep H; [rfinish H; iv|].
  istep H.
  - istep H. match type of H with bind ?m _ = _ => destruct m as [s2|?|] eqn:PM end; cbn [bind] in H; try discriminate H.
    apply push_markers_iv in PM; [|iv]. ifin H.
  - cbn [bind] in H. match type of H with bind ?m _ = _ => destruct m as [s2|?|] eqn:PM end; cbn [bind] in H; try discriminate H.
    apply push_markers_iv in PM; [|iv]. ifin H.
Qed.

Lemma r_emphasis_iv st silent b st' : IV st -> r_emphasis st silent = Ok (b, st') -> IV st'.
Proof.
  unfold r_emphasis. intros HI H.
  istep H. istep H; [rfinish H; iv|]. istep H; [rfinish H; iv|].
  istep H. destruct x0 as [[op cl] n].
  match type of H with bind ?m _ = _ => destruct m as [s2|?|] eqn:PM end; cbn [bind] in H; try discriminate H.
  apply push_markers_iv in PM; [|iv]. ifin H.
Qed.

Lemma push_autolink_iv lt st full url st' : IV st -> push_autolink lt st full url = Ok st' -> IV st'.
Proof.
  unfold push_autolink. intros HI H.
  match type of H with bind ?m _ = _ => destruct m as [s1|?|] eqn:O end; cbn [bind] in H; try discriminate H.
  match type of H with bind ?m _ = _ => destruct m as [s2|?|] eqn:M end; cbn [bind] in H; try discriminate H.
  apply (ipush_ivb s1) in M; [|apply IVb_refl|solve_keeps0].
  eapply (link_wrap bs st s1 s1 s2 s2); [exact HI | | exact O | repeat split | exact M | repeat split | | exact H]; solve_keeps0.
Qed.

Lemma r_autolink_iv rf lt st silent b st' : IV st -> r_autolink rf lt st silent = Ok (b, st') -> IV st'.
Proof.
  unfold r_autolink. intros HI H.
  istep H. istep H; [rfinish H; iv|]. istep H. istep H; [|rfinish H; iv].
  istep H.
  - istep H; [rfinish H; iv|]. destruct silent; cbn [bind] in H; [ifin H|].
    match type of H with bind ?m _ = _ => destruct m as [s2|?|] eqn:PA end; cbn [bind] in H; try discriminate H.
    apply push_autolink_iv in PA; [|iv]. ifin H.
  - istep H; [|rfinish H; iv]. istep H; [rfinish H; iv|]. destruct silent; cbn [bind] in H; [ifin H|].
    match type of H with bind ?m _ = _ => destruct m as [s2|?|] eqn:PA end; cbn [bind] in H; try discriminate H.
    apply push_autolink_iv in PA; [|iv]. ifin H.
Qed.

Lemma r_html_inline_iv st silent b st' : IV st -> r_html_inline cfg st silent = Ok (b, st') -> IV st'.
Proof.
  unfold r_html_inline. intros HI H.
  destruct (ic_html cfg) eqn:HT; cbn [negb] in H; [|rfinish H; iv].
  istep H. istep H; [rfinish H; iv|]. istep H. istep H; [rfinish H; iv|].
  istep H; [|rfinish H; iv].
  destruct silent; cbn [bind] in H; [ifin H|].
  rewrite !bind_assoc in H.
  match type of H with bind (ipush ?s ?ty ?tag 0 ?f) _ = _ =>
    destruct (ipush s ty tag 0 f) as [s1|?|] eqn:IP; cbn [bind] in H; [|discriminate H|discriminate H];
    apply (ipush_iv s ty tag f s1) in IP; [| iv | solve_keeps0]
  end.
  rfinish H.
  repeat match goal with |- context [if ?c then _ else _] => destruct c end; iv.
Qed.

Lemma r_entity_iv st silent b st' : IV st -> r_entity st silent = Ok (b, st') -> IV st'.
Proof.
  unfold r_entity. intros HI H.
  istep H. istep H; [rfinish H; iv|]. istep H; [rfinish H; iv|]. istep H.
  istep H.
  - istep H; [|rfinish H; iv]. repeat istep H; ifin H.
  - istep H; [|rfinish H; iv]. istep H; [|rfinish H; iv]. repeat istep H; ifin H.
Qed.

(* ---- rules with callbacks ---- *)

Section WithF.
Context (rf cf : str -> str) (F : ifuncs) (HF : FK F).

Lemma label_loop_iv : forall fuel st level dn oldPos r st',
  IV st -> label_loop F fuel st level dn oldPos = Ok (r, st') -> IV st'.
Proof.
  induction fuel as [|f IH]; intros st level dn oldPos r st' HI H; [discriminate H|].
  cbn [label_loop] in H.
  istep H; [rfinish H; iv|]. istep H. istep H; [rfinish H; iv|].
  destruct (f_skip F st) as [st1|?|] eqn:SK; cbn [bind] in H; try discriminate H.
  destruct (HF bs) as [_ HS]. apply HS in SK; [|exact HI].
  istep H.
  - istep H; [eapply IH; [|exact H]; iv|]. istep H; [rfinish H; iv|]. eapply IH; [|exact H]; iv.
  - eapply IH; [|exact H]; iv.
Qed.

Lemma parse_link_label_iv st start dn r st' : IV st -> parse_link_label F st start dn = Ok (r, st') -> IV st'.
Proof. unfold parse_link_label. intros HI H. eapply label_loop_iv; [|exact H]. iv. Qed.

Lemma ref_branch_iv st pos ls le mx r st' : IV st -> ref_branch cf F st pos ls le mx = Ok (r, st') -> IV st'.
Proof.
  unfold ref_branch. intros HI H.
  destruct (e_refs (i_env st)) as [refs|]; [|rfinish H; iv].
  istep H.
  match type of H with bind ?m _ = _ => destruct m as [[[label0 pos1] st1]|?|] eqn:PL end; cbn [bind] in H; try discriminate H.
  assert (H1 : IV st1).
  { destruct x.
    - destruct (parse_link_label F st pos false) as [[p s']|?|] eqn:PP; cbn [bind] in PL; try discriminate PL.
      apply parse_link_label_iv in PP; [|exact HI]. destruct (0 <=? p); rfinish PL; iv.
    - rfinish PL. iv. }
  istep H; rfinish H; iv.
Qed.

Lemma r_link_iv st silent b st' : IV st -> r_link cfg rf cf F st silent = Ok (b, st') -> IV st'.
Proof.
  unfold r_link. intros HI H.
  istep H. istep H; [rfinish H; iv|].
  destruct (parse_link_label F st (i_pos st) true) as [[labelEnd st0]|?|] eqn:PL; cbn [bind] in H; try discriminate H.
  apply parse_link_label_iv in PL; [|exact HI].
  istep H; [rfinish H; iv|].
  istep H.
  match type of H with bind ?m _ = _ => destruct m as [inlf|?|] end; cbn [bind] in H; try discriminate H.
  destruct inlf as [[[[href0 title0] pos1] parseRef]|]; [|rfinish H; iv].
  match type of H with bind ?m _ = _ => destruct m as [[fin st1]|?|] eqn:FN end; cbn [bind] in H; try discriminate H.
  assert (H1 : IV st1).
  { destruct parseRef.
    - destruct (ref_branch cf F st0 pos1 (i_pos st + 1) labelEnd (i_posMax st)) as [[r s1]|?|] eqn:RB; cbn [bind] in FN; try discriminate FN.
      apply ref_branch_iv in RB; [|exact PL]. destruct r as [[[[h t] l] p]|]; rfinish FN; iv.
    - rfinish FN. iv. }
  destruct fin as [[[[href title] label] pos]|]; [|rfinish H; iv].
  destruct silent; cbn [bind] in H; [rfinish H; iv|].
  match type of H with bind (bind ?m _) _ = _ => destruct m as [s1|?|] eqn:O end; cbn [bind] in H; try discriminate H.
  match type of H with bind (bind (f_tokenize F ?a) _) _ = _ => destruct (f_tokenize F a) as [s2|?|] eqn:TK end;
    cbn [bind] in H; try discriminate H.
  match type of H with bind ?m _ = _ => destruct m as [s3|?|] eqn:Cl end; cbn [bind] in H; try discriminate H.
  match type of TK with f_tokenize F ?a = _ => destruct (HF a) as [HT _]; apply HT in TK; [|apply IVb_refl] end.
  rfinish H.
  assert (W : IV s3).
  { eapply (link_wrap bs _ s1 _ s2 _ s3); [ | | exact O | | exact TK | | | exact Cl]; try solve_keeps0; try (repeat split; reflexivity). iv. }
  iv.
Qed.

Lemma r_image_iv st silent b st' : IV st -> r_image cfg rf cf F st silent = Ok (b, st') -> IV st'.
Proof.
  unfold r_image. intros HI H.
  istep H. istep H; [rfinish H; iv|].
  match type of H with bind ?m _ = _ => destruct m as [nb|?|] end; cbn [bind] in H; try discriminate H.
  destruct nb; [rfinish H; iv|].
  destruct (parse_link_label F st (i_pos st + 1) false) as [[labelEnd st0]|?|] eqn:PL; cbn [bind] in H; try discriminate H.
  apply parse_link_label_iv in PL; [|exact HI].
  istep H; [rfinish H; iv|].
  istep H.
  match type of H with bind ?m _ = _ => destruct m as [[fin st1]|?|] eqn:FN end; cbn [bind] in H; try discriminate H.
  assert (H1 : IV st1).
  { destruct x0.
    - repeat istep FN; try (rfinish FN; iv).
    - destruct (ref_branch cf F st0 (labelEnd + 1) (i_pos st + 2) labelEnd (i_posMax st)) as [[r s1]|?|] eqn:RB; cbn [bind] in FN; try discriminate FN.
      apply ref_branch_iv in RB; [|exact PL]. destruct r; rfinish FN; [iv|]. destruct (e_refs (i_env st0)); iv. }
  destruct fin as [[[[href title] label] pos]|]; [|rfinish H; iv].
  destruct silent; cbn [bind] in H; [rfinish H; iv|].
  repeat istep H. rfinish H. iv.
Qed.

End WithF.

(* ---- the parser ---- *)

Section Parser.
Context (rf cf lt : str -> str).

Lemma iapply_iv F (HF : FK F) name st silent b st' :
  IV st -> iapply cfg rf cf lt F name st silent = Ok (b, st') -> IV st'.
Proof.
  unfold iapply. intros HI H.
  destruct (str_eqb name n_text); [eapply r_text_iv; eassumption|].
  destruct (str_eqb name n_linkify); [eapply r_linkify_iv; eassumption|].
  destruct (str_eqb name n_newline); [eapply r_newline_iv; eassumption|].
  destruct (str_eqb name n_escape); [eapply r_escape_iv; eassumption|].
  destruct (str_eqb name n_backticks); [eapply r_backticks_iv; eassumption|].
  destruct (str_eqb name n_strikethrough); [eapply r_strikethrough_iv; eassumption|].
  destruct (str_eqb name n_emphasis); [eapply r_emphasis_iv; eassumption|].
  destruct (str_eqb name n_link); [eapply r_link_iv; eassumption|].
  destruct (str_eqb name n_image); [eapply r_image_iv; eassumption|].
  destruct (str_eqb name n_autolink); [eapply r_autolink_iv; eassumption|].
  destruct (str_eqb name n_html_inline); [eapply r_html_inline_iv; eassumption|].
  destruct (str_eqb name n_entity); [eapply r_entity_iv; eassumption|].
  rfinish H. exact HI.
Qed.

End Parser.
End Base.

Section Parser1.
Context (rf cf lt : str -> str).

Lemma IVb_level_up b st : IVb b st -> IVb (b <| i_level := i_level b + 1 |>) (st <| i_level := i_level st + 1 |>).
Proof. intros (L & P & Cu & seg & T & I). unfold IVb. cbn. repeat split; try assumption; [lia|]. exists seg. split; assumption. Qed.
Lemma IVb_level_down b st : IVb (b <| i_level := i_level b + 1 |>) st -> IVb b (st <| i_level := i_level st - 1 |>).
Proof. intros (L & P & Cu & seg & T & I). unfold IVb in *. cbn in *. repeat split; try assumption; [lia|]. exists seg. split; assumption. Qed.

Lemma first_rule_iv F (HF : FK F) : forall names b st silent bump ok st',
  IVb b st -> first_rule cfg rf cf lt F names st silent bump = Ok (ok, st') -> IVb b st'.
Proof.
  induction names as [|n rest IH]; intros b st silent bump ok st' HI H; cbn [first_rule] in H; [rfinish H; exact HI|].
  destruct bump.
  - match type of H with bind (iapply _ _ _ _ _ _ ?s0 _) _ = _ =>
      destruct (iapply cfg rf cf lt F n s0 silent) as [[ok1 st1]|?|] eqn:IA end; cbn [bind] in H; try discriminate H.
    apply (iapply_iv (b <| i_level := i_level b + 1 |>) rf cf lt F HF) in IA; [|apply IVb_level_up, HI].
    apply IVb_level_down in IA.
    destruct ok1; [rfinish H; exact IA|]. eapply IH; [exact IA | exact H].
  - match type of H with bind (iapply _ _ _ _ _ _ ?s0 _) _ = _ =>
      destruct (iapply cfg rf cf lt F n s0 silent) as [[ok1 st1]|?|] eqn:IA end; cbn [bind] in H; try discriminate H.
    apply (iapply_iv b rf cf lt F HF) in IA; [|exact HI].
    destruct ok1; [rfinish H; exact IA|]. eapply IH; [exact IA | exact H].
Qed.

Lemma skip_token_iv F (HF : FK F) b st st' : IVb b st -> skip_token cfg rf cf lt F st = Ok st' -> IVb b st'.
Proof.
  unfold skip_token. intros HI H.
  destruct (zlookup (i_pos st) (i_cache st)); [rfinish H; eapply IVb_same; [|exact HI]; repeat split; reflexivity|].
  match type of H with bind ?m _ = _ => destruct m as [[ok st1]|?|] eqn:FR end; cbn [bind] in H; try discriminate H.
  assert (H1 : IVb b st1).
  { destruct (i_level st <? ic_maxNesting cfg); [eapply (first_rule_iv F HF); eassumption | rfinish FR; eapply IVb_same; [|exact HI]; repeat split; reflexivity]. }
  rfinish H. destruct ok; (eapply IVb_same; [|exact H1]; repeat split; reflexivity).
Qed.

Lemma tok_while_iv F (HF : FK F) b : forall fuel st endp ok st',
  IVb b st -> tok_while cfg rf cf lt fuel F st endp ok = Ok st' -> IVb b st'.
Proof.
  induction fuel as [|f IH]; intros st endp ok st' HI H; [discriminate H|].
  cbn [tok_while] in H.
  destruct (negb (i_pos st <? endp)); [rfinish H; exact HI|].
  match type of H with bind ?m _ = _ => destruct m as [[ok1 st1]|?|] eqn:FR end; cbn [bind] in H; try discriminate H.
  assert (H1 : IVb b st1).
  { destruct (i_level st <? ic_maxNesting cfg); [eapply (first_rule_iv F HF); eassumption | rfinish FR; eapply IVb_same; [|exact HI]; repeat split; reflexivity]. }
  destruct ok1.
  - destruct (endp <=? i_pos st1); [rfinish H; exact H1 | eapply IH; eassumption].
  - rstep H. eapply IH; [|exact H]. eapply IVb_same; [|exact H1]; repeat split; reflexivity.
Qed.

Lemma inline_tokenize_iv F (HF : FK F) b st st' : IVb b st -> inline_tokenize cfg rf cf lt F st = Ok st' -> IVb b st'.
Proof.
  unfold inline_tokenize. intros HI H.
  match type of H with bind ?m _ = _ => destruct m as [st1|?|] eqn:TW end; cbn [bind] in H; try discriminate H.
  apply (tok_while_iv F HF b) in TW; [|exact HI]. rfinish H.
  destruct (i_pending st1); [exact TW | apply push_pending_ivb, TW].
Qed.

End Parser1.

Section Parser2.
Context (rf cf lt : str -> str).

Lemma ifs_FK : forall depth, FK (ifs cfg rf cf lt depth).
Proof.
  induction depth as [|d IH]; cbn [ifs]; intros b.
  - split; intros s s' _ H; discriminate H.
  - split; cbn [f_tokenize f_skip]; intros s s' HI H.
    + eapply inline_tokenize_iv; eassumption.
    + eapply skip_token_iv; eassumption.
Qed.

(* ParserInline.tokenize, at any nesting depth, from any state: appends a nested segment *)
Theorem inline_tokenize_nested depth st st' :
  inline_tokenize cfg rf cf lt (ifs cfg rf cf lt depth) st = Ok st' ->
  i_level st' = i_level st /\ exists seg, i_tokens st' = i_tokens st ++ seg /\ ib seg.
Proof.
  intros H. apply (inline_tokenize_iv rf cf lt _ (ifs_FK depth) st) in H; [|apply IVb_refl].
  destruct H as (L & _ & _ & seg & T & I). split; [exact L|]. exists seg. split; assumption.
Qed.

(* the same as a left-to-right check with a depth counter *)
Fixpoint nested (d : Z) (ts : list token) : Prop :=
  match ts with
  | [] => d = 0
  | t :: r =>
      (tnesting t = 0 /\ nested d r)
      \/ (tnesting t = 1 /\ ttype t = s_link_open /\ nested (d + 1) r)
      \/ (tnesting t = -1 /\ ttype t = s_link_close /\ 0 < d /\ nested (d - 1) r)
  end.

Lemma ib_nested s : ib s -> forall d r, 0 <= d -> nested d r -> nested d (s ++ r).
Proof.
  induction 1 as [| t rest Hn _ IH | o inner c rest Ho To _ II Hc Tc _ IR]; intros d r Hd Hr.
  - exact Hr.
  - cbn [app nested]. left. split; [exact Hn | apply IH; assumption].
  - cbn [app nested]. right. left. split; [exact Ho|]. split; [exact To|].
    rewrite <- app_assoc. apply II; [lia|]. cbn [app nested]. right. right.
    split; [exact Hc|]. split; [exact Tc|]. split; [lia|]. replace (d + 1 - 1) with d by lia. apply IR; assumption.
Qed.

Lemma s_text_not_link : s_text <> s_link_open /\ s_text <> s_link_close.
Proof. split; discriminate. Qed.

(* fragments_join keeps the nesting: it only drops text tokens and rewrites levels / contents *)
Lemma fj_nested : forall tokens d level carry, nested d tokens -> nested d (fj tokens level carry).
Proof.
  induction tokens as [|t rest IH]; intros d level carry H; [exact H|].
  cbn [fj].
  set (t1 := set_level (match carry with Some c => set_content t (c ++ tcontent t) | None => t end)
                       (if tnesting t <? 0 then level - 1 else level)).
  assert (N1 : tnesting t1 = tnesting t /\ ttype t1 = ttype t) by (unfold t1; destruct carry; split; reflexivity).
  destruct N1 as [N1 T1].
  assert (K : forall lv cr, nested d (t1 :: fj rest lv cr)).
  { intros lv cr. cbn [nested] in H |- *. rewrite N1, T1.
    destruct H as [[A B]|[(A & B & C)|(A & B & C & D)]]; [left | right; left | right; right]; repeat split; try assumption; apply IH; assumption. }
  destruct rest as [|n rest'].
  - apply K.
  - destruct (str_eqb (ttype t) s_text && str_eqb (ttype n) s_text) eqn:E; [|apply K].
    apply Bool.andb_true_iff in E. destruct E as [E _]. apply str_eqb_eq in E.
    cbn [nested] in H. destruct H as [[A B]|[(A & B & C)|(A & B & C & D)]].
    + apply IH. exact B.
    + rewrite E in B. discriminate B.
    + rewrite E in B. discriminate B.
Qed.

Definition no_pair_rules2 : Prop :=
  forall n, In n (ic_rules2 cfg) -> str_eqb n n_strikethrough = false /\ str_eqb n n_emphasis = false.

Lemma on_all_delims_tokens (f : istate -> nat -> res istate) (Hf : forall s id s', f s id = Ok s' -> i_tokens s' = i_tokens s) :
  forall st st', on_all_delims f st = Ok st' -> i_tokens st' = i_tokens st.
Proof.
  assert (G : forall metas st st', each_meta f metas st = Ok st' -> i_tokens st' = i_tokens st).
  { induction metas as [|[id|] rest IH]; intros st st' H; cbn [each_meta] in H; [rfinish H; reflexivity| |eapply IH; exact H].
    destruct (f st id) as [s1|?|] eqn:E; cbn [bind] in H; try discriminate H.
    rewrite (IH _ _ H). eapply Hf; exact E. }
  unfold on_all_delims. intros st st' H.
  destruct (f st (i_cur st)) as [s1|?|] eqn:E; cbn [bind] in H; try discriminate H.
  rewrite (G _ _ _ H). eapply Hf; exact E.
Qed.

Lemma run_rules2_nested : forall names st st' d,
  (forall n, In n names -> str_eqb n n_strikethrough = false /\ str_eqb n n_emphasis = false) ->
  nested d (i_tokens st) -> run_rules2 names st = Ok st' -> nested d (i_tokens st').
Proof.
  induction names as [|n rest IH]; intros st st' d HN HT H; cbn [run_rules2] in H; [rfinish H; exact HT|].
  destruct (iapply2 n st) as [s1|?|] eqn:E; cbn [bind] in H; try discriminate H.
  eapply IH; [intros m Hm; apply HN; right; exact Hm | | exact H].
  destruct (HN n (or_introl eq_refl)) as [N1 N2]. unfold iapply2 in E.
  destruct (str_eqb n n_balance_pairs).
  { unfold r2_balance_pairs in E.
    assert (TE : i_tokens s1 = i_tokens st).
    { eapply on_all_delims_tokens; [|exact E]. intros s id s' X. cbv beta in X.
      destruct (process_delimiters (nth id (i_dstore s) [])); cbn [bind] in X; try discriminate X. injection X as <-. reflexivity. }
    rewrite TE. exact HT. }
  rewrite N1, N2 in E.
  destruct (str_eqb n n_fragments_join); [unfold r2_fragments_join in E; rfinish E; cbn; apply fj_nested; exact HT|].
  rfinish E. exact HT.
Qed.

(* ParserInline.parse without the emphasis / strikethrough post-rules: the whole output is nested -
   depth never negative, zero at the end, every closing token a link_close matching a link_open *)
Theorem inline_parse_nested src env r :
  no_pair_rules2 -> inline_parse cfg rf cf lt src env [] = Ok r -> nested 0 r.
Proof.
  unfold inline_parse, inline_parse_with. intros NP H.
  match type of H with bind ?m _ = _ => destruct m as [st1|?|] eqn:TK end; cbn [bind] in H; try discriminate H.
  apply inline_tokenize_nested in TK. destruct TK as (_ & seg & T & I). cbn in T.
  match type of H with bind ?m _ = _ => destruct m as [st2|?|] eqn:R2 end; cbn [bind] in H; try discriminate H.
  injection H as <-. eapply run_rules2_nested; [exact NP | | exact R2].
  rewrite T. rewrite <- (app_nil_r seg). apply ib_nested; [exact I | lia | reflexivity].
Qed.

End Parser2.

End IKinds.
