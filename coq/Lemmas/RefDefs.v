(* C10: the inline_definitions option only ADDS definition tokens.  The reference rule run under two configurations that differ
   in nothing but this option, from the same state and with the same callback: same answer; when it fails or runs silently the
   two states are identical; when it records a definition the state with the option on is the state with the option off plus
   exactly one token - type "definition", nesting 0, map = the definition's own lines - at the end of the token list: same
   env (first-wins bookkeeping included), same line, same parent type, same everything else.  Proof: the two computations are
   destructed in lock step (they are the same term up to the last branch). *)
From RecordUpdate Require Import RecordUpdate.
From MD Require Import Base.Py Base.Str Base.Regex Base.Opt Model.Token Model.Utils Model.StateBlock Model.Helpers
     Model.Url Model.Render Model.Block Lemmas.BlockLemmas.
Local Arguments Z.eqb : simpl never.
Local Arguments Z.ltb : simpl never.
Local Arguments Z.leb : simpl never.
Local Arguments str_eqb : simpl never.

Ltac both :=
  match goal with
  | |- (bind ?m _ = Ok _) -> _ => destruct m as [?|?|]; cbn [bind]; [|intros X; discriminate X|intros X; discriminate X]
  | |- (match ?x with _ => _ end = Ok _) -> _ => destruct x
  end.

Section D.
Context (cfg : bcfg) (rf cf : str -> str).
Definition with_defs (b : bool) : bcfg := mkBCfg (c_rules cfg) (c_term cfg) (c_code cfg) (c_maxNesting cfg) (c_html cfg) b.
Lemma with_defs_fields b : c_inline_defs (with_defs b) = b /\ c_rules (with_defs b) = c_rules cfg /\ c_term (with_defs b) = c_term cfg
  /\ c_code (with_defs b) = c_code cfg /\ c_maxNesting (with_defs b) = c_maxNesting cfg /\ c_html (with_defs b) = c_html cfg.
Proof. repeat split. Qed.
Let off := with_defs false.
Let on := with_defs true.

Theorem reference_inline_defs term st sl el silent b1 s1 b2 s2 :
  r_reference off rf cf term st sl el silent = Ok (b1, s1) ->
  r_reference on rf cf term st sl el silent = Ok (b2, s2) ->
  b2 = b1 /\ (b1 = false \/ silent = true -> s2 = s1)
  /\ (b1 = true -> silent = false ->
      exists d, ttype d = s_definition /\ tnesting d = 0 /\ tmap d = Some (sl, b_line s1)
                /\ s2 = s1 <| b_tokens := b_tokens s1 ++ [d] |>).
Proof.
  unfold r_reference, code_block_at. subst off on. unfold with_defs. cbn [c_code c_inline_defs].
  repeat both.
  all: try (intros X Y; injection X as <- <-; injection Y as <- <-; split; [reflexivity|]; split; [intros _; reflexivity | intros A B; try discriminate A; try discriminate B]).
  intros X Y. injection X as <- <-. injection Y as <- <-. split; [reflexivity|]. split; [intros [A|A]; discriminate A|].
  intros _ _. destruct b. unfold st_parent, st_line, bpush. cbn. eexists. split; [|split; [|split]].
  4: reflexivity.
  all: reflexivity.
Qed.
End D.
