(* C03: table body rows end on a non-blank line.  Every tr_open token the table rule's row loop pushes carries a one-line map
   [l, l + 1), and l is a non-blank line (the loop stops at the first line whose text is empty once trimmed).  The other tokens
   the loop pushes are not rows (tbody_open, cells, inline, closers).  The header row's map is the rule's own start line,
   non-blank by the line loop (Lemmas/Cover.v). *)
From RecordUpdate Require Import RecordUpdate.
From MD Require Import Base.Py Base.Str Base.Regex Base.Opt Model.Token Model.Utils Model.StateBlock Model.Helpers
     Model.Url Model.Render Model.Block Lemmas.StrLemmas Lemmas.StrLemmas2 Lemmas.BlockLemmas Lemmas.BlockWF Lemmas.MapLemmas
     Lemmas.MapWhole.
From Coq Require Import ZifyBool.

Local Arguments Z.eqb : simpl never.
Local Arguments Z.ltb : simpl never.
Local Arguments Z.leb : simpl never.
Local Arguments str_eqb : simpl never.

Lemma is_empty_stb st st' l : stb st st' -> is_empty st' l = is_empty st l.
Proof. intros (A1 & A2 & A3 & A4 & A5). unfold is_empty, line_start. rewrite A2, A3, A4. reflexivity. Qed.

(* a line whose text is not the empty string is not blank *)
Lemma nonblank_of_line st l raw : TI st -> 0 <= l -> get_line st l = Ok raw -> raw <> [] -> is_empty st l = Ok false.
Proof.
  intros HT Hl G NE. unfold get_line in G. unfold is_empty. unfold line_start in *.
  destruct (tb (b_bMarks st) l) as [b|?|] eqn:EB; cbn [bind] in *; try discriminate G.
  destruct (tb (b_tShift st) l) as [t|?|] eqn:ET; cbn [bind] in *; try discriminate G.
  destruct (tb (b_eMarks st) l) as [e|?|] eqn:EE; cbn [bind] in *; try discriminate G.
  injection G as G. f_equal.
  destruct (HT l b e t Hl EB EE ET) as (B0 & T0 & E0 & _).
  destruct (e <=? b + t) eqn:Q; [|reflexivity].
  exfalso. apply NE. rewrite <- G. apply slice_empty; lia.
Qed.

Lemma strip_nonempty_src p s : strip_by p s <> [] -> s <> [].
Proof. intros H E. apply H. rewrite E. reflexivity. Qed.

Section Rows.
Context (cfg : bcfg).

Definition rowP (st0 : bstate) (t : token) : Prop :=
  ttype t = s_tr_open -> exists l, tmap t = Some (l, l + 1) /\ is_empty st0 l = Ok false.

Definition adds (st0 st st' : bstate) : Prop := exists seg, b_tokens st' = b_tokens st ++ seg /\ Forall (rowP st0) seg.

Lemma adds_refl st0 st : adds st0 st st.
Proof. exists []. rewrite app_nil_r. split; [reflexivity | constructor]. Qed.
Lemma adds_trans st0 a b c : adds st0 a b -> adds st0 b c -> adds st0 a c.
Proof.
  intros (s1 & E1 & F1) (s2 & E2 & F2). exists (s1 ++ s2). split; [rewrite E2, E1, app_assoc; reflexivity | apply Forall_app; split; assumption].
Qed.
Lemma adds_fr st0 a b : fr a b -> adds st0 a b.
Proof. intros F. exists []. rewrite app_nil_r. split; [apply fr_tokens, F | constructor]. Qed.

(* a push of a token that is not a row *)
Lemma adds_push_other st0 st ty tag n f : (forall t, ttype (f t) = ttype t) -> ty <> s_tr_open -> adds st0 st (bpush st ty tag n f).
Proof.
  intros Hf Hty. eexists. split; [apply bpush_tokens|]. constructor; [|constructor].
  intros E. exfalso. apply Hty. rewrite Hf in E. exact E.
Qed.

Lemma push_cells_adds st0 oty cty tag : oty <> s_tr_open -> cty <> s_tr_open ->
  forall aligns st cols a b sne, adds st0 st (push_cells st oty cty tag aligns cols a b sne).
Proof.
  intros Ho Hc. induction aligns as [|al aligns IH]; intros st cols a b sne; cbn [push_cells]; [apply adds_refl|].
  eapply adds_trans; [|apply IH].
  eapply adds_trans; [|apply adds_push_other; [reflexivity | exact Hc]].
  eapply adds_trans; [|unfold push_inline; apply adds_push_other; [reflexivity | discriminate]].
  apply adds_push_other; [|exact Ho]. intros t. unfold cell_attrs. destruct al; [reflexivity | destruct t; reflexivity].
Qed.

Lemma table_rows_nonblank term (T : term_fr term) st0 : forall fuel st aligns sl nl el tbody r tb' st',
  TI st0 -> stb st0 st -> 0 <= nl ->
  table_rows cfg fuel term st aligns sl nl el tbody = Ok (r, tb', st') ->
  stb st0 st' /\ adds st0 st st'.
Proof.
  induction fuel as [|f IH]; intros st aligns sl nl el tbody r tb' st' HT S N0 H; [discriminate H|].
  cbn [table_rows] in H.
  destruct (negb (nl <? el)); [rfinish H; split; [exact S | apply adds_refl]|].
  rstep H. rstep H; [rfinish H; split; [exact S | apply adds_refl]|].
  destruct (term nm_blockquote st nl el) as [[t st1]|?|] eqn:TE; cbn [bind] in H; try discriminate H.
  pose proof (T nm_blockquote _ _ _ _ _ ltac:(discriminate) TE) as E1.
  pose proof (stb_trans _ _ _ S (fr_stb _ _ E1)) as S1.
  destruct t; [rfinish H; split; [exact S1 | apply adds_fr, E1]|].
  destruct (get_line st1 nl) as [raw|?|] eqn:GL; cbn [bind] in H; try discriminate H.
  destruct (py_strip raw) as [|c0 lt] eqn:LT; [rfinish H; split; [exact S1 | apply adds_fr, E1]|].
  rstep H. rstep H; [rfinish H; split; [exact S1 | apply adds_fr, E1]|].
  (* a row on line nl *)
  assert (NB : is_empty st0 nl = Ok false).
  { rewrite <- (is_empty_stb st0 st1 nl S1). apply (nonblank_of_line st1 nl raw); [apply (stb_TI st0); assumption | exact N0 | exact GL|].
    apply (strip_nonempty_src is_py_space). fold (py_strip raw). rewrite LT. discriminate. }
  match type of H with context [if ?c then _ else _] => destruct c end.
  all: apply IH in H; [| exact HT | | lia].
  all: try (destruct H as [S' A']; split; [exact S'|]; eapply adds_trans; [apply adds_fr, E1|]; eapply adds_trans; [|exact A']).
  - eapply adds_trans; [|apply adds_push_other; [reflexivity | discriminate]].
    eapply adds_trans; [|apply push_cells_adds; discriminate].
    eapply adds_trans; [|eexists; split; [apply bpush_tokens|]; constructor; [|constructor]; intros _; exists nl; split; [reflexivity | exact NB]].
    apply adds_push_other; [reflexivity | discriminate].
  - eapply stb_trans; [exact S1|]. eapply stb_trans; [apply stb_bpush|]. eapply stb_trans; [apply stb_bpush|].
    eapply stb_trans; [|apply stb_bpush]. apply push_cells_gm with (lo := nl) (hi := nl + 1); lia.
  - eapply adds_trans; [|apply adds_push_other; [reflexivity | discriminate]].
    eapply adds_trans; [|apply push_cells_adds; discriminate].
    eexists. split; [apply bpush_tokens|]. constructor; [|constructor]. intros _. exists nl. split; [reflexivity | exact NB].
  - eapply stb_trans; [exact S1|]. eapply stb_trans; [apply stb_bpush|].
    eapply stb_trans; [|apply stb_bpush]. apply push_cells_gm with (lo := nl) (hi := nl + 1); lia.
Qed.

(* the row loop as the table rule calls it *)
Theorem table_body_rows_nonblank term (T : term_fr term) fuel st aligns sl el r tb' st' :
  TI st -> 0 <= sl ->
  table_rows cfg fuel term st aligns sl (sl + 2) el None = Ok (r, tb', st') ->
  exists seg, b_tokens st' = b_tokens st ++ seg
    /\ Forall (fun t => ttype t = s_tr_open -> exists l, tmap t = Some (l, l + 1) /\ is_empty st l = Ok false) seg.
Proof.
  intros HT S0 H. assert (N2 : 0 <= sl + 2) by lia.
  destruct (table_rows_nonblank term T st _ _ _ _ _ _ _ _ _ _ HT (stb_refl st) N2 H) as [_ A]. exact A.
Qed.

End Rows.
