(* C01, whole pipeline: MarkdownIt.parse and parseInline never raise.  Block parser (NoRaise),
   inline parser with its post-processing (InlineSafe) and the core chain composed. *)
From RecordUpdate Require Import RecordUpdate.
From MD Require Import Base.Py Base.Str Base.Regex Base.Opt Model.Token Model.Utils Model.StateBlock
     Model.Helpers Model.Url Model.Render Model.Core Model.Block Model.Inline Model.Pipeline
     Lemmas.MapWhole Lemmas.NoRaise Lemmas.InlineSafe.

Local Arguments Z.eqb : simpl never.
Local Arguments str_eqb : simpl never.

Lemma nr_safe {A} (m : res A) : (forall e, m <> Raise e) -> safe m (fun _ => True).
Proof. intros H. destruct m as [a|e|]; [exact I | exact (H e eq_refl) | exact I]. Qed.

Section Whole.
Context (cfg : pcfg) (rf cf lt : str -> str).
(* the supported configurations: the block chain has the paragraph rule and Ruler-shaped
   terminator chains; the linkifier (not installed) is off; the post-processing chain is in
   registration order *)
Context (TNO : term_names_ok (p_block cfg)) (PA : mem_str nm_paragraph (c_rules (p_block cfg)) = true).
Context (NL1 : ic_linkify (p_inline cfg) = false) (NL2 : p_linkify cfg = false).
Context (ORD : order_ok (ic_rules2 (p_inline cfg)) = true).

Lemma inline_all_safe : forall tokens env, safe (inline_all cfg rf cf lt tokens env) (fun _ => True).
Proof.
  induction tokens as [|t rest IH]; intros env; cbn [inline_all]; [exact I|].
  eapply safe_bind with (Q := fun _ => True).
  { destruct (str_eqb (ttype t) s_inline); [|exact I].
    eapply safe_bind; [apply nr_safe; apply inline_parse_no_raise; assumption|]. intros ch _ _. exact I. }
  intros t' _ _. eapply safe_bind; [apply IH|]. intros rest' _ _. exact I.
Qed.

Lemma core_rule_safe name st : safe (core_rule cfg rf cf lt name st) (fun _ => True).
Proof.
  unfold core_rule.
  destruct (str_eqb name n_normalize); [exact I|].
  destruct (str_eqb name n_block).
  { destruct (c_inlineMode st); [exact I|].
    eapply safe_bind; [apply nr_safe; apply block_parse_no_raise; assumption|]. intros b _ _. exact I. }
  destruct (str_eqb name n_inline).
  { eapply safe_bind; [apply inline_all_safe|]. intros ts _ _. exact I. }
  destruct (str_eqb name n_linkify); [rewrite NL2; exact I|].
  destruct (str_eqb name n_replacements); [exact I|].
  destruct (str_eqb name n_smartquotes); [exact I|].
  destruct (str_eqb name n_text_join); exact I.
Qed.

Lemma core_process_safe : forall names st, safe (core_process cfg rf cf lt names st) (fun _ => True).
Proof.
  induction names as [|n rest IH]; intros st; cbn [core_process]; [exact I|].
  eapply safe_bind; [apply core_rule_safe|]. intros st' _ _. apply IH.
Qed.

Theorem parse_no_raise src env : forall e, parse cfg rf cf lt src env <> Raise e.
Proof. unfold parse. apply (safe_nr _ (fun _ => True)). eapply safe_bind; [apply core_process_safe|]. intros st _ _. exact I. Qed.

Theorem parse_inline_no_raise src env : forall e, parse_inline cfg rf cf lt src env <> Raise e.
Proof. unfold parse_inline. apply (safe_nr _ (fun _ => True)). eapply safe_bind; [apply core_process_safe|]. intros st _ _. exact I. Qed.

End Whole.
