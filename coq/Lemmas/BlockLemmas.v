(* Lemmas on the block model: line tables, push bookkeeping, per-rule facts. *)
From RecordUpdate Require Import RecordUpdate.
From MD Require Import Base.Py Base.Str Base.Regex Base.Opt Model.Token Model.Utils Model.StateBlock Model.Helpers
     Model.Url Model.Render Model.Block Lemmas.StrLemmas.
From Coq Require Import ZifyBool.

Local Arguments Z.eqb : simpl never.
Local Arguments Z.ltb : simpl never.
Local Arguments Z.leb : simpl never.
Local Arguments str_eqb : simpl never.

(* ---- C07: the line scan is a left fold, so it splits at any point ---------------------- *)

Lemma scan_loop_app n : forall a s pos b,
  scan_loop n s pos (a ++ b) = scan_loop n (scan_loop n s pos a) (pos + len a) b.
Proof.
  induction a as [|c a IH]; intros s pos b; cbn [app scan_loop].
  - unfold len. cbn. rewrite Z.add_0_r. reflexivity.
  - rewrite IH. f_equal. unfold len. cbn [length]. lia.
Qed.

(* after a line feed the scanner is back in its initial mode: not inside a line, indentation
   counters zero, next line starting right after it -- nothing else is remembered *)
Lemma scan_step_lf n s pos :
  let s' := scan_step n s pos 10 in
  sc_found s' = false /\ sc_indent s' = 0 /\ sc_offset s' = 0 /\ sc_start s' = pos + 1
  /\ sc_bM s' = sc_start s :: sc_bM s /\ sc_eM s' = pos :: sc_eM s
  /\ sc_tS s' = sc_indent s :: sc_tS s /\ sc_sC s' = sc_offset s :: sc_sC s.
Proof.
  unfold scan_step. change (is_space 10) with false. rewrite Bool.andb_false_r.
  change (10 =? 10) with true. cbn. repeat split; reflexivity.
Qed.

(* ---- C02: push keeps level = depth ------------------------------------------------------- *)

Lemma bpush_level st ty tag nesting f :
  (forall t, tlevel (f t) = tlevel t) ->
  b_level (bpush st ty tag nesting f) = b_level st + (if 0 <? nesting then 1 else if nesting <? 0 then -1 else 0)
  /\ exists t, b_tokens (bpush st ty tag nesting f) = b_tokens st ++ [t]
               /\ tlevel t = (if nesting <? 0 then b_level st - 1 else b_level st).
Proof.
  intros Hf. unfold bpush. cbn. split.
  - destruct (0 <? nesting) eqn:E1, (nesting <? 0) eqn:E2; lia.
  - eexists. split; [reflexivity|]. rewrite Hf. reflexivity.
Qed.

(* ---- C03 / C08: the thematic break rule ---------------------------------------------------- *)

(* what hr_scan returns: Some cnt = cnt0 + number of marker characters in [pos, maximum), and
   every character there is the marker or a blank *)
Fixpoint count_marker (src : str) (marker : Z) : Z :=
  match src with [] => 0 | c :: r => (if c =? marker then 1 else 0) + count_marker r marker end.

Lemma hr_scan_count : forall fuel src pos maximum marker cnt r,
  hr_scan fuel src pos maximum marker cnt = Ok (Some r) ->
  0 <= pos -> 0 <= maximum -> (Z.to_nat (maximum - pos) < fuel)%nat -> maximum <= len src ->
  r = cnt + count_marker (slice src pos maximum) marker.
Proof.
  induction fuel as [|f IH]; intros src pos maximum marker cnt r H Hp Hm0 Hf Hm; [lia|].
  cbn [hr_scan] in H. destruct (pos <? maximum) eqn:E; cbn [negb] in H.
  - destruct (py_idx src pos) as [ch|e|] eqn:P; cbn [bind] in H; try discriminate.
    destruct (negb (ch =? marker) && negb (is_space ch)) eqn:B; [discriminate|].
    apply IH in H; try lia.
    rewrite (slice_cons src pos maximum ch) by (try lia; exact P).
    cbn [count_marker]. rewrite H. destruct (ch =? marker); lia.
  - injection H as <-. rewrite slice_empty by lia. cbn. lia.
Qed.

(* r_hr, on success in normal mode: one token, map = [startLine, startLine+1), the line cursor
   advances by exactly one, and markup = marker repeated as many times as it occurs in the line *)
Theorem r_hr_spec cfg st startLine endLine st' :
  r_hr cfg st startLine endLine false = Ok (true, st') ->
  b_line st' = startLine + 1 /\
  exists t pos maximum marker,
    b_tokens st' = b_tokens st ++ [t] /\ tmap t = Some (startLine, startLine + 1)
    /\ line_start st startLine = Ok pos /\ tb (b_eMarks st) startLine = Ok maximum
    /\ char_at (b_src st) pos = Some marker
    /\ (0 <= pos -> 0 <= maximum <= len (b_src st) ->
        tmarkup t = rep marker (1 + count_marker (slice (b_src st) (pos + 1) maximum) marker)).
Proof.
  unfold r_hr. intros H.
  destruct (line_start st startLine) as [pos|e|] eqn:LS; cbn [bind] in H; try discriminate.
  destruct (tb (b_eMarks st) startLine) as [maximum|e|] eqn:EM; cbn [bind] in H; try discriminate.
  destruct (code_block_at cfg st startLine) as [cb|e|]; cbn [bind] in H; try discriminate.
  destruct cb; [discriminate|].
  destruct (char_at (b_src st) pos) as [marker|] eqn:CA; [|discriminate].
  destruct (negb ((marker =? 42) || (marker =? 45) || (marker =? 95))); [discriminate|].
  destruct (hr_scan (S (length (b_src st))) (b_src st) (pos + 1) maximum marker 1) as [[cnt|]|e|] eqn:HS;
    cbn [bind] in H; try discriminate.
  destruct (cnt <? 3); [discriminate|]. injection H as <-.
  split; [reflexivity|].
  eexists _, pos, maximum, marker. repeat split; try reflexivity; try assumption.
  intros Hp Hm. unfold len in Hm.
  eapply hr_scan_count in HS; [subst cnt; reflexivity | lia | lia | lia | unfold len; lia].
Qed.

(* ---- membership through slicing / stripping ------------------------------------------------ *)

Lemma In_firstn {A} (x : A) n l : In x (firstn n l) -> In x l.
Proof. revert l; induction n as [|n IH]; intros [|y l] H; cbn in *; try contradiction. destruct H; [left; assumption | right; apply IH; assumption]. Qed.
Lemma In_skipn {A} (x : A) n l : In x (skipn n l) -> In x l.
Proof. revert l; induction n as [|n IH]; intros [|y l] H; cbn in *; try contradiction; auto. Qed.

Lemma mem_slice c (s : str) a b : mem_z c (slice s a b) = true -> mem_z c s = true.
Proof.
  unfold slice, mem_z. destruct (_ <=? _); [discriminate|].
  rewrite !existsb_exists. intros [x [Hin E]]. exists x. split; [|exact E].
  eapply In_skipn, In_firstn, Hin.
Qed.

Lemma In_lstrip p (s : str) x : In x (lstrip_by p s) -> In x s.
Proof. induction s as [|c s IH]; cbn; intros H; [contradiction|]. destruct (p c); [right; apply IH, H | exact H]. Qed.

Lemma mem_strip c p (s : str) : mem_z c (strip_by p s) = true -> mem_z c s = true.
Proof.
  unfold strip_by, rstrip_by, mem_z. rewrite !existsb_exists. intros [x [Hin E]]. exists x. split; [|exact E].
  apply in_rev in Hin. apply In_lstrip in Hin. apply in_rev in Hin. apply In_lstrip in Hin. exact Hin.
Qed.

(* ---- C10: the table rule is inert on a source without a pipe --------------------------------
   whatever the state and mode, if it returns at all it returns (false, unchanged state) *)
Lemma get_line_mem st l x c : get_line st l = Ok x -> mem_z c x = true -> mem_z c (b_src st) = true.
Proof.
  unfold get_line. destruct (line_start st l); cbn [bind]; try discriminate.
  destruct (tb (b_eMarks st) l); cbn [bind]; try discriminate.
  intros H; injection H as <-. apply mem_slice.
Qed.

Theorem table_inert cfg term st startLine endLine silent r :
  mem_z 124 (b_src st) = false ->
  r_table cfg term st startLine endLine silent = Ok r -> r = (false, st).
Proof.
  intros NP H. unfold r_table in H.
  Ltac step H :=
    match type of H with
    | (if ?b then _ else _) = _ => destruct b; try (injection H as <-; reflexivity)
    | bind ?m _ = _ => let E := fresh "E" in destruct m eqn:E; cbn [bind] in H; try discriminate
    | match table_aligns ?a ?b ?c with _ => _ end = _ => destruct (table_aligns a b c); try (injection H as <-; reflexivity)
    end.
  repeat (lazymatch type of H with
          | bind (get_line _ startLine) _ = _ => fail
          | _ => step H
          end).
  destruct (get_line st startLine) as [hraw|e|] eqn:G; cbn [bind] in H; try discriminate.
  (* the header line contains no pipe *)
  assert (M : mem_z 124 (py_strip hraw) = false).
  { destruct (mem_z 124 (py_strip hraw)) eqn:Q; [|reflexivity].
    apply mem_strip in Q. rewrite (get_line_mem _ _ _ _ G Q) in NP. discriminate. }
  rewrite M in H. cbn [negb] in H. injection H as <-. reflexivity.
Qed.

(* ---- C16: what the reference rule does to env ------------------------------------------------ *)

Definition env_refs (e : envt) : list (str * refrec) := match e_refs e with Some r => r | None => [] end.
Definition env_dups (e : envt) : list (str * refrec) := match e_dups e with Some r => r | None => [] end.

(* a terminator chain that does not touch env (true of the built-in silent rules) *)
Definition term_keeps_env (term : term_t) : Prop :=
  forall chain s l e r s', term chain s l e = Ok (r, s') -> b_env s' = b_env s.

Lemma para_scan_env : forall fuel tm chain st nl el cu r u st',
  term_keeps_env tm -> para_scan fuel tm chain st nl el cu = Ok (r, u, st') -> b_env st' = b_env st.
Proof.
  induction fuel as [|f IH]; intros tm chain st nl el cu r u st' HT H; [discriminate|].
  cbn [para_scan] in H.
  repeat match type of H with
  | (if ?b then _ else _) = _ => destruct b
  | bind ?m _ = _ => let E := fresh "E" in destruct m as [?|?|] eqn:E; cbn [bind] in H; try discriminate
  | match ?o with Some _ => _ | None => _ end = _ => destruct o
  | (let '(_, _) := ?p in _) = _ => destruct p
  end; try (injection H as <- <- <-; reflexivity); try (eapply IH; eassumption).
  all: try match goal with
       | HT' : term_keeps_env ?t, Et : ?t _ _ _ _ = Ok (_, ?s1), H' : _ = Ok _ |- _ =>
           first [ injection H' as <- <- <-; eapply HT'; eassumption
                 | apply IH in H'; [rewrite H'; eapply HT'; eassumption | exact HT'] ]
       end.
Qed.

(* C16: a reference call that does not succeed, or is silent, leaves env unchanged; a successful
   non-silent call records exactly one definition, with the map of its own lines: as a new entry
   when the label is absent, as a duplicate when present; nothing is overwritten or removed *)
Theorem reference_env cfg rf cf tm st startLine endLine silent b st' :
  term_keeps_env tm ->
  r_reference cfg rf cf tm st startLine endLine silent = Ok (b, st') ->
  (b = false \/ silent = true -> b_env st' = b_env st)
  /\ (b = true -> silent = false ->
      exists label rec,
        r_map rec = (startLine, b_line st') /\
        ((alookup label (env_refs (b_env st)) = None
          /\ e_refs (b_env st') = Some (env_refs (b_env st) ++ [(label, rec)])
          /\ e_dups (b_env st') = e_dups (b_env st))
         \/ (alookup label (env_refs (b_env st)) <> None
             /\ e_refs (b_env st') = Some (env_refs (b_env st))
             /\ e_dups (b_env st') = Some (env_dups (b_env st) ++ [(label, rec)])))).
Proof.
  intros HT H. unfold r_reference in H.
  (* up to the paragraph-like scan *)
  repeat (lazymatch type of H with
          | bind (para_scan _ _ _ _ _ _ _) _ = _ => fail
          | (if ?c then _ else _) = _ => destruct c; [try (injection H as <- <-; split; [reflexivity | intros; discriminate])|]
          | bind ?m _ = _ => destruct m as [?|?|]; cbn [bind] in H; try discriminate
          end).
  all: try (injection H as <- <-; split; [reflexivity | intros; discriminate]).
  destruct (para_scan _ _ _ _ _ _ _) as [[[nextLine u] st1]|e|] eqn:PS; cbn [bind] in H; try discriminate.
  assert (E1 : b_env st1 = b_env st).
  { apply para_scan_env in PS; [exact PS | exact HT]. }
  destruct (get_lines st1 startLine nextLine (b_blkIndent st1) false) as [raw|e|]; cbn [bind] in H; try discriminate.
  cbv zeta in H.
  (* every early exit returns (false, st1) *)
  repeat (lazymatch type of H with
          | (if silent then _ else _) = _ => fail
          | (if ?c then _ else _) = _ => destruct c; [try (injection H as <- <-; split; [intros; exact E1 | intros; discriminate])|]
          | match ?o with Some _ => _ | None => _ end = _ => destruct o; try (injection H as <- <-; split; [intros; exact E1 | intros; discriminate])
          | (let '(_, _) := ?p in _) = _ => destruct p
          end).
  all: try (injection H as <- <-; split; [intros; exact E1 | intros; discriminate]).
  destruct silent.
  - injection H as <- <-. split; [intros; exact E1 | intros; discriminate].
  - injection H as <- <-. split; [intros [?|?]; discriminate|]. intros _ _.
    cbn. rewrite E1.
    match goal with |- context [alookup ?lab _] => set (label := lab) end.
    destruct (c_inline_defs cfg); cbn.
    all: eexists label, (mkRef _ _ (_, _)); (split; [reflexivity|]).
    all: unfold env_refs, env_dups.
    all: destruct (e_refs (b_env st)) as [refs|] eqn:ER; cbn; rewrite ?ER; cbn.
    all: try (destruct (alookup label refs) eqn:AL; cbn; rewrite ?AL; cbn).
    all: first [ right; split; [discriminate|]; split; reflexivity
               | left; split; [reflexivity|]; split; reflexivity ].
Qed.
