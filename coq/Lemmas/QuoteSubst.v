(* C19: smartquotes only substitutes straight quote characters, in place.  Every change
   process_inlines makes to the content of a token is a replacement of ONE character that is
   a straight single or double quote at that moment by one of the configured quote strings or by the apostrophe; nothing else
   of any content changes.  The invariant: the positions remembered on the stack of unmatched
   openers stay valid - every replacement happens to the right of all of them. *)
From RecordUpdate Require Import RecordUpdate.
From MD Require Import Base.Py Base.Str Base.Regex Base.Opt Model.Token Model.Utils Model.StateBlock Model.Render Model.Core
     Lemmas.StrLemmas Lemmas.StrLemmas2 Lemmas.LfCount Lemmas.CoreLemmas.
From Coq Require Import ZifyBool Sorted.

Local Arguments Z.eqb : simpl never.
Local Arguments Z.ltb : simpl never.
Local Arguments Z.leb : simpl never.
Local Arguments str_eqb : simpl never.

Definition is_q (c : Z) : bool := (c =? 39) || (c =? 34).

(* ---- replace_at on a position inside the string ---- *)
Lemma replace_at_eq (s : str) q x : 0 <= q < len s ->
  replace_at s q x = firstn (Z.to_nat q) s ++ x ++ skipn (S (Z.to_nat q)) s.
Proof.
  intros H. unfold replace_at, slice_from. rewrite !slice_nonneg by lia.
  pose proof (len_nonneg s) as LN.
  replace (Z.min q (len s)) with q by lia. replace (Z.min 0 (len s)) with 0 by lia.
  replace (Z.min (len s) (len s)) with (len s) by lia. replace (Z.min (q + 1) (len s)) with (q + 1) by lia.
  change (Z.to_nat 0) with 0%nat. cbn [skipn]. rewrite Z.sub_0_r.
  replace (Z.to_nat (q + 1)) with (S (Z.to_nat q)) by lia.
  assert (A : (if q <=? 0 then [] else firstn (Z.to_nat q) s) = firstn (Z.to_nat q) s).
  { destruct (q <=? 0) eqn:Q0; [|reflexivity]. assert (q = 0) by lia. subst q. reflexivity. }
  assert (B : (if len s <=? q + 1 then [] else firstn (Z.to_nat (len s - (q + 1))) (skipn (S (Z.to_nat q)) s)) = skipn (S (Z.to_nat q)) s).
  { destruct (len s <=? q + 1) eqn:L1.
    - rewrite skipn_all2; [reflexivity|]. unfold len in *. lia.
    - rewrite firstn_all2; [reflexivity|]. rewrite skipn_length. unfold len in *. lia. }
  rewrite A, B. reflexivity.
Qed.

Lemma char_at_lt (s : str) p c : char_at s p = Some c -> 0 <= p -> p < len s.
Proof.
  intros E H. rewrite char_at_nonneg in E by lia.
  assert (X : nth_error s (Z.to_nat p) <> None) by congruence. apply nth_error_Some in X. unfold len. lia.
Qed.

Lemma nth_firstn {A} : forall (n k : nat) (l : list A), (k < n)%nat -> nth_error (firstn n l) k = nth_error l k.
Proof. induction n as [|n IH]; intros k l H; [lia|]. destruct l as [|a l]; [destruct k; reflexivity|]. destruct k as [|k]; [reflexivity|]. cbn. apply IH. lia. Qed.
Lemma nth_skipn {A} : forall (n k : nat) (l : list A), nth_error (skipn n l) k = nth_error l (n + k).
Proof. induction n as [|n IH]; intros k l; [reflexivity|]. destruct l as [|a l]; [destruct k; reflexivity|]. cbn. apply IH. Qed.

(* positions to the left of the replaced one are not touched *)
Lemma replace_at_before (s : str) q x p : 0 <= p -> p < q -> q < len s ->
  char_at (replace_at s q x) p = char_at s p.
Proof.
  intros H0 H1 H2. rewrite replace_at_eq by lia. rewrite !char_at_nonneg by lia.
  rewrite nth_error_app1 by (rewrite firstn_length; unfold len in *; lia).
  apply nth_firstn. lia.
Qed.

(* a one-character replacement keeps the length and every other position *)
Lemma replace_at_1_len (s : str) q c : 0 <= q < len s -> len (replace_at s q [c]) = len s.
Proof.
  intros H. rewrite replace_at_eq by lia. rewrite !len_app. unfold len in *. rewrite firstn_length, skipn_length. cbn [length]. lia.
Qed.
Lemma replace_at_1_after (s : str) q c p : 0 <= q < len s -> q < p ->
  char_at (replace_at s q [c]) p = char_at s p.
Proof.
  intros H0 H1. rewrite replace_at_eq by lia. rewrite !char_at_nonneg by lia.
  rewrite nth_error_app2 by (rewrite firstn_length; unfold len in *; lia).
  rewrite firstn_length. replace (Init.Nat.min (Z.to_nat q) (length s)) with (Z.to_nat q) by (unfold len in *; lia).
  destruct (Z.to_nat p - Z.to_nat q)%nat as [|k] eqn:K; [lia|]. cbn [app nth_error].
  rewrite nth_skipn. f_equal. lia.
Qed.

(* ---- the quote search ---- *)
Lemma find_quote_aux_spec : forall s i q, find_quote_aux s i = Some q ->
  i <= q /\ exists c, nth_error s (Z.to_nat (q - i)) = Some c /\ is_q c = true.
Proof.
  induction s as [|c s IH]; intros i q H; cbn [find_quote_aux] in H; [discriminate|].
  destruct ((c =? 39) || (c =? 34)) eqn:E.
  - injection H as <-. split; [lia|]. exists c. rewrite Z.sub_diag. split; [reflexivity | exact E].
  - apply IH in H. destruct H as [L (c' & N & Q)]. split; [lia|]. exists c'. split; [|exact Q].
    replace (Z.to_nat (q - i)) with (S (Z.to_nat (q - (i + 1)))) by lia. exact N.
Qed.
Lemma find_quote_spec text pos q : find_quote text pos = Some q -> 0 <= pos ->
  pos <= q /\ exists c, char_at text q = Some c /\ is_q c = true.
Proof.
  unfold find_quote. intros H Hp. apply find_quote_aux_spec in H. destruct H as [L (c & N & Q)].
  split; [exact L|]. exists c. split; [|exact Q]. rewrite char_at_nonneg by lia. rewrite nth_skipn in N.
  replace (Z.to_nat q) with (Z.to_nat pos + Z.to_nat (q - pos))%nat by lia. exact N.
Qed.

(* ---- contents after an update ---- *)
Lemma content_set tokens i c j :
  content_at (set_content_at tokens i c) j = if Nat.eqb i j && Nat.ltb j (length tokens) then c else content_at tokens j.
Proof.
  unfold content_at, set_content_at. rewrite nth_error_update_nth.
  destruct (Nat.eqb i j) eqn:E; cbn [andb].
  - destruct (nth_error tokens j) eqn:N; cbn [option_map].
    + assert (X : (j < length tokens)%nat) by (apply nth_error_Some; congruence). apply Nat.ltb_lt in X. rewrite X. reflexivity.
    + apply nth_error_None in N. assert (X : Nat.ltb j (length tokens) = false) by (apply Nat.ltb_ge; exact N). rewrite X. reflexivity.
  - reflexivity.
Qed.
Lemma set_content_at_length tokens i c : length (set_content_at tokens i c) = length tokens.
Proof. apply update_nth_length. Qed.

Section Q.
Context (quotes : list str).

(* what a quote character may be replaced by *)
Definition qrepl (x : str) : Prop := x = s_apostrophe \/ exists k, x = nth k quotes [].

(* b is a with some straight quote characters replaced, one at a time and in place *)
Inductive qs : str -> str -> Prop :=
| qs_refl a : qs a a
| qs_step a b p c x : qs a b -> 0 <= p -> char_at b p = Some c -> is_q c = true -> qrepl x -> qs a (replace_at b p x).

Lemma qs_trans a b c : qs a b -> qs b c -> qs a c.
Proof. intros H1 H2. induction H2 as [|b' c' p ch x H IH Hp Hc Hq Hx]; [exact H1|]. eapply qs_step; eauto. Qed.

Definition QS (t t' : list token) : Prop := forall j, qs (content_at t j) (content_at t' j).
Lemma QS_refl t : QS t t. Proof. intros j. apply qs_refl. Qed.
Lemma QS_trans a b c : QS a b -> QS b c -> QS a c.
Proof. intros H1 H2 j. exact (qs_trans _ _ _ (H1 j) (H2 j)). Qed.

Lemma QS_set tokens i q c x : 0 <= q -> char_at (content_at tokens i) q = Some c -> is_q c = true -> qrepl x ->
  QS tokens (set_content_at tokens i (replace_at (content_at tokens i) q x)).
Proof.
  intros Hq Hc Hi Hx j. rewrite content_set.
  destruct (Nat.eqb i j && Nat.ltb j (length tokens)) eqn:E; [|apply qs_refl].
  apply Bool.andb_true_iff in E. destruct E as [E _]. apply Nat.eqb_eq in E. subst j.
  eapply qs_step; [apply qs_refl | exact Hq | exact Hc | exact Hi | exact Hx].
Qed.

(* ---- the stack of unmatched openers ---- *)
Definition qat (tokens : list token) (j : nat) (p : Z) : Prop :=
  0 <= p /\ exists c, char_at (content_at tokens j) p = Some c /\ is_q c = true.
Definition below (j : nat) (p : Z) (j' : nat) (p' : Z) : Prop := (j < j')%nat \/ (j = j' /\ p < p').
Lemma below_trans j p j1 p1 j2 p2 : below j p j1 p1 -> below j1 p1 j2 p2 -> below j p j2 p2.
Proof. unfold below. intros [A|[A B]] [C|[C D]]; subst; try (left; lia). right. split; [reflexivity | lia]. Qed.
Lemma below_le j p j' p' p'' : below j p j' p' -> p' <= p'' -> below j p j' p''.
Proof. unfold below. intros [A|[A B]] H; [left; exact A | right; split; [exact A | lia]]. Qed.

Definition SI (tokens : list token) (stack : list sq_item) (bi : nat) (bp : Z) : Prop :=
  Forall (fun it => qat tokens (sq_token it) (sq_pos it)) stack
  /\ StronglySorted (fun top lower => below (sq_token lower) (sq_pos lower) (sq_token top) (sq_pos top)) stack
  /\ Forall (fun it => below (sq_token it) (sq_pos it) bi bp) stack.

(* a replacement strictly to the right of (j, p) does not disturb the quote at (j, p) *)
Lemma qat_set tokens j p j' q x : qat tokens j p -> below j p j' q -> q < len (content_at tokens j') ->
  qat (set_content_at tokens j' (replace_at (content_at tokens j') q x)) j p.
Proof.
  intros (P0 & c & Hc & Hq) B L. split; [exact P0|]. exists c. split; [|exact Hq]. rewrite content_set.
  destruct (Nat.eqb j' j && Nat.ltb j (length tokens)) eqn:E; [|exact Hc].
  apply Bool.andb_true_iff in E. destruct E as [E _]. apply Nat.eqb_eq in E. subst j'.
  destruct B as [B|[_ B]]; [lia|]. rewrite replace_at_before by lia. exact Hc.
Qed.

Lemma SI_set tokens stack bi bp j' q x : SI tokens stack bi bp ->
  Forall (fun it => below (sq_token it) (sq_pos it) j' q) stack -> q < len (content_at tokens j') ->
  SI (set_content_at tokens j' (replace_at (content_at tokens j') q x)) stack bi bp.
Proof.
  intros (A & B & C) F L. split; [|split; [exact B | exact C]].
  rewrite Forall_forall in *. intros it I. apply qat_set; [exact (A it I) | exact (F it I) | exact L].
Qed.

Lemma SI_bound tokens stack bi bp bi' bp' : SI tokens stack bi bp ->
  (forall j p, below j p bi bp -> below j p bi' bp') -> SI tokens stack bi' bp'.
Proof.
  intros (A & B & C) H. split; [exact A|]. split; [exact B|]. eapply Forall_impl; [|exact C]. intros it. apply H.
Qed.

Lemma truncate_suffix : forall stack lvl, exists pre, stack = pre ++ truncate_stack stack lvl.
Proof.
  induction stack as [|it rest IH]; intros lvl; cbn [truncate_stack]; [exists []; reflexivity|].
  destruct (sq_level it <=? lvl); [exists []; reflexivity|]. destruct (IH lvl) as [pre E]. exists (it :: pre). cbn. f_equal. exact E.
Qed.

Lemma SI_suffix tokens pre stack bi bp : SI tokens (pre ++ stack) bi bp -> SI tokens stack bi bp.
Proof.
  intros (A & B & C). apply Forall_app in A. apply Forall_app in C. split; [exact (proj2 A)|]. split; [|exact (proj2 C)].
  clear A C. induction pre as [|x pre IH]; [exact B|]. cbn in B. inversion B; subst. apply IH. assumption.
Qed.

Lemma SI_truncate tokens stack lvl bi bp : SI tokens stack bi bp -> SI tokens (truncate_stack stack lvl) bi bp.
Proof. intros H. destruct (truncate_suffix stack lvl) as [pre E]. rewrite E in H. exact (SI_suffix _ _ _ _ _ H). Qed.

(* the opener found: an element of the stack, everything kept lies below it *)
Lemma find_opener_split : forall stack lvl single it rest, find_opener stack lvl single = Some (it, rest) ->
  exists pre, stack = pre ++ it :: rest.
Proof.
  induction stack as [|x stack IH]; intros lvl single it rest H; cbn [find_opener] in H; [discriminate|].
  destruct (sq_level x <? lvl); [discriminate|].
  destruct (Bool.eqb (sq_single x) single && (sq_level x =? lvl)).
  - injection H as <- <-. exists []. reflexivity.
  - apply IH in H. destruct H as [pre E]. exists (x :: pre). cbn. f_equal. exact E.
Qed.

Lemma SI_opener tokens stack bi bp it rest pre : stack = pre ++ it :: rest -> SI tokens stack bi bp ->
  qat tokens (sq_token it) (sq_pos it) /\ below (sq_token it) (sq_pos it) bi bp
  /\ Forall (fun x => below (sq_token x) (sq_pos x) (sq_token it) (sq_pos it)) rest
  /\ SI tokens rest bi bp.
Proof.
  intros E H. rewrite E in H. apply SI_suffix in H. pose proof H as (A & B & C).
  inversion A as [|? ? A1 A2]; subst. inversion B as [|? ? B1 B2]; subst. inversion C as [|? ? C1 C2]; subst.
  split; [exact A1|]. split; [exact C1|]. split; [exact B2|].
  split; [exact A2|]. split; [exact B1 | exact C2].
Qed.

Lemma qrepl_nth k : qrepl (nth k quotes []).
Proof. right. exists k. reflexivity. Qed.
Lemma qrepl_apo : qrepl s_apostrophe.
Proof. left. reflexivity. Qed.

Lemma content_len_in tokens i p c : char_at (content_at tokens i) p = Some c -> 0 <= p -> (i < length tokens)%nat.
Proof.
  intros H Hp. unfold content_at in H. destruct (nth_error tokens i) eqn:N; [apply nth_error_Some; congruence|].
  rewrite char_at_nonneg in H by lia. destruct (Z.to_nat p); discriminate H.
Qed.

(* the while loop over one text token *)
Lemma sq_while_qs i lvl : forall fuel tokens stack text pos tokens' stack',
  SI tokens stack i pos -> 0 <= pos ->
  len text = len (content_at tokens i) -> (forall p, pos <= p -> char_at text p = char_at (content_at tokens i) p) ->
  sq_while fuel quotes i lvl tokens stack text pos = (tokens', stack') ->
  QS tokens tokens' /\ SI tokens' stack' (S i) 0.
Proof.
  assert (UP : forall tk st p, SI tk st i p -> SI tk st (S i) 0).
  { intros tk st p H. eapply SI_bound; [exact H|]. intros j q [B|[B _]]; left; lia. }
  induction fuel as [|fuel IH]; intros tokens stack text pos tokens' stack' HS P0 TL TX H; cbn [sq_while] in H.
  { injection H as <- <-. split; [apply QS_refl | exact (UP _ _ _ HS)]. }
  destruct (negb (pos <? len text)) eqn:PL; [injection H as <- <-; split; [apply QS_refl | exact (UP _ _ _ HS)]|].
  destruct (find_quote text pos) as [q|] eqn:FQ; [|injection H as <- <-; split; [apply QS_refl | exact (UP _ _ _ HS)]].
  destruct (find_quote_spec _ _ _ FQ P0) as (Lq & c & Cq & Qc).
  pose proof Cq as Cq'. rewrite (TX q Lq) in Cq'.
  assert (QL : q < len (content_at tokens i)) by (eapply char_at_lt; [exact Cq' | lia]).
  assert (BQ : Forall (fun it => below (sq_token it) (sq_pos it) i q) stack).
  { destruct HS as (_ & _ & C). eapply Forall_impl; [|exact C]. intros it B. exact (below_le _ _ _ _ _ B Lq). }
  (* the apostrophe step, used twice *)
  assert (APO : forall st0, SI tokens st0 i pos ->
            let tokens1 := set_content_at tokens i (replace_at (content_at tokens i) q s_apostrophe) in
            QS tokens tokens1 /\ SI tokens1 st0 i (q + 1)
            /\ len text = len (content_at tokens1 i) /\ (forall p, q + 1 <= p -> char_at text p = char_at (content_at tokens1 i) p)).
  { intros st0 HS0. cbv zeta. split; [apply (QS_set tokens i q c); [lia | exact Cq' | exact Qc | apply qrepl_apo]|].
    split.
    - eapply SI_bound; [apply SI_set; [exact HS0 | | exact QL]|].
      + destruct HS0 as (_ & _ & C). eapply Forall_impl; [|exact C]. intros it B. exact (below_le _ _ _ _ _ B Lq).
      + intros j p B. eapply below_le; [exact B | lia].
    - rewrite content_set. pose proof (content_len_in _ _ _ _ Cq' ltac:(lia)) as IL. apply Nat.ltb_lt in IL.
      rewrite Nat.eqb_refl, IL. cbn [andb]. unfold s_apostrophe. split.
      + rewrite replace_at_1_len by lia. exact TL.
      + intros p Hp. rewrite replace_at_1_after by lia. apply TX. lia. }
  set (isSingle := match char_at text q with Some 39 => true | _ => false end) in H.
  match type of H with context [if negb ?co && negb ?cc then _ else _] => set (canOpen := co) in H; set (canClose := cc) in H end.
  destruct (negb canOpen && negb canClose).
  { destruct isSingle.
    - destruct (APO stack HS) as (A1 & A2 & A3 & A4). cbv zeta in *.
      apply IH in H; [|exact A2 | lia | exact A3 | exact A4]. destruct H as [B1 B2]. split; [exact (QS_trans _ _ _ A1 B1) | exact B2].
    - apply IH in H; [exact H | | lia | exact TL | intros p Hp; apply TX; lia].
      eapply SI_bound; [exact HS|]. intros j p B. eapply below_le; [exact B | lia]. }
  destruct (if canClose then find_opener stack lvl isSingle else None) as [[it rest]|] eqn:FO.
  - destruct canClose; [|discriminate].
    destruct (find_opener_split _ _ _ _ _ FO) as [pre ES].
    destruct (SI_opener _ _ _ _ _ _ _ ES HS) as (QI & BI & BR & SR).
    set (closeQ := nth (if isSingle then 3 else 1)%nat quotes []) in *.
    set (openQ := nth (if isSingle then 2 else 0)%nat quotes []) in *.
    set (tokens1 := set_content_at tokens i (replace_at (content_at tokens i) q closeQ)) in *.
    set (tokens2 := set_content_at tokens1 (sq_token it) (replace_at (content_at tokens1 (sq_token it)) (sq_pos it) openQ)) in *.
    assert (BIq : below (sq_token it) (sq_pos it) i q) by exact (below_le _ _ _ _ _ BI Lq).
    assert (Q1 : QS tokens tokens1) by (apply (QS_set tokens i q c); [lia | exact Cq' | exact Qc | apply qrepl_nth]).
    assert (QI1 : qat tokens1 (sq_token it) (sq_pos it)) by (apply qat_set; [exact QI | exact BIq | exact QL]).
    assert (SR1 : SI tokens1 rest i pos).
    { apply SI_set; [exact SR | | exact QL]. eapply Forall_impl; [|exact BR]. intros x B. exact (below_trans _ _ _ _ _ _ B BIq). }
    destruct QI1 as (PI0 & ci & Ci & Qi).
    assert (Q2 : QS tokens1 tokens2) by (apply (QS_set tokens1 (sq_token it) (sq_pos it) ci); [exact PI0 | exact Ci | exact Qi | apply qrepl_nth]).
    assert (SR2 : SI tokens2 rest i pos).
    { apply SI_set; [exact SR1 | exact BR | eapply char_at_lt; [exact Ci | exact PI0]]. }
    pose proof (len_nonneg closeQ) as LC. pose proof (len_nonneg openQ) as LO.
    apply IH in H.
    + destruct H as [B1 B2]. split; [exact (QS_trans _ _ _ Q1 (QS_trans _ _ _ Q2 B1)) | exact B2].
    + (* what stays on the stack lies below the opener, hence to the left of the new position *)
      destruct SR2 as (A & B & _). split; [exact A|]. split; [exact B|].
      eapply Forall_impl; [|exact BR]. intros x Bx.
      destruct BI as [BI|[BI1 BI2]].
      * destruct Bx as [Bx|[Bx1 Bx2]]; left; lia.
      * destruct Bx as [Bx|[Bx1 Bx2]]; [left; lia|]. right. split; [lia|].
        assert (E : Nat.eqb (sq_token it) i = true) by (apply Nat.eqb_eq; exact BI1). rewrite E. lia.
    + destruct BI as [BI|[BI1 BI2]].
      * assert (E : Nat.eqb (sq_token it) i = false) by (apply Nat.eqb_neq; lia). rewrite E. lia.
      * assert (E : Nat.eqb (sq_token it) i = true) by (apply Nat.eqb_eq; exact BI1). rewrite E. lia.
    + reflexivity.
    + intros p _. reflexivity.
  - destruct canOpen.
    + apply IH in H; [exact H | | lia | exact TL | intros p Hp; apply TX; lia].
      destruct HS as (A & B & C). split; [|split].
      * constructor; [|exact A]. cbn. split; [lia|]. exists c. split; [exact Cq' | exact Qc].
      * constructor; [exact B|]. exact BQ.
      * constructor; [cbn; right; split; [reflexivity | lia]|]. eapply Forall_impl; [|exact C]. intros x Bx. eapply below_le; [exact Bx | lia].
    + destruct (canClose && isSingle).
      * destruct (APO stack HS) as (A1 & A2 & A3 & A4). cbv zeta in *.
        apply IH in H; [|exact A2 | lia | exact A3 | exact A4]. destruct H as [B1 B2]. split; [exact (QS_trans _ _ _ A1 B1) | exact B2].
      * apply IH in H; [exact H | | lia | exact TL | intros p Hp; apply TX; lia].
        eapply SI_bound; [exact HS|]. intros j p B. eapply below_le; [exact B | lia].
Qed.

Lemma sq_tokens_qs : forall n i tokens stack inside,
  SI tokens stack i 0 -> QS tokens (sq_tokens n quotes i tokens stack inside).
Proof.
  induction n as [|n IH]; intros i tokens stack inside HS; cbn [sq_tokens]; [apply QS_refl|].
  destruct (nth_error tokens i) as [t|] eqn:N; [|apply QS_refl].
  assert (NX : forall st0, SI tokens st0 i 0 -> SI tokens st0 (S i) 0).
  { intros st0 H. eapply SI_bound; [exact H|]. intros j q [B|[B _]]; left; lia. }
  match goal with |- context [if negb (str_eqb (ttype t) s_text) || negb (?k =? 0) then _ else _] => set (ins := k) end.
  destruct (negb (str_eqb (ttype t) s_text) || negb (ins =? 0)).
  - apply IH, NX, SI_truncate, HS.
  - destruct (sq_while (S (length (tcontent t))) quotes i (tlevel t) tokens (truncate_stack stack (tlevel t)) (tcontent t) 0)
      as [tokens' stack'] eqn:W.
    assert (CE : content_at tokens i = tcontent t) by (unfold content_at; rewrite N; reflexivity).
    destruct (sq_while_qs i (tlevel t) _ _ _ _ _ _ _ (SI_truncate _ _ _ _ _ HS) ltac:(lia) ltac:(rewrite CE; reflexivity)
                ltac:(intros p _; rewrite CE; reflexivity) W) as [A B].
    exact (QS_trans _ _ _ A (IH _ _ _ _ B)).
Qed.

Theorem process_inlines_qs tokens : QS tokens (process_inlines quotes tokens).
Proof.
  unfold process_inlines. apply sq_tokens_qs. split; [constructor|]. split; constructor.
Qed.

End Q.

(* the rule itself: the children of every inline token change by quote substitutions only; every
   other token is returned as it is *)
Theorem smartquotes_inline_qs quotes t :
  match tchildren t, tchildren (smartquotes_inline quotes t) with
  | Some ch, Some ch' => QS quotes ch ch'
  | None, None => True
  | _, _ => False
  end.
Proof.
  unfold smartquotes_inline.
  destruct (negb (str_eqb (ttype t) s_inline) || negb (test Gen.Regexes.re_smartquotes_QUOTE_RE (tcontent t))).
  - destruct (tchildren t); [apply QS_refl | exact I].
  - destruct (tchildren t) as [ch|] eqn:E; [|rewrite E; exact I]. cbn. apply process_inlines_qs.
Qed.

Theorem smartquotes_qs b quotes : forall ts,
  Forall2 (fun t t' => match tchildren t, tchildren t' with
                       | Some ch, Some ch' => QS quotes ch ch' | None, None => True | _, _ => False end)
          ts (smartquotes b quotes ts).
Proof.
  unfold smartquotes. destruct b.
  - induction ts as [|t ts IH]; cbn [map]; constructor; [apply smartquotes_inline_qs | exact IH].
  - induction ts as [|t ts IH]; constructor; [destruct (tchildren t); [apply QS_refl | exact I] | exact IH].
Qed.
