(* C12 / C14: what an instance does depends only on its configuration proper
   ([strip]: options, rules, render rules) -- never on the state of the lazily
   compiled caches, hence never on which parses ran before -- and operations on
   one instance leave every other instance untouched. *)
From MD Require Import Base.Py Base.Opt Model.Ruler Model.Instance Model.World
     Lemmas.RulerCoherent Lemmas.RulerSets Lemmas.InstanceLemmas.

Local Arguments restore : simpl never.
Local Arguments md_toggle : simpl never.
Local Arguments active4 : simpl never.
Local Arguments configure : simpl never.

(* ---- ruler level: a step commutes with dropping the cache ---------------- *)

Lemma drop_coherent {F} (r : ruler F) : Coherent (drop_cache r).
Proof. exact I. Qed.

Lemma toggle_drop {F} v names ign (r : ruler F) :
  toggle v names ign (drop_cache r) = toggle v names ign r.
Proof. reflexivity. Qed.

Lemma step_drop {F} (r : ruler F) (o : op F) :
  Coherent r ->
  drop_cache (fst (step r o)) = drop_cache (fst (step (drop_cache r) o))
  /\ snd (step r o) = snd (step (drop_cache r) o).
Proof.
  intros H. destruct o; simpl;
    try (destruct (find (rules r) _); simpl; split; reflexivity);
    try (split; reflexivity).
  - (* getRules *)
    pose proof (get_rules_spec r chain H) as A.
    pose proof (get_rules_rules r chain) as C.
    destruct (get_rules r chain) as [r1 l1]. simpl in *. split.
    + unfold drop_cache. rewrite C. reflexivity.
    + rewrite A, compile_correct. unfold compile_chain, active. rewrite filter_filter_and. reflexivity.
Qed.

(* ---- instance level ------------------------------------------------------ *)

Lemma strip_coherent i : ICoherent (strip i).
Proof. unfold ICoherent, strip; simpl. repeat split; exact I. Qed.

Lemma strip_idem i : strip (strip i) = strip i.
Proof. reflexivity. Qed.

Lemma strip_get_chain i c : get_chain (strip i) c = drop_cache (get_chain i c).
Proof. destruct c as [|[p|p|]|]; try reflexivity; destruct p; reflexivity. Qed.

Lemma strip_set_chain i c r : strip (set_chain i c r) = set_chain (strip i) c (drop_cache r).
Proof. destruct c as [|[p|p|]|]; try reflexivity; destruct p; reflexivity. Qed.

Lemma set_chain_drop_eq i1 i2 c r1 r2 :
  strip i1 = strip i2 -> drop_cache r1 = drop_cache r2 ->
  strip (set_chain i1 c r1) = strip (set_chain i2 c r2).
Proof. intros A B. rewrite !strip_set_chain, A, B. reflexivity. Qed.

(* two instances with the same configuration proper, caches coherent *)
Definition Sim (a b : inst) : Prop := strip a = strip b /\ ICoherent a /\ ICoherent b.

Lemma mkSim a b : strip a = strip b -> ICoherent a -> ICoherent b -> Sim a b.
Proof. intros; split; [|split]; assumption. Qed.

Lemma sim_refl_strip i : ICoherent i -> Sim i (strip i).
Proof. intros H; apply mkSim; [reflexivity | exact H | apply strip_coherent]. Qed.

Lemma sim_chain a b c : Sim a b -> drop_cache (get_chain a c) = drop_cache (get_chain b c).
Proof. intros [E _]. rewrite <- !strip_get_chain, E. reflexivity. Qed.

Lemma drop_eq_rules {F} (r1 r2 : ruler F) : drop_cache r1 = drop_cache r2 -> rules r1 = rules r2.
Proof. unfold drop_cache; intros H; injection H; auto. Qed.

Lemma step_sim {F} (r1 r2 : ruler F) (o : op F) :
  Coherent r1 -> Coherent r2 -> drop_cache r1 = drop_cache r2 ->
  drop_cache (fst (step r1 o)) = drop_cache (fst (step r2 o)) /\ snd (step r1 o) = snd (step r2 o).
Proof.
  intros H1 H2 E.
  destruct (step_drop r1 o H1) as [A1 B1]. destruct (step_drop r2 o H2) as [A2 B2].
  rewrite A1, A2, B1, B2, E. split; reflexivity.
Qed.

Lemma toggle_sim {F} v names ign (r1 r2 : ruler F) :
  drop_cache r1 = drop_cache r2 -> toggle v names ign r1 = toggle v names ign r2.
Proof. intros E. unfold toggle. rewrite (drop_eq_rules _ _ E). reflexivity. Qed.

Lemma sim_opts a b : Sim a b -> i_opts a = i_opts b.
Proof. intros [E _]. unfold strip in E. injection E; auto. Qed.

Lemma sim_render a b : Sim a b -> i_render a = i_render b.
Proof. intros [E _]. unfold strip in E. injection E; auto. Qed.

Lemma sim_fields a b : Sim a b ->
  drop_cache (i_core a) = drop_cache (i_core b) /\ drop_cache (i_block a) = drop_cache (i_block b)
  /\ drop_cache (i_inline a) = drop_cache (i_inline b) /\ drop_cache (i_inline2 a) = drop_cache (i_inline2 b).
Proof. intros [E _]. unfold strip in E. injection E; intros; repeat split; unfold drop_cache; congruence. Qed.

Definition RSim (x y : inst * res mout) : Prop := Sim (fst x) (fst y) /\ snd x = snd y.

Lemma md_toggle_sim v names ign a b : Sim a b -> RSim (md_toggle v names ign a) (md_toggle v names ign b).
Proof.
  intros S. destruct (sim_fields a b S) as [E0 [E1 [E2 E3]]].
  pose proof (sim_opts a b S) as EO. pose proof (sim_render a b S) as ER.
  pose proof (md_toggle_coherent v names ign a) as Ca.
  pose proof (md_toggle_coherent v names ign b) as Cb.
  unfold md_toggle in *.
  rewrite (toggle_sim v names true _ _ E0), (toggle_sim v names true _ _ E1),
          (toggle_sim v names true _ _ E2), (toggle_sim v names true _ _ E3), EO, ER in *.
  destruct (toggle v names true (i_core b)), (toggle v names true (i_block b)),
           (toggle v names true (i_inline b)), (toggle v names true (i_inline2 b)).
  split; [|reflexivity]. simpl. apply mkSim; [reflexivity|assumption|assumption].
Qed.

Lemma enable_only_chain_sim a b c names :
  Sim a b -> RSim (enable_only_chain a c names) (enable_only_chain b c names).
Proof.
  intros S. destruct S as [E [Ca Cb]].
  pose proof (enable_only_chain_coherent a c names Ca) as Ka.
  pose proof (enable_only_chain_coherent b c names Cb) as Kb.
  unfold enable_only_chain in *.
  destruct (step_sim (get_chain a c) (get_chain b c) (OpEnableOnly names false)
              (get_chain_coherent a c Ca) (get_chain_coherent b c Cb)
              (sim_chain a b c (conj E (conj Ca Cb)))) as [A B].
  destruct (step (get_chain a c) (OpEnableOnly names false)) as [ra xa].
  destruct (step (get_chain b c) (OpEnableOnly names false)) as [rb xb].
  simpl in *. subst xb. split; [|reflexivity]. simpl.
  apply mkSim; try assumption. apply set_chain_drop_eq; assumption.
Qed.

Lemma configure_components_sim comps : forall a b,
  Sim a b -> RSim (configure_components comps a) (configure_components comps b).
Proof.
  induction comps as [|[name [rules rules2]] rest IH]; intros a b S; simpl.
  - split; [exact S | reflexivity].
  - set (a1 := match rules with
               | Some (x :: l) => match chain_of_name name with
                                  | None => (a, Raise KeyError)
                                  | Some c => enable_only_chain a c (x :: l) end
               | _ => (a, Ok MONone) end).
    set (b1 := match rules with
               | Some (x :: l) => match chain_of_name name with
                                  | None => (b, Raise KeyError)
                                  | Some c => enable_only_chain b c (x :: l) end
               | _ => (b, Ok MONone) end).
    assert (R1 : RSim a1 b1).
    { subst a1 b1. destruct rules as [[|x l]|]; try (split; [exact S | reflexivity]).
      destruct (chain_of_name name); [apply enable_only_chain_sim, S | split; [exact S | reflexivity]]. }
    destruct a1 as [ia [oa|ea|]], b1 as [ib [ob|eb|]]; destruct R1 as [S1 E1]; simpl in *;
      try discriminate; try (split; [exact S1 | exact E1]).
    set (a2 := match rules2 with
               | Some (x :: l) => match chain_of_name name with
                                  | None => (ia, Raise KeyError)
                                  | Some 2 => enable_only_chain ia 3 (x :: l)
                                  | Some _ => (ia, Raise AttributeError) end
               | _ => (ia, Ok MONone) end).
    set (b2 := match rules2 with
               | Some (x :: l) => match chain_of_name name with
                                  | None => (ib, Raise KeyError)
                                  | Some 2 => enable_only_chain ib 3 (x :: l)
                                  | Some _ => (ib, Raise AttributeError) end
               | _ => (ib, Ok MONone) end).
    assert (R2 : RSim a2 b2).
    { subst a2 b2. destruct rules2 as [[|x l]|]; try (split; [exact S1 | reflexivity]).
      destruct (chain_of_name name) as [[|[p|p|]|]|]; try (split; [exact S1 | reflexivity]);
        destruct p; try (split; [exact S1 | reflexivity]); apply enable_only_chain_sim, S1. }
    destruct a2 as [ja [pa|fa|]], b2 as [jb [pb|fb|]]; destruct R2 as [S2 E2]; simpl in *;
      try discriminate; try (split; [exact S2 | exact E2]).
    apply IH, S2.
Qed.

Lemma set_opts_sim a b o : Sim a b -> Sim (set_opts a o) (set_opts b o).
Proof.
  intros S. destruct (sim_fields a b S) as [E0 [E1 [E2 E3]]].
  pose proof (sim_render a b S) as ER. destruct S as [_ [Ca Cb]].
  apply mkSim; try exact Ca; try exact Cb.
  unfold strip, set_opts; simpl. rewrite E0, E1, E2, E3, ER. reflexivity.
Qed.

Lemma set_render_sim a b m : Sim a b -> Sim (set_render a m) (set_render b m).
Proof.
  intros S. destruct (sim_fields a b S) as [E0 [E1 [E2 E3]]].
  pose proof (sim_opts a b S) as EO. destruct S as [_ [Ca Cb]].
  apply mkSim; try exact Ca; try exact Cb.
  unfold strip, set_render; simpl. rewrite E0, E1, E2, E3, EO. reflexivity.
Qed.

Lemma configure_sim p u a b : Sim a b -> RSim (configure p u a) (configure p u b).
Proof.
  intros S. unfold configure. destruct p; [|split; [exact S | reflexivity]].
  apply configure_components_sim, set_opts_sim, S.
Qed.

Lemma active4_sim a b : Sim a b -> active4 a = active4 b.
Proof.
  intros S. destruct (sim_fields a b S) as [E0 [E1 [E2 E3]]].
  unfold active4, active_names, active.
  rewrite (drop_eq_rules _ _ E0), (drop_eq_rules _ _ E1), (drop_eq_rules _ _ E2), (drop_eq_rules _ _ E3).
  reflexivity.
Qed.

Lemma restore_sim snap a b : Sim a b -> RSim (restore snap a) (restore snap b).
Proof.
  intros S. unfold restore. destruct snap; try (split; [exact S | reflexivity]).
  pose proof (enable_only_chain_sim a b 0 core S) as R0.
  destruct (enable_only_chain a 0 core) as [xa0 [?|?|]], (enable_only_chain b 0 core) as [xb0 [?|?|]];
    destruct R0 as [S0 E0]; simpl in *; try discriminate; try (split; [exact S0 | exact E0]).
  pose proof (enable_only_chain_sim xa0 xb0 1 block S0) as R1.
  destruct (enable_only_chain xa0 1 block) as [xa1 [?|?|]], (enable_only_chain xb0 1 block) as [xb1 [?|?|]];
    destruct R1 as [S1 E1]; simpl in *; try discriminate; try (split; [exact S1 | exact E1]).
  pose proof (enable_only_chain_sim xa1 xb1 2 inline S1) as R2.
  destruct (enable_only_chain xa1 2 inline) as [xa2 [?|?|]], (enable_only_chain xb1 2 inline) as [xb2 [?|?|]];
    destruct R2 as [S2 E2]; simpl in *; try discriminate; try (split; [exact S2 | exact E2]).
  apply enable_only_chain_sim, S2.
Qed.

Theorem mstep_sim fin (o : mop) : forall a b, Sim a b -> RSim (mstep fin a o) (mstep fin b o).
Proof.
  induction o as [| | c o| p u| | | n f b0| | | |body r HF] using mop_ind'; intros a b S; simpl.
  - apply md_toggle_sim, S.
  - apply md_toggle_sim, S.
  - destruct S as [E [Ca Cb]].
    destruct (step_sim (get_chain a c) (get_chain b c) o (get_chain_coherent a c Ca)
                (get_chain_coherent b c Cb) (sim_chain a b c (conj E (conj Ca Cb)))) as [A B].
    pose proof (step_coherent (get_chain a c) o (get_chain_coherent a c Ca)) as Ka.
    pose proof (step_coherent (get_chain b c) o (get_chain_coherent b c Cb)) as Kb.
    destruct (step (get_chain a c) o) as [ra xa], (step (get_chain b c) o) as [rb xb]. simpl in *.
    subst xb. split; [|reflexivity]. simpl. apply mkSim.
    + apply set_chain_drop_eq; assumption.
    + apply get_set_chain_coherent; assumption.
    + apply get_set_chain_coherent; assumption.
  - apply configure_sim, S.
  - split; [|reflexivity]. simpl. rewrite (sim_opts a b S). apply set_opts_sim, S.
  - split; [apply set_opts_sim, S | reflexivity].
  - split; [|reflexivity]. simpl. destruct b0; [|exact S].
    rewrite (sim_render a b S). apply set_render_sim, S.
  - split; [exact S|]. simpl. rewrite (active4_sim a b S). reflexivity.
  - split; [exact S|]. simpl. destruct (sim_fields a b S) as [E0 [E1 [E2 E3]]].
    unfold all_names.
    rewrite (drop_eq_rules _ _ E0), (drop_eq_rules _ _ E1), (drop_eq_rules _ _ E2), (drop_eq_rules _ _ E3).
    reflexivity.
  - split; [exact S|]. simpl. rewrite (sim_opts a b S). reflexivity.
  - (* MReset *)
    set (go := fix go (ops : list mop) (i : inst) {struct ops} : inst * res mout :=
           match ops with
           | [] => (i, match r with Some n => Raise (UserExn n) | None => Ok MONone end)
           | o :: ops' => match mstep fin i o with
                          | (i', Ok _) => go ops' i'
                          | bad => bad end
           end).
    assert (G : forall ops x y,
               Forall (fun o => forall a b, Sim a b -> RSim (mstep fin a o) (mstep fin b o)) ops ->
               Sim x y -> RSim (go ops x) (go ops y)).
    { induction ops as [|o1 ops IHo]; intros x y Hf Hs; simpl.
      - split; [exact Hs | reflexivity].
      - inversion Hf as [|? ? Hx Hr]; subst. specialize (Hx x y Hs).
        destruct (mstep fin x o1) as [x' [?|?|]], (mstep fin y o1) as [y' [?|?|]];
          destruct Hx as [Sx Ex]; simpl in *; try discriminate; try (split; [exact Sx | exact Ex]).
        apply IHo; assumption. }
    specialize (G body a b HF S). rewrite (active4_sim a b S).
    destruct (go body a) as [a' [?|?|]], (go body b) as [b' [?|?|]];
      destruct G as [S' E']; simpl in *; try discriminate.
    + apply restore_sim, S'.
    + destruct fin; [|split; [exact S' | exact E']].
      pose proof (restore_sim (active4 b) a' b' S') as R.
      destruct (restore (active4 b) a') as [a'' [?|?|]], (restore (active4 b) b') as [b'' [?|?|]];
        destruct R as [S'' E'']; simpl in *; try discriminate; split; try exact S''; try exact E'; try exact E''.
    + destruct fin; [|split; [exact S' | exact E']].
      pose proof (restore_sim (active4 b) a' b' S') as R.
      destruct (restore (active4 b) a') as [a'' [?|?|]], (restore (active4 b) b') as [b'' [?|?|]];
        destruct R as [S'' E'']; simpl in *; try discriminate; split; try exact S''; try exact E'; try exact E''.
Qed.

Lemma strip_set_same x k (r : ruler Z) :
  rules r = rules (get_chain x k) -> strip (set_chain x k r) = strip x.
Proof.
  intros E. destruct k as [|[p|p|]|]; unfold strip, set_chain, get_chain, drop_cache in *; simpl in *;
    try (rewrite E; reflexivity); destruct p; simpl in *; rewrite E; reflexivity.
Qed.

(* ---- parses are inert ------------------------------------------------------ *)

Lemma parse_touch_sim chains : forall i, ICoherent i -> Sim (parse_touch chains i) i.
Proof.
  induction chains as [|c cs IH]; intros i H; simpl.
  - apply mkSim; [reflexivity|exact H|exact H].
  - set (i0 := set_chain i 0 (fst (get_rules (i_core i) c))).
    set (i1 := set_chain i0 1 (fst (get_rules (i_block i0) c))).
    set (i2 := set_chain i1 2 (fst (get_rules (i_inline i1) c))).
    set (i3 := set_chain i2 3 (fst (get_rules (i_inline2 i2) c))).
    assert (T : forall (x : inst) (k : Z), ICoherent x ->
                Sim (set_chain x k (fst (get_rules (get_chain x k) c))) x).
    { intros x k Hx. apply mkSim; try exact Hx.
      - apply strip_set_same, get_rules_rules.
      - apply get_set_chain_coherent; [exact Hx|].
        apply get_rules_coherent, get_chain_coherent, Hx. }
    pose proof (T i 0 H) as S0. change (Sim i0 i) in S0.
    pose proof (T i0 1 (proj1 (proj2 S0))) as S1. change (Sim i1 i0) in S1.
    pose proof (T i1 2 (proj1 (proj2 S1))) as S2. change (Sim i2 i1) in S2.
    pose proof (T i2 3 (proj1 (proj2 S2))) as S3. change (Sim i3 i2) in S3.
    pose proof (IH i3 (proj1 (proj2 S3))) as S4.
    destruct S0 as [E0 [? ?]], S1 as [E1 [? ?]], S2 as [E2 [? ?]], S3 as [E3 [? ?]], S4 as [E4 [? ?]].
    apply mkSim; try assumption. change (strip (parse_touch cs i3) = strip i). rewrite E4, E3, E2, E1, E0; reflexivity.
Qed.

(* ---- world level --------------------------------------------------------- *)

Section WorldThms.
Context (bare : inst) (Hbare : ICoherent bare).

Definition WCoh (w : list inst) : Prop := Forall ICoherent w.
Definition WSim (w1 w2 : list inst) : Prop := Forall2 Sim w1 w2.

Lemma wsim_refl w : WCoh w -> WSim w w.
Proof.
  induction 1 as [|i w Hi Hw IH]; constructor; [|exact IH].
  apply mkSim; [reflexivity | exact Hi | exact Hi].
Qed.

Lemma wsim_coh_l w1 w2 : WSim w1 w2 -> WCoh w1.
Proof. induction 1 as [|a b w1 w2 [_ [Ha _]] _ IH]; constructor; assumption. Qed.

Lemma wsim_nth w1 w2 j : WSim w1 w2 ->
  match nth_error w1 j, nth_error w2 j with
  | Some a, Some b => Sim a b
  | None, None => True
  | _, _ => False
  end.
Proof.
  intros H; revert j; induction H as [|a b w1 w2 S _ IH]; intros [|j]; simpl; auto. apply IH.
Qed.

Lemma wsim_set_nth w1 w2 j a b : WSim w1 w2 -> Sim a b -> WSim (set_nth j a w1) (set_nth j b w2).
Proof.
  intros H S; revert j; induction H as [|x y w1 w2 Sxy Hw IH]; intros [|j]; simpl;
    try constructor; auto. apply IH.
Qed.

Lemma wsim_app w1 w2 a b : WSim w1 w2 -> Sim a b -> WSim (w1 ++ [a]) (w2 ++ [b]).
Proof. intros H S. apply Forall2_app; [exact H | constructor; [exact S | constructor]]. Qed.

Lemma mstep_coh_sim a o : ICoherent a -> ICoherent (fst (mstep true a o)).
Proof. apply mstep_coherent. Qed.

(* one step on two worlds with the same configurations proper *)
Theorem wstep_sim w1 w2 o : WSim w1 w2 ->
  WSim (fst (wstep bare w1 o)) (fst (wstep bare w2 o)) /\ snd (wstep bare w1 o) = snd (wstep bare w2 o).
Proof.
  intros H. destruct o as [p upd | j o | j chains]; simpl.
  - pose proof (configure_sim p upd bare bare (mkSim _ _ eq_refl Hbare Hbare)) as [S E].
    destruct (configure p upd bare) as [i [r|e|]] eqn:C; simpl in *.
    + split; [apply wsim_app; assumption | reflexivity].
    + split; [exact H | reflexivity].
    + split; [exact H | reflexivity].
  - pose proof (wsim_nth w1 w2 j H) as N.
    destruct (nth_error w1 j) as [a|], (nth_error w2 j) as [b|]; try contradiction.
    + pose proof (mstep_sim true o a b N) as [S E].
      destruct (mstep true a o) as [a' ra], (mstep true b o) as [b' rb]. simpl in *.
      split; [apply wsim_set_nth; assumption | exact E].
    + split; [exact H | reflexivity].
  - pose proof (wsim_nth w1 w2 j H) as N.
    destruct (nth_error w1 j) as [a|], (nth_error w2 j) as [b|]; try contradiction.
    + split; [|reflexivity]. simpl. apply wsim_set_nth; [exact H|].
      destruct N as [E [Ca Cb]].
      pose proof (parse_touch_sim chains a Ca) as [E1 [C1 _]].
      pose proof (parse_touch_sim chains b Cb) as [E2 [C2 _]].
      apply mkSim; [congruence | exact C1 | exact C2].
    + split; [exact H | reflexivity].
Qed.

Lemma set_nth_same {A} (l : list A) j x : nth_error l j = Some x -> set_nth j x l = l.
Proof.
  revert j; induction l as [|y l IH]; intros [|j]; simpl; intros H; try discriminate.
  - injection H as ->. reflexivity.
  - rewrite IH; [reflexivity | exact H].
Qed.

(* a parse changes no instance's configuration proper: nothing a later call can observe *)
Theorem parse_inert w j chains : WCoh w -> WSim (fst (wstep bare w (WParse j chains))) w.
Proof.
  intros H. simpl. destruct (nth_error w j) as [a|] eqn:N; simpl; [|apply wsim_refl, H].
  rewrite <- (set_nth_same w j a N) at 2.
  apply wsim_set_nth; [apply wsim_refl, H|].
  apply parse_touch_sim. unfold WCoh in H; rewrite Forall_forall in H. apply H. eapply nth_error_In, N.
Qed.

(* ---- histories: parses can be deleted from any history -------------------- *)

Definition not_parse (o : wop) : bool := negb (is_parse o).

Fixpoint mgmt_trace (ops : list wop) (w : list inst) : list (res mout) :=
  match ops with
  | [] => []
  | o :: ops' =>
      let '(w', r) := wstep bare w o in
      if is_parse o then mgmt_trace ops' w' else r :: mgmt_trace ops' w'
  end.

Theorem parses_do_not_matter ops : forall w1 w2, WSim w1 w2 ->
  WSim (wrun bare ops w1) (wrun bare (filter not_parse ops) w2)
  /\ mgmt_trace ops w1 = wtrace bare (filter not_parse ops) w2.
Proof.
  unfold wrun. induction ops as [|o ops IH]; intros w1 w2 H; simpl; [split; [exact H | reflexivity]|].
  destruct o as [p upd | j o | j chains]; unfold not_parse; simpl is_parse; cbn [negb filter fold_left wtrace].
  - destruct (wstep_sim w1 w2 (WNew p upd) H) as [S E].
    destruct (wstep bare w1 (WNew p upd)) as [w1' r1], (wstep bare w2 (WNew p upd)) as [w2' r2].
    simpl in *. subst r2. destruct (IH w1' w2' S) as [A B]. split; [exact A | rewrite B; reflexivity].
  - destruct (wstep_sim w1 w2 (WMgmt j o) H) as [S E].
    destruct (wstep bare w1 (WMgmt j o)) as [w1' r1], (wstep bare w2 (WMgmt j o)) as [w2' r2].
    simpl in *. subst r2. destruct (IH w1' w2' S) as [A B]. split; [exact A | rewrite B; reflexivity].
  - assert (S : WSim (fst (wstep bare w1 (WParse j chains))) w2).
    { pose proof (parse_inert w1 j chains (wsim_coh_l _ _ H)) as P.
      clear IH. revert P H. generalize (fst (wstep bare w1 (WParse j chains))). intros w0 P Hs.
      revert w2 Hs. induction P as [|x y l1 l2 Sxy _ IHP]; intros w2 Hs; inversion Hs; subst; constructor.
      - destruct Sxy as [E1 [C1 _]]. match goal with Hh : Sim y _ |- _ => destruct Hh as [E2 [_ C2]] end.
        apply mkSim; [congruence | exact C1 | exact C2].
      - apply IHP; assumption. }
    destruct (wstep bare w1 (WParse j chains)) as [w1' r1]. simpl in *. apply IH, S.
Qed.

(* ---- isolation: operations on other instances can be deleted --------------- *)

Lemma nth_set_nth_other {A} (l : list A) j k x : j <> k -> nth_error (set_nth k x l) j = nth_error l j.
Proof.
  revert j k; induction l as [|y l IH]; intros [|j] [|k] H; simpl; try reflexivity; try congruence.
  apply IH. congruence.
Qed.

Lemma length_set_nth {A} (l : list A) k x : length (set_nth k x l) = length l.
Proof. revert k; induction l as [|y l IH]; intros [|k]; simpl; auto. Qed.

Theorem isolation w o j : concerns j o = false ->
  nth_error (fst (wstep bare w o)) j = nth_error w j /\ length (fst (wstep bare w o)) = length w.
Proof.
  destruct o as [p upd | k o | k chains]; simpl; try discriminate; intros H;
    apply PeanoNat.Nat.eqb_neq in H.
  - destruct (nth_error w k); [|split; reflexivity].
    destruct (mstep true i o). simpl. split; [apply nth_set_nth_other; congruence | apply length_set_nth].
  - destruct (nth_error w k); [|split; reflexivity]. simpl.
    split; [apply nth_set_nth_other; congruence | apply length_set_nth].
Qed.

Definition Agree (j : nat) (w1 w2 : list inst) : Prop :=
  length w1 = length w2 /\ nth_error w1 j = nth_error w2 j.

Lemma nth_error_app_last {A} (l1 l2 : list A) x j :
  length l1 = length l2 -> nth_error l1 j = nth_error l2 j ->
  nth_error (l1 ++ [x]) j = nth_error (l2 ++ [x]) j.
Proof.
  intros L N. destruct (Nat.lt_ge_cases j (length l1)) as [Hlt|Hge].
  - rewrite !nth_error_app1; [exact N | rewrite <- L; exact Hlt | exact Hlt].
  - rewrite !nth_error_app2; [rewrite L; reflexivity | rewrite <- L; exact Hge | exact Hge].
Qed.

Lemma nth_set_nth_same {A} (l1 l2 : list A) j x :
  length l1 = length l2 -> nth_error (set_nth j x l1) j = nth_error (set_nth j x l2) j.
Proof.
  revert l2 j; induction l1 as [|a l1 IH]; intros [|b l2] [|j] L; simpl in *; try discriminate; try reflexivity.
  apply IH. congruence.
Qed.

Lemma wstep_agree j w1 w2 o : concerns j o = true -> Agree j w1 w2 ->
  Agree j (fst (wstep bare w1 o)) (fst (wstep bare w2 o)) /\ snd (wstep bare w1 o) = snd (wstep bare w2 o).
Proof.
  intros C [L N]. destruct o as [p upd | k o | k chains]; simpl in *.
  - destruct (configure p upd bare) as [i [r|e|]]; simpl; (split; [|reflexivity]); try (split; assumption).
    split; [rewrite !app_length, L; reflexivity | apply nth_error_app_last; assumption].
  - apply PeanoNat.Nat.eqb_eq in C; subst k.
    destruct (nth_error w1 j) as [i1|] eqn:N1; destruct (nth_error w2 j) as [i2|] eqn:N2; try discriminate.
    + injection N as ->. destruct (mstep true i2 o) as [i' r]. simpl. split; [|reflexivity].
      split; [rewrite !length_set_nth; exact L | apply nth_set_nth_same, L].
    + simpl. split; [split; [exact L | rewrite N1, N2; reflexivity] | reflexivity].
  - apply PeanoNat.Nat.eqb_eq in C; subst k.
    destruct (nth_error w1 j) as [i1|] eqn:N1; destruct (nth_error w2 j) as [i2|] eqn:N2; try discriminate.
    + injection N as ->. simpl. split; [|reflexivity].
      split; [rewrite !length_set_nth; exact L | apply nth_set_nth_same, L].
    + simpl. split; [split; [exact L | rewrite N1, N2; reflexivity] | reflexivity].
Qed.

Fixpoint own_trace (j : nat) (ops : list wop) (w : list inst) : list (res mout) :=
  match ops with
  | [] => []
  | o :: ops' =>
      let '(w', r) := wstep bare w o in
      if concerns j o then r :: own_trace j ops' w' else own_trace j ops' w'
  end.

Theorem others_do_not_matter j ops : forall w1 w2, Agree j w1 w2 ->
  Agree j (wrun bare ops w1) (wrun bare (filter (concerns j) ops) w2)
  /\ own_trace j ops w1 = wtrace bare (filter (concerns j) ops) w2.
Proof.
  unfold wrun. induction ops as [|o ops IH]; intros w1 w2 H; simpl; [split; [exact H | reflexivity]|].
  destruct (concerns j o) eqn:C; cbn [fold_left wtrace].
  - destruct (wstep_agree j w1 w2 o C H) as [A E].
    destruct (wstep bare w1 o) as [w1' r1], (wstep bare w2 o) as [w2' r2]. simpl in *. subst r2.
    destruct (IH w1' w2' A) as [A' B]. split; [exact A' | rewrite B; reflexivity].
  - destruct (isolation w1 o j C) as [N L].
    destruct (wstep bare w1 o) as [w1' r1]. simpl in *.
    apply IH. destruct H as [L0 N0]. split; congruence.
Qed.

End WorldThms.
