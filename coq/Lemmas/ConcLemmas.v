(* C13: with the compiled dict published by a single store, every getRules of
   every thread under every schedule returns the complete, correct chain; the
   publish-then-fill code is refuted by a two-thread schedule. *)
From MD Require Import Base.Py Base.Opt Model.Ruler Model.Conc Lemmas.RulerCoherent.

Section Fixed.
Context {F : Type}.
Context (rs : list (rule F)).

Definition CacheOK (c : option (list (str * list F))) : Prop :=
  c = None \/ c = Some (compile rs).

Definition ResultsOK (t : thread) : Prop :=
  Forall (fun cl => snd cl = compile_chain rs (fst cl)) (results t).

Definition StateOK (c : option (list (str * list F))) (t : thread) : Prop :=
  match ts t with
  | TCompiled _ l => l = compile rs
  | TFill _ _ => False
  | TAssert _ | TLookup _ => c = Some (compile rs)
  | TFail => False
  | TIdle | TRead _ => True
  end.

Definition ThreadOK c t : Prop := StateOK c t /\ ResultsOK t.

Definition Inv (w : cworld) : Prop :=
  CacheOK (ccache w) /\ Forall (ThreadOK (ccache w)) (threads w).

Lemma tstep_ok c t :
  CacheOK c -> ThreadOK c t ->
  let '(c', t') := tstep rs false c t in
  CacheOK c' /\ ThreadOK c' t' /\ (c = Some (compile rs) -> c' = Some (compile rs)).
Proof.
  intros HC [HS HR]. unfold tstep, ThreadOK, StateOK, ResultsOK in *.
  destruct t as [st pend res]; simpl in *.
  destruct st as [|ch|ch l|ch todo|ch|ch|]; simpl in *; try contradiction.
  - destruct pend; simpl; repeat split; auto.
  - destruct c as [d|]; simpl.
    + destruct HC as [HC|HC]; [discriminate|]. repeat split; auto. right; exact HC.
    + repeat split; auto.
  - subst l. repeat split; auto. right; reflexivity.
  - rewrite HS. simpl. repeat split; auto. right; reflexivity.
  - rewrite HS. simpl. repeat split; auto; [right; reflexivity|].
    apply Forall_app; split; [exact HR|]. constructor; [|constructor]. simpl. apply compile_correct.
Qed.

Lemma threadok_mono c c' t :
  (c = Some (compile rs) -> c' = Some (compile rs)) -> ThreadOK c t -> ThreadOK c' t.
Proof.
  intros M [HS HR]. split; [|exact HR]. unfold StateOK in *.
  destruct (ts t); auto.
Qed.

Lemma forall_upd n (t : @thread F) l P : Forall P l -> P t -> Forall P (upd_thread n t l).
Proof.
  intros H Ht; revert n; induction H as [|x l Hx Hl IH]; intros [|n]; simpl; constructor; auto.
Qed.

Lemma cstep_inv w tid : Inv w -> Inv (cstep rs false w tid).
Proof.
  intros [HC HT]. unfold cstep. destruct (nth_error (threads w) tid) as [t|] eqn:N; [|split; assumption].
  assert (Ht : ThreadOK (ccache w) t).
  { rewrite Forall_forall in HT. apply HT. eapply nth_error_In, N. }
  pose proof (tstep_ok (ccache w) t HC Ht) as S.
  destruct (tstep rs false (ccache w) t) as [c' t']. destruct S as [C' [T' M]].
  split; simpl; [exact C'|]. apply forall_upd; [|exact T'].
  eapply Forall_impl; [|exact HT]. intros u Hu. eapply threadok_mono; eassumption.
Qed.

Theorem crun_inv schedule : forall w, Inv w -> Inv (crun rs false schedule w).
Proof.
  unfold crun. induction schedule as [|tid s IH]; intros w H; simpl; [exact H|].
  apply IH, cstep_inv, H.
Qed.

Lemma start_inv c programs : CacheOK c -> Inv (start c programs).
Proof.
  intros HC. split; [exact HC|]. simpl. apply Forall_forall. intros t Ht.
  apply in_map_iff in Ht. destruct Ht as [p [<- _]]. split; [exact I | constructor].
Qed.

(* The statement of C13 on the model: any number of threads, any programs (lists of
   chain requests), any schedule, starting from a fresh (uncompiled) or already
   compiled instance: no thread fails, and every completed getRules(chain)
   returned exactly what a solo call returns: the enabled rules of that chain in
   registration order. *)
Theorem getRules_linearizable c programs schedule :
  CacheOK c ->
  let w := crun rs false schedule (start c programs) in
  forall t, In t (threads w) ->
    ts t <> TFail /\ forall ch l, In (ch, l) (results t) -> l = compile_chain rs ch.
Proof.
  intros HC w t Ht. destruct (crun_inv schedule _ (start_inv c programs HC)) as [_ HT].
  fold w in HT. rewrite Forall_forall in HT. destruct (HT t Ht) as [HS HR]. split.
  - unfold StateOK in HS. destruct (ts t); try discriminate; contradiction.
  - intros ch l Hin. unfold ResultsOK in HR. rewrite Forall_forall in HR. apply (HR (ch, l) Hin).
Qed.

(* a thread that is scheduled often enough finishes all its requests: each request
   takes at most 5 of its own steps, whatever the others do (no waiting, no lock) *)
Definition steps_left (t : @thread F) : nat :=
  (match ts t with
   | TIdle => 0 | TRead _ => 4 | TCompiled _ _ => 3 | TAssert _ => 2 | TLookup _ => 1
   | TFill _ todo => 3 + length todo | TFail => 0
   end + 5 * length (pending t))%nat.

Lemma tstep_progress c t :
  CacheOK c -> ThreadOK c t -> (0 < steps_left t)%nat ->
  (steps_left (snd (tstep rs false c t)) < steps_left t)%nat.
Proof.
  intros HC [HS HR] Hpos. unfold tstep, steps_left, StateOK in *.
  destruct t as [st pend res]; simpl in *.
  destruct st as [|ch|ch l|ch todo|ch|ch|]; simpl in *; try contradiction; try lia.
  - destruct pend; simpl in *; lia.
  - destruct c; simpl; lia.
  - rewrite HS; simpl; lia.
  - rewrite HS; simpl; lia.
Qed.

End Fixed.

(* ---- the code before the repair: publish {} then fill --------------------- *)

Definition race_rules : list (rule Z) := [mkRule [97] true 1 []].

Definition race_schedule : list nat := [0; 0; 1; 1; 1]%nat.

Lemma race_refuted :
  let w := crun race_rules true race_schedule (start None [[[]]; [[]]]) in
  exists t, nth_error (threads w) 1 = Some t /\ results t = [([], [])]
            /\ compile_chain race_rules [] = [1].
Proof. vm_compute. eexists; repeat split. Qed.

(* and the same schedule is harmless after the repair *)
Lemma race_schedule_fixed :
  let w := crun race_rules false [0; 0; 1; 1; 1; 1; 1; 0; 0; 0]%nat (start None [[[]]; [[]]]) in
  map results (threads w) = [[([], [1])]; [([], [1])]].
Proof. vm_compute. reflexivity. Qed.
