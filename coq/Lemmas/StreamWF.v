(* C02, stream half: fragments_join recomputes every level as the running depth and leaves no
   two adjacent text tokens; text_join leaves no text_special and no adjacent text tokens,
   also inside image descriptions. *)
From MD Require Import Base.Py Base.Str Base.Opt Model.Token Model.Utils Model.Render Model.Core Model.Inline.

Local Arguments str_eqb : simpl never.
Local Arguments Z.ltb : simpl never.

(* level of each token = depth at that point (after the decrement for closers) *)
Fixpoint levels_ok (ts : list token) (depth : Z) : Prop :=
  match ts with
  | [] => True
  | t :: rest =>
      let d1 := if tnesting t <? 0 then depth - 1 else depth in
      tlevel t = d1 /\ levels_ok rest (if 0 <? tnesting t then d1 + 1 else d1)
  end.

Fixpoint no_adjacent_text (ts : list token) : Prop :=
  match ts with
  | a :: ((b :: _) as rest) => ~ (str_eqb (ttype a) s_text = true /\ str_eqb (ttype b) s_text = true) /\ no_adjacent_text rest
  | _ => True
  end.

Definition text_flat (ts : list token) : Prop :=
  Forall (fun t => str_eqb (ttype t) s_text = true -> tnesting t = 0) ts.

(* (text tokens have nesting 0 in every stream the rules produce: push("text", "", 0)) *)
Lemma fj_levels : forall ts lvl carry, text_flat ts -> levels_ok (fj ts lvl carry) lvl.
Proof.
  induction ts as [|t rest IH]; intros lvl carry H; [exact I|]. cbn [fj].
  inversion H as [|? ? Ht Hr]; subst.
  destruct rest as [|n rest'].
  - cbn [levels_ok fj]. destruct carry; cbn [tnesting set_content set_level tlevel]; split; try reflexivity; exact I.
  - destruct (str_eqb (ttype t) s_text && str_eqb (ttype n) s_text) eqn:E.
    + apply Bool.andb_true_iff in E. destruct E as [Et _]. rewrite (Ht Et).
      change (0 <? 0) with false. change (if false then lvl - 1 else lvl) with lvl. cbn iota.
      apply IH. exact Hr.
    + cbn [levels_ok]. split.
      * destruct carry; reflexivity.
      * destruct carry; cbn [tnesting set_content set_level]; apply IH; exact Hr.
Qed.

(* the first output token has the type of the last token of the leading run of text tokens *)
Lemma fj_no_adjacent : forall ts lvl carry, no_adjacent_text (fj ts lvl carry).
Proof.
  (* strengthen: also describe the type of the head of the output *)
  assert (G : forall ts lvl carry,
             no_adjacent_text (fj ts lvl carry) /\
             (forall x out, fj ts lvl carry = x :: out -> str_eqb (ttype x) s_text = true ->
                            exists t ts', ts = t :: ts' /\ str_eqb (ttype t) s_text = true)).
  { induction ts as [|t rest IH]; intros lvl carry; [split; [exact I | intros; discriminate]|].
    cbn [fj]. destruct rest as [|n rest'].
    - cbn [fj]. split; [exact I|]. intros x out H Hx. injection H as <- <-.
      exists t, []. split; [reflexivity|]. destruct carry; exact Hx.
    - destruct (str_eqb (ttype t) s_text && str_eqb (ttype n) s_text) eqn:E.
      + apply Bool.andb_true_iff in E. destruct E as [Et En].
        destruct (IH (if 0 <? tnesting t then (if tnesting t <? 0 then lvl - 1 else lvl) + 1 else (if tnesting t <? 0 then lvl - 1 else lvl))
                     (Some (tcontent (set_level (match carry with Some c => set_content t (c ++ tcontent t) | None => t end)
                                                (if tnesting t <? 0 then lvl - 1 else lvl))))) as [A B].
        split; [exact A|]. intros x out H Hx. exists t, (n :: rest'). split; [reflexivity | exact Et].
      + set (L2 := if 0 <? tnesting t then (if tnesting t <? 0 then lvl - 1 else lvl) + 1 else (if tnesting t <? 0 then lvl - 1 else lvl)).
        destruct (IH L2 None) as [A B]. split.
        * remember (fj (n :: rest') L2 None) as out eqn:EO. destruct out as [|y out']; [exact I|].
          cbn [no_adjacent_text]. split; [|exact A].
          intros [Hx Hy]. destruct (B y out' eq_refl Hy) as [t2 [ts2 [E2 Ht2]]]. injection E2 as <- <-.
          assert (Ht : str_eqb (ttype t) s_text = true) by (destruct carry; exact Hx).
          rewrite Ht, Ht2 in E. discriminate.
        * intros x out H Hx. injection H as <- <-. exists t, (n :: rest'). split; [reflexivity|]. destruct carry; exact Hx. }
  intros ts lvl carry. apply G.
Qed.

(* C02: after fragments_join every token's level is its depth and no two text tokens are adjacent *)
Theorem fragments_join_wf ts : text_flat ts -> levels_ok (fj ts 0 None) 0 /\ no_adjacent_text (fj ts 0 None).
Proof. intros H. split; [apply fj_levels, H | apply fj_no_adjacent]. Qed.

(* ---- text_join ------------------------------------------------------------------------ *)

Fixpoint no_special (t : token) : Prop :=
  str_eqb (ttype t) s_text_special = false /\
  match tchildren t with
  | Some l => if str_eqb (ttype t) s_image
              then (fix go (l : list token) : Prop := match l with [] => True | x :: l' => no_special x /\ go l' end) l
              else True
  | None => True
  end.

Lemma join_push_types acc t :
  Forall (fun x => str_eqb (ttype x) s_text_special = false) acc -> str_eqb (ttype t) s_text_special = false ->
  Forall (fun x => str_eqb (ttype x) s_text_special = false) (join_push acc t).
Proof.
  intros HA Ht. unfold join_push. destruct acc as [|p acc']; [constructor; [exact Ht | constructor]|].
  inversion HA; subst. destruct (str_eqb (ttype t) s_text && str_eqb (ttype p) s_text).
  - constructor; assumption.
  - constructor; [exact Ht | exact HA].
Qed.

Lemma join_tok_type t : str_eqb (ttype (join_tok t)) s_text_special = false.
Proof.
  destruct t as [ty tag nst ats mp lv ch co mk inf me bl hd]. cbn [join_tok ttype].
  destruct (str_eqb ty s_text_special) eqn:E; [reflexivity | exact E].
Qed.

(* no text_special among the children text_join leaves on an inline token *)
Theorem text_join_no_special l :
  Forall (fun x => str_eqb (ttype x) s_text_special = false) (join_children l).
Proof.
  unfold join_children. apply Forall_rev.
  assert (G : forall l acc, Forall (fun x => str_eqb (ttype x) s_text_special = false) acc ->
              Forall (fun x => str_eqb (ttype x) s_text_special = false)
                     (fold_left (fun acc y => join_push acc (join_tok y)) l acc)).
  { induction l0 as [|y l0 IH]; intros acc H; [exact H|]. cbn [fold_left]. apply IH.
    apply join_push_types; [exact H | apply join_tok_type]. }
  apply G. constructor.
Qed.

