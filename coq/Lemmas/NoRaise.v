(* C01, block parser: no exception.  For every source and every configuration with the paragraph rule
   and silent-capable terminator chains, ParserBlock.parse never raises: every table read is in
   range and every unguarded src[...] read hits a character.  The invariant RI says what the line
   tables promise (lengths, marks inside the source, a line feed at every end mark but the last, a
   non-blank at the logical line start of a non-empty line); it holds for fresh tables and is kept
   by every rule, through the block quote and list-item rewrites and their restores. *)
From RecordUpdate Require Import RecordUpdate.
From MD Require Import Base.Py Base.Str Base.Regex Base.Opt Model.Token Model.Utils Model.StateBlock Model.Helpers
     Model.Url Model.Render Model.Block Lemmas.StrLemmas Lemmas.StrLemmas2 Lemmas.BlockLemmas Lemmas.BlockWF Lemmas.MapLemmas
     Lemmas.QuoteLemmas Lemmas.ScanLemmas Lemmas.Verbatim Lemmas.MapWhole.
From Coq Require Import ZifyBool.

Local Arguments Z.eqb : simpl never.
Local Arguments Z.ltb : simpl never.
Local Arguments Z.leb : simpl never.
Local Arguments str_eqb : simpl never.

(* ---- "does not raise" ---- *)
Definition nr {A} (m : res A) : Prop := forall e, m <> Raise e.

Lemma nr_ok {A} (v : A) : nr (Ok v). Proof. intros e H. discriminate H. Qed.
Lemma nr_oof {A} : nr (@OutOfFuel A). Proof. intros e H. discriminate H. Qed.
Lemma nr_bind {A B} (m : res A) (k : A -> res B) : nr m -> (forall x, m = Ok x -> nr (k x)) -> nr (bind m k).
Proof. intros Hm Hk e. destruct m as [x|e'|]; cbn [bind]; [apply Hk; reflexivity | intros _; apply (Hm e'); reflexivity | discriminate]. Qed.

Lemma nr_tb l i : 0 <= i < len l -> nr (tb l i).
Proof.
  intros H e. rewrite tb_nonneg by lia. destruct (nth_error l (Z.to_nat i)) eqn:E; [discriminate|].
  apply nth_error_None in E. unfold len in H. lia.
Qed.
Lemma nr_py_idx s i : 0 <= i < len s -> nr (py_idx s i).
Proof.
  intros H e. unfold py_idx, get. cbv zeta. assert (X : (i <? 0) = false) by lia. rewrite !X.
  destruct (nth_error s (Z.to_nat i)) eqn:E; [discriminate|]. apply nth_error_None in E. unfold len in H. lia.
Qed.
Lemma tb_set_nr l i v : 0 <= i < len l -> nr (tb_set l i v).
Proof. intros H e. unfold tb_set. cbv zeta. assert (X : (i <? 0) = false) by lia. rewrite !X. assert (Y : (len l <=? i) = false) by lia. rewrite Y. cbn. discriminate. Qed.

(* ---- the table invariant ---- *)
Definition row_ok (src : str) (N l b e t : Z) : Prop :=
  0 <= b /\ 0 <= t /\ 0 <= e <= len src
  /\ (l <= N - 2 -> e < len src)
  /\ (e < len src -> py_idx src e = Ok 10)
  /\ (b + t < e -> exists c, py_idx src (b + t) = Ok c /\ is_space c = false).

Definition RI (N : Z) (st : bstate) : Prop :=
  0 <= b_lineMax st <= N
  /\ len (b_bMarks st) = N + 1 /\ len (b_eMarks st) = N + 1 /\ len (b_tShift st) = N + 1
  /\ len (b_sCount st) = N + 1 /\ len (b_bsCount st) = N + 1
  /\ forall l b e t, 0 <= l <= N -> tb (b_bMarks st) l = Ok b -> tb (b_eMarks st) l = Ok e -> tb (b_tShift st) l = Ok t ->
       row_ok (b_src st) N l b e t.

Lemma RI_reads N st l : RI N st -> 0 <= l <= N ->
  exists b e t sc bs, tb (b_bMarks st) l = Ok b /\ tb (b_eMarks st) l = Ok e /\ tb (b_tShift st) l = Ok t
    /\ tb (b_sCount st) l = Ok sc /\ tb (b_bsCount st) l = Ok bs /\ row_ok (b_src st) N l b e t.
Proof.
  intros (LM & L1 & L2 & L3 & L4 & L5 & R) Hl.
  assert (G : forall T, len T = N + 1 -> exists v, tb T l = Ok v).
  { intros T HT. destruct (tb T l) as [v|e|] eqn:E; [exists v; reflexivity| |].
    - exfalso. apply (nr_tb T l ltac:(lia) e E).
    - exfalso. rewrite tb_nonneg in E by lia. destruct (nth_error T (Z.to_nat l)); discriminate E. }
  destruct (G _ L1) as [b Eb]. destruct (G _ L2) as [e Ee]. destruct (G _ L3) as [t Et].
  destruct (G _ L4) as [sc Es]. destruct (G _ L5) as [bs Ebs].
  exists b, e, t, sc, bs. repeat split; try assumption; try apply (R l b e t Hl Eb Ee Et).
Qed.

(* frames: same tables *)
Definition tabs_eq (st st' : bstate) : Prop :=
  b_src st' = b_src st /\ b_bMarks st' = b_bMarks st /\ b_eMarks st' = b_eMarks st /\ b_tShift st' = b_tShift st
  /\ b_sCount st' = b_sCount st /\ b_bsCount st' = b_bsCount st /\ b_lineMax st' = b_lineMax st.
Lemma tabs_eq_refl st : tabs_eq st st. Proof. repeat split. Qed.
Lemma tabs_eq_RI N st st' : tabs_eq st st' -> RI N st -> RI N st'.
Proof. intros (A1 & A2 & A3 & A4 & A5 & A6 & A7). unfold RI. rewrite A1, A2, A3, A4, A5, A6, A7. exact (fun x => x). Qed.
Lemma tabs_eq_trans a b c : tabs_eq a b -> tabs_eq b c -> tabs_eq a c.
Proof. unfold tabs_eq. intros (A1 & A2 & A3 & A4 & A5 & A6 & A7) (B1 & B2 & B3 & B4 & B5 & B6 & B7). repeat split; congruence. Qed.
Lemma tabs_eq_bpush st ty tag n f : tabs_eq st (bpush st ty tag n f).
Proof. repeat split. Qed.
Lemma tabs_eq_lineMax st st' : tabs_eq st st' -> b_lineMax st' = b_lineMax st.
Proof. intros (_ & _ & _ & _ & _ & _ & A). exact A. Qed.
Lemma fr_tabs_eq st st' : fr st st' -> tabs_eq st st'.
Proof. intros H. rewrite H. repeat split. Qed.

(* small reads *)
Lemma line_start_nr N st l : RI N st -> 0 <= l <= N -> nr (line_start st l).
Proof.
  intros R Hl. destruct (RI_reads N st l R Hl) as (b & e & t & sc & bs & Eb & Ee & Et & _).
  unfold line_start. rewrite Eb, Et. cbn [bind]. apply nr_ok.
Qed.
Lemma is_empty_nr N st l : RI N st -> 0 <= l <= N -> nr (is_empty st l).
Proof.
  intros R Hl. destruct (RI_reads N st l R Hl) as (b & e & t & sc & bs & Eb & Ee & Et & _).
  unfold is_empty, line_start. rewrite Eb, Et. cbn [bind]. rewrite Ee. cbn [bind]. apply nr_ok.
Qed.
Lemma is_code_block_nr N en st l : RI N st -> 0 <= l <= N -> nr (is_code_block en st l).
Proof.
  intros R Hl. destruct (RI_reads N st l R Hl) as (b & e & t & sc & bs & _ & _ & _ & Es & _).
  unfold is_code_block. rewrite Es. cbn [bind]. apply nr_ok.
Qed.

(* ---- getLines ---- *)
(* the scan reads only positions below [lim] *)
Lemma gl_scan_nr_lim : forall fuel src first last b li indent ts bs,
  0 <= first -> last <= len src -> nr (gl_scan fuel src first last b li indent ts bs).
Proof.
  induction fuel as [|f IH]; intros src first last b li indent ts bs H0 HL; cbn [gl_scan]; [apply nr_ok|].
  destruct ((first <? last) && (li <? indent)) eqn:E; [|apply nr_ok].
  apply nr_bind; [apply nr_py_idx; lia|]. intros ch Ec.
  destruct (is_space ch); [apply IH; lia|]. destruct (first - b <? ts); [apply IH; lia | apply nr_ok].
Qed.

(* the scan stops at the logical line start p0 = b + ts when a non-blank sits there *)
Lemma gl_scan_nr_stop : forall fuel src first last b li indent ts bs c0,
  0 <= first -> b <= first <= b + ts -> py_idx src (b + ts) = Ok c0 -> is_space c0 = false -> 0 <= b ->
  nr (gl_scan fuel src first last b li indent ts bs).
Proof.
  induction fuel as [|f IH]; intros src first last b li indent ts bs c0 H0 HB E0 S0 Hb; cbn [gl_scan]; [apply nr_ok|].
  destruct ((first <? last) && (li <? indent)) eqn:E; [|apply nr_ok].
  destruct (py_idx_get src (b + ts) c0 ltac:(lia) E0) as [_ L0].
  apply nr_bind; [apply nr_py_idx; lia|]. intros ch Ec.
  destruct (Z.eq_dec first (b + ts)) as [->|Ne].
  - rewrite E0 in Ec. injection Ec as <-. rewrite S0. replace (b + ts - b <? ts) with false by lia. apply nr_ok.
  - destruct (is_space ch); [eapply IH; try eassumption; lia|].
    destruct (first - b <? ts); [eapply IH; try eassumption; lia | apply nr_ok].
Qed.

(* a line may be cut with its line feed kept if the line feed exists or the line is not empty *)
Definition keep_ok (st : bstate) (l : Z) : Prop :=
  forall b e t, tb (b_bMarks st) l = Ok b -> tb (b_eMarks st) l = Ok e -> tb (b_tShift st) l = Ok t ->
    e < len (b_src st) \/ b + t < e.

Lemma get_lines_loop_nr N st (R : RI N st) : forall fuel line endl indent keep,
  0 <= line -> endl <= N -> (keep = true -> line < endl -> keep_ok st (endl - 1)) ->
  nr (get_lines_loop fuel st line endl indent keep).
Proof.
  induction fuel as [|f IH]; intros line endl indent keep H0 HE HK; cbn [get_lines_loop]; [apply nr_ok|].
  destruct (negb (line <? endl)) eqn:E; [apply nr_ok|].
  destruct (RI_reads N st line R ltac:(lia)) as (b & e & t & sc & bs & Eb & Ee & Et & Es & Ebs & (B0 & T0 & E0 & I1 & I3 & I2)).
  rewrite Eb, Ee, Et, Ebs. cbn [bind].
  apply nr_bind.
  - destruct ((line + 1 <? endl) || keep) eqn:K.
    + (* the line feed is kept *)
      assert (Safe : e < len (b_src st) \/ b + t < e).
      { destruct (line + 1 <? endl) eqn:X; [left; apply I1; lia|]. cbn [orb] in K. subst keep.
        assert (line = endl - 1) by lia. subst line. exact (HK eq_refl ltac:(lia) b e t Eb Ee Et). }
      destruct Safe as [S|S]; [apply gl_scan_nr_lim; lia|].
      destruct (I2 S) as (c0 & Ec0 & Sp0). eapply gl_scan_nr_stop; try eassumption; lia.
    + apply gl_scan_nr_lim; lia.
  - intros [first li] _. apply nr_bind; [|intros rest _; apply nr_ok].
    apply IH; [lia | exact HE|]. intros Hk Hl. apply HK; [exact Hk | lia].
Qed.

Lemma get_lines_nr N st (R : RI N st) a b indent keep :
  0 <= a -> b <= N -> (keep = true -> a < b -> keep_ok st (b - 1)) -> nr (get_lines st a b indent keep).
Proof. intros H0 HE HK. unfold get_lines. destruct (b <=? a); [apply nr_ok|]. apply (get_lines_loop_nr N st R); assumption. Qed.

(* ---- leaf rules ---- *)
Section Rules.
Context (cfg : bcfg) (rf cf : str -> str).

Definition pre2 (N : Z) (st : bstate) (sl el : Z) : Prop := RI N st /\ 0 <= sl /\ sl < el /\ el <= b_lineMax st.

(* the shared prologue: line start, end mark, code test *)
Ltac prologue R Hl :=
  let b := fresh "b" in let e := fresh "e" in let t := fresh "t" in let sc := fresh "sc" in let bs := fresh "bs" in
  destruct (RI_reads _ _ _ R Hl) as (b & e & t & sc & bs & Eb & Ee & Et & Es & Ebs & (B0 & T0 & E0 & I1 & I3 & I2)).

Lemma hr_scan_nr : forall fuel src pos maximum marker cnt, 0 <= pos -> maximum <= len src -> nr (hr_scan fuel src pos maximum marker cnt).
Proof.
  induction fuel as [|f IH]; intros src pos maximum marker cnt H0 HM; cbn [hr_scan]; [apply nr_ok|].
  destruct (negb (pos <? maximum)) eqn:E; [apply nr_ok|].
  apply nr_bind; [apply nr_py_idx; lia|]. intros ch _.
  destruct (negb (ch =? marker) && negb (is_space ch)); [apply nr_ok | apply IH; lia].
Qed.

Lemma r_hr_nr N st sl el silent : pre2 N st sl el -> nr (r_hr cfg st sl el silent).
Proof.
  intros (R & S0 & S1 & S2). assert (Hl : 0 <= sl <= N) by (destruct R as [LM _]; lia). prologue R Hl.
  unfold r_hr, line_start, code_block_at, is_code_block. rewrite Eb, Et, Ee, Es. cbn [bind].
  destruct (c_code cfg && (4 <=? sc - b_blkIndent st)); [apply nr_ok|].
  destruct (char_at (b_src st) (b + t)) as [marker|]; [|apply nr_ok].
  destruct (negb ((marker =? 42) || (marker =? 45) || (marker =? 95))); [apply nr_ok|].
  apply nr_bind; [apply hr_scan_nr; lia|]. intros r _. destruct r as [cnt|]; [|apply nr_ok].
  destruct (cnt <? 3); [apply nr_ok|]. destruct silent; apply nr_ok.
Qed.

Lemma code_scan_nr N st (R : RI N st) : forall fuel nl el last, 0 <= nl -> el <= N -> nr (code_scan cfg fuel st nl el last).
Proof.
  induction fuel as [|f IH]; intros nl el last H0 HE; cbn [code_scan]; [apply nr_ok|].
  destruct (negb (nl <? el)) eqn:E; [apply nr_ok|].
  apply nr_bind; [apply (is_empty_nr N); [exact R | lia]|]. intros e _.
  destruct e; [apply IH; lia|].
  apply nr_bind; [apply (is_code_block_nr N); [exact R | lia]|]. intros c _.
  destruct c; [apply IH; lia | apply nr_ok].
Qed.

Lemma r_code_nr N st sl el silent : pre2 N st sl el -> nr (r_code cfg st sl el silent).
Proof.
  intros (R & S0 & S1 & S2). assert (LMN : b_lineMax st <= N) by (destruct R as [LM _]; lia).
  unfold r_code.
  apply nr_bind; [apply (is_code_block_nr N); [exact R | lia]|]. intros c _.
  destruct (negb c); [apply nr_ok|].
  apply nr_bind; [apply (code_scan_nr N st R); lia|]. intros last CS.
  apply code_scan_bounds in CS; [|lia]. destruct CS as [C1 C2]. specialize (C2 ltac:(lia)).
  apply nr_bind; [|intros content _; apply nr_ok].
  rewrite get_lines_line. apply (get_lines_nr N st R); [lia | lia | discriminate].
Qed.

Lemma fence_scan_nr N st (R : RI N st) : forall fuel nl el marker flen, 0 <= nl -> el <= N -> nr (fence_scan cfg fuel st nl el marker flen).
Proof.
  induction fuel as [|f IH]; intros nl el marker flen H0 HE; cbn [fence_scan]; [apply nr_ok|]. cbv zeta.
  destruct (el <=? nl + 1) eqn:E; [apply nr_ok|].
  destruct (RI_reads N st (nl + 1) R ltac:(lia)) as (b & e & t & sc & bs & Eb & Ee & Et & Es & Ebs & _).
  unfold line_start. rewrite Eb, Et. cbn [bind]. rewrite Ee. cbn [bind]. rewrite Es. cbn [bind].
  destruct ((b + t <? e) && (sc <? b_blkIndent st)); [apply nr_ok|].
  destruct (char_at (b_src st) (b + t)) as [c|]; [|apply nr_ok].
  destruct (negb (c =? marker)); [apply IH; lia|].
  unfold code_block_at, is_code_block. rewrite Es. cbn [bind].
  destruct (c_code cfg && (4 <=? sc - b_blkIndent st)); [apply IH; lia|].
  destruct (skip_chars (b_src st) (b + t) marker - (b + t) <? flen); [apply IH; lia|].
  destruct (skip_spaces (b_src st) (skip_chars (b_src st) (b + t) marker) <? e); [apply IH; lia | apply nr_ok].
Qed.

(* the body of a fence: every line it took in either has its line feed or is not empty *)
Lemma fence_scan_keep N st (R : RI N st) : forall fuel nl el marker flen r have,
  fence_scan cfg fuel st nl el marker flen = Ok (r, have) -> 0 <= nl -> el <= N ->
  (nl < r - 1 -> keep_ok st (r - 1)).
Proof.
  induction fuel as [|f IH]; intros nl el marker flen r have H H0 HE; cbn [fence_scan] in H; [rfinish H; lia|]. cbv zeta in H.
  destruct (el <=? nl + 1) eqn:E; [rfinish H; lia|].
  destruct (RI_reads N st (nl + 1) R ltac:(lia)) as (b & e & t & sc & bs & Eb & Ee & Et & Es & Ebs & (B0 & T0 & E0 & I1 & I3 & I2)).
  unfold line_start in H. rewrite Eb, Et in H. cbn [bind] in H. rewrite Ee in H. cbn [bind] in H. rewrite Es in H. cbn [bind] in H.
  destruct ((b + t <? e) && (sc <? b_blkIndent st)); [rfinish H; lia|].
  destruct (char_at (b_src st) (b + t)) as [c|] eqn:Ec; [|rfinish H; lia].
  (* the line nl + 1 may be part of the body: it is keep-safe *)
  assert (KS : keep_ok st (nl + 1)).
  { intros b' e' t' Eb' Ee' Et'. rewrite Eb in Eb'. rewrite Ee in Ee'. rewrite Et in Et'. injection Eb' as <-. injection Ee' as <-. injection Et' as <-.
    destruct (Z_lt_le_dec (b + t) e) as [Lt|Ge]; [right; exact Lt|]. left.
    rewrite LfCount.char_at_nonneg in Ec by lia.
    assert (Z.to_nat (b + t) < length (b_src st))%nat by (apply nth_error_Some; congruence). unfold len. lia. }
  assert (G : forall r' h', fence_scan cfg f st (nl + 1) el marker flen = Ok (r', h') -> nl < r' - 1 -> keep_ok st (r' - 1)).
  { intros r' h' H' Hr. destruct (Z.eq_dec (r' - 1) (nl + 1)) as [Eq|Ne]; [rewrite Eq; exact KS|].
    apply (IH _ _ _ _ _ _ H'); [lia | lia|]. pose proof (fence_scan_bounds cfg _ _ _ _ _ _ _ _ H') as (A & _). lia. }
  destruct (negb (c =? marker)); [intros Hr; eapply G; eassumption|].
  unfold code_block_at, is_code_block in H. rewrite Es in H. cbn [bind] in H.
  destruct (c_code cfg && (4 <=? sc - b_blkIndent st)); [intros Hr; eapply G; eassumption|].
  destruct (skip_chars (b_src st) (b + t) marker - (b + t) <? flen); [intros Hr; eapply G; eassumption|].
  destruct (skip_spaces (b_src st) (skip_chars (b_src st) (b + t) marker) <? e); [intros Hr; eapply G; eassumption|].
  rfinish H. lia.
Qed.

Lemma r_fence_nr N st sl el silent : pre2 N st sl el -> nr (r_fence cfg st sl el silent).
Proof.
  intros (R & S0 & S1 & S2). assert (Hl : 0 <= sl <= N) by (destruct R as [LM _]; lia).
  assert (LMN : b_lineMax st <= N) by (destruct R as [LM _]; lia). prologue R Hl.
  unfold r_fence, line_start, code_block_at, is_code_block. rewrite Eb, Et, Ee, Es. cbn [bind].
  destruct (c_code cfg && (4 <=? sc - b_blkIndent st)); [apply nr_ok|].
  destruct (e <? b + t + 3) eqn:E3; [apply nr_ok|].
  apply nr_bind; [apply nr_py_idx; lia|]. intros marker _.
  destruct (negb ((marker =? 126) || (marker =? 96))); [apply nr_ok|]. cbv zeta.
  destruct (skip_chars (b_src st) (b + t) marker - (b + t) <? 3); [apply nr_ok|].
  destruct ((marker =? 96) && mem_z 96 (slice (b_src st) (skip_chars (b_src st) (b + t) marker) e)); [apply nr_ok|].
  destruct silent; [apply nr_ok|].
  apply nr_bind; [apply (fence_scan_nr N st R); lia|]. intros [nl have] FS.
  cbn [bind].
  pose proof (fence_scan_bounds cfg _ _ _ _ _ _ _ _ FS) as (F0 & F1 & F2 & F3). specialize (F2 S1).
  apply nr_bind; [|intros content _; apply nr_ok].
  rewrite get_lines_line. apply (get_lines_nr N st R); [lia | lia|].
  intros _ Hlt. apply (fence_scan_keep N st R _ _ _ _ _ _ _ FS); lia.
Qed.

Lemma skip_back_spec : forall fuel p src pos minimum r, skip_back fuel p src pos minimum = Ok r ->
  (minimum <= pos -> minimum <= r <= pos) /\ (pos < minimum -> r = pos).
Proof.
  induction fuel as [|f IH]; intros p src pos minimum r H; cbn [skip_back] in H; [rfinish H; lia|].
  destruct (pos <=? minimum) eqn:E; [rfinish H; lia|].
  rstep H. destruct (p x); [apply IH in H; lia | rfinish H; lia].
Qed.
Lemma skip_back_nr : forall fuel p src pos minimum, 0 <= minimum -> pos <= len src -> nr (skip_back fuel p src pos minimum).
Proof.
  induction fuel as [|f IH]; intros p src pos minimum H0 HL; cbn [skip_back]; [apply nr_ok|].
  destruct (pos <=? minimum) eqn:E; [apply nr_ok|].
  apply nr_bind; [apply nr_py_idx; lia|]. intros c _. destruct (p c); [apply IH; lia | apply nr_ok].
Qed.

Lemma r_heading_nr N st sl el silent : pre2 N st sl el -> nr (r_heading cfg st sl el silent).
Proof.
  intros (R & S0 & S1 & S2). assert (Hl : 0 <= sl <= N) by (destruct R as [LM _]; lia). prologue R Hl.
  unfold r_heading, line_start, code_block_at, is_code_block. rewrite Eb, Et, Ee, Es. cbn [bind].
  destruct (c_code cfg && (4 <=? sc - b_blkIndent st)); [apply nr_ok|].
  destruct (e <=? b + t) eqn:EP; [apply nr_ok|].
  apply nr_bind; [apply nr_py_idx; lia|]. intros ch _.
  destruct (negb (ch =? 35)); [apply nr_ok|].
  destruct (heading_level 8 (b_src st) (b + t + 1) e 1) as [p level] eqn:HL.
  apply heading_level_spec in HL; [|lia]. destruct HL as (A & B & _).
  destruct ((6 <? level) || ((p <? e) && negb (is_space_at (b_src st) p))); [apply nr_ok|].
  destruct silent; [apply nr_ok|].
  unfold skip_spaces_back, skip_chars_back.
  apply nr_bind; [apply skip_back_nr; lia|]. intros m1 M1. apply skip_back_spec in M1.
  apply nr_bind; [apply skip_back_nr; lia|]. intros tmp M2. apply skip_back_spec in M2.
  apply nr_bind; [|intros m2 _; apply nr_ok].
  destruct (p <? tmp) eqn:PT; [|apply nr_ok].
  apply nr_bind; [apply nr_py_idx; lia|]. intros c _. apply nr_ok.
Qed.

Lemma html_scan_nr N st (R : RI N st) : forall fuel closer nl el, 0 <= nl -> el <= N -> nr (html_scan fuel st closer nl el).
Proof.
  induction fuel as [|f IH]; intros closer nl el H0 HE; cbn [html_scan]; [apply nr_ok|].
  destruct (negb (nl <? el)) eqn:E; [apply nr_ok|].
  destruct (RI_reads N st nl R ltac:(lia)) as (b & e & t & sc & bs & Eb & Ee & Et & Es & Ebs & _).
  unfold line_start. rewrite Es. cbn [bind]. destruct (sc <? b_blkIndent st); [apply nr_ok|].
  rewrite Eb, Et. cbn [bind]. rewrite Ee. cbn [bind]. cbv zeta.
  destruct (test closer (slice (b_src st) (b + t) e)); [apply nr_ok | apply IH; lia].
Qed.

(* html blocks: with options.html off the rule returns before reading anything but the prologue *)
Lemma r_html_block_nr N st sl el silent : c_html cfg = false -> pre2 N st sl el -> nr (r_html_block cfg st sl el silent).
Proof.
  intros HO (R & S0 & S1 & S2). assert (Hl : 0 <= sl <= N) by (destruct R as [LM _]; lia). prologue R Hl.
  unfold r_html_block, line_start, code_block_at, is_code_block. rewrite Eb, Et, Ee, Es. cbn [bind].
  destruct (c_code cfg && (4 <=? sc - b_blkIndent st)); [apply nr_ok|]. rewrite HO. cbn [negb]. apply nr_ok.
Qed.

(* ---- the paragraph-like rules ---- *)
(* a terminator callback: does not raise where the rules do not, returns the state it was given *)
Definition term_nr (N : Z) (term : term_t) : Prop :=
  forall ch st a b, ch <> [] -> pre2 N st a b -> nr (term ch st a b).

Lemma pre2_fr N st st' a b : fr st st' -> pre2 N st a b -> pre2 N st' a b.
Proof.
  intros F (R & A & B & C). split; [exact (tabs_eq_RI _ _ _ (fr_tabs_eq _ _ F) R)|]. split; [exact A|]. split; [exact B|].
  rewrite (fr_lineMax _ _ F). exact C.
Qed.

Lemma para_scan_nr N term (T : term_fr term) (TN : term_nr N term) chain (CN : chain <> []) : forall fuel st nl el cu,
  RI N st -> 0 <= nl -> el <= b_lineMax st -> nr (para_scan fuel term chain st nl el cu).
Proof.
  induction fuel as [|f IH]; intros st nl el cu R H0 HE; [apply nr_oof|]. cbn [para_scan].
  assert (LMN : b_lineMax st <= N) by (destruct R as [LM _]; lia).
  destruct (negb (nl <? el)) eqn:E; [apply nr_ok|].
  destruct (RI_reads N st nl R ltac:(lia)) as (b & e & t & sc & bs & Eb & Ee & Et & Es & Ebs & (B0 & T0 & E0 & I1 & I3 & I2)).
  unfold is_empty, line_start. rewrite Eb, Et. cbn [bind]. rewrite Ee. cbn [bind].
  destruct (e <=? b + t) eqn:EM; [apply nr_ok|]. rewrite Es. cbn [bind].
  destruct (3 <? sc - b_blkIndent st); [apply IH; try assumption; lia|].
  apply nr_bind.
  { destruct (cu && (b_blkIndent st <=? sc)); [|apply nr_ok]. cbn [bind].
    destruct (b + t <? e) eqn:PM; [|apply nr_ok].
    apply nr_bind; [apply nr_py_idx; lia|]. intros marker _.
    destruct ((marker =? 45) || (marker =? 61)); [|apply nr_ok]. cbv zeta.
    destruct (e <=? skip_spaces (b_src st) (skip_chars (b_src st) (b + t) marker)); apply nr_ok. }
  intros ul _. destruct ul as [ml|]; [apply nr_ok|].
  destruct (sc <? 0); [apply IH; try assumption; lia|].
  apply nr_bind; [apply TN; [exact CN|]; split; [exact R|]; lia|].
  intros [tt st'] TE. pose proof (T _ _ _ _ _ _ CN TE) as F.
  destruct tt; [apply nr_ok|]. apply IH; [exact (tabs_eq_RI _ _ _ (fr_tabs_eq _ _ F) R) | lia|].
  rewrite (fr_lineMax _ _ F). exact HE.
Qed.

Lemma r_paragraph_nr N term (T : term_fr term) (TN : term_nr N term) st sl el silent :
  pre2 N st sl el -> nr (r_paragraph term st sl el silent).
Proof.
  intros (R & S0 & S1 & S2). assert (LMN : b_lineMax st <= N) by (destruct R as [LM _]; lia).
  unfold r_paragraph. cbv zeta.
  apply nr_bind.
  { apply (para_scan_nr N term T TN nm_paragraph ltac:(discriminate)); [exact R | lia | cbn; lia]. }
  intros [[nl u] st1] PS.
  pose proof (para_scan_bounds _ _ _ _ _ _ _ _ _ _ PS) as (P1 & P2 & _). cbn [b_lineMax st_parent] in P2.
  specialize (P2 ltac:(change (b_lineMax (st_parent st nm_paragraph)) with (b_lineMax st); lia)).
  change (b_lineMax (st_parent st nm_paragraph)) with (b_lineMax st) in P2.
  apply (para_scan_fr term T nm_paragraph ltac:(discriminate)) in PS.
  assert (R1 : RI N st1) by (apply (tabs_eq_RI _ (st_parent st nm_paragraph)); [apply fr_tabs_eq, PS | exact R]).
  apply nr_bind; [|intros raw _; apply nr_ok].
  apply (get_lines_nr N st1 R1); [lia | lia | discriminate].
Qed.

Lemma r_lheading_nr N term (T : term_fr term) (TN : term_nr N term) st sl el silent :
  pre2 N st sl el -> nr (r_lheading cfg term st sl el silent).
Proof.
  intros (R & S0 & S1 & S2). assert (LMN : b_lineMax st <= N) by (destruct R as [LM _]; lia).
  unfold r_lheading.
  apply nr_bind; [apply (is_code_block_nr N); [exact R | lia]|]. intros c _.
  destruct c; [apply nr_ok|]. cbv zeta.
  apply nr_bind.
  { apply (para_scan_nr N term T TN nm_paragraph ltac:(discriminate)); [exact R | lia | cbn; lia]. }
  intros [[nl u] st1] PS.
  pose proof (para_scan_bounds _ _ _ _ _ _ _ _ _ _ PS) as (P1 & P2 & P3). specialize (P2 ltac:(lia)).
  apply (para_scan_fr term T nm_paragraph ltac:(discriminate)) in PS.
  assert (R1 : RI N st1) by (apply (tabs_eq_RI _ (st_parent st nm_paragraph)); [apply fr_tabs_eq, PS | exact R]).
  destruct u as [[marker level]|]; [|apply nr_ok].
  apply nr_bind; [|intros raw _; apply nr_ok].
  apply (get_lines_nr N st1 R1); [lia | lia | discriminate].
Qed.

(* ---- reference ---- *)
Lemma nr_py_idx_wrap (s : str) i : - len s <= i < len s -> nr (py_idx s i).
Proof.
  intros H e. unfold py_idx, get. cbv zeta.
  destruct (i <? 0) eqn:X.
  - assert (Y : (i + len s <? 0) = false) by lia. rewrite Y.
    destruct (nth_error s (Z.to_nat (i + len s))) eqn:E; [discriminate|]. apply nth_error_None in E. unfold len in *. lia.
  - rewrite X. destruct (nth_error s (Z.to_nat i)) eqn:E; [discriminate|]. apply nth_error_None in E. unfold len in *. lia.
Qed.

Lemma ref_prescan_nr : forall fuel src pos maximum, 0 <= pos -> maximum <= len src -> nr (ref_prescan fuel src pos maximum).
Proof.
  induction fuel as [|f IH]; intros src pos maximum H0 HM; cbn [ref_prescan]; [apply nr_ok|].
  destruct (negb (pos <? maximum)) eqn:E; [apply nr_ok|].
  apply nr_bind; [apply nr_py_idx; lia|]. intros c _.
  apply nr_bind; [apply nr_py_idx_wrap; lia|]. intros prev _.
  destruct ((c =? 93) && negb (prev =? 92)); [|apply IH; lia].
  destruct (pos + 1 =? maximum) eqn:PM; [apply nr_ok|].
  apply nr_bind; [apply nr_py_idx; lia|]. intros n _. apply nr_ok.
Qed.

(* the line a block rule is tried on is never empty: the line loop skips empty lines first *)
Definition nonempty (st : bstate) (l : Z) : Prop :=
  forall b e t, tb (b_bMarks st) l = Ok b -> tb (b_eMarks st) l = Ok e -> tb (b_tShift st) l = Ok t -> b + t < e.

Lemma r_reference_nr N term (T : term_fr term) (TN : term_nr N term) st sl el silent :
  pre2 N st sl el -> nonempty st sl -> nr (r_reference cfg rf cf term st sl el silent).
Proof.
  intros (R & S0 & S1 & S2) NE. assert (Hl : 0 <= sl <= N) by (destruct R as [LM _]; lia).
  assert (LMN : b_lineMax st <= N) by (destruct R as [LM _]; lia). prologue R Hl.
  specialize (NE b e t Eb Ee Et).
  unfold r_reference, line_start, code_block_at, is_code_block. rewrite Eb, Et, Ee, Es. cbn [bind].
  destruct (c_code cfg && (4 <=? sc - b_blkIndent st)); [apply nr_ok|].
  apply nr_bind; [apply nr_py_idx; lia|]. intros c0 _.
  destruct (negb (c0 =? 91)); [apply nr_ok|].
  apply nr_bind; [apply ref_prescan_nr; lia|]. intros ok _.
  destruct (negb ok); [apply nr_ok|]. cbv zeta.
  apply nr_bind.
  { apply (para_scan_nr N term T TN nm_reference ltac:(discriminate)); [exact R | lia | cbn; lia]. }
  intros [[nl u] st1] PS.
  pose proof (para_scan_bounds _ _ _ _ _ _ _ _ _ _ PS) as (P1 & P2 & _). cbn [b_lineMax st_parent] in P2.
  specialize (P2 ltac:(change (b_lineMax (st_parent st nm_reference)) with (b_lineMax st); lia)).
  change (b_lineMax (st_parent st nm_reference)) with (b_lineMax st) in P2.
  apply (para_scan_fr term T nm_reference ltac:(discriminate)) in PS.
  assert (R1 : RI N st1) by (apply (tabs_eq_RI _ (st_parent st nm_reference)); [apply fr_tabs_eq, PS | exact R]).
  apply nr_bind; [apply (get_lines_nr N st1 R1); [lia | lia | discriminate]|].
  intros raw _.
  (* the rest computes on the extracted string and the env: no table or source read *)
  cbv zeta.
  repeat first
    [ apply nr_ok
    | match goal with |- context [ref_label ?a ?b ?c ?d ?e] => destruct (ref_label a b c d e) as [[[?|] ?]|] end
    | match goal with |- context [skip_ws_nl ?a ?b ?c ?d ?e] => destruct (skip_ws_nl a b c d e) end
    | match goal with |- context [if ?c then _ else _] => destruct c end
    | progress cbv beta iota ].
Qed.

(* ---- table ---- *)
Lemma get_line_nr N st l : RI N st -> 0 <= l <= N -> nr (get_line st l).
Proof.
  intros R Hl. destruct (RI_reads N st l R Hl) as (b & e & t & sc & bs & Eb & Ee & Et & _).
  unfold get_line, line_start. rewrite Eb, Et. cbn [bind]. rewrite Ee. cbn [bind]. apply nr_ok.
Qed.

Lemma delim_chars_nr : forall fuel src pos maximum, 0 <= pos -> maximum <= len src -> nr (delim_chars fuel src pos maximum).
Proof.
  induction fuel as [|f IH]; intros src pos maximum H0 HM; cbn [delim_chars]; [apply nr_ok|].
  destruct (negb (pos <? maximum)) eqn:E; [apply nr_ok|].
  apply nr_bind; [apply nr_py_idx; lia|]. intros ch _.
  destruct (negb ((ch =? 124) || (ch =? 45) || (ch =? 58)) && negb (is_space ch)); [apply nr_ok | apply IH; lia].
Qed.

Lemma push_cells_tabs : forall aligns st oty cty tag cols a b sne, tabs_eq st (push_cells st oty cty tag aligns cols a b sne).
Proof.
  induction aligns as [|al aligns IH]; intros st oty cty tag cols a b sne; cbn [push_cells]; [apply tabs_eq_refl|].
  match goal with |- tabs_eq _ (push_cells ?s _ _ _ _ _ _ _ _) => pose proof (IH s oty cty tag (match cols with _ :: r => r | [] => [] end) a b sne) as H end.
  destruct H as (A1 & A2 & A3 & A4 & A5 & A6 & A7). repeat split; try (etransitivity; [eassumption|reflexivity]).
Qed.

Lemma table_rows_nr N term (T : term_fr term) (TN : term_nr N term) : forall fuel st aligns sl nl el tbody,
  RI N st -> 0 <= nl -> el <= b_lineMax st -> nr (table_rows cfg fuel term st aligns sl nl el tbody).
Proof.
  induction fuel as [|f IH]; intros st aligns sl nl el tbody R H0 HE; [apply nr_oof|]. cbn [table_rows].
  assert (LMN : b_lineMax st <= N) by (destruct R as [LM _]; lia).
  destruct (negb (nl <? el)) eqn:E; [apply nr_ok|].
  apply nr_bind; [apply nr_tb; destruct R as (_ & _ & _ & _ & L4 & _); lia|]. intros sc _.
  destruct (sc <? b_blkIndent st); [apply nr_ok|].
  apply nr_bind; [apply TN; [discriminate|]; split; [exact R|]; lia|].
  intros [tt st1] TE. pose proof (T nm_blockquote _ _ _ _ _ ltac:(discriminate) TE) as F.
  assert (R1 : RI N st1) by exact (tabs_eq_RI _ _ _ (fr_tabs_eq _ _ F) R).
  destruct tt; [apply nr_ok|].
  apply nr_bind; [apply (get_line_nr N); [exact R1 | lia]|]. intros raw _. cbv zeta.
  destruct (py_strip raw) as [|c0 lt]; [apply nr_ok|].
  apply nr_bind; [apply (is_code_block_nr N); [exact R1 | lia]|]. intros cb _.
  destruct cb; [apply nr_ok|].
  assert (ROW : forall s2 tb2, tabs_eq st1 s2 ->
            nr (table_rows cfg f term
                  (bpush (push_cells (bpush s2 s_tr_open s_tr 1 (map_tok nl (nl + 1))) [116; 100; 95; 111; 112; 101; 110] [116; 100; 95; 99; 108; 111; 115; 101] [116; 100]
                                     aligns (trim_cols (escaped_split (c0 :: lt))) nl (nl + 1) true) s_tr_close s_tr (-1) (fun t => t))
                  aligns sl (nl + 1) el tb2)).
  { intros s2 tb2 TE2.
    assert (TT : tabs_eq st1 (bpush (push_cells (bpush s2 s_tr_open s_tr 1 (map_tok nl (nl + 1))) [116; 100; 95; 111; 112; 101; 110] [116; 100; 95; 99; 108; 111; 115; 101] [116; 100]
                                     aligns (trim_cols (escaped_split (c0 :: lt))) nl (nl + 1) true) s_tr_close s_tr (-1) (fun t => t))).
    { eapply tabs_eq_trans; [exact TE2|]. eapply tabs_eq_trans; [apply tabs_eq_bpush|]. eapply tabs_eq_trans; [apply push_cells_tabs | apply tabs_eq_bpush]. }
    apply IH; [exact (tabs_eq_RI _ _ _ TT R1) | lia|]. rewrite (tabs_eq_lineMax _ _ TT), (fr_lineMax _ _ F). exact HE. }
  destruct (nl =? sl + 2); cbv beta iota; apply ROW; [apply tabs_eq_bpush | apply tabs_eq_refl].
Qed.

Lemma r_table_nr N term (T : term_fr term) (TN : term_nr N term) st sl el silent :
  pre2 N st sl el -> nr (r_table cfg term st sl el silent).
Proof.
  intros (R & S0 & S1 & S2). assert (LMN : b_lineMax st <= N) by (destruct R as [LM _]; lia).
  unfold r_table. destruct (el <? sl + 2) eqn:E2; [apply nr_ok|]. cbv zeta.
  destruct (RI_reads N st (sl + 1) R ltac:(lia)) as (b & e & t & sc & bs & Eb & Ee & Et & Es & Ebs & (B0 & T0 & E0 & I1 & I3 & I2)).
  rewrite Es. cbn [bind]. destruct (sc <? b_blkIndent st); [apply nr_ok|].
  unfold code_block_at, is_code_block at 1. rewrite Es. cbn [bind].
  destruct (c_code cfg && (4 <=? sc - b_blkIndent st)); [apply nr_ok|].
  unfold line_start at 1. rewrite Eb, Et. cbn [bind]. rewrite Ee. cbn [bind].
  destruct (e <=? b + t) eqn:EP; [apply nr_ok|].
  apply nr_bind; [apply nr_py_idx; lia|]. intros c1 _.
  destruct (negb ((c1 =? 124) || (c1 =? 45) || (c1 =? 58))); [apply nr_ok|].
  destruct (e <=? b + t + 1) eqn:EP1; [apply nr_ok|].
  apply nr_bind; [apply nr_py_idx; lia|]. intros c2 _.
  destruct (negb ((c2 =? 124) || (c2 =? 45) || (c2 =? 58)) && negb (is_space c2)); [apply nr_ok|].
  destruct ((c1 =? 45) && is_space c2); [apply nr_ok|].
  apply nr_bind; [apply delim_chars_nr; lia|]. intros okc _. destruct (negb okc); [apply nr_ok|].
  apply nr_bind; [apply (get_line_nr N); [exact R | lia]|]. intros delim _.
  destruct (table_aligns (split_char 124 delim) 0 (len (split_char 124 delim))) as [aligns|]; [|apply nr_ok].
  apply nr_bind; [apply (get_line_nr N); [exact R | lia]|]. intros hraw _.
  destruct (negb (mem_z 124 (py_strip hraw))); [apply nr_ok|].
  apply nr_bind; [apply (is_code_block_nr N); [exact R | lia]|]. intros cb2 _. destruct cb2; [apply nr_ok|].
  match goal with |- nr (if ?c then _ else _) => destruct c end; [apply nr_ok|].
  destruct silent; [apply nr_ok|].
  apply nr_bind; [|intros [[nl tbody] st7] _; apply nr_ok].
  match goal with |- nr (table_rows _ _ _ ?S _ _ _ _ _) => assert (TT : tabs_eq st S) end.
  { repeat (eapply tabs_eq_trans; [|apply tabs_eq_bpush]).
    eapply tabs_eq_trans; [|apply push_cells_tabs]. repeat (eapply tabs_eq_trans; [|apply tabs_eq_bpush]). repeat split. }
  apply (table_rows_nr N term T TN); [exact (tabs_eq_RI _ _ _ TT R) | lia|].
  rewrite (tabs_eq_lineMax _ _ TT). lia.
Qed.


End Rules.
